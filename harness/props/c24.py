"""C24 — prettify preserves meaning and is idempotent.

Proof: Props/C24.v (literal and identifier layer of the renderer: round trips for all Z / strings / booleans / null and — since
/repo 70d45d5 — all Number literals; the old float renderer kept as *_before_fix witnesses; reserved-word quoting).
Tie K (real engine, through the parser front end):
  L  every generated literal: Codec.render_literal / py_repr / float_roundtrips (vm_compute) against the real
     ASTString._handle_literal, repr() and the real parse of the rendered text; the closed-form domain against the observed
     round trip;
  S  every parseable corpus script and every generated script: prettify() output parses; statements equal modulo source
     positions (canonical form built from the AST dataclasses, defaults of check_hierarchy/check_datapoint normalised);
     comments preserved as a multiset; prettify(prettify(s)) = prettify(s); for scripts with data, run() of both is equal.
Every failure is classified by its cause into a stable key."""
from __future__ import annotations

import hashlib
import json
import re
import traceback
from pathlib import Path
from typing import Any, Dict, List, Optional, Tuple

import scriptgen_codec as G
from common import CORPUS, coq_eval

NUM_RE = re.compile(r"^[+-]?[0-9]+\.[0-9]+$")
INT_RE = re.compile(r"^[+-]?[0-9]+$")

SPECIAL_NUMBERS = ["0.0000001", "10000000000000000000000.0", "0.00001234", "1.0", "12345.678", "1234567.5", "0.00000015", "0.5",
                   "2.25", "0.12345", "0.123456", "0.1234567", "0.000015", "0.0001", "0.00001", "123456.75", "100000.0", "1000000.0",
                   "999999.5", "0.9999995", "0.0000005", "0.0000015", "0.0000025", "1234.123456", "123456789012345.0", "0.1", "0.2",
                   "3.14159", "2.718281828", "1000000000000000.0", "10000000000000000.0", "0.0", "150000000000000000000.0",
                   "99999.95", "0.00012345", "9.99999", "9.999995", "12.5", "0.000001", "0.0000012", "4.35", "2.675", "1.005"]
SPECIAL_INTS = [0, 1, -1, 7, 100000000000000000000, -100000000000000000000, 2 ** 63, 10 ** 40, 1234567890]
SPECIAL_STRINGS = ["", "a", "hello world", "it's", "a,b", "tab\there", "é", "日本語", "null", "true", "1.0", " ", "/* c */", "// x", "a;b", "x := 1"]


# ------------------------------------------------------------------------------------------------ L: literals
def literal_tie(ctx, n_numbers: int):
    from vtlengine.AST.ASTString import _handle_literal
    import vtlengine
    rng = ctx.rng
    numbers = list(SPECIAL_NUMBERS) + ["0.30000000000000004", "123456789.12345679", "0.1234567890123456789", "9007199254740993.0",
                                       "179769313486231570000000000000000000000.0", "0.000000000000000000000000000001234"]
    while len(numbers) < len(SPECIAL_NUMBERS) + n_numbers:
        numbers.append(G.gen_number_literal(rng))
    numbers += ["-" + t for t in numbers[:60]]
    # engine side: the real renderer and the real parser
    eng = []
    for t in numbers:
        v = float(t)
        try:
            r = _handle_literal(v)
            out = ("ok", r)
        except Exception as e:  # noqa
            out = ("raise", type(e).__name__)
        rt, cls = False, None
        if out[0] == "raise":
            cls = "prettify:float-literal:repr-without-dot" if out[1] == "IndexError" else f"prettify:float-literal:raises-{out[1]}"
        else:
            txt = out[1]
            if NUM_RE.match(txt):
                rt = float(txt) == v and (v != 0 or str(float(txt)) == str(v))
                if not rt:
                    cls = "prettify:float-literal:value-changed"
            elif INT_RE.match(txt):
                cls = "prettify:float-literal:integral-rendered-as-integer" if float(txt) == v else "prettify:float-literal:value-changed"
            else:
                cls = "prettify:float-literal:output-not-a-number-literal"
        eng.append({"text": t, "render": out, "repr": repr(v), "roundtrip": rt, "cls": cls})
    # model side: the decimal is the one repr(v) shows, so EVERY finite float is in the model's domain
    exprs = []
    for t in numbers:
        d = G.repr_dec(float(t))
        exprs.append(f"(S_ (render_float_impl {d}), S_ (py_repr {d}), float_roundtrips {d}, dec_canon {d})")
    res = coq_eval(G.DEC_HEADER, exprs, "c24_num", shard=max(120, len(exprs) // 16 + 1))
    n_bad = 0
    by_cls: Dict[str, List[dict]] = {}
    for e, m in zip(eng, res):
        m_render, m_repr, m_rt, m_canon = m[0][1], m[1][1], m[2], m[3]
        ctx.count(("num", e["text"]))
        real_render = e["render"][1] if e["render"][0] == "ok" else None
        problems = []
        if not m_canon:
            problems.append("harness produced a non-canonical decimal")
        if m_repr != e["repr"]:
            problems.append(f"py_repr model {m_repr!r} vs repr() {e['repr']!r}")
        if m_render != real_render:
            problems.append(f"render model {m_render!r} vs _handle_literal {e['render']!r}")
        if not m_rt:
            problems.append("model round trip false (contradicts literal_roundtrip_number)")
        if problems and e["cls"] is None:
            n_bad += 1
            ctx.oblige(f"L: model = engine on number literal {e['text']}", False, "; ".join(problems))
        if e["cls"]:
            by_cls.setdefault(e["cls"], []).append(e)
    ctx.oblige(f"L: render_float_impl / py_repr agree with _handle_literal / repr() and round-trip through the real parser rule on "
               f"{len(numbers)} number literals", n_bad == 0 and not by_cls, f"{n_bad} literals disagree; engine failure classes {sorted(by_cls)}")
    ctx.cov["number_literals"] = len(numbers)
    # the property predicate on the engine for each failing class (none since /repo 70d45d5; a regression is a violation)
    for cls, lst in sorted(by_cls.items()):
        e = lst[0]
        script = f"DS_r := DS_1 + {e['text']};"
        try:
            obs = repr(vtlengine.prettify(script))
        except Exception as ex:  # noqa
            obs = f"raises {type(ex).__name__}: {ex}"
        ctx.violation(cls, f"prettify({script!r}) -> {obs}; {len(lst)} of {len(numbers)} generated number literals in this class, e.g. "
                      f"{[x['text'] for x in lst[:6]]}", {"script": script, "kind": "literal", "examples": [x["text"] for x in lst[:20]]})
    ctx.cov["number_literal_classes"] = {k: len(v) for k, v in by_cls.items()}
    # the before-fix witnesses of C24_literal_roundtrip_number_refuted_before_fix now round-trip through the real prettify + parser
    from vtlengine.API import create_ast
    for t in ["0.0000001", "10000000000000000000000.0", "0.00001234", "12345.678", "1234567.5", "1.0", "0.00000015"]:
        try:
            p = vtlengine.prettify(f"x := {t};")
            c = create_ast(p).children[0].right
            ok = getattr(c, "type_", None) == "FLOAT_CONSTANT" and c.value == float(t)
            det = p
        except Exception as ex:  # noqa
            ok, det = False, f"{type(ex).__name__}: {ex}"
        ctx.oblige(f"before-fix witness {t} now round-trips on the engine", ok, det)

    # integers, strings, booleans, null
    ints = SPECIAL_INTS + [rng.randrange(-10 ** rng.randrange(1, 40), 10 ** rng.randrange(1, 40)) for _ in range(120)]
    strs = SPECIAL_STRINGS + ["".join(rng.choice("abcXYZ 0123456789,;:'#é€日_-+*/()[]{}\t") for _ in range(rng.randrange(0, 20))) for _ in range(120)]
    exprs, want = [], []
    for z in ints:
        exprs.append(f"Some (to_N (render_literal (LInt ({z})%Z)))")
        want.append(_handle_literal(z))
    for s_ in strs:
        exprs.append(f"Some (to_N (render_literal (LStr (of_N {G.coq_bytes(s_.encode())}))))")
        want.append(_handle_literal(s_))
    for bv in (True, False):
        exprs.append(f"Some (to_N (render_literal (LBool {'true' if bv else 'false'})))")
        want.append(_handle_literal(bv))
    exprs.append("Some (to_N (render_literal LNull))")
    want.append("null")
    res = coq_eval(G.DEC_HEADER, exprs, "c24_lit", shard=max(150, len(exprs) // 16 + 1))
    bad = [(w, r) for w, r in zip(want, res) if r is None or G.py_bytes(r[1]).decode("utf-8") != w]
    ctx.oblige(f"L: render_literal = _handle_literal on {len(ints)} integers, {len(strs)} strings, booleans, null", not bad, str(bad[:3]))
    # and they round-trip through the real parser
    from vtlengine.API import create_ast
    n_rt_bad = 0
    for v in ints + strs + [True, False]:
        txt = _handle_literal(v)
        try:
            c = create_ast(f"x := {txt};").children[0].right
            val = getattr(c, "value", None)
            if getattr(c, "op", None) == "-" and hasattr(c, "operand"):
                val = -c.operand.value
            ok = val == v and type(val) == type(v)
        except Exception:  # noqa
            ok = False
        ctx.count(("lit", repr(v)))
        if not ok:
            n_rt_bad += 1
            ctx.violation("prettify:literal:does-not-round-trip", f"literal {v!r} renders as {txt!r} which parses to something else",
                          {"script": f"x := {txt};", "kind": "literal"})
    ctx.cov["other_literals"] = len(ints) + len(strs) + 3
    identifier_tie(ctx)


def identifier_tie(ctx):
    """K: Codec.render_ident_impl (vm_compute, with the real reserved-word list) = ASTString._format_reserved_word, and the rendered
    name is read back by the real lexer/constructor as the same name"""
    from vtlengine.AST.ASTString import RESERVED_WORDS, _format_reserved_word
    from vtlengine.API import create_ast
    rng = ctx.rng
    reserved = sorted(w for w, q in RESERVED_WORDS.items() if q == f"'{w}'" and "'" not in w)     # entries such as <INVALID> map to themselves
    names = rng.sample([w for w in reserved if re.match(r"^[a-z_]+$", w)], 40) + ["true", "false", "Me_1", "DS_1", "a b", "DS 1", "x-y", "1A", "1", "12.5", "A.B", "_x", "a", "Z9_", "é",
                                        "x y z", " lead", "with,comma", "semi;colon", "a+b", "1_", "9z.w", "null", "'q r'", "'calc'"]
    names += ["".join(rng.choice("abXY019_. -+") for _ in range(rng.randrange(1, 8))) for _ in range(80)]
    names = [n for n in dict.fromkeys(names) if ":" not in n and n.strip("'") != "" and "'" not in n.strip("'")]
    header = G.DEC_HEADER + "Definition RES_ : list bytes := " + "[" + "; ".join(f"of_N {G.coq_bytes(w.encode())}" for w in reserved) + "].\n"
    res = coq_eval(header, [f"to_N (render_ident_impl RES_ (of_N {G.coq_bytes(n.encode())}))" for n in names], "c24_ident", shard=200)
    bad, rt_bad = [], []
    for n, r in zip(names, res):
        real = _format_reserved_word(n)
        ctx.count(("ident", n))
        if G.py_bytes(r).decode("utf-8") != real:
            bad.append((n, G.py_bytes(r).decode("utf-8"), real))
        if "'" in n:
            continue
        try:
            v = create_ast(f"DS_r := {real};").children[0].right.value
        except Exception as e:  # noqa
            v = f"{type(e).__name__}"
        if v != n:
            rt_bad.append((n, real, v))
    ctx.oblige(f"K: render_ident_impl = _format_reserved_word on {len(names)} names ({len(reserved)} reserved words in the list)", not bad, str(bad[:4]))
    for n, real, v in rt_bad[:5]:
        ctx.violation("prettify:identifier:does-not-round-trip", f"the name {n!r} is rendered {real!r}, which reads back as {v!r}",
                      {"script": f"DS_r := {real};", "kind": "identifier"})
    ctx.cov["identifier_names"] = len(names)


# ------------------------------------------------------------------------------------------------ S: scripts
def raise_site(e: BaseException) -> str:
    tb = traceback.extract_tb(e.__traceback__)
    for fr in reversed(tb):
        if fr.filename.endswith("ASTString.py"):
            return fr.name
    return tb[-1].name if tb else "?"


def nonplain_names(stm, reserved) -> List[str]:
    out = []
    for n in G.walk(stm):
        c = n.get("_")
        for f in ("value", "name", "old_name", "new_name", "component", "alias", "op"):
            v = n.get(f)
            if c in ("VarID", "Identifier", "RenameNode", "DefIdentifier", "OrderBy") and isinstance(v, str) and f != "op":
                if not re.match(r"^([0-9][A-Za-z0-9_.]*)?[A-Za-z][A-Za-z0-9_.]*$", v) and ":" not in v and v not in reserved:
                    out.append(v)
    return out


def classify_diff(sa, sb) -> Tuple[str, str]:
    d = G.first_diff(sa, sb)
    path, x, y, cf = d
    what = f"first difference at {path}: {str(x)[:80]!r} -> {str(y)[:80]!r}"
    if cf == "Constant.value" and isinstance(x, str) and isinstance(y, str):
        return "prettify:string-literal:value-changed", what
    if cf in ("Constant.type_", "Constant.value"):
        if x == "FLOAT_CONSTANT" and y == "INTEGER_CONSTANT":
            return "prettify:float-literal:integral-rendered-as-integer", what
        return "prettify:float-literal:value-changed", what
    if cf == "DefIdentifier._right_condition":
        return "prettify:hierarchical-rule:code-item-condition-dropped", what
    if cf.endswith(".isLast"):
        return "prettify:join-body-aggr:moved-after-join", what
    if cf.startswith("HRule.") or cf.startswith("HRBinOp.") or "rules[" in path and any(n.get("_") == "HRuleset" for n in sa if isinstance(n, dict)):
        # same rules in another order?
        for na, nb in zip(sa, sb):
            if isinstance(na, dict) and na.get("_") == "HRuleset" and na != nb:
                ra = sorted(json.dumps(r, sort_keys=True, default=str) for r in na["rules"])
                rb = sorted(json.dumps(r, sort_keys=True, default=str) for r in nb["rules"])
                if ra == rb:
                    return "prettify:hierarchical-ruleset:rules-reordered", what
    if cf == "EnumeratedVpClause.values":
        return "prettify:viral-propagation:null-condition-rendered-as-string", what
    return f"prettify:ast-differs:{cf}", what


def check_script(script: str, reserved) -> List[Tuple[str, str]]:
    """the structural part of the property on one script: list of (key, what); [] = holds; None = original does not parse"""
    import vtlengine
    from vtlengine.Exceptions import VTLSyntaxError
    try:
        sa, ca, _ = G.statements_and_comments(script)
    except Exception:  # noqa
        return None
    try:
        p = vtlengine.prettify(script)
    except Exception as e:  # noqa
        site = raise_site(e)
        if isinstance(e, IndexError) and site == "_handle_literal":
            return [("prettify:float-literal:repr-without-dot", f"prettify raises {type(e).__name__}: {e}")]
        return [(f"prettify:raises:{type(e).__name__}:{site}", f"prettify raises {type(e).__name__}: {str(e)[:160]}")]
    out = []
    fcls = float_causes(sa)
    try:
        sb, cb, _ = G.statements_and_comments(p)
    except Exception as e:  # noqa
        names = nonplain_names(sa, reserved)
        msg = str(e).split("\n")[0][:200]
        m = re.search(r"(?:mismatched input|extraneous input|missing \w+ at|no viable alternative at input) '([^']*)'", msg)
        tok = (m.group(1) if m else "?").split(" ")[-1]
        if names:
            return [("prettify:quoted-identifier:quotes-dropped", f"names {names[:3]} are written without their quotes; output does not parse: {msg}")]
        bad = [c for c in fcls if c != "prettify:float-literal:integral-rendered-as-integer"]
        if bad:
            return [(c, f"output does not parse: {msg}") for c in bad]
        if tok in ("true", "false"):
            return [("prettify:reserved-word-unquoted:boolean-keyword",
                     f"the name {tok!r} is written without its quotes; output does not parse: {msg}")]
        if tok in reserved:
            found = set()
            for n in G.walk(sa):
                for f, v in n.items():
                    if f in ("_", "op"):
                        continue
                    if (isinstance(v, str) and v == tok) or (isinstance(v, list) and tok in [x for x in v if isinstance(x, str)]):
                        found.add(n.get("_"))
            prio = ["RenameNode", "DPRIdentifier", "DPValidation", "HROperation", "HRuleset", "DPRuleset", "DefIdentifier", "Argument", "Operator",
                    "JoinOp", "Analytic", "OrderBy", "Windowing", "Aggregation", "UDOCall", "Identifier", "VarID"]
            where = next((c for c in prio if c in found), sorted(found)[0] if found else None)
            if where is None:
                return [(f"prettify:output-not-parseable:{tok}", f"output does not parse: {msg}")]
            return [(f"prettify:reserved-word-unquoted:{where}",
                     f"the name {tok!r} is written without its quotes; output does not parse: {msg}")]
        return [(f"prettify:output-not-parseable:{tok if re.match(r'^[A-Za-z_]+$', tok) else 'other'}", f"output does not parse: {msg}")]
    explained = False
    if sa != sb:
        key, what = classify_diff(sa, sb)
        if key.startswith("prettify:ast-differs") and fcls:
            for c in fcls:
                out.append((c, f"float literal rendering changes the statement: {what}"))
            explained = True
        else:
            out.append((key, what))
    if ca != cb:
        out.append(("prettify:comments-not-preserved", f"comments {ca[:3]} -> {cb[:3]}"))
    try:
        p2 = vtlengine.prettify(p)
        if p2 != p:
            key = "prettify:not-idempotent"
            if any(k == "prettify:hierarchical-ruleset:rules-reordered" for k, _ in out) or hr_reordered(p, p2):
                key = "prettify:hierarchical-ruleset:rules-reordered"
            i = next((j for j, (u, v) in enumerate(zip(p, p2)) if u != v), min(len(p), len(p2)))
            what = f"prettify(prettify(s)) differs from prettify(s) at offset {i}: {p[i:i+60]!r} vs {p2[i:i+60]!r}"
            if key == "prettify:not-idempotent" and any(k == "prettify:string-literal:value-changed" for k, _ in out):
                pass            # consequence of the string literal already reported
            elif key == "prettify:not-idempotent" and [c for c in fcls if c != "prettify:float-literal:integral-rendered-as-integer"]:
                for c in fcls:
                    if c != "prettify:float-literal:integral-rendered-as-integer" and not any(k == c for k, _ in out):
                        out.append((c, what))
            elif not any(k == key for k, _ in out):
                out.append((key, what))
    except Exception as e:  # noqa
        if not out:
            bad = [c for c in fcls if c != "prettify:float-literal:integral-rendered-as-integer"]
            if bad:
                out += [(c, f"second prettify raises {type(e).__name__}") for c in bad]
            else:
                out.append((f"prettify:second-pass-raises:{type(e).__name__}:{raise_site(e)}", str(e)[:160]))
    return out


def float_causes(sa) -> List[str]:
    """classes of the float constants of a script under the real _handle_literal"""
    from vtlengine.AST.ASTString import _handle_literal
    out = []
    for n in G.walk(sa):
        if n.get("_") == "Constant" and n.get("type_") == "FLOAT_CONSTANT" and isinstance(n.get("value"), list):
            v = float(n["value"][1])
            try:
                r = _handle_literal(v)
            except IndexError:
                c = "prettify:float-literal:repr-without-dot"
            except Exception as e:  # noqa
                c = f"prettify:float-literal:raises-{type(e).__name__}"
            else:
                if NUM_RE.match(r):
                    c = None if float(r) == v else "prettify:float-literal:value-changed"
                elif INT_RE.match(r):
                    c = "prettify:float-literal:integral-rendered-as-integer" if float(r) == v else "prettify:float-literal:value-changed"
                else:
                    c = "prettify:float-literal:output-not-a-number-literal"
            if c and c not in out:
                out.append(c)
    return out


def hr_reordered(p, p2) -> bool:
    try:
        sa, _, _ = G.statements_and_comments(p)
        sb, _, _ = G.statements_and_comments(p2)
    except Exception:  # noqa
        return False
    if sa == sb:
        return False
    return classify_diff(sa, sb)[0] == "prettify:hierarchical-ruleset:rules-reordered"


def run_equal(script, p, structs, data, **kw):
    import engine
    r1 = engine.run_case(script, structs, data, return_only_persistent=False, **kw)
    r2 = engine.run_case(p, structs, data, return_only_persistent=False, **kw)
    if r1["ok"] != r2["ok"]:
        return False, f"original -> {'ok' if r1['ok'] else r1['err']}; prettified -> {'ok' if r2['ok'] else (r2['err'], r2['msg'][:120])}", r1["ok"]
    if not r1["ok"]:
        return (r1["err"] == r2["err"]), f"errors {r1['err']} vs {r2['err']}", False
    if r1["datasets"] != r2["datasets"] or r1["scalars"] != r2["scalars"]:
        for k in r1["datasets"]:
            if r1["datasets"][k] != r2["datasets"].get(k):
                a, b = r1["datasets"][k], r2["datasets"].get(k)
                return False, f"dataset {k}: {str(a['rows'][:2])[:150]} vs {str(b and b['rows'][:2])[:150]}", True
        return False, f"scalars {r1['scalars']} vs {r2['scalars']}", True
    return True, "", True


class Collector:
    def __init__(self, ctx):
        self.ctx = ctx
        self.by_key: Dict[str, List[Tuple[str, str, dict]]] = {}

    def add(self, key, what, replay):
        self.by_key.setdefault(key, []).append((what, replay.get("path") or replay.get("script", "")[:80], replay))

    def report(self):
        for key, lst in sorted(self.by_key.items()):
            what, _, rep = lst[0]
            rep = dict(rep)
            rep["other_examples"] = [x[1] for x in lst[1:8]]
            src = rep.get("path") or repr(rep.get("script", "")[:200])
            self.ctx.violation(key, f"{what} [{len(lst)} script(s), first: {src}]", rep)
            if key not in KNOWN_KEYS:
                save_corpus(rep)
        self.ctx.cov["failure_classes"] = {k: len(v) for k, v in self.by_key.items()}


KNOWN_KEYS: set = set()


def save_corpus(rep):
    d = CORPUS / "C24"
    d.mkdir(parents=True, exist_ok=True)
    obj = {k: v for k, v in rep.items() if k in ("script", "path", "kind", "structs", "data")}
    h = hashlib.sha1(json.dumps(obj, sort_keys=True, default=str).encode()).hexdigest()[:10]
    (d / f"{h}.json").write_text(json.dumps(obj, indent=1, default=str))


def data_obj(data):
    return {k: (v.astype(object).where(v.notna(), None).to_dict("list") if hasattr(v, "to_dict") else str(v)) for k, v in data.items()}


def reserved_words():
    from vtlengine.AST.ASTString import RESERVED_WORDS
    return set(RESERVED_WORDS)


NULL_TEMPLATES = [
    "DS_r := DS_1[calc Me_3 := null];", "DS_r := nvl(DS_1, null);", "DS_r := DS_1[calc Me_3 := nvl(Me_1, null)];",
    "DS_r := DS_1[calc Me_3 := if null then null else null];", "DS_r := DS_1[filter Me_1 = null];", "DS_r := null;",
    "DS_r := DS_1[calc Me_3 := case when Me_1 > 1 then null else null];", "DS_r := DS_1[calc Me_3 := cast(null, integer)];",
    "DS_r := DS_1[calc Me_3 := Me_1 + null];", "DS_r := DS_1[calc Me_3 := null + Me_1];", "DS_r := DS_1[calc Me_3 := isnull(null)];",
    "DS_r := DS_1[calc Me_3 := between(Me_1, null, null)];", "DS_r := DS_1[calc Me_3 := Me_1 in {1.5, 2.5}];",
    "DS_r := DS_1[aggr Me_3 := sum(Me_1) group by Id_1 having sum(Me_1) > null];",
    "define datapoint ruleset d1 (variable Me_1) is when Me_1 > null then Me_1 = null errorcode null errorlevel null end datapoint ruleset;\nDS_r := check_datapoint(DS_1, d1);",
    "define datapoint ruleset d1 (variable Me_1) is r1: Me_1 > 0 errorcode \"E\" errorlevel null end datapoint ruleset;\nDS_r := check_datapoint(DS_1, d1 all);",
    "define hierarchical ruleset h1 (variable rule Id_2) is A = B + C errorcode null errorlevel null end hierarchical ruleset;\nDS_r := check_hierarchy(DS_1[keep Me_1], h1 rule Id_2);",
    "define operator f1 (x dataset, y number default null) returns dataset is nvl(x, y) end operator;\nDS_r := f1(DS_1, null);",
    "define operator f2 (x component) returns component is if isnull(x) then null else x end operator;\nDS_r := DS_1[calc Me_3 := f2(Me_1)];",
    "define viral propagation vp1 (variable At_1) is when null then \"N\"; else \"X\" end viral propagation;\nDS_r := DS_1;",
    "DS_r := DS_1[calc Me_3 := substr(\"abc\", null, null)];", "DS_r := DS_1[calc Me_3 := round(Me_1, null)];",
    "DS_r := check(DS_1 > null errorcode null errorlevel null imbalance null);",
    "DS_r := inner_join(DS_1 as d1, DS_2 as d2 calc Me_9 := null);", "DS_r := DS_1[calc Me_3 := not null and (null or true)];",
    "DS_r := DS_1[calc Me_3 := lag(Me_1, 1, null over (partition by Id_1 order by Id_2))];",
]
RESERVED_TEMPLATES = [
    "DS_r := DS_1[calc '{w}' := Me_1];", "DS_r := DS_1#'{w}';", "DS_r := DS_1[rename Me_1 to '{w}'];", "DS_r := DS_1[rename '{w}' to Me_9];",
    "DS_r := DS_1[keep '{w}'];", "DS_r := DS_1[drop '{w}'];", "'{w}' := DS_1;", "DS_r := '{w}' + 1;", "DS_r := DS_1[filter '{w}' > 1];",
    "DS_r := DS_1[aggr Me_3 := sum('{w}') group by '{w}'];", "DS_r := sum(DS_1 group by '{w}');", "DS_r := sum(DS_1 group except '{w}');",
    "DS_r := DS_1[calc Me_3 := rank(over(partition by '{w}' order by '{w}' desc))];", "DS_r := inner_join(DS_1, DS_2 using '{w}');",
    "DS_r := DS_1[calc Me_3 := '{w}' || \"x\"];", "DS_r := inner_join(DS_1 as '{w}', DS_2 as d2);", "DS_r := DS_1[sub '{w}' = 1];",
    "DS_r := DS_1[pivot '{w}', Me_1];", "DS_r := DS_1[unpivot '{w}', Me_9];",
    "define operator f1 ('{w}' dataset) returns dataset is '{w}' + 1 end operator;\nDS_r := f1(DS_1);",
    "define datapoint ruleset d1 (variable '{w}') is '{w}' > 0 end datapoint ruleset;\nDS_r := check_datapoint(DS_1, d1);",
    "define datapoint ruleset d1 (variable Me_1 as '{w}') is '{w}' > 0 end datapoint ruleset;\nDS_r := check_datapoint(DS_1, d1);",
    "define hierarchical ruleset h1 (variable rule '{w}') is A = B + C end hierarchical ruleset;\nDS_r := check_hierarchy(DS_1, h1 rule '{w}');",
    "DS_r := check_hierarchy(DS_1, h1 condition '{w}' rule Id_2);", "DS_r := check_datapoint(DS_1, d1 components '{w}');",
    "DS_r := DS_1[calc identifier '{w}' := 1];", "DS_r := fill_time_series('{w}', all);", "DS_r := 'DS {w}';", "DS_r := DS_1[calc 'a {w}' := 1];",
]


def directed_cases():
    """scripts with data whose meaning depends on exactly what the renderer is known to touch"""
    import pandas as pd
    import engine
    comps = [("Id_1", "Integer", "Identifier", False), ("Id_2", "String", "Identifier", False),
             ("Me_1", "Number", "Measure", True), ("Me_2", "Number", "Measure", True)]
    structs = engine.structures(engine.ds_struct("DS_1", comps), engine.ds_struct("DS_2", comps))

    def df(vals):
        return pd.DataFrame({"Id_1": pd.Series([1] * len(vals), dtype="object"), "Id_2": pd.Series(list("ABCDEF")[:len(vals)], dtype="object"),
                             "Me_1": pd.Series(vals, dtype="object"), "Me_2": pd.Series([v * 2 for v in vals], dtype="object")})
    data = {"DS_1": df([5.0, 2.0, 3.0, 9.0, 6.0, 1.0]), "DS_2": df([1.0, 2.0, 3.0, 4.0])}
    scripts = [
        'define hierarchical ruleset hie1 (variable rule Id_2) is\n  E = A + F errorcode "error" errorlevel 5;\n  A = B + C errorcode "error2" errorlevel 5;\n'
        '  D = E + A errorcode "error3" errorlevel 5;\n  A >= B errorcode "error4" errorlevel 5\nend hierarchical ruleset;\n'
        'DS_r := check_hierarchy(DS_1[keep Me_1], hie1 rule Id_2 all);',
        'define hierarchical ruleset hie2 (variable rule Id_2) is\n  A = B + C;\n  D = A + E\nend hierarchical ruleset;\nDS_r := hierarchy(DS_1[keep Me_1], hie2 rule Id_2 non_null all);',
        "DS_r := inner_join(DS_1 as d1, DS_2 as d2 aggr Me_9 := sum(d1#Me_1) group by Id_1);",
        "DS_r := inner_join(DS_1[keep Me_1] as d1, DS_2[keep Me_2] as d2 aggr Me_9 := sum(Me_1) group by Id_1);",
        "DS_r := DS_1[rename Me_1 to 'errorlevel'][rename 'errorlevel' to Me_5];",
        "DS_r := DS_1[calc 'true' := Me_1][keep 'true'];",
        "DS_r := DS_1[calc Me_3 := Me_1 * 12345.678];", "DS_r := 1.0;", "DS_r := DS_1[calc Me_3 := Me_1 + 0.00001234];",
        "DS_r := DS_1[calc Me_3 := Me_1 / 2.0];", "DS_r := DS_1[calc Me_3 := 10.0];",
        "define operator f (x dataset, y scalar) returns dataset is x + y end operator;\nDS_r := f(DS_1, 2);",
        "define operator g (x dataset, y number default 1.0) returns dataset is x * y end operator;\nDS_r := g(DS_1, 3.0);",
        'define datapoint ruleset d1 (variable Me_1) is r1: Me_1 > 2.0 errorcode "E" errorlevel 1.0 end datapoint ruleset;\nDS_r := check_datapoint(DS_1, d1 all);',
        "DS_r := DS_1[aggr Me_3 := sum(Me_1) group by Id_1];", "DS_r := DS_1[calc Me_3 := if Me_1 > 2.5 then null else Me_2];",
        # comments: several per line, block + line, inside statements and definitions, before / after statements
        "/* unit */ DS_r <- DS_1 * 2; // checked\n/* a */ /* b */ DS_x := DS_1; // c\n",
        "DS_r := DS_1 /* mid */ + /* mid2 */ 1; // end\n// own line\n/* last */",
        'define datapoint ruleset d1 (variable Me_1) is /* in sig */\n  r1: Me_1 > 0 errorcode "E  1" errorlevel "L\t2"; // after r1\n'
        '  /* before r2 */ r2: Me_1 < 9 errorcode " lead" errorlevel "trail " /* x */ // y\nend datapoint ruleset; // after def\n'
        "DS_r := check_datapoint(DS_1, d1 all);\n",
        # string literals with runs of blanks, tabs, newlines, leading / trailing blanks: constants, errorcodes, errorlevels, defaults
        'DS_r := DS_1[calc Me_3 := "line1\nline2" || "  " || " ( " || "tab\there"];',
        'DS_r := DS_1[calc Me_3 := length("a   b"), Me_4 := if "a  b" = "a b" then 1 else 2];',
        'DS_r := DS_1[calc Me_3 := instr("a (b) c", "(b)"), Me_4 := replace("a  b", "  ", " ")];',
        'define hierarchical ruleset h1 (variable rule Id_2) is /* hc */ A = B + C errorcode "H  1" errorlevel "W  2"; // r1\n'
        ' B >= C errorcode "x\ty" end hierarchical ruleset;\nDS_r := check_hierarchy(DS_1[keep Me_1], h1 rule Id_2 all);',
        'DS_r := check(DS_1[keep Me_1] > 0 errorcode "chk  code" errorlevel "lvl  1" imbalance DS_1[keep Me_1] all);',
        'define operator f1 (x dataset, s string default "a  b") returns dataset is x [calc Me_9 := s || "\tq  r"] end operator;\nDS_r := f1(DS_1, "u   v");',
        'DS_r := DS_1[calc Me_3 := "x  y"][filter Me_3 = "x  y"];',
        # pretty-mode line breaking must not reach into string literals
        'DS_r := DS_1[calc Me_3 := "p and q"][filter Me_3 = "p and q" or Me_3 = "r or s"];',
        'define operator f2 (x dataset) returns dataset is x [calc Me_9 := "(p)  q"] end operator;\nDS_r := f2(DS_1);',
    ]
    return [{"script": s_, "structs": structs, "data": data} for s_ in scripts]


def run(ctx):
    import engine
    engine.install(need_parser=True)
    import vtlengine
    fkeys = Path(__file__).resolve().parents[2] / "findings.d" / "C24.json"
    if fkeys.exists():
        KNOWN_KEYS.update(f["key"] for f in json.loads(fkeys.read_text()).get("findings", []))
    ctx.prove("C24")
    quick = ctx.tier == "quick"
    reserved = reserved_words()
    literal_tie(ctx, 300 if quick else 8000)
    col = Collector(ctx)

    # ---- corpus of past failures first
    past = sorted((CORPUS / "C24").glob("*.json")) if (CORPUS / "C24").exists() else []
    for f in past:
        obj = json.loads(f.read_text())
        script = G.read_script(Path(obj["path"])) if obj.get("path") and Path(obj["path"]).exists() else obj.get("script")
        if not script:
            continue
        for key, what in check_script(script, reserved) or []:
            col.add(key, what, obj)
        ctx.count(("past", f.name))
    ctx.cov["corpus_past_failures"] = len(past)

    # ---- every parseable corpus script (quick: a sample)
    paths = G.stratified_corpus(260) if quick else G.corpus_scripts()      # quick: fixed stratified sample, independent of the seed
    n_parse = n_ok = 0
    for p in paths:
        try:
            script = G.read_script(p)
        except Exception:  # noqa
            continue
        res = check_script(script, reserved)
        if res is None:
            continue
        n_parse += 1
        ctx.count(("corpus", str(p)))
        if not res:
            n_ok += 1
        for key, what in res:
            col.add(key, what, {"path": str(p), "kind": "corpus"})
    ctx.cov["corpus_scripts_checked"] = n_parse
    ctx.cov["corpus_scripts_ok"] = n_ok
    ctx.log(f"S: corpus {n_parse} parseable scripts, {n_ok} fully ok")

    # ---- null literals in every position, reserved words as quoted identifiers (structural part)
    n_t = 0
    for t in NULL_TEMPLATES:
        res = check_script(t, reserved)
        ctx.oblige(f"generator: null template parses: {t[:50]}", res is not None)
        n_t += 1
        ctx.count(("null", t))
        for key, what in res or []:
            col.add(key, what, {"script": t, "kind": "null-template"})
    words = sorted(w for w in reserved if re.match(r"^[a-z_]+$", w))
    if quick:
        words = ctx.rng.sample(words, 8)
    n_r = n_r_parse = 0
    for w in words:
        for t in RESERVED_TEMPLATES:
            s_ = t.replace("{w}", w)
            res = check_script(s_, reserved)
            n_r += 1
            if res is None:
                continue
            n_r_parse += 1
            ctx.count(("reserved", w, t))
            for key, what in res:
                col.add(key, what, {"script": s_, "kind": "reserved-template"})
    ctx.cov["null_templates"] = n_t
    ctx.cov["reserved_word_cases"] = {"generated": n_r, "parseable": n_r_parse, "words": len(words)}

    # ---- generated scripts with data: structure + run equivalence
    n_gen = 30 if quick else 1500
    n_run = n_run_ok = 0
    hist: Dict[str, int] = {}
    directed = directed_cases()
    for i in range(-len(directed), n_gen):
        c = directed[i] if i < 0 else G.gen_script_case(ctx.rng, wide_literals=(i % 3 == 0))
        for k, v in c.get("hist", {"directed": 1}).items():
            hist[k] = hist.get(k, 0) + v
        res = check_script(c["script"], reserved)
        if res is None:
            ctx.oblige("generator: generated script parses", False, c["script"][:200])
            continue
        ctx.count(("gen", i))
        rep = {"script": c["script"], "structs": c["structs"], "data": data_obj(c["data"]), "kind": "generated"}
        for key, what in res:
            col.add(key, what, rep)
        if any(k.startswith(("prettify:raises", "prettify:float-literal:repr", "prettify:output-not", "prettify:quoted", "prettify:float-literal:output"))
               for k, _ in res):
            continue
        p = vtlengine.prettify(c["script"])
        same, why, orig_ok = run_equal(c["script"], p, c["structs"], c["data"])
        n_run += 1
        n_run_ok += same
        if not same:
            cause = next((k for k, _ in res), "prettify:run-result-differs:same-ast")
            col.add(cause if res else "prettify:run-result-differs:same-ast", f"run() differs: {why}", rep)
        if 0 <= i < 2:
            ctx.sample({"script": c["script"], "prettified": p})
    ctx.cov["generated_scripts"] = n_gen
    ctx.cov["generated_runs_compared"] = n_run
    ctx.cov["generated_runs_equal"] = n_run_ok
    ctx.cov["generated_template_histogram"] = hist

    # ---- test-suite scripts with data: run(original) = run(prettified)
    n_suite = 8 if quick else 400
    sp = G.stratified_corpus()          # fixed order (seed-independent); the first n_suite scripts with small data are run
    done = cmp_ok = 0
    for pth in sp:
        if done >= n_suite:
            break
        c = G.suite_case(pth)
        if c is None or not c["data"] or sum(Path(f).stat().st_size for f in c["data"].values()) > 20000:
            continue
        res = check_script(c["script"], reserved)
        if res is None:
            continue
        try:
            p = vtlengine.prettify(c["script"])
            G.statements_and_comments(p)
        except Exception:  # noqa
            continue
        kw = {"value_domains": c["value_domains"]} if c.get("value_domains") else {}
        same, why, orig_ok = run_equal(c["script"], p, c["structs"], c["data"], **kw)
        if not orig_ok and same:
            continue           # the suite script fails on its own here: nothing to compare
        done += 1
        cmp_ok += same
        ctx.count(("suite-run", str(pth)))
        if not same:
            cause = next((k for k, _ in res), "prettify:run-result-differs:same-ast")
            col.add(cause, f"run() differs: {why}", {"path": str(pth), "kind": "suite-run"})
    ctx.cov["suite_runs_compared"] = done
    ctx.cov["suite_runs_equal"] = cmp_ok
    col.report()
    import time as _t
    ctx.cov["python_cpu_seconds"] = round(_t.process_time(), 1)
    ctx.cov["rule"] = ("one evaluated case = one script (corpus / template / generated) put through parse, prettify, re-parse, AST comparison, "
                       "comment multiset, second prettify (+ run() of both where data exists), or one literal compared between Coq model, "
                       "_handle_literal and the real parser; distinct = script path / template instance / literal text")
    ctx.trusted.append("the parser stand-in (Java ANTLR interpreter of the repo's serialized ATN) for every parse in this check")
    ctx.trusted.append("CPython repr/format of floats is observed, not verified: the model's py_repr/%f/%g are compared with Python on every generated literal")
    ctx.assumptions.append("a float is modelled by the decimal its repr shows; py_repr (when CPython switches to exponent form) is compared with "
                           "repr() on every generated literal")
    ctx.assumptions.append("AST equality is modulo source positions and modulo the defaults of check_hierarchy / hierarchy / check_datapoint modes "
                           "(None = the default both the interpreter and the transpiler substitute)")


def replay(ctx, obj):
    import engine
    engine.install(need_parser=True)
    import vtlengine
    script = obj.get("script")
    if obj.get("path"):
        script = G.read_script(Path(obj["path"]))
    if not script:
        print("replay names a broken obligation only:", obj.get("what"))
        return 1
    res = check_script(script, reserved_words())
    print("script:", script[:400])
    try:
        print("prettify ->", vtlengine.prettify(script)[:600])
    except Exception as e:  # noqa
        print("prettify raises", type(e).__name__, e)
    bad = list(res or [])
    if obj.get("structs") and obj.get("data") and not any(k.startswith("prettify:raises") for k, _ in bad):
        import pandas as pd
        data = {k: pd.DataFrame({c: pd.Series(v, dtype="object") for c, v in d.items()}) for k, d in obj["data"].items()}
        try:
            same, why, _ = run_equal(script, vtlengine.prettify(script), obj["structs"], data)
            if not same:
                bad.append(("run", why))
        except Exception as e:  # noqa
            bad.append(("run", str(e)))
    print("expected: output parses, same statements, same comments, idempotent, same results; observed:", bad if bad else "HOLDS")
    return 1 if bad else 0
