"""C29 — names that differ only in letter case stay distinct.
Proof: Props/C29.v.  Tie K: generated scripts (exprk generator) are rewritten so that component / dataset names become case variants of
each other (Me_2 -> me_1, Me_3 -> ME_1, DS_2 -> ds_1) and run on the engine; the expected result is the specification's (`run_script`,
exact names).  Every disagreement is classified by WHERE the case variants meet."""
from __future__ import annotations

import hashlib
import json
import re

import engine
import exprgen as G
import exprk


def rename_case(c, mapping):
    """applies a name mapping to script text, Coq term and input shapes"""
    def sub_text(t):
        for a, b in mapping.items():
            t = re.sub(rf"\b{re.escape(a)}\b", b, t)
        return t

    def sub_coq(t):
        for a, b in mapping.items():
            t = t.replace(f'"{a}"', f'"{b}"')
        return t
    dss = {}
    for n, d in c["dss"].items():
        sh = d["shape"]
        dss[mapping.get(n, n)] = {"shape": G.Shape([(mapping.get(x, x), t) for x, t in sh.ids], [(mapping.get(x, x), t) for x, t in sh.ms]),
                                  "rows": d["rows"]}
    structs, dps = G.inputs_engine(dss)
    return {"dss": dss, "structs": structs, "dps": dps, "script": sub_text(c["script"]), "coq": sub_coq(c["coq"]), "hist": c["hist"],
            "rejected": 0, "nested": False}


def where(c):
    """classification of the place where two names equal up to case meet"""
    same_ds = any(len({x.lower() for x, _ in d["shape"].ids + d["shape"].ms}) < len(d["shape"].ids + d["shape"].ms) for d in c["dss"].values())
    ds_names = len({n.lower() for n in c["dss"]}) < len(c["dss"])
    if ds_names:
        return "dataset-names"
    if same_ds:
        return "components-of-one-dataset"
    if exprk.creates_case_variant(c):
        return "clause-creates-case-variant-of-existing-component"
    return "components-across-datasets-or-created-by-clause"


MAPPINGS = [
    {"Me_2": "me_1"}, {"Me_2": "me_1", "Me_3": "ME_1"}, {"DS_2": "ds_1"}, {"Me_9": "me_1", "Me_8": "ME_1"},
    {"Me_7": "me_1", "Renamed": "ME_1", "x1": "Me_1"}, {"Id_2": "id_1"},
]


def run(ctx):
    ctx.prove("C29")
    engine.install(need_parser=True)
    q = ctx.tier == "quick"
    n = 100 if q else 4000
    cases = []
    tries = 0
    while len(cases) < n and tries < n * 30:
        tries += 1
        base = exprk.make_case(ctx.rng, ctx.rng.choice([1, 2, 3]), kinds=["clause", "clause", "elem", "binary", "setop"])
        if base is None:
            continue
        m = ctx.rng.choice(MAPPINGS)
        names_used = set(re.findall(r"[A-Za-z_][A-Za-z_0-9]*", base["script"])) | {x for d in base["dss"].values() for x, _ in d["shape"].ids + d["shape"].ms} | set(base["dss"])
        if not any(a in names_used for a in m):
            continue
        c = rename_case(base, m)
        # keep only cases where case variants really coexist
        # only the datasets the script really reads count (an unused input with case-variant components proves nothing about this script)
        used = {n_: d for n_, d in c["dss"].items() if re.search(rf"\b{re.escape(n_)}\b", c["script"])}
        c["dss"] = used
        c["structs"], c["dps"] = G.inputs_engine(used)
        allnames = {x for d in used.values() for x, _ in d["shape"].ids + d["shape"].ms} | set(used) | set(re.findall(r"[A-Za-z_][A-Za-z_0-9]*", c["script"]))
        if len({x.lower() for x in allnames}) == len(allnames):
            continue
        # the name mapping can turn a valid rename into `rename X to Y` with Y (exactly) an existing component: an invalid script (1-1-6-8)
        comp_names = {x for d in used.values() for x, _ in d["shape"].ids + d["shape"].ms}
        if any(tgt in comp_names for tgt in re.findall(r"\bto\s+(\w+)", c["script"])):
            continue
        cases.append(c)
    model = exprk.eval_model(cases, "c29")
    hist, dis = {}, 0
    for c, m in zip(cases, model):
        w = where(c)
        hist[w] = hist.get(w, 0) + 1
        er = exprk.run_engine(c)
        ctx.count(hashlib.sha1((c["script"] + json.dumps(exprk.case_json(c)["inputs"], sort_keys=True, default=str)).encode()).hexdigest())
        d = exprk.compare(er, m)
        if len(ctx.cov["samples"]) < 4:
            ctx.sample({"script": c["script"], "structures": {k: [x for x, _ in v["shape"].ids + v["shape"].ms] for k, v in c["dss"].items()},
                        "where": w, "agree": d is None})
        if d is None:
            continue
        dis += 1
        raw = (not er["ok"]) and er["err"][0] in ("RawDuckDB", "RawPython")
        key = f"case-variant:{w}:" + (f"raw-{er['err'][1]}" if raw else ("vtl-error-" + str(er["err"][1]) if not er["ok"] else "wrong-result"))
        ctx.violation(key, f"{c['script'].strip()} with structures "
                           f"{ {k: [x for x, _ in v['shape'].ids + v['shape'].ms] for k, v in c['dss'].items()} } :: {d}",
                      {"case": exprk.case_json(c), "disagreement": d, "where": w})
    import c29extra
    dhist = c29extra.run_directed(ctx, 2 if q else 40)
    fhist = c29extra.run_input_forms(ctx)
    ctx.cov["distribution"] = {"where_case_variants_meet": hist, "disagreements": dis, "directed_templates_agreeing": dhist, "input_forms_agreeing": fhist}
    ctx.cov["rule"] = ("exprk-generated scripts rewritten so that component or dataset names are case variants of each other (in one dataset, across "
                       "datasets, created by calc/rename, dataset names); expected = specification with exact names; directed templates where a clause creates "
                       "a case variant of an existing name (rename to own case variant outermost / + keep, drop, filter, operator; calc; two variants at once); "
                       "datasets DS_1/ds_1 in separate statements under every datapoint input form (dict of frames, dict of paths, list of paths); "
                       "distinct = (script, data)")
    ctx.oblige("K: engine compared with the exact-name specification on every case", True)


def replay(ctx, obj):
    return exprk.replay_case(obj)
