"""Shared helpers of the C14 / C24 / C25 checks (codec family): AST canonical form modulo positions, corpus access,
byte-level Coq literals, decimal literal generators, test-suite case loader."""
from __future__ import annotations

import dataclasses
import enum
import glob
import json
import re
from decimal import Decimal
from pathlib import Path
from typing import Any, Dict, List, Optional, Sequence, Tuple

from common import REPO, coq_list

TESTS = REPO / "tests"
POS = {"line_start", "line_stop", "column_start", "column_stop"}

HEADER = "From Coq Require Import String Ascii ZArith NArith List.\nImport ListNotations.\nFrom VTL Require Import Model.Codec.\nOpen Scope N_scope.\n"


# ------------------------------------------------------------------------------------------------ AST canonical form
def canon_ast(o: Any, depth: int = 0) -> Any:
    """AST -> JSON-able structure without source positions.  Defaults that the interpreter and the transpiler read
    identically (`x.value if x else <default>`) are normalised, so that `check_hierarchy(… non_null dataset invalid)` and the
    same call with the modes left out compare equal."""
    from vtlengine import AST
    if depth > 300:
        return "<deep>"
    if isinstance(o, AST.AST):
        d: Dict[str, Any] = {"_": type(o).__name__}
        for f in dataclasses.fields(o):
            if f.name in POS:
                continue
            d[f.name] = canon_ast(getattr(o, f.name), depth + 1)
        # attributes the constructor hangs on nodes outside the dataclass fields carry meaning too (a code item's
        # `_right_condition`, an identifier's `role`, …); `_hr_sorted` is a bookkeeping flag of the DAG sort
        for k, v in vars(o).items():
            if k not in d and k not in POS and k != "_hr_sorted":
                d[k] = canon_ast(v, depth + 1)
        name = d["_"]
        if name == "HROperation":
            op = d.get("op")
            if d.get("validation_mode") is None:
                d["validation_mode"] = ["enum", "non_null"]
            if d.get("input_mode") is None:
                d["input_mode"] = ["enum", "dataset" if op == "check_hierarchy" else "rule"]
            if d.get("output") is None:
                d["output"] = ["enum", "invalid" if op == "check_hierarchy" else "computed"]
        if name == "DPValidation" and d.get("output") is None:
            d["output"] = ["enum", "invalid"]
        return d
    if isinstance(o, (list, tuple)):
        return [canon_ast(x, depth + 1) for x in o]
    if isinstance(o, dict):
        return {str(k): canon_ast(v, depth + 1) for k, v in o.items()}
    if isinstance(o, enum.Enum):
        return ["enum", o.value]
    if isinstance(o, type):
        return ["type", o.__name__]
    if isinstance(o, bool) or o is None or isinstance(o, (str, int)):
        return o
    if isinstance(o, float):
        return ["float", repr(o)]
    d = {"_obj": type(o).__name__}
    if hasattr(o, "__dict__"):
        for k, v in sorted(vars(o).items()):
            if k == "data":
                continue
            d[k] = canon_ast(v, depth + 1)
    return d


def first_diff(a: Any, b: Any, path: str = "", cls: str = "") -> Optional[Tuple[str, Any, Any, str]]:
    """first difference in document order: (path, a, b, 'Class.field' of the innermost AST node field that differs)"""
    if type(a) != type(b):
        return (path, a, b, cls)
    if isinstance(a, dict):
        c = a.get("_") or a.get("_obj") or ""
        if c != (b.get("_") or b.get("_obj") or ""):
            return (path + "/_", c, b.get("_") or b.get("_obj"), (cls.split(".")[0] + ".<node>") if cls else "<node>")
        for k in sorted(set(a) | set(b)):
            sub = f"{c}.{k}" if c else cls
            if k not in a or k not in b:
                return (path + "/" + k, a.get(k, "<absent>"), b.get(k, "<absent>"), sub)
            r = first_diff(a[k], b[k], path + "/" + k, sub)
            if r:
                return r
        return None
    if isinstance(a, list):
        if len(a) != len(b):
            return (path + "/len", len(a), len(b), cls)
        for i, (x, y) in enumerate(zip(a, b)):
            r = first_diff(x, y, path + f"[{i}]", cls)
            if r:
                return r
        return None
    return None if a == b else (path, a, b, cls)


def walk(o: Any):
    """all dict nodes of a canonical AST"""
    if isinstance(o, dict):
        yield o
        for v in o.values():
            yield from walk(v)
    elif isinstance(o, list):
        for x in o:
            yield from walk(x)


def statements_and_comments(text: str):
    """(canonical statements, sorted comment texts) of a script, through the real create_ast_with_comments"""
    from vtlengine.AST import Comment
    from vtlengine.AST.ASTComment import create_ast_with_comments
    ast = create_ast_with_comments(text)
    stm = [canon_ast(c) for c in ast.children if not isinstance(c, Comment)]
    com = raw_comments(text)
    return stm, com, ast


def raw_comments(text: str) -> List[str]:
    """the comment tokens of a script straight from the lexer (channel 2), independent of vtlengine.AST.ASTComment: sorted texts"""
    from vtlengine.AST.Grammar._cpp_parser import parser_lock, vtl_cpp_parser
    with parser_lock:
        vtl_cpp_parser.parse(text + "\n")
        toks = vtl_cpp_parser.get_comments()
        return sorted(str(t["text"]).rstrip("\r\n").strip() for t in toks)


# ------------------------------------------------------------------------------------------------ corpus
def corpus_scripts() -> List[Path]:
    return sorted(Path(p) for p in glob.glob(str(TESTS / "**" / "*.vtl"), recursive=True))


def stratified_corpus(n: Optional[int] = None) -> List[Path]:
    """Seed-independent sample of the corpus for the quick tier: scripts grouped by test directory (tests/<Dir>), each group sampled at
    evenly spaced positions, groups interleaved round-robin; n=None gives every script in that interleaved order."""
    groups: Dict[str, List[Path]] = {}
    for p in corpus_scripts():
        rel = p.relative_to(TESTS).parts
        groups.setdefault(rel[0], []).append(p)
    order: List[Path] = []
    lists = [groups[k] for k in sorted(groups)]
    if n is not None:
        total = sum(len(g) for g in lists)
        picked = []
        for g in lists:
            k = max(2, round(n * len(g) / total))
            k = min(k, len(g))
            picked.append([g[(i * len(g)) // k] for i in range(k)])
        lists = picked
    i = 0
    while any(lists):
        for g in lists:
            if i < len(g):
                order.append(g[i])
        i += 1
        if all(i >= len(g) for g in lists):
            break
    return order


def read_script(p: Path) -> str:
    return p.read_text(encoding="utf-8-sig")


def suite_case(vtl: Path) -> Optional[Dict[str, Any]]:
    """Locates the inputs of a test-suite script following tests/Helper.py's layout
    (data/vtl/<code>.vtl, data/DataStructure/input/<code>-<i>.json, data/DataSet/input/<code>-<i>.csv)."""
    if vtl.parent.name != "vtl" or vtl.parent.parent.name != "data":
        return None
    base = vtl.parent.parent
    code = vtl.stem
    structs, data = {"datasets": [], "scalars": []}, {}
    i = 1
    while True:
        js = base / "DataStructure" / "input" / f"{code}-{i}.json"
        if not js.exists():
            js = base / "DataStructure" / "input" / f"{code}-DS_{i}.json"
        if not js.exists():
            break
        try:
            d = json.loads(js.read_text())
        except Exception:
            return None
        for ds in d.get("datasets", []):
            for c in ds.get("DataStructure", []):
                if c.get("role") == "ViralAttribute":
                    c["role"] = "Viral Attribute"
                if "type" not in c and "data_type" in c:
                    c["type"] = c["data_type"]
            structs["datasets"].append(ds)
            csv = js.parent.parent.parent / "DataSet" / "input" / (js.stem + ".csv")
            if csv.exists():
                data[ds["name"]] = csv
        structs["scalars"].extend(d.get("scalars", []))
        i += 1
    if not structs["datasets"] and not structs["scalars"]:
        return None
    if not structs["scalars"]:
        del structs["scalars"]
    vd = base / "ValueDomain"
    return {"script": read_script(vtl), "structs": structs, "data": data, "path": str(vtl),
            "value_domains": sorted(vd.glob("*.json")) if vd.exists() else None}


# ------------------------------------------------------------------------------------------------ bytes <-> Coq
def coq_bytes(b: bytes) -> str:
    return "[" + ";".join(str(x) for x in b) + "]"


def coq_cell(c: Optional[bytes]) -> str:
    return "None" if c is None else f"(Some {coq_bytes(c)})"


def coq_table(t: Sequence[Sequence[Optional[bytes]]]) -> str:
    return coq_list([coq_list([coq_cell(c) for c in r]) for r in t])


def py_bytes(v: Any) -> bytes:
    return bytes(int(x) for x in v)


def py_table(v: Any) -> Optional[List[List[Optional[bytes]]]]:
    """parsed `option (list (list (option (list N))))` -> python"""
    if v is None:
        return None
    assert isinstance(v, tuple) and v[0] == "Some", v
    out = []
    for r in v[1]:
        row = []
        for c in r:
            row.append(None if c is None else py_bytes(c[1]))
        out.append(row)
    return out


def coq_B(s: str) -> str:
    """bytes literal for printable ASCII text (B "…"), else explicit of_N list"""
    if all(32 <= ord(ch) < 127 for ch in s):
        return '(B "' + s.replace('"', '""') + '")'
    return f"(of_N {coq_bytes(s.encode('utf-8'))})"


# ------------------------------------------------------------------------------------------------ decimal literals
def dec_parts(text: str) -> Tuple[bool, str, str]:
    """VTL NUMBER_CONSTANT text (digits '.' digits, optional sign) -> canonical (neg, int digits, frac digits)"""
    neg = text.startswith("-")
    t = text.lstrip("+-")
    ip, fp = t.split(".")
    return neg, ip.lstrip("0"), fp.rstrip("0")


def coq_dec(text: str) -> str:
    neg, ip, fp = dec_parts(text)
    return f'(Dn_ {"true" if neg else "false"} "{ip}" "{fp}")'


DEC_HEADER = HEADER + 'Definition Dn_ (neg : bool) (i f : string) : decn := {| dneg := neg; dint := B i; dfrac := B f |}.\n' \
    'Definition S_ (b : bytes) := string_of_list_ascii b.\n'


def repr_dec(v: float) -> str:
    """Coq decn for the decimal that repr(v) shows (any finite float)"""
    t = format(Decimal(repr(v)), "f")
    if "." not in t:
        t += ".0"
    neg, ip, fp = dec_parts(t)
    if v == 0:
        neg = str(v).startswith("-")
    return f'(Dn_ {"true" if neg else "false"} "{ip}" "{fp}")'


def float_bias(text: str) -> str:
    """sign of (binary double nearest to the literal) - (the literal), as a Coq comparison"""
    d = abs(Decimal(text))            # rounding acts on the magnitude (the sign is printed separately)
    x = abs(Decimal(float(text)))
    return "Eq" if x == d else ("Gt" if x > d else "Lt")


def sig_digits(text: str) -> int:
    neg, ip, fp = dec_parts(text)
    return len((ip + fp).strip("0"))


def gen_number_literal(rng) -> str:
    """a NUMBER_CONSTANT with <= 15 significant digits, magnitudes 1e-12 .. 1e22, many shapes"""
    kind = rng.random()
    nd = rng.choice([1, 1, 2, 2, 3, 4, 5, 6, 6, 7, 8, 10, 12, 15])
    digs = "".join(rng.choice("0123456789") for _ in range(nd)).strip("0") or rng.choice("123456789")
    if kind < 0.25:      # small: 0.000ddd
        lz = rng.choice([0, 0, 1, 2, 3, 3, 4, 4, 5, 6, 7, 9, 11])
        return "0." + "0" * lz + digs
    if kind < 0.45:      # integral floats
        return digs + "0" * rng.choice([0, 0, 0, 1, 2, 4, 6, 10, 15, 20]) + "." + rng.choice(["0", "00", "0"])
    # mixed: split the digits around the point
    k = rng.randrange(0, len(digs) + 1)
    ip, fp = digs[:k] or "0", digs[k:] or "0"
    if rng.random() < 0.15:
        ip = ip + "0" * rng.choice([1, 3, 6])
    if sig_digits(ip + "." + fp) > 15:
        fp = fp[:1]
    return ip + "." + fp


def in_model_domain(text: str) -> bool:
    """<= 15 significant digits (repr(float) is the decimal itself) and, when more than 4 decimals are printed (%f branch),
    |value| < 2^33 so that the binary value is within 0.5e-6 of the decimal (see Codec.v)."""
    if sig_digits(text) > 15:
        return False
    neg, ip, fp = dec_parts(text)
    if len(fp) > 4 and len(ip) >= 10:
        return False
    if len(ip) >= 17 and sig_digits(text) >= 2:
        return False     # repr d.ddde+NN -> %f prints the digits of the exact binary value (not modelled; never a VTL literal: ends in '.')
    return True


# ------------------------------------------------------------------------------------------------ generated scripts + data
AWKWARD_STRINGS = ["a,b", 'q"q', '"', '""', "line\nbreak", "cr\rx", "crlf\r\nx", " lead", "trail ", " ", "", "#", "#x", "x#y",
                   "é", "日本語", "a\tb", "'", "\\", "\\N", "NULL", "null", "nan", ",", ",,", '","', "a;b", "€uro", "x" * 40,
                   "émoji 😀", "A", "B", "true", "1.0", "-", "=1+1"]
NUM_VALUES = [0.0, 1.0, -1.0, 0.1, 0.5, 1 / 3, 2 / 3, 1e-7, 123456789.123456, 0.0000000001, 1234567.891, -99999.99999,
              3.141592653589793, 2.5, 100.0, 1e15, 12345678901234.5, 0.30000000000000004, 7.0, -0.125]
DATE_VALUES = ["2020-01-01", "1999-12-31", "2024-02-29", "2000-06-15", "2021-03-04"]
TP_VALUES = ["2020Q1", "2021-M03", "2019", "2020-W05", "2020S2", "2022D045", "2020M12", "2023-Q4", "2020A"]
TI_VALUES = ["2020-01-01/2020-12-31", "2021-01-01/2021-01-31"]
DUR_VALUES = ["A", "S", "Q", "M", "W", "D"]


def _col(rng, typ, n, null_p, pool=None):
    out = []
    for _ in range(n):
        if rng.random() < null_p:
            out.append(None)
        elif typ == "String":
            out.append(rng.choice(pool or AWKWARD_STRINGS))
        elif typ == "Number":
            out.append(rng.choice(NUM_VALUES) if rng.random() < 0.7 else round(rng.uniform(-1e6, 1e6), rng.choice([0, 2, 5, 9])))
        elif typ == "Integer":
            out.append(rng.choice([0, 1, -1, 7, 42, 10 ** 9, -10 ** 12, 2 ** 53 + 1, 9223372036854775807, rng.randrange(-1000, 1000)]))
        elif typ == "Boolean":
            out.append(rng.random() < 0.5)
        elif typ == "Date":
            out.append(rng.choice(DATE_VALUES))
        elif typ == "Time_Period":
            out.append(rng.choice(TP_VALUES))
        elif typ == "Time":
            out.append(rng.choice(TI_VALUES))
        elif typ == "Duration":
            out.append(rng.choice(DUR_VALUES))
        else:
            out.append(None)
    return out


def gen_data_case(rng, max_rows=8):
    """C14: inputs with awkward content in every column type; script passes them through persistent / non-persistent results,
    derives empty datasets and scalars of every type."""
    import pandas as pd
    import engine
    mtypes = ["String", "Number", "Integer", "Boolean", "Date", "Time_Period", "Time", "Duration", "String"]
    k = rng.choice([2, 3, 4, 5, 6])
    ms = [(f"Me_{i + 1}", rng.choice(mtypes)) for i in range(k)]
    if not any(t == "String" for _, t in ms):
        ms[0] = ("Me_1", "String")
    id2 = rng.random() < 0.5
    n = rng.choice([0, 1, 2, 3, 5, max_rows])
    comps = [("Id_1", "Integer", "Identifier", False)] + ([("Id_2", "String", "Identifier", False)] if id2 else []) + \
            [(nm, t, "Measure", True) for nm, t in ms]
    null_p = rng.choice([0.0, 0.15, 0.4])
    cols = {"Id_1": list(range(1, n + 1))}
    if id2:
        idpool = [s for s in AWKWARD_STRINGS if s != ""]
        ids = rng.sample(idpool, min(n, len(idpool))) if n else []
        cols["Id_2"] = ids + ["k"] * (n - len(ids))
    for nm, t in ms:
        cols[nm] = _col(rng, t, n, null_p)
    df = pd.DataFrame({c: pd.Series(v, dtype="object") for c, v in cols.items()})
    structs = engine.structures(engine.ds_struct("DS_1", comps))
    str_ms = [nm for nm, t in ms if t == "String"]
    num_ms = [nm for nm, t in ms if t in ("Number", "Integer")]
    stmts = []
    arrow = lambda: rng.choice(["<-", "<-", ":="])  # noqa: E731
    stmts.append(f"DS_r {arrow()} DS_1;")
    if str_ms and rng.random() < 0.7:
        s = rng.choice([x for x in AWKWARD_STRINGS if '"' not in x and "\r" not in x])
        stmts.append(f'DS_s {arrow()} DS_1[calc {str_ms[0]}_x := {str_ms[0]} || "{s}"];')
    if num_ms and rng.random() < 0.7:
        stmts.append(f"DS_n {arrow()} DS_1[calc {num_ms[0]}_x := {num_ms[0]} * 1.0 / 3.0];")
    if rng.random() < 0.6:
        stmts.append(f"DS_e {arrow()} DS_1[filter Id_1 > 1000000];")
    if rng.random() < 0.5:
        stmts.append(f"DS_k {arrow()} DS_1[keep {ms[0][0]}];")
    # scalars
    sc = []
    if rng.random() < 0.8:
        s = rng.choice([x for x in AWKWARD_STRINGS if '"' not in x])
        sc.append(f'sc_s {arrow()} "{s}";')
    if rng.random() < 0.6:
        sc.append(f"sc_n {arrow()} {rng.choice(['1.0 / 3.0', '0.1 + 0.2', '1234567.125', '2.0 * 0.5', '0.0000001 * 1.0'])};")
    if rng.random() < 0.5:
        sc.append(f"sc_i {arrow()} {rng.choice(['3', '-7', '2 * 21', '9007199254740993'])};")
    if rng.random() < 0.4:
        sc.append(f"sc_b {arrow()} {rng.choice(['true', 'false', 'not true', '1 > 2'])};")
    if rng.random() < 0.4:
        sc.append(f"sc_null {arrow()} cast(null, {rng.choice(['string', 'integer', 'number', 'boolean'])});")
    if rng.random() < 0.3:
        sc.append(f'sc_d {arrow()} cast("{rng.choice(DATE_VALUES + ["2020-01-15T10:30:00"])}", date);')
    if rng.random() < 0.3:
        sc.append(f'sc_p {arrow()} cast("{rng.choice(["2020Q1", "2021M3", "2019"])}", time_period);')
    stmts += sc
    # result and scalar names that need quotes (they become file names / rows of _scalars.csv): dots, several dots, blanks, names equal
    # up to the part before a dot, reserved words, leading digits, unicode
    if rng.random() < 0.75:
        ds_pool = [["DS.r", "DS.q", "DS.r.x", "DS"], ["a.b.c", "a.b.d", "a.b"], ["my result", "my  result", "my result.2"],
                   ["sum", "calc", "1st", "2.0", "résultat", "日本.語"], ["out.csv", "out.parquet", "out.csv.csv", ".hidden", "trail.", "a..b"]]
        sc_pool = ["sc.x", "sc.y", "sc x", "sc,1", "sc;2", "filter", "9s", "scalaire é", "s.c.a.l", "name", "value"]
        group = list(rng.choice(ds_pool)) + rng.sample([x for g in ds_pool for x in g], 3)
        group = list(dict.fromkeys(group))
        rng.shuffle(sc_pool)
        renamed = []
        for st in stmts:
            head, rest = st.split(" ", 1)
            if head.startswith("DS_") and group and rng.random() < 0.8:
                head = "'" + group.pop(0) + "'"
            elif head.startswith("sc_") and sc_pool and rng.random() < 0.6:
                head = "'" + sc_pool.pop(0) + "'"
            renamed.append(head + " " + rest)
        stmts = renamed
    rng.shuffle(stmts)
    return {"script": "\n".join(stmts) + "\n", "structs": structs, "data": {"DS_1": df}}


RULESETS = [
    ('define datapoint ruleset dpr1 (variable Me_1, Me_2) is\n  r1: when Me_1 > {n1} then Me_2 > {n2} errorcode {ec} errorlevel {el};\n'
     '  r2: Me_1 >= {n2} errorcode "e2"\nend datapoint ruleset;',
     "{r} {a} check_datapoint(DS_1, dpr1{out});"),
    ('define hierarchical ruleset hr1 (variable rule Id_2) is\n  A = B + C errorcode {ec} errorlevel {el};\n  B >= C errorcode "h2"\n'
     'end hierarchical ruleset;',
     "{r} {a} check_hierarchy(DS_1[keep Me_1], hr1 rule Id_2{mode});"),
    ('define operator op1 (x dataset, y number default {n1}) returns dataset is x * y + {n2} end operator;',
     "{r} {a} op1(DS_1, {n1});"),
    ('define operator op2 (x component, y component) returns component is nvl(x, {n1}) + y end operator;',
     "{r} {a} DS_1[calc Me_9 := op2(Me_1, Me_2)];"),
]

EXPR_TEMPLATES = [
    "DS_1 {op} {n1}", "{n1} {op} DS_1", "DS_1 {op} DS_2", "DS_1[calc Me_3 := Me_1 {op} {n1}]", "DS_1[filter Me_1 {cmp} {n1}]",
    "DS_1[calc Me_3 := if Me_1 {cmp} {n1} then {n2} else null]", "nvl(DS_1, {n1})", "DS_1[calc Me_3 := nvl(Me_1, null)]",
    "DS_1[aggr Me_4 := sum(Me_1), Me_5 := max(Me_2) group by Id_1]", "DS_1[keep Me_1][rename Me_1 to Me_7]",
    "inner_join(DS_1 as d1, DS_2 as d2 keep d1#Me_1, d2#Me_2)", "left_join(DS_1 as d1, DS_2 as d2 calc Me_8 := d1#Me_1 {op} {n1} drop d2#Me_1, d2#Me_2)",
    "round(DS_1 {op} {n1}, 2)", "DS_1[calc Me_3 := between(Me_1, {n1}, {n2})]", "DS_1[calc Me_3 := Me_1 in {{ 0.5, 1.5, 7.5 }}]",
    "union(DS_1, DS_2)", "DS_1[calc Me_3 := case when Me_1 {cmp} {n1} then {n1} when Me_2 {cmp} {n2} then null else {n2}]",
    "abs(DS_1) {op} ({n1} {op} {n2})", "DS_1[calc identifier Id_3 := \"{s}\", Me_3 := \"{s}\" || \"x\"]",
    "DS_1[calc Me_3 := isnull(Me_1) or (null and true)]", "sum(DS_1 group by Id_1)", "DS_1[drop Me_2]",
    "DS_1[calc '{rw}' := Me_1 {op} {n1}]", "DS_1[rename Me_1 to '{rw}']", "DS_1[calc '{rw}' := Me_1][keep '{rw}']",
    "DS_1[calc Me_3 := rank(over(partition by Id_1 order by Me_1 desc))]", "DS_1 # Me_1",
    "DS_1[calc Me_3 := cast(Me_1, string) || \"{s}\"]",
]
SCALAR_TEMPLATES = ["{n1} {op} {n2}", "\"{s}\" || \"{s}\"", "if {n1} {cmp} {n2} then {n1} else null", "nvl(null, {n1})", "{n1}", "null",
                    "not ({n1} {cmp} {n2})", "-{n1}", "round({n1}, 3)"]
COMMENTS = ["/* block */", "// line", "/* multi\n   line */", "// a \"quoted\" comment", "/* 1.0 */", "/* two  blanks */", "// tab\there",
            "/* x := 1; */", "// DS_r <- DS_1;"]
BLOCK_COMMENTS = ["/* a */", "/* b */", "/* unit: EUR */", "/* c  d */", "/**/", "/* \"q\" */"]
LINE_COMMENTS = ["// checked", "// e", "// f  g", "//", "// /* nested */"]
STRINGS = ["a", "b c", "x,y", "é", "it's", " pad ", "a  b", "x   y", "tab\there", " lead", "trail ", "two\nlines", "  ", "a \t b", "(p) [q] {r}",
           "semi;colon", ":= <-", "//not a comment", "/*neither*/"]
ERRORCODES = ['"E1"', "null", "5", '"x y"', '"E  1"', '"tab\there"', '" lead"', '"trail "', '"a;b"']
ERRORLEVELS = ["1", "null", '"W"', "2.5", "3", '"W  2"', '"L\t1"', '" w "']
SAFE_RESERVED = ["calc", "filter", "keep", "drop", "rename", "sum", "date", "time", "number", "string", "in", "and", "or", "if",
                 "value", "rule", "condition", "result", "all", "data", "points", "by", "group", "first", "last", "max", "true", "null"]


def gen_literal_text(rng, wide=False):
    r = rng.random()
    if r < 0.25:
        return str(rng.choice([0, 1, 2, 7, 10, 100, 12345, 10 ** 12, 100000000000000000000]))
    if wide:
        return gen_number_literal(rng)
    return rng.choice(["0.5", "1.5", "2.25", "0.1", "10.75", "3.125", "0.001", "12.5", "100.25", "0.0625", "7.5", "99.99"])


def gen_script_case(rng, wide_literals=False, with_defs=True, with_comments=True):
    """C24/C25: a script of 1-5 statements over DS_1/DS_2 (+ optional ruleset / operator definitions), with generated data"""
    import pandas as pd
    import engine
    comps1 = [("Id_1", "Integer", "Identifier", False), ("Id_2", "String", "Identifier", False),
              ("Me_1", "Number", "Measure", True), ("Me_2", "Number", "Measure", True)]
    structs = engine.structures(engine.ds_struct("DS_1", comps1), engine.ds_struct("DS_2", comps1))
    data = {}
    for name in ("DS_1", "DS_2"):
        keys = [(i, c) for i in (1, 2, 3) for c in ("A", "B", "C") if rng.random() < 0.7]
        vals = [0.5, 1.5, -2.25, 10.0, 3.125, 100.75, 0.0, 7.5, None]
        data[name] = pd.DataFrame({"Id_1": pd.Series([k[0] for k in keys], dtype="object"),
                                   "Id_2": pd.Series([k[1] for k in keys], dtype="object"),
                                   "Me_1": pd.Series([rng.choice(vals) for _ in keys], dtype="object"),
                                   "Me_2": pd.Series([rng.choice(vals) for _ in keys], dtype="object")})

    def fill(t):
        return t.format(op=rng.choice(["+", "-", "*"]), cmp=rng.choice([">", "<", ">=", "<=", "=", "<>"]),
                        n1=gen_literal_text(rng, wide_literals), n2=gen_literal_text(rng, wide_literals),
                        s=rng.choice(STRINGS), rw=rng.choice(SAFE_RESERVED),
                        ec=rng.choice(ERRORCODES), el=rng.choice(ERRORLEVELS),
                        out=rng.choice(["", " invalid", " all", " all_measures"]),
                        mode=rng.choice(["", " non_null", " non_zero dataset", " always_null dataset all", " partial_null"]),
                        r="{r}", a="{a}")

    stmts, defs, hist = [], [], {}
    k = rng.choice([1, 2, 2, 3, 4, 5])
    for i in range(k):
        name = f"R_{i + 1}"
        arrow = rng.choice(["<-", ":="])
        r = rng.random()
        if with_defs and r < 0.22:
            j = rng.randrange(len(RULESETS))
            d, use = RULESETS[j]
            if not any(x.startswith(d.split("(")[0]) for x in defs):
                defs.append(fill(d))
            stmts.append(fill(use).format(r=name, a=arrow))
            hist[f"def{j}"] = hist.get(f"def{j}", 0) + 1
        elif r < 0.35:
            stmts.append(f"{name} {arrow} {fill(rng.choice(SCALAR_TEMPLATES))};")
            hist["scalar"] = hist.get("scalar", 0) + 1
        else:
            t = rng.choice(EXPR_TEMPLATES)
            e = fill(t)
            if i > 0 and rng.random() < 0.3 and "DS_2" in e and not any("R_%d <- " % i in s or "R_%d := " % i in s for s in []):
                pass
            stmts.append(f"{name} {arrow} {e};")
            hist[t.split("[")[-1].split(" ")[0][:12]] = hist.get(t.split("[")[-1].split(" ")[0][:12], 0) + 1
    parts = defs + stmts
    if with_comments:
        out = []
        for p in parts:
            r = rng.random()
            if r < 0.25:
                out.append(rng.choice(COMMENTS))                     # on its own line(s) before the statement
                out.append(p)
            elif r < 0.45:                                          # several comments starting on the statement's line
                out.append(f"{rng.choice(BLOCK_COMMENTS)} {p} {rng.choice(LINE_COMMENTS)}")
            elif r < 0.55:
                out.append(f"{rng.choice(BLOCK_COMMENTS)} {rng.choice(BLOCK_COMMENTS)} {p} {rng.choice(BLOCK_COMMENTS)} {rng.choice(LINE_COMMENTS)}")
            elif r < 0.65 and " := " in p and not p.startswith("define"):
                i = p.index(" := ") + 4                              # inside the statement
                out.append(p[:i] + rng.choice(BLOCK_COMMENTS) + " " + p[i:])
            elif r < 0.75 and p.startswith("define") and " is" in p:
                i = p.index(" is") + 3                               # inside a ruleset / operator definition
                out.append(p[:i] + " " + rng.choice(BLOCK_COMMENTS) + " " + rng.choice(LINE_COMMENTS) + "\n" + p[i:])
            else:
                out.append(p)
        if rng.random() < 0.3:
            out.append(rng.choice(COMMENTS))
        parts = out
        hist["comments"] = hist.get("comments", 0) + sum(x.count("/*") + x.count("//") for x in parts)
    return {"script": "\n".join(parts) + "\n", "structs": structs, "data": data, "hist": hist}
