"""Entry point: bin/check Cxx quick|thorough | --replay <path>."""
import importlib
import json
import sys
import traceback

from common import Ctx


def main(argv):
    if len(argv) < 2:
        print("usage: check Cxx quick|thorough|--replay <path>")
        return 2
    pid = argv[0].upper()
    mod = importlib.import_module(f"props.{pid.lower()}")
    if argv[1] == "--replay":
        ctx = Ctx(pid, "quick")
        obj = json.load(open(argv[2]))
        return int(mod.replay(ctx, obj) or 0)
    tier = argv[1]
    ctx = Ctx(pid, tier)
    try:
        mod.run(ctx)
    except Exception as e:  # a crashing check must not look like a pass
        traceback.print_exc()
        ctx.oblige("check ran to completion", False, f"{type(e).__name__}: {e}")
    return ctx.finish()


if __name__ == "__main__":
    sys.exit(main(sys.argv[1:]))
