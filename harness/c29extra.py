"""C29 — directed streams added after seeded changes were missed:
(1) clauses that CREATE a case variant of an existing name (rename Me_1 to me_1 outermost / followed by keep, filter, another operator;
    calc me_1 := …; rename to two case variants at once), expected = the specification `run_script` evaluated in Coq;
(2) dataset names that differ only in letter case (DS_1 / ds_1) used in separate statements, with the datapoints given in every input
    form (dict of DataFrames, dict of paths, list of paths, single path per run) — expected = each dataset's own values."""
from __future__ import annotations

import hashlib
import pathlib
import tempfile
from fractions import Fraction

import engine
import exprgen as G
import exprk

S = G.coq_string


def _dv(n):
    return f"(DVar {S(n)})"


def _ren(a, pairs):
    return f"(DRename {a} [{'; '.join(f'({S(o)}, {S(n)})' for o, n in pairs)}])"


def _col(n):
    return f"(CCol {S(n)})"


def _num(q):
    return f"(CLit (VNum ({q.numerator} # {q.denominator})))"


# (name, script, coq statements) over DS_1(Id_1 Integer; Me_1 Number, Me_2 Number)
def templates():
    one = _num(Fraction(1))
    two = _num(Fraction(2))
    zero = _num(Fraction(0))
    r1 = _ren(_dv("DS_1"), [("Me_1", "me_1")])
    T = [
        ("rename-to-own-case-variant", "DS_r <- DS_1[rename Me_1 to me_1];", [("DS_r", r1)]),
        ("rename-to-own-case-variant+keep", "DS_r <- DS_1[rename Me_1 to me_1][keep me_1];", [("DS_r", f"(DKeep {r1} [{S('me_1')}])")]),
        ("rename-to-own-case-variant+drop", "DS_r <- DS_1[rename Me_1 to me_1][drop Me_2];", [("DS_r", f"(DDrop {r1} [{S('Me_2')}])")]),
        ("rename-to-own-case-variant+filter", "DS_r <- DS_1[rename Me_1 to me_1][filter me_1 > 0.0];",
         [("DS_r", f"(DFilter {r1} (CBin Gt {_col('me_1')} {zero}))")]),
        ("rename-to-own-case-variant+operator", "DS_r <- DS_1[rename Me_1 to me_1] * 2.0;",
         [("DS_r", f"(DMap {r1} (CBin Mul (CCol \"$\") {two}))")]),
        ("rename-there-and-back", "T_1 := DS_1[rename Me_1 to me_1];\nDS_r <- T_1[rename me_1 to Me_1];",
         [("T_1", r1), ("DS_r", _ren(_dv("T_1"), [("me_1", "Me_1")]))]),
        ("rename-identifier-to-case-variant", "DS_r <- DS_1[rename Id_1 to id_1];", [("DS_r", _ren(_dv("DS_1"), [("Id_1", "id_1")]))]),
        ("rename-to-two-case-variants", "DS_r <- DS_1[rename Me_1 to ME_1, Me_2 to me_1];",
         [("DS_r", _ren(_dv("DS_1"), [("Me_1", "ME_1"), ("Me_2", "me_1")]))]),
        ("calc-creates-case-variant", "DS_r <- DS_1[calc me_1 := Me_1 + 1.0];",
         [("DS_r", f"(DCalc {_dv('DS_1')} [({S('me_1')}, CBin Add {_col('Me_1')} {one})])")]),
        ("calc-creates-case-variant+drop", "DS_r <- DS_1[calc me_1 := Me_1 + 1.0][drop Me_1];",
         [("DS_r", f"(DDrop (DCalc {_dv('DS_1')} [({S('me_1')}, CBin Add {_col('Me_1')} {one})]) [{S('Me_1')}])")]),
        ("calc-creates-case-variant+keep", "DS_r <- DS_1[calc me_1 := Me_1 + 1.0][keep me_1, Me_1];",
         [("DS_r", f"(DKeep (DCalc {_dv('DS_1')} [({S('me_1')}, CBin Add {_col('Me_1')} {one})]) [{S('me_1')}; {S('Me_1')}])")]),
    ]
    return T


def mk_case(rng, script, stmts):
    n = rng.choice([2, 3, 4])
    rows = [([i], [G.gen_value(rng, "Number"), G.gen_value(rng, "Number")]) for i in rng.sample([1, 2, 3, 4], n)]
    dss = {"DS_1": {"shape": G.Shape([("Id_1", "Integer")], [("Me_1", "Number"), ("Me_2", "Number")]), "rows": rows}}
    structs, dps = G.inputs_engine(dss)
    coq = "[" + "; ".join(f"({S(n_)}, {c})" for n_, c in stmts) + "]"
    return {"dss": dss, "structs": structs, "dps": dps, "script": script + "\n", "coq": coq, "hist": {}, "rejected": 0, "nested": False}


def run_directed(ctx, draws):
    T = templates()
    cases, names = [], []
    for name, script, stmts in T:
        for _ in range(draws):
            cases.append(mk_case(ctx.rng, script, stmts))
            names.append(name)
    model = exprk.eval_model(cases, "c29d")
    hist = {}
    for name, c, m in zip(names, cases, model):
        er = exprk.run_engine(c)
        ctx.count(("directed", name, hashlib.sha1(repr(exprk.case_json(c)["inputs"]).encode()).hexdigest()))
        d = exprk.compare(er, m)
        if d is None and er["ok"]:
            # the data itself must carry every declared component (a dropped column shows as a short row)
            ds = er["datasets"]["DS_r"]
            if ds.get("data_cols") is not None and sorted(ds["data_cols"]) != sorted(c_[0] for c_ in ds["comps"]):
                d = f"returned data has columns {ds['data_cols']} but the structure declares {[c_[0] for c_ in ds['comps']]}"
        hist[name] = hist.get(name, 0) + (d is None)
        if d is None:
            continue
        sym = "wrong-result" if er["ok"] else (f"raw-{er['err'][1]}" if er["err"][0] in ("RawDuckDB", "RawPython") else f"vtl-error-{er['err'][1]}")
        ctx.violation(f"directed:{name}:{sym}", f"{c['script'].strip()} :: {d}", {"case": exprk.case_json(c), "disagreement": d, "template": name})
    return hist


def run_input_forms(ctx):
    """DS_1 / ds_1 as two inputs, every datapoint input form"""
    import pandas as pd
    I, M = "Identifier", "Measure"
    comps = [("Id_1", "Integer", I, False), ("Me_1", "Number", M, True)]
    variants = [("DS_1", "ds_1"), ("DS_1", "Ds_1"), ("Input", "INPUT")]
    hist = {}
    with tempfile.TemporaryDirectory(prefix="c29_") as tmp:
        for a, b in variants:
            st = engine.structures(engine.ds_struct(a, comps), engine.ds_struct(b, comps))
            dfa = pd.DataFrame({"Id_1": [1, 2, 3], "Me_1": [1.5, None, -2.0]})
            dfb = pd.DataFrame({"Id_1": [1, 2], "Me_1": [100.0, 200.0]})
            script = f"A <- {a} + 1;\nB <- {b} + 1;\n"
            want = {"A": [(1, "5/2"), (2, None), (3, "-1/1")], "B": [(1, "101/1"), (2, "201/1")]}
            pa, pb = pathlib.Path(tmp) / f"{a}.csv", pathlib.Path(tmp) / f"{b}.csv"
            dfa.to_csv(pa, index=False)
            dfb.to_csv(pb, index=False)
            forms = {"dict-of-dataframes": {a: dfa, b: dfb}, "dict-of-paths": {a: pa, b: pb}, "list-of-paths": [pa, pb], "list-of-paths-reversed": [pb, pa]}
            if pa.exists() and pb.exists() and pa.read_text() != pb.read_text():  # a case-insensitive file system would have merged the two files
                pass
            for form, dp in forms.items():
                r = engine.run_case(script, st, dp)
                ctx.count(("forms", a, b, form))
                got = {k: sorted(v["rows"]) for k, v in r["datasets"].items()} if r["ok"] else None
                ok = got == {k: sorted(v) for k, v in want.items()}
                hist[form] = hist.get(form, 0) + ok
                if not ok:
                    sym = "wrong-result" if r["ok"] else f"error-{r['err'][1]}"
                    ctx.violation(f"dataset-names:{form}:{sym}",
                                  f"inputs {a} and {b} ({form}): {script.strip()} returns {got if r['ok'] else (r['err'], r['msg'][:160])}, expected {want}",
                                  {"script": script, "names": [a, b], "form": form, "got": str(got), "want": str(want)})
    return hist
