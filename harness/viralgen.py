"""C28 generator: scripts with `define viral propagation` rules over datasets carrying 1-2 viral attributes, emitted in
parallel as VTL text and as Gallina terms of Model/Viral.v (one projection per viral attribute), plus the engine runner on
a chosen row order of the inputs and the canonicalisers of both sides.

A case is a JSON-serialisable dict:
  attrs   : [[name, type]]                      viral attributes (type String | Integer)
  defs    : [{"name", "target", "rule"}]        rule = {"kind": "enum", "clauses": [[[v..], res]], "default": v|None, "else": bool}
                                                     | {"kind": "agg", "fn": min|max|sum|avg}
  defs_last : bool                              definitions written after the statements
  inputs  : {ds: {"ids": [..], "viral": [attr names], "rows": [[key..], {attr: value}, measure]}}
  stmts   : [[name, tree]]                      last one is the persistent result DS_r
  perm2   : {ds: [row indices]}                 the second physical order of every input
Trees: ["var", n] | ["bin", op, a, b] | ["un", form, a] | ["join", kind, [a, b, ..]] | ["aggr", op, a, mode, ids] |
       ["analytic", op, a, ids] | ["filter", a, cond] | ["same", form, a] | ["sub", a, id, value] |
       ["setviral", a, attr, value] | ["dropviral", a, attr] | ["set", op, a, b] | ["checkall", a]
"""
from __future__ import annotations

import json
from fractions import Fraction
from typing import Any, Dict, List, Optional, Tuple

import pandas as pd

import engine
from common import coq_list, coq_string, coq_z

HEADER = ("From Coq Require Import ZArith QArith String List Bool.\nImport ListNotations.\n"
          "From VTL Require Import Base.Val Model.Table Model.Scalar Model.Expr Model.SetOps Model.Viral.\nOpen Scope string_scope.\n")

ALPHA = {"String": ["A", "B", "C", "D"], "Integer": [1, 2, 3, 5]}
EXTRA = {"String": ["Z", "a"], "Integer": [0, 9]}
DPR = 'define datapoint ruleset DR (variable Me_1) is r1: Me_1 < 3 errorcode "e1" errorlevel 1 end datapoint ruleset;\n'


# ------------------------------------------------------------------ values
def cval(v, typ) -> str:
    if v is None:
        return "VNull"
    if typ == "Integer":
        return f"(VInt {coq_z(int(v))})"
    return f"(VStr {coq_string(str(v))})"


def vtl_lit(v, typ) -> str:
    if v is None:
        return "null"
    return str(v) if typ == "Integer" else '"' + str(v) + '"'


# ------------------------------------------------------------------ rules
def gen_rule(rng, typ) -> dict:
    if typ == "Integer":
        kind = rng.choice(["agg", "agg", "agg", "agg", "enum"])
    else:
        kind = rng.choice(["enum", "enum", "enum", "agg"])
    if kind == "agg":
        return {"kind": "agg", "fn": rng.choice(["min", "max", "sum", "avg"] if typ == "Integer" else ["min", "max"])}
    pool = ALPHA[typ] + [None]
    clauses, seen = [], set()
    for _ in range(rng.choice([1, 2, 2, 3, 3])):
        for _try in range(6):
            if rng.random() < 0.45:
                vals = rng.sample(pool, 2)
            else:
                vals = [rng.choice(pool)]
            key = frozenset(vals)
            if key not in seen:
                seen.add(key)
                res = rng.choice(ALPHA[typ] + ALPHA[typ] + EXTRA[typ] + [None])
                clauses.append([vals, res])
                break
    has_else = rng.random() < 0.6
    default = rng.choice(ALPHA[typ] + EXTRA[typ] + [None]) if has_else else None
    return {"kind": "enum", "clauses": clauses, "default": default, "else": has_else}


def rule_text(d: dict, typ: str) -> str:
    r = d["rule"]
    head = f"define viral propagation {d['name']} (variable {d['target']}) is\n"
    if r["kind"] == "agg":
        body = f"  aggregate {r['fn']}\n"
    else:
        parts = [f"  when {' and '.join(vtl_lit(v, typ) for v in vals)} then {vtl_lit(res, typ)}" for vals, res in r["clauses"]]
        if r["else"]:
            parts.append(f"  else {vtl_lit(r['default'], typ)}")
        body = ";\n".join(parts) + "\n"
    return head + body + "end viral propagation;\n"


def rule_coq(r: dict, typ: str) -> str:
    if r["kind"] == "agg":
        return f"(RAgg F{r['fn'].capitalize()})"
    cls = []
    for vals, res in r["clauses"]:
        if len(vals) == 2:
            cls.append(f"VC2 {cval(vals[0], typ)} {cval(vals[1], typ)} {cval(res, typ)}")
        else:
            cls.append(f"VC1 {cval(vals[0], typ)} {cval(res, typ)}")
    return f"(REnum {coq_list(cls)} {cval(r['default'], typ)})"


# ------------------------------------------------------------------ inputs
def gen_inputs(rng, attrs) -> Dict[str, dict]:
    n = rng.choice([2, 2, 3])
    out = {}
    shapes = rng.choice([[["Id_1", "Id_2"], ["Id_1", "Id_2"], ["Id_1"]],
                         [["Id_1", "Id_2"], ["Id_1"], ["Id_1"]],
                         [["Id_1"], ["Id_1"], ["Id_1"]],
                         [["Id_1", "Id_2"], ["Id_1", "Id_2"], ["Id_1", "Id_2"]]])
    for i in range(n):
        ids = shapes[i]
        names = [a for a, _ in attrs]
        viral = list(names)
        if i == n - 1 and n == 3 and rng.random() < 0.5:
            viral = []                                   # one operand without viral attributes
        elif len(names) == 2 and rng.random() < 0.15:
            viral = [rng.choice(names)]
        universe = [[a, b] for a in (1, 2, 3) for b in (1, 2, 3)] if len(ids) == 2 else [[a] for a in (1, 2, 3, 4, 5)]
        dens = rng.choice([0.0, 0.3, 0.6, 0.6, 0.9, 1.0])
        keys = [k for k in universe if rng.random() < dens]
        rows = []
        for k in keys:
            vv = {}
            for a, t in attrs:
                if a in viral:
                    vv[a] = None if rng.random() < 0.22 else rng.choice(ALPHA[t] + (EXTRA[t][:1] if rng.random() < 0.1 else []))
            rows.append([k, vv, rng.choice([None, 0, 1, 2, 3, 4, 7])])
        rng.shuffle(rows)
        out[f"DS_{i + 1}"] = {"ids": ids, "viral": viral, "rows": rows}
    return out


def inputs_engine(case, order: Optional[Dict[str, List[int]]] = None):
    types = dict(case["attrs"])
    dss, dps = [], {}
    for name, d in case["inputs"].items():
        comps = [(i, "Integer", "Identifier", False) for i in d["ids"]] + [("Me_1", "Integer", "Measure", True)] + \
                [(a, types[a], "Viral Attribute", True) for a in d["viral"]]
        dss.append(engine.ds_struct(name, comps))
        rows = d["rows"]
        if order is not None and name in order:
            rows = [rows[i] for i in order[name]]
        cols: Dict[str, list] = {c[0]: [] for c in comps}
        for k, vv, m in rows:
            for i, v in zip(d["ids"], k):
                cols[i].append(v)
            cols["Me_1"].append(m)
            for a in d["viral"]:
                cols[a].append(vv.get(a))
        dps[name] = pd.DataFrame({n: pd.Series(v, dtype="object") for n, v in cols.items()})
    return engine.structures(*dss), dps


def env_coq(case, attr: str, order: Optional[Dict[str, List[int]]] = None) -> str:
    types = dict(case["attrs"])
    items = []
    for name, d in case["inputs"].items():
        rows = d["rows"]
        if order is not None and name in order:
            rows = [rows[i] for i in order[name]]
        has = attr in d["viral"]
        rs = ["(" + coq_list([f"VInt {coq_z(x)}" for x in k]) + ", " + (coq_list([cval(vv.get(attr), types[attr])]) if has else "[]") + ")"
              for k, vv, _ in rows]
        items.append(f"({coq_string(name)}, mkD {coq_list([coq_string(i) for i in d['ids']])} "
                     f"{coq_list([coq_string(attr)]) if has else '[]'} {coq_list(rs)})")
    return coq_list(items)


# ------------------------------------------------------------------ expression generator
class Info:
    """structure of an expression: identifiers, viral attributes, plain = single Integer measure Me_1 (usable as an operand)"""

    def __init__(self, ids, viral, plain=True):
        self.ids, self.viral, self.plain = list(ids), list(viral), plain

    def same(self, o):
        return self.ids == o.ids and sorted(self.viral) == sorted(o.viral) and self.plain and o.plain


UN_FORMS = ["abs({X})", "{X} + 1", "{X} * 2", "3 - {X}", "- {X}", "nvl({X}, 0)", "ceil({X})"]
UN_FINAL = ["{X} > 2", "{X} = 1", "isnull({X})", "between({X}, 1, 3)", "{X} in {{1, 3}}"]
SAME_FORMS = ["{X}[calc Me_1 := Me_1 * 2]", "{X}[keep Me_1]", "{X}[calc Me_1 := nvl(Me_1, 0) + 1]", "{X}[filter true]"]
SAME_FINAL = ["{X}[rename Me_1 to Me_7]", "{X}[calc Me_2 := Me_1 + 1]", "{X}[calc measure Me_3 := Me_1]"]


class Gen:
    def __init__(self, rng, case):
        self.rng, self.case = rng, case
        self.types = dict(case["attrs"])
        self.hist: Dict[str, int] = {}

    def note(self, k):
        self.hist[k] = self.hist.get(k, 0) + 1

    def leaf(self, leaves: Dict[str, Info], pred=None):
        names = [n for n, i in leaves.items() if i.plain and (pred is None or pred(i))]
        if not names:
            return None
        n = self.rng.choice(names)
        return ["var", n], leaves[n]

    def operand(self, leaves, depth, pred=None):
        """an operand expression (plain structure) of nesting ≤ depth"""
        if depth <= 0 or self.rng.random() < 0.7:
            return self.leaf(leaves, pred)
        out = self.gen(leaves, depth, final=False)
        # (an analytic invocation nested in another operator is a syntax error of the emitted SQL, and a set operator nested in an
        #  aggregation is not de-duplicated, whatever the attributes: both are outside this property)
        if out is None or not out[1].plain or uses(out[0], "analytic") or uses(out[0], "set") or (pred is not None and not pred(out[1])):
            return self.leaf(leaves, pred)
        return out

    def cond(self, info: Info):
        r = self.rng
        opts = ["id"] * 2 + (["viral"] * 3 if len(self.types) == 1 and info.viral else [])
        if r.choice(opts) == "id":
            i = r.choice(info.ids)
            op = r.choice(["=", "<>", ">", "<="])
            return ["id", i, op, r.choice([1, 2, 3])]
        a = info.viral[0]
        t = self.types[a]
        form = r.choice(["=", "<>", "isnull", "notnull"] + ([">"] if t == "Integer" else []))
        return ["viral", a, form, r.choice(ALPHA[t])]

    def gen(self, leaves: Dict[str, Info], depth: int, final: bool):
        r = self.rng
        kinds = ["bin"] * 4 + ["un"] * 3 + ["aggr"] * 4 + ["join"] * 4 + ["filter"] * 2 + ["same"] * 2 + ["set"] * 3 + \
                ["assign"] * 1 + ["analytic"] * 2 + ["sub"] + ["setviral"] + ["dropviral"] + (["checkall"] if final else [])
        for _ in range(12):
            k = r.choice(kinds)
            out = getattr(self, "g_" + k)(leaves, depth, final)
            if out is not None:
                self.note(k)
                return out
        return None

    # -- operator classes
    def g_assign(self, leaves, depth, final):
        return self.leaf(leaves)

    def g_bin(self, leaves, depth, final):
        a = self.operand(leaves, depth - 1)
        if a is None:
            return None
        ia = a[1]
        b = self.operand(leaves, depth - 1, pred=lambda i: set(i.ids) <= set(ia.ids) or set(ia.ids) <= set(i.ids))
        if b is None:
            return None
        ib = b[1]
        op = self.rng.choice(["+", "-", "*"])
        ids = ia.ids if set(ib.ids) <= set(ia.ids) else ib.ids
        viral = sorted(set(ia.viral) | set(ib.viral))
        self.note(f"bin:viral-{'both' if ia.viral and ib.viral else 'one' if viral else 'none'}")
        return ["bin", op, a[0], b[0]], Info(ids, viral)

    def g_un(self, leaves, depth, final):
        a = self.operand(leaves, depth - 1)
        if a is None:
            return None
        if final and self.rng.random() < 0.3:
            return ["un", self.rng.choice(UN_FINAL), a[0]], Info(a[1].ids, a[1].viral, plain=False)
        return ["un", self.rng.choice(UN_FORMS), a[0]], Info(a[1].ids, a[1].viral)

    def g_checkall(self, leaves, depth, final):
        a = self.operand(leaves, depth - 1)
        if a is None:
            return None
        return ["checkall", a[0]], Info(a[1].ids + ["ruleid"], a[1].viral, plain=False)

    def g_aggr(self, leaves, depth, final):
        a = self.operand(leaves, depth - 1)
        if a is None:
            return None
        ia = a[1]
        r = self.rng
        mode = r.choice(["by", "by", "by", "except", "none"])
        if mode == "none":
            rows_known = a[0][0] == "var" and a[0][1] in self.case["inputs"] and len(self.case["inputs"][a[0][1]]["rows"]) > 0
            if not rows_known:
                mode = "by"
        if mode == "by":
            ids = r.sample(ia.ids, r.randint(1, len(ia.ids)))
            by = [i for i in ia.ids if i in ids]
        elif mode == "except":
            ids = r.sample(ia.ids, r.randint(1, len(ia.ids)))
            by = [i for i in ia.ids if i not in ids]
        else:
            ids, by = [], []
        op = r.choice(["sum", "min", "max"] + (["count", "avg"] if final else []))
        form = r.choice(["fn", "fn", "clause"]) if mode != "none" else "fn"
        if form == "clause" and not final:
            form = "fn"
        plain = op in ("sum", "min", "max") and form == "fn" and len(by) > 0
        self.note(f"aggr:{mode}")
        return ["aggr", op, a[0], mode, ids, form], Info(by, ia.viral, plain=plain)

    def g_analytic(self, leaves, depth, final):
        a = self.leaf(leaves)
        if a is None:
            return None
        if self.rng.random() < 0.3:
            a = (["filter", a[0], self.cond(a[1])], a[1])
        ia = a[1]
        ids = self.rng.sample(ia.ids, self.rng.randint(1, len(ia.ids)))
        ids = [i for i in ia.ids if i in ids]
        op = self.rng.choice(["sum", "max", "min", "count"])
        return ["analytic", op, a[0], ids], Info(ia.ids, ia.viral, plain=op != "count")

    def g_join(self, leaves, depth, final):
        r = self.rng
        kind = r.choice(["inner", "inner", "left"])
        names = [n for n, i in leaves.items() if i.plain]
        if len(names) < 2:
            return None
        n = 3 if (len(names) >= 3 and r.random() < 0.25) else 2
        ops = r.sample(names, n)
        ops.sort(key=lambda x: -len(leaves[x].ids))          # the first operand carries every identifier
        if not all(set(leaves[o].ids) <= set(leaves[ops[0]].ids) for o in ops):
            return None
        if kind == "inner" and n == 2 and r.random() < 0.4:
            ops.reverse()                                     # inner join: the reference operand may come second
        trees = []
        for j, o in enumerate(ops):
            t = ["var", o]
            if r.random() < 0.25:
                t = ["filter", t, self.cond(leaves[o])]
            trees.append(["same", "{X}[rename Me_1 to Me_" + str(j + 1) + "1]", t])
        ids = max((leaves[o].ids for o in ops), key=len)
        viral = sorted(set().union(*[set(leaves[o].viral) for o in ops]))
        counts = sum(1 for o in ops if leaves[o].viral)
        self.note(f"join:{kind}:{n}-operands:viral-in-{counts}")
        return ["join", kind, trees], Info(ids, viral, plain=False)

    def g_filter(self, leaves, depth, final):
        a = self.operand(leaves, depth - 1)
        if a is None:
            return None
        return ["filter", a[0], self.cond(a[1])], Info(a[1].ids, a[1].viral)

    def g_same(self, leaves, depth, final):
        a = self.operand(leaves, depth - 1)
        if a is None:
            return None
        if final and self.rng.random() < 0.4:
            return ["same", self.rng.choice(SAME_FINAL), a[0]], Info(a[1].ids, a[1].viral, plain=False)
        return ["same", self.rng.choice(SAME_FORMS), a[0]], Info(a[1].ids, a[1].viral)

    def g_sub(self, leaves, depth, final):
        a = self.operand(leaves, depth - 1, pred=lambda i: len(i.ids) >= 2)
        if a is None:
            return None
        i = self.rng.choice(a[1].ids)
        return ["sub", a[0], i, self.rng.choice([1, 2, 3])], Info([x for x in a[1].ids if x != i], a[1].viral)

    def g_setviral(self, leaves, depth, final):
        a = self.operand(leaves, depth - 1, pred=lambda i: len(i.viral) < len(self.types))
        if a is None:
            return None
        attr = self.rng.choice([x for x in self.types if x not in a[1].viral])
        v = self.rng.choice(ALPHA[self.types[attr]])
        return ["setviral", a[0], attr, v], Info(a[1].ids, sorted(a[1].viral + [attr]))

    def g_dropviral(self, leaves, depth, final):
        a = self.operand(leaves, depth - 1, pred=lambda i: len(i.viral) >= 1)
        if a is None:
            return None
        attr = self.rng.choice(a[1].viral)
        return ["dropviral", a[0], attr], Info(a[1].ids, [x for x in a[1].viral if x != attr])

    def g_set(self, leaves, depth, final):
        a = self.operand(leaves, depth - 1)
        if a is None:
            return None
        b = self.operand(leaves, depth - 1, pred=lambda i: i.same(a[1]))
        if b is None:
            return None
        op = self.rng.choice(["union", "intersect", "setdiff", "symdiff"])
        self.note("set:" + op)
        return ["set", op, a[0], b[0]], Info(a[1].ids, a[1].viral)


# ------------------------------------------------------------------ emission
def cond_text(c) -> str:
    if c[0] == "id":
        return f"{c[1]} {c[2]} {c[3]}"
    _, a, form, v = c
    if form == "isnull":
        return f"isnull({a})"
    if form == "notnull":
        return f"not isnull({a})"
    return f"{a} {form} {vtl_lit(v, 'Integer' if isinstance(v, int) else 'String')}"


CMP = {"=": "Eq", "<>": "Neq", ">": "Gt", "<=": "Le"}


def cond_coq(c, types) -> str:
    if c[0] == "id":
        return f"(CBin {CMP[c[2]]} (CCol {coq_string(c[1])}) (CLit (VInt {coq_z(c[3])})))"
    _, a, form, v = c
    if form == "isnull":
        return f"(CUn IsNull (CCol {coq_string(a)}))"
    if form == "notnull":
        return f"(CUn Not (CUn IsNull (CCol {coq_string(a)})))"
    return f"(CBin {CMP[form]} (CCol {coq_string(a)}) (CLit {cval(v, types[a])}))"


def text(t) -> str:
    k = t[0]
    if k == "var":
        return t[1]
    if k == "bin":
        return f"({text(t[2])} {t[1]} {text(t[3])})"
    if k == "un":
        return "(" + t[1].replace("{X}", text(t[2])).replace("{{", "{").replace("}}", "}") + ")"
    if k == "join":
        return f"{t[1]}_join({', '.join(text(x) for x in t[2])})"
    if k == "aggr":
        _, op, a, mode, ids, form = t
        g = "" if mode == "none" else f" group {'by' if mode == 'by' else 'except'} {', '.join(ids)}"
        if form == "clause":
            return f"{text(a)}[aggr Me_9 := {op}(Me_1){g}]"
        return f"{op}({text(a)}{g})"
    if k == "analytic":
        return f"{t[1]}({text(t[2])} over (partition by {', '.join(t[3])}))"
    if k == "filter":
        return f"{text(t[1])}[filter {cond_text(t[2])}]"
    if k == "same":
        return t[1].replace("{X}", text(t[2]))
    if k == "sub":
        return f"{text(t[1])}[sub {t[2]} = {t[3]}]"
    if k == "setviral":
        return f"{text(t[1])}[calc viral attribute {t[2]} := {vtl_lit(t[3], 'Integer' if isinstance(t[3], int) else 'String')}]"
    if k == "dropviral":
        return f"{text(t[1])}[drop {t[2]}]"
    if k == "set":
        return f"{t[1]}({text(t[2])}, {text(t[3])})"
    if k == "checkall":
        return f"check_datapoint({text(t[1])}, DR all)"
    raise ValueError(k)


def tree_ids(t, case, env_ids: Dict[str, List[str]]) -> List[str]:
    """identifier names of the value of a tree (needed to resolve `group except`)"""
    k = t[0]
    if k == "var":
        return env_ids[t[1]]
    if k == "bin":
        a, b = tree_ids(t[2], case, env_ids), tree_ids(t[3], case, env_ids)
        return a if set(b) <= set(a) else b
    if k == "join":
        l = [tree_ids(x, case, env_ids) for x in t[2]]
        return max(l, key=len)
    if k == "aggr":
        a = tree_ids(t[2], case, env_ids)
        return [i for i in a if (i in t[4]) == (t[3] == "by")] if t[3] != "none" else []
    if k == "sub":
        return [i for i in tree_ids(t[1], case, env_ids) if i != t[2]]
    if k == "checkall":
        return tree_ids(t[1], case, env_ids) + ["ruleid"]
    if k in ("un", "analytic", "same"):
        return tree_ids(t[2], case, env_ids)
    if k == "set":
        return tree_ids(t[2], case, env_ids)
    return tree_ids(t[1], case, env_ids)


def coq(t, attr: str, case, env_ids) -> str:
    types = dict(case["attrs"])
    k = t[0]
    rec = lambda x: coq(x, attr, case, env_ids)
    if k == "var":
        return f"(XVar {coq_string(t[1])})"
    if k == "bin":
        return f"(XBin {rec(t[2])} {rec(t[3])})"
    if k == "un":
        return f"(XUn {rec(t[2])})"
    if k == "join":
        acc = rec(t[2][0])
        for x in t[2][1:]:
            acc = f"(XJoin {'JInner' if t[1] == 'inner' else 'JLeft'} {acc} {rec(x)})"
        return acc
    if k == "aggr":
        return f"(XAggr {rec(t[2])} {coq_list([coq_string(i) for i in tree_ids(t, case, env_ids)])} {'true' if t[5] == 'clause' else 'false'})"
    if k == "analytic":
        return f"(XAnalytic {rec(t[2])} {coq_list([coq_string(i) for i in t[3]])})"
    if k == "filter":
        return f"(XFilter {rec(t[1])} {cond_coq(t[2], types)})"
    if k == "same":
        return f"(XSame {rec(t[2])})"
    if k == "sub":
        return f"(XSub {rec(t[1])} [({coq_string(t[2])}, VInt {coq_z(t[3])})])"
    if k == "setviral":
        return f"(XSetViral {rec(t[1])} {coq_string(t[2])} {cval(t[3], types[t[2]])})" if t[2] == attr else f"(XSame {rec(t[1])})"
    if k == "dropviral":
        return f"(XDropViral {rec(t[1])})" if t[2] == attr else f"(XSame {rec(t[1])})"
    if k == "set":
        op = {"union": "SoUnion", "intersect": "SoIntersect", "setdiff": "SoSetdiff", "symdiff": "SoSymdiff"}[t[1]]
        return f"(XSet {op} {rec(t[2])} {rec(t[3])})"
    if k == "checkall":
        return f"(XCheckAll \"r1\" {rec(t[1])})"
    raise ValueError(k)


def uses(t, kind) -> bool:
    if not isinstance(t, list):
        return False
    if t and t[0] == kind:
        return True
    return any(uses(x, kind) for x in t if isinstance(x, list))


def script_text(case) -> str:
    types = dict(case["attrs"])
    defs = "".join(rule_text(d, types.get(d["target"], d.get("typ", "String"))) for d in case["defs"])
    if any(uses(t, "checkall") for _, t in case["stmts"]):
        defs += DPR
    n = len(case["stmts"])
    body = "".join(f"{name} {'<-' if i == n - 1 else ':='} {text(t)};\n" for i, (name, t) in enumerate(case["stmts"]))
    return body + defs if case.get("defs_last") else defs + body


def stmts_coq(case, attr) -> str:
    env_ids = {n: d["ids"] for n, d in case["inputs"].items()}
    items = []
    for name, t in case["stmts"]:
        items.append(f"({coq_string(name)}, {coq(t, attr, case, env_ids)})")
        env_ids[name] = tree_ids(t, case, env_ids)
    return coq_list(items)


def model_expr(case, attr) -> str:
    """one Gallina term: [engine fold (= specification) on order 1; fold-before-the-fix on order 1; on order 2] for one attribute"""
    types = dict(case["attrs"])
    defs = coq_list([f"({coq_string(d['target'])}, {rule_coq(d['rule'], types.get(d['target'], d.get('typ', 'String')))})" for d in case["defs"]])
    nonnum = [a for a, t in case["attrs"] if t != "Integer"]
    numeric = f"(fun n => negb (mem_s n {coq_list([coq_string(a) for a in nonnum])}))"
    ss = stmts_coq(case, attr)
    res = coq_string(case["stmts"][-1][0])
    e1, e2 = env_coq(case, attr, None), env_coq(case, attr, case["perm2"])
    return (f"(let e1 := {e1} in let dfs := {defs} in let ss := {ss} in let nu := {numeric} in "
            f"[vrun false nu dfs e1 ss {res}; vrun true nu dfs e1 ss {res}; vrun true nu dfs {e2} ss {res}])")


# ------------------------------------------------------------------ case construction
def make_case(rng, malformed: Optional[str] = None) -> Optional[dict]:
    two = rng.random() < 0.25
    t1 = rng.choice(["String", "String", "Integer"])
    attrs = [["VAt_1", t1]] + ([["VAt_2", "Integer" if t1 == "String" else "String"]] if two else [])
    case: Dict[str, Any] = {"attrs": attrs, "defs_last": rng.random() < 0.1}
    case["inputs"] = gen_inputs(rng, attrs)
    case["defs"] = [{"name": f"R{i + 1}", "target": a, "rule": gen_rule(rng, t)} for i, (a, t) in enumerate(attrs)]
    if not two and rng.random() < 0.3:                    # a second rule, for a variable no dataset carries
        case["defs"].insert(rng.choice([0, 1]), {"name": "R9", "target": "VAt_9", "typ": "String", "rule": gen_rule(rng, "String")})
    g = Gen(rng, case)
    leaves = {n: Info(d["ids"], d["viral"]) for n, d in case["inputs"].items()}
    stmts = []
    k = rng.choice([1, 1, 2, 2, 3])
    for i in range(k):
        final = i == k - 1
        out = g.gen(leaves, rng.choice([1, 1, 2]), final)
        if out is None:
            return None
        name = "DS_r" if final else f"T_{i + 1}"
        stmts.append([name, out[0]])
        leaves = dict(leaves)
        leaves[name] = out[1]
    case["stmts"] = stmts
    case["perm2"] = {}
    for n, d in case["inputs"].items():
        idx = list(range(len(d["rows"])))
        if rng.random() < 0.5:
            idx.reverse()
        else:
            rng.shuffle(idx)
        case["perm2"][n] = idx
    case["hist"] = g.hist
    if malformed:
        mutate(rng, case, malformed)
    return case


def mutate(rng, case, how):
    """the malformed stream: each mutation has one expected semantic error"""
    case["malformed"] = how
    main = [d for d in case["defs"] if d["target"] == case["attrs"][0][0]][0]
    if how == "no-rule":
        case["defs"] = [d for d in case["defs"] if d is not main]
    elif how == "dup-clause":
        r = main["rule"]
        if r["kind"] != "enum":
            main["rule"] = r = {"kind": "enum", "clauses": [[[ALPHA[case["attrs"][0][1]][0]], ALPHA[case["attrs"][0][1]][1]]], "default": None, "else": False}
        c = r["clauses"][0]
        r["clauses"].append([list(reversed(c[0])), rng.choice(ALPHA[case["attrs"][0][1]])])
    elif how == "dup-rule":
        case["defs"].append({"name": "R8", "target": main["target"], "rule": gen_rule(rng, case["attrs"][0][1])})
    elif how == "sum-avg-string":
        case["attrs"][0][1] = "String"
        for d in case["inputs"].values():
            for row in d["rows"]:
                if "VAt_1" in row[1] and row[1]["VAt_1"] is not None:
                    row[1]["VAt_1"] = rng.choice(ALPHA["String"])
        main["rule"] = {"kind": "agg", "fn": rng.choice(["sum", "avg"])}
        for _, t in case["stmts"]:
            _retype(t)


def _retype(t):
    if isinstance(t, list):
        if t and t[0] == "filter" and t[2][0] == "viral":
            t[2] = ["id", "Id_1", "=", 1]
        if t and t[0] == "setviral" and isinstance(t[3], int):
            t[3] = "A"
        for x in t:
            _retype(x)


def case_json(case) -> dict:
    return {k: case[k] for k in ("attrs", "defs", "defs_last", "inputs", "stmts", "perm2") if k in case} | \
           ({"malformed": case["malformed"]} if "malformed" in case else {})


# ------------------------------------------------------------------ running and canonical forms
def num(v):
    """numeric viral values as Fractions (the engine returns int, 'p/q', Decimal-like strings)"""
    if v is None or isinstance(v, bool):
        return v
    if isinstance(v, (int, Fraction)):
        return Fraction(v)
    if isinstance(v, float):
        return Fraction(v).limit_denominator(10 ** 6)
    if isinstance(v, str):
        try:
            return Fraction(v).limit_denominator(10 ** 6)
        except Exception:
            return ("STR", v)
    return ("?", str(v))


def run_engine(case, order=None) -> dict:
    structs, dps = inputs_engine(case, order)
    return engine.run_case(script_text(case), structs, dps)


def engine_view(res: dict, case, attr: str):
    """('err', kind, code) | ('ok', ids, has_attr, sorted rows [(key.., value)]) | ('missing-column', ids) for one viral attribute"""
    if not res["ok"]:
        return ("err", res["err"][0], res["err"][1])
    name = case["stmts"][-1][0]
    d = res["datasets"].get(name)
    if d is None:
        return ("err", "NoResult", name)
    types = dict(case["attrs"])
    comps = [c[0] for c in d["comps"]]
    ids = sorted(c[0] for c in d["comps"] if c[1] == "Identifier")
    declared = attr in comps
    cols = d["data_cols"] or []
    if declared and attr not in cols:
        return ("missing-column", ids)
    present = [c for c in comps if c in cols]
    rows = []
    for r in d["rows"]:
        rec = dict(zip(present, r))
        key = tuple(rec[i] for i in ids)
        if declared:
            v = rec[attr]
            v = num(v) if types[attr] == "Integer" else v
            rows.append(key + (v,))
        else:
            rows.append(key)
    rows.sort(key=lambda x: tuple((y is None, str(type(y).__name__), str(y)) for y in x))
    return ("ok", ids, declared, rows)


def model_view(parsed, attr: str, types):
    if parsed[0] == "Err":
        return ("err", "Model", parsed[1][1] if isinstance(parsed[1], tuple) else str(parsed[1]))
    d = parsed[1]
    ids = [x[1] for x in d["d_ids"]]
    ms = [x[1] for x in d["d_ms"]]
    order = sorted(range(len(ids)), key=lambda i: ids[i])
    rows = []
    for k, m in d["d_rows"]:
        key = tuple(_pyval(k[i]) for i in order)
        if ms:
            v = _pyval(m[0])
            if types[attr] == "Integer":
                v = num(v)
            rows.append(key + (v,))
        else:
            rows.append(key)
    rows.sort(key=lambda x: tuple((y is None, str(type(y).__name__), str(y)) for y in x))
    return ("ok", sorted(ids), bool(ms), rows)


def _pyval(t):
    if t == "VNull":
        return None
    tag = t[0]
    if tag == "VInt":
        return int(t[1])
    if tag == "VNum":
        q = t[1]
        return Fraction(q[1], q[2]) if isinstance(q, tuple) and q[0] == "Q" else Fraction(q)
    if tag == "VStr":
        return t[1][1] if isinstance(t[1], tuple) else str(t[1])
    if tag == "VBool":
        return bool(t[1])
    raise ValueError(t)


def same_view(e, m) -> bool:
    """engine view vs model view: same outcome (errors by code; datasets by identifiers, attribute presence and datapoints)"""
    if e[0] == "err" or m[0] == "err":
        return e[0] == "err" and m[0] == "err" and e[2] == m[2]
    if e[0] != "ok":
        return False
    return e[1] == m[1] and e[2] == m[2] and [tuple(x) for x in e[3]] == [tuple(x) for x in m[3]]


# ------------------------------------------------------------------ engine pool
def _worker_init():
    import os
    os.environ["MEANINGFUL_DATA_VTLENGINE_VERIF"] = "1"
    engine.install(need_parser=True)


def _strip(res: dict) -> dict:
    res = dict(res)
    res.pop("exc", None)
    return res


def run_orders(cj: dict) -> dict:
    """worker: the engine on the generated order and on the second order (and, on request, on further orders)"""
    try:
        out = {"e1": _strip(run_engine(cj)), "e2": _strip(run_engine(cj, cj["perm2"]))}
        for tag, order in (cj.get("extra_orders") or {}).items():
            out[tag] = _strip(run_engine(cj, order))
        return out
    except Exception as e:  # the harness must not hide a case
        import traceback
        return {"harness_error": f"{type(e).__name__}: {e}", "tb": traceback.format_exc()[-1500:]}


class EnginePool:
    def __init__(self, workers=8):
        import multiprocessing as mp
        from concurrent.futures import ProcessPoolExecutor
        self.ex = ProcessPoolExecutor(max_workers=workers, mp_context=mp.get_context("spawn"), initializer=_worker_init)

    def map(self, jobs, timeout=3600):
        futs = [self.ex.submit(run_orders, j) for j in jobs]
        return [f.result(timeout=timeout) for f in futs]

    def close(self):
        self.ex.shutdown(wait=False, cancel_futures=True)


# ------------------------------------------------------------------ verdicts
def sites(case) -> List[str]:
    """operator classes of the script whose enumerated fold depends on the physical order"""
    s = set()
    for _, t in case["stmts"]:
        for k in ("aggr", "analytic"):
            if uses(t, k):
                s.add("aggregation" if k == "aggr" else "analytic")
    return sorted(s)


def has_int_enum(case) -> bool:
    types = dict(case["attrs"])
    return any(d["rule"]["kind"] == "enum" and types.get(d["target"], d.get("typ")) == "Integer" for d in case["defs"])


def canonical_order(case, attr) -> Dict[str, List[int]]:
    """every input sorted by the viral value in canonical order (ascending, nulls last): under a physical-order fold
    the engine then computes the specification"""
    out = {}
    for n, d in case["inputs"].items():
        idx = list(range(len(d["rows"])))
        idx.sort(key=lambda i: (d["rows"][i][1].get(attr) is None, str(type(d["rows"][i][1].get(attr)).__name__), d["rows"][i][1].get(attr) if d["rows"][i][1].get(attr) is not None else 0))
        out[n] = idx
    return out


def _diff(a, b, n=4):
    sa, sb = [tuple(x) for x in a], [tuple(x) for x in b]
    return {"only_engine": [x for x in sa if x not in sb][:n], "only_model": [x for x in sb if x not in sa][:n]}


def judge(case, eng: dict, models: Dict[str, list]) -> List[dict]:
    """Compares the engine's two runs with the model, per viral attribute.
    models[attr] = [engine fold = specification, fold before the fix on order 1, on order 2] (parsed Coq values).
    Returns a list of findings {"key", "what", "attr", …}; empty = the case agrees with the specification."""
    types = dict(case["attrs"])
    if "harness_error" in eng:
        return [{"key": "harness-error", "what": eng["harness_error"] + " " + eng.get("tb", ""), "attr": None, "tie": True}]
    views = {a: [model_view(m, a, types) for m in models[a]] for a, _ in case["attrs"]}
    site = "+".join(sites(case)) or "none"
    # ---- outcomes that are errors (an error concerns the whole script, not one attribute)
    spec_errs = [v[0][2] for v in views.values() if v[0][0] == "err"]
    r1, r2 = eng["e1"], eng["e2"]
    if spec_errs or not r1["ok"] or not r2["ok"]:
        bad = r1 if not r1["ok"] else r2
        if not r1["ok"] and not r2["ok"] and r1["err"] == r2["err"] and r1["err"][1] in spec_errs:
            return []
        if r1["ok"] and r2["ok"]:
            return [{"key": f"missing-error:{spec_errs[0]}", "attr": None,
                     "what": f"engine returns a dataset; the model expects the semantic error {spec_errs[0]}"}]
        kind, code = bad["err"]
        msg = bad.get("msg", "")[:220]
        if spec_errs:
            return [{"key": f"error-differs:{kind}:{code}:model-{spec_errs[0]}", "attr": None,
                     "what": f"engine raises {kind} {code} ({msg}), the model expects error {spec_errs[0]}"}]
        if (kind, code) == ("RawPython", "AttributeError") and has_int_enum(case) and "replace" in msg:
            return [{"key": "enum-nonstring-constant:AttributeError", "attr": None,
                     "what": "an enumerated rule written with Integer constants makes every statement that applies it raise a raw "
                             "AttributeError ('int' object has no attribute 'replace', ViralPropagation/sql.py::_sql_literal)"}]
        if kind == "Runtime" and "Binder Error" in msg and any(a in msg for a in types):
            return [{"key": "viral-column-not-emitted:binder-error", "attr": None,
                     "what": "a dataset-level operator nested under an operator or clause that removes / re-reads the viral attribute does not "
                             f"emit the viral column and the outer query fails in DuckDB ({msg})"}]
        if kind == "Runtime" and "Could not convert string" in msg and "to INT32" in msg:
            return [{"key": "null-valued-viral-column-of-intermediate-result-typed-int32", "attr": None,
                     "what": "a rule that yields null (e.g. `when \"B\" then null`) makes the viral column of an INTERMEDIATE result all-NULL; DuckDB "
                             "materialises it with its default type for NULL (INT32) and a later statement that combines it with string values "
                             f"fails: {msg}"}]
        return [{"key": f"engine-error:{kind}:{code}:{err_site(case)}", "attr": None,
                 "what": f"engine raises {kind} {code} ({msg}); the propagation model gives a dataset"}]
    # ---- datasets
    out = []
    for attr, _ in case["attrs"]:
        spec, i1, i2 = views[attr]
        e1, e2 = engine_view(r1, case, attr), engine_view(r2, case, attr)
        if same_view(e1, spec) and same_view(e2, spec):
            continue
        if e1[0] == "missing-column" or e2[0] == "missing-column":
            out.append({"key": "viral-column-missing:" + missing_site(case), "attr": attr,
                        "what": f"the result structure declares viral attribute {attr} but the result data has no such column"})
            continue
        if e1[0] != "ok" or e2[0] != "ok":
            out.append({"key": f"no-result:{top_kind(case)}", "attr": attr, "what": f"engine returned no usable result: {e1[:3]}"})
            continue
        if e1[1] != spec[1] or e1[2] != spec[2]:
            out.append({"key": f"structure-differs:{top_kind(case)}", "attr": attr,
                        "what": f"identifiers / presence of {attr} differ: engine {e1[1]} {e1[2]}, model {spec[1]} {spec[2]}"})
            continue
        if not same_view(e1, e2):
            # the property predicate itself: two orders of the same input datapoints give different viral values
            explained = same_view(e1, i1) and same_view(e2, i2)
            out.append({"key": f"enum-fold-order:{site}", "attr": attr, "explained_by_impl": explained, "direct": True,
                        "what": f"the result depends on the physical order of the input datapoints ({site})"
                                + (": the engine behaves like the fold BEFORE the fix (list_reduce(list(col)) without ORDER BY)" if explained
                                   else " [not reproduced by the physical-order fold either]"),
                        "diff": _diff(e1[3], e2[3])})
            continue
        # the same result on both orders, different from the specification
        if same_view(e1, i1) and same_view(e2, i2):
            out.append({"key": f"enum-fold-order:{site}", "attr": attr, "explained_by_impl": True, "direct": False,
                        "what": f"the engine's value is the fold BEFORE the fix (physical order), not the sorted fold of the specification ({site})",
                        "diff": _diff(e1[3], spec[3])})
            continue
        if any(nested_op(t) for _, t in case["stmts"]):
            out.append({"key": "nested-operand:viral-of-nested-operand-ignored", "attr": attr,
                        "what": f"the viral attribute {attr} of a dataset-level operator used as an operand is ignored by the outer operator "
                                f"(its structure is rebuilt from identifiers and measures only): {_diff(e1[3], spec[3])}", "diff": _diff(e1[3], spec[3])})
            continue
        out.append({"key": f"disagree:{top_kind(case)}:{site}", "attr": attr,
                    "what": f"engine and propagation model differ on attribute {attr}: {_diff(e1[3], spec[3])}", "diff": _diff(e1[3], spec[3])})
    return out


def nested_bin(t, under=False) -> bool:
    """a dataset∘dataset operator used as an operand of another operator"""
    if not isinstance(t, list) or not t or not isinstance(t[0], str):
        return False
    if t[0] == "bin" and under:
        return True
    kids = t[2] if t[0] == "join" else [x for x in t[1:] if isinstance(x, list)]
    return any(nested_bin(k, under or t[0] in ("bin", "un", "join", "aggr", "analytic", "set", "checkall", "dropviral", "filter", "same", "sub"))
               for k in kids if isinstance(k, list))


def nested_op(t, under=False) -> bool:
    """a dataset-level operator (not a clause over a variable) used as the operand of another operator or clause"""
    if not isinstance(t, list) or not t or not isinstance(t[0], str):
        return False
    if t[0] in ("bin", "un", "aggr", "join", "checkall", "analytic", "set") and under:
        return True
    kids = t[2] if t[0] == "join" else [x for x in t[1:] if isinstance(x, list)]
    return any(nested_op(k, True) for k in kids if isinstance(k, list))


def missing_site(case) -> str:
    if any(nested_op(t) for _, t in case["stmts"]):
        return "nested-operand"
    return top_kind(case)


def top_kind(case) -> str:
    return case["stmts"][-1][1][0]


def err_site(case) -> str:
    ks = []
    for _, t in case["stmts"]:
        ks.append(_shape(t, 2))
    return "|".join(ks)[:80]


def _shape(t, depth) -> str:
    if t[0] == "var" or depth == 0:
        return "_"
    kids = [x for x in t[1:] if isinstance(x, list) and x and isinstance(x[0], str) and x[0] in
            ("var", "bin", "un", "join", "aggr", "analytic", "filter", "same", "sub", "setviral", "dropviral", "set", "checkall")]
    if t[0] == "join":
        kids = t[2]
    return t[0] + "(" + ",".join(_shape(k, depth - 1) for k in kids) + ")"
