"""The upstream test corpus as runnable cases: /repo/tests/**/data/vtl/<code>.vtl with its input structures
(data/DataStructure/input/<code>-<i>.json) and datapoints (data/DataSet/input/<code>-<i>.csv).  Used by the model-free
predicates of C10/C12/C14/C15/C22/C32/C33.  Cases whose inputs cannot be located (inline-text tests, value domains, external
routines) are skipped and counted."""
from __future__ import annotations

import json
import re
from pathlib import Path
from typing import Dict, Iterator, List, Optional

from common import REPO

TESTS = REPO / "tests"


class Case:
    def __init__(self, cid: str, script: str, structures: List[dict], datapoints: Dict[str, Path], vd: Optional[list] = None):
        self.id, self.script, self.structures, self.datapoints, self.vd = cid, script, structures, datapoints, vd

    def n_statements(self) -> int:
        return len([s for s in re.split(r";", self.script) if s.strip()])


def _num_key(p: Path):
    m = re.search(r"-(?:DS_)?(\d+)\.json$", p.name)
    return int(m.group(1)) if m else 0


def enumerate_cases(limit: Optional[int] = None, rng=None, dirs: Optional[List[str]] = None) -> List[Case]:
    out: List[Case] = []
    vtl_files = sorted(TESTS.rglob("data/vtl/*.vtl"))
    if dirs:
        vtl_files = [p for p in vtl_files if any(d in str(p) for d in dirs)]
    if rng is not None:
        vtl_files = list(vtl_files)
        rng.shuffle(vtl_files)
    for vf in vtl_files:
        base = vf.parent.parent  # …/data
        code = vf.stem
        sdir, ddir = base / "DataStructure" / "input", base / "DataSet" / "input"
        if not sdir.is_dir():
            continue
        js = sorted([p for p in sdir.glob(f"{code}-*.json") if re.fullmatch(re.escape(code) + r"-(?:DS_)?\d+\.json", p.name)], key=_num_key)
        if not js:
            continue
        structures, dps = [], {}
        ok = True
        for j in js:
            try:
                st = json.loads(j.read_text())
            except Exception:
                ok = False
                break
            structures.append(st)
            csv = ddir / (j.stem + ".csv")
            for d in st.get("datasets", []):
                if csv.exists():
                    dps[d["name"]] = csv
        if not ok:
            continue
        try:
            script = vf.read_text()
        except Exception:
            continue
        out.append(Case(str(vf.relative_to(TESTS)), script, structures, dps))
        if limit and len(out) >= limit:
            break
    return out


def run_corpus_case(c: Case, **kw):
    """engine.run_case on a corpus case (datapoints as CSV paths)"""
    import engine
    return engine.run_case(c.script, {"datasets": [d for s in c.structures for d in s.get("datasets", [])],
                                      **({"scalars": [x for s in c.structures for x in s.get("scalars", [])]}
                                         if any("scalars" in s for s in c.structures) else {})},
                           dict(c.datapoints), **kw)


if __name__ == "__main__":
    import engine
    import time
    engine.install(need_parser=True)
    cs = enumerate_cases()
    print(len(cs), "corpus cases with inputs")
    t = time.time()
    ok = err = 0
    kinds = {}
    for c in cs[:400]:
        r = run_corpus_case(c)
        if r["ok"]:
            ok += 1
        else:
            err += 1
            kinds[str(r["err"])] = kinds.get(str(r["err"]), 0) + 1
    print(ok, err, round(time.time() - t, 1), "s", sorted(kinds.items(), key=lambda x: -x[1])[:12])
