"""Makes `vtlengine` importable in this sandbox (the C++ parser extension cannot be built) and wraps the API.

install(): prefers the Java ATN front end (harness/frontend, real grammar from the repo's .cpp files); if that is not
available falls back to an inert stand-in module whose parse() raises (enough for every check that injects ASTs or
never parses)."""
from __future__ import annotations

import os
import sys
import types

_installed = None
MODNAME = "vtlengine.AST.Grammar._cpp_parser.vtl_cpp_parser"


def install(need_parser: bool = False) -> str:
    global _installed
    if _installed == "frontend" or (_installed == "stub" and not need_parser):
        return _installed
    if os.environ.get("VERIF_NO_FRONTEND") != "1":
        try:
            import frontend  # type: ignore
            frontend.install()
            _installed = "frontend"
            return _installed
        except Exception as e:  # pragma: no cover
            if need_parser:
                raise RuntimeError(f"parser front end unavailable: {type(e).__name__}: {e}")
    if MODNAME not in sys.modules:
        m = types.ModuleType(MODNAME)

        class ParseNode:  # noqa
            pass

        class TerminalNode:  # noqa
            pass

        def _no(*a, **k):
            raise RuntimeError("stand-in parser: parse() is not available in this check")

        m.ParseNode, m.TerminalNode = ParseNode, TerminalNode
        m.parse = _no
        m.get_input_text = lambda: ""
        m.get_comments = lambda: []
        m.get_syntax_error = lambda: None
        m.__getattr__ = lambda name: 0  # token constants
        sys.modules[MODNAME] = m
    _installed = "stub"
    return _installed
