"""Makes `vtlengine` importable in this sandbox (the C++ parser extension cannot be built) and wraps the API.

install(): prefers the Java ATN front end (harness/frontend, real grammar from the repo's .cpp files); if that is not
available falls back to an inert stand-in module whose parse() raises (enough for every check that injects ASTs or
never parses)."""
from __future__ import annotations

import os
import sys
import types

_installed = None
MODNAME = "vtlengine.AST.Grammar._cpp_parser.vtl_cpp_parser"


def install(need_parser: bool = False) -> str:
    global _installed
    if _installed == "frontend" or (_installed == "stub" and not need_parser):
        return _installed
    if os.environ.get("VERIF_NO_FRONTEND") != "1":
        try:
            import frontend  # type: ignore
            frontend.install()
            _installed = "frontend"
            return _installed
        except Exception as e:  # pragma: no cover
            if need_parser:
                raise RuntimeError(f"parser front end unavailable: {type(e).__name__}: {e}")
    if MODNAME not in sys.modules:
        m = types.ModuleType(MODNAME)

        class ParseNode:  # noqa
            pass

        class TerminalNode:  # noqa
            pass

        def _no(*a, **k):
            raise RuntimeError("stand-in parser: parse() is not available in this check")

        m.ParseNode, m.TerminalNode = ParseNode, TerminalNode
        m.parse = _no
        m.get_input_text = lambda: ""
        m.get_comments = lambda: []
        m.get_syntax_error = lambda: None
        m.__getattr__ = lambda name: 0  # token constants
        sys.modules[MODNAME] = m
    _installed = "stub"
    return _installed


# ----------------------------------------------------------------------------------------------
# Canonical API wrappers used by the correspondence checks
# ----------------------------------------------------------------------------------------------
from fractions import Fraction  # noqa: E402


def ds_struct(name, comps):
    """comps: [(name, type, role, nullable)] -> one entry of the VTL JSON 'datasets' list"""
    return {"name": name, "DataStructure": [{"name": n, "type": t, "role": r, "nullable": nl} for n, t, r, nl in comps]}


def structures(*dss, scalars=None):
    d = {"datasets": list(dss)}
    if scalars:
        d["scalars"] = scalars
    return d


def canon_value(v):
    """None | int | bool | str | 'p/q' exact rational string for floats/decimals (limit_denominator 10^6)."""
    import math
    import pandas as pd
    import numpy as np
    if v is None:
        return None
    try:
        if v is pd.NA or v is pd.NaT:
            return None
    except Exception:
        pass
    if isinstance(v, (bool, np.bool_)):
        return bool(v)
    if isinstance(v, (int, np.integer)):
        return int(v)
    if isinstance(v, (float, np.floating)):
        if math.isnan(v):
            return None
        if math.isinf(v):
            return "inf" if v > 0 else "-inf"
        f = Fraction(float(v)).limit_denominator(10 ** 6)
        return int(f) if f.denominator == 1 and False else f"{f.numerator}/{f.denominator}"
    try:
        import decimal
        if isinstance(v, decimal.Decimal):
            f = Fraction(v).limit_denominator(10 ** 6)
            return f"{f.numerator}/{f.denominator}"
    except Exception:
        pass
    if isinstance(v, pd.Timestamp):
        return str(v)
    return str(v) if not isinstance(v, str) else v


def canon_num(v):
    """numeric values (int or float) as exact 'p/q' strings, for columns typed Number"""
    c = canon_value(v)
    if isinstance(c, bool) or c is None or isinstance(c, str):
        return c
    return f"{c}/1"


def canon_dataset(ds):
    """vtlengine.Model.Dataset -> {'comps': [(name, role, type, nullable)], 'rows': sorted list of tuples} (column order = comps)"""
    comps = [(c.name, c.role.value if hasattr(c.role, "value") else str(c.role), c.data_type.__name__, bool(c.nullable))
             for c in ds.components.values()]
    rows = []
    if ds.data is not None:
        cols = [c[0] for c in comps if c[0] in ds.data.columns]
        numcols = {c[0] for c in comps if c[2] == "Number"}
        for rec in ds.data[cols].itertuples(index=False, name=None):
            rows.append(tuple(canon_num(v) if cols[i] in numcols else canon_value(v) for i, v in enumerate(rec)))
        rows.sort(key=lambda r: tuple((x is None, str(type(x).__name__), str(x)) for x in r))
        data_cols = list(ds.data.columns)
    else:
        data_cols = None
    return {"comps": comps, "rows": rows, "data_cols": data_cols}


def classify_error(e):
    """(kind, code): kind in Semantic, Runtime, DataLoad, InputValidation, Syntax, OtherVTL, RawDuckDB, RawPython"""
    import vtlengine.Exceptions as X
    code = e.args[1] if isinstance(e, X.VTLEngineException) and len(e.args) > 1 else None
    if isinstance(e, X.SemanticError):
        return ("Semantic", code)
    if isinstance(e, X.RunTimeError):
        return ("Runtime", code)
    if isinstance(e, X.DataLoadError):
        return ("DataLoad", code)
    if isinstance(e, X.InputValidationException):
        return ("InputValidation", code)
    if isinstance(e, X.VTLSyntaxError):
        return ("Syntax", None)
    if isinstance(e, X.VTLEngineException):
        return ("OtherVTL", code)
    try:
        import duckdb
        if isinstance(e, duckdb.Error):
            return ("RawDuckDB", type(e).__name__)
    except Exception:
        pass
    return ("RawPython", type(e).__name__)


def run_case(script, structs, datapoints, **kw):
    """Runs vtlengine.run and canonicalises: {'ok': True, 'datasets': {...}, 'scalars': {...}} | {'ok': False, 'err': (kind, code), 'msg': str}"""
    install(need_parser=True)
    import copy
    import vtlengine
    from vtlengine.Model import Dataset, Scalar
    try:
        res = vtlengine.run(script, copy.deepcopy(structs), {k: (v.copy() if hasattr(v, "copy") else v) for k, v in datapoints.items()}
                            if isinstance(datapoints, dict) else datapoints, **kw)
    except Exception as e:  # noqa
        return {"ok": False, "err": classify_error(e), "msg": str(e)[:500], "exc": e}
    out = {"ok": True, "datasets": {}, "scalars": {}}
    for k, v in res.items():
        if isinstance(v, Dataset):
            out["datasets"][k] = canon_dataset(v)
        elif isinstance(v, Scalar):
            out["scalars"][k] = (v.data_type.__name__, canon_num(v.value) if v.data_type.__name__ == "Number" else canon_value(v.value))
    return out


def semantic_case(script, structs, **kw):
    install(need_parser=True)
    import copy
    import vtlengine
    from vtlengine.Model import Dataset, Scalar
    try:
        res = vtlengine.semantic_analysis(script, copy.deepcopy(structs), **kw)
    except Exception as e:  # noqa
        return {"ok": False, "err": classify_error(e), "msg": str(e)[:500], "exc": e}
    out = {"ok": True, "datasets": {}, "scalars": {}}
    for k, v in res.items():
        if isinstance(v, Dataset):
            out["datasets"][k] = canon_dataset(v)["comps"]
        elif isinstance(v, Scalar):
            out["scalars"][k] = v.data_type.__name__
    return out
