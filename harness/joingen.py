"""C04 — generator and correspondence runner for join statements.

Generates scripts whose result statement is ONE join expression (inner/left/full/cross, 2-3 operands, with or without `using`,
aliases, trailing body of clauses) over generated inputs with controlled identifier configurations and key-overlap classes, runs
them on the real engine and evaluates the SAME case with Model/Join.v (`run_jscript`) inside Coq.  Body expressions come from
exprgen.CG; the structure after each clause is mirrored here only to *propose* clauses — whether a proposal is well-typed is asked
to the engine's own semantic analysis, and the final comparison is by the component names of the engine's result."""
from __future__ import annotations

import hashlib
import itertools
import json
from fractions import Fraction
from typing import Any, Dict, List, Optional, Tuple

import coqval as V
import engine
import exprgen as G
import exprk
from common import CORPUS, coq_eval, coq_list, coq_opt, coq_string

HEADER = ("From Coq Require Import ZArith QArith String List.\nImport ListNotations.\n"
          "From VTL Require Import Base.Val Model.Table Model.Scalar Model.Expr Model.Join.\nOpen Scope string_scope.\n")

KINDS = {"inner_join": "JInner", "left_join": "JLeft", "full_join": "JFull", "cross_join": "JCross"}
ID_DOM = {"Id_1": ("Integer", [1, 2, 3, 4]), "Id_2": ("String", ["A", "B", "C"]), "Id_3": ("Integer", [5, 6]),
          "K": ("Integer", [7, 8, 9])}
ALL_IDS = ["Id_1", "Id_2", "Id_3"]
# stable key of a defect repaired in /repo (fix 94e8b5c); not a known finding: its return is a VIOLATION
REGRESSION_FULL3 = "full_join:3-operands:key-missing-in-first-operand"


# ------------------------------------------------------------------ inputs
def _keys(rng, ids, base: Optional[set], cls: str):
    """key set over the identifiers `ids` in overlap class `cls` relative to `base` (keys of the first operand, projected)"""
    universe = list(itertools.product(*[ID_DOM[n][1] for n in ids]))
    if base is None:
        ks = [k for k in universe if rng.random() < 0.55]
        return ks or [rng.choice(universe)]
    base = [k for k in universe if k in base]
    rest = [k for k in universe if k not in base]
    if cls == "equal":
        return list(base)
    if cls == "disjoint":
        return [k for k in rest if rng.random() < 0.7]
    if cls == "superset":
        return list(base) + [k for k in rest if rng.random() < 0.6]
    ks = [k for k in base if rng.random() < 0.6] + [k for k in rest if rng.random() < 0.4]     # partial
    return ks


def _pick_ids(rng, k: int):
    chosen = rng.sample(ALL_IDS, k)
    return [n for n in ALL_IDS if n in chosen]


def _subset(rng, W):
    sub = [n for n in W if rng.random() < 0.55]
    return sub or [rng.choice(W)]


def id_sets_for(rng, n_ops: int, config: str):
    """identifier lists of the operands (each in the order of ALL_IDS) and the name of the arrangement.
    equal: one list for all; nested: one operand carries W (2-3 identifiers), every other one a non-empty subset of W (possibly W
    again, possibly sets that only overlap among themselves), in one of the orders widest-first / narrowest-first / any"""
    if config == "equal":
        ids = _pick_ids(rng, rng.choice([1, 2, 2, 3]))
        return [list(ids) for _ in range(n_ops)], f"equal{len(ids)}"
    if config == "nested":
        W = _pick_ids(rng, rng.choice([2, 2, 3]))
        sets = [list(W)] + [_subset(rng, W) for _ in range(n_ops - 1)]
        order = rng.choice(["widest-first", "narrowest-first", "narrowest-first", "any"])
        rest = sets[1:]
        rng.shuffle(rest)
        sets = [sets[0]] + rest
        if order == "narrowest-first":
            sets.sort(key=len)
        elif order == "any":
            rng.shuffle(sets)
        return sets, order
    if config == "using_measure":
        first = _pick_ids(rng, rng.choice([1, 2]))
        return [first] + [["K"] for _ in range(n_ops - 1)], "using_measure"
    full = _pick_ids(rng, rng.choice([1, 2, 2, 3]))      # using_ids
    return [list(full) for _ in range(n_ops)], f"using_ids{len(full)}"


def gen_inputs(rng, n_ops: int, config: str, max_rows: int = 12):
    """datasets DS_1..DS_n; returns (dss, meta).  config: equal | nested | using_measure | using_ids.
    The keys of every operand are drawn around the projections of ONE set of full keys, so that matches across any pair of operands
    are frequent and an operand with more identifiers has several datapoints per key of a narrower one"""
    dss, classes = {}, []
    pool = ["Me_1", "Me_2", "Me_3", "Me_4"]
    dup_mode = rng.choice(["dup", "dup", "distinct", "mixed"])
    id_sets, arrangement = id_sets_for(rng, n_ops, config)
    W = [n for n in ALL_IDS if any(n in s for s in id_sets)]
    universe = list(itertools.product(*[ID_DOM[n][1] for n in W]))
    base_full = [k for k in universe if rng.random() < 0.5] or [rng.choice(universe)]
    used = 0
    for i in range(1, n_ops + 1):
        ids = id_sets[i - 1]
        nm = rng.choice([1, 1, 2, 2, 3])
        if dup_mode == "dup":
            names = rng.sample(pool, nm)
        elif dup_mode == "distinct":
            names = [f"Me_{used + j + 1}{'abcd'[i - 1]}" for j in range(nm)]
            used += nm
        else:
            names = [rng.choice(pool[:2])] + [f"Me_{j + 5}{'abcd'[i - 1]}" for j in range(nm - 1)]
        ms = [(n, rng.choice(G.BASIC)) for n in names]
        if config == "using_measure" and i == 1:
            ms.append(("K", "Integer"))
        if config == "using_measure" and i > 1:
            keys = [k for k in itertools.product(ID_DOM["K"][1]) if rng.random() < 0.7]
            cls = "k-subset"
        else:
            cls = rng.choice(["equal", "equal", "equal", "partial", "partial", "partial", "superset", "superset", "superset", "disjoint"])
            proj = {tuple(k[W.index(n)] for n in ids) for k in base_full}
            keys = _keys(rng, ids, proj, cls)
        if len(keys) > max_rows:
            keys = rng.sample(keys, max_rows)
        rows = []
        for k in keys:
            vals = []
            for n, t in ms:
                if n == "K":
                    vals.append(rng.choice([7, 8, 9, 6, None]))
                else:
                    vals.append(G.gen_value(rng, t))
            rows.append((list(k), vals))
        rng.shuffle(rows)
        classes.append(cls)
        dss[f"DS_{i}"] = {"shape": G.Shape([(n, ID_DOM[n][0]) for n in ids], ms), "rows": rows}
    return dss, {"dup_mode": dup_mode, "overlap": classes, "arrangement": arrangement}


# ------------------------------------------------------------------ structure mirror (only used to propose clauses)
class Col:
    def __init__(self, name, typ, is_id, alias, orig):
        self.name, self.typ, self.is_id, self.alias, self.orig = name, typ, is_id, alias, orig


def join_structure(kind: str, using: Optional[List[str]], ops: List[Tuple[str, G.Shape]]) -> List[Col]:
    J: List[str] = []
    if kind != "cross_join":
        for n in (using or []) + [n for _, sh in ops for n, _ in sh.ids]:
            if n not in J:
                J.append(n)
    cols: List[Col] = []
    for n in J:
        holders = [(a, sh) for a, sh in ops if n in sh.cols()]
        if not holders:
            continue
        is_id = all(n in dict(sh.ids) for _, sh in holders)
        cols.append(Col(n, holders[0][1].cols()[n], is_id, None, n))
    count: Dict[str, int] = {}
    for _, sh in ops:
        for n, _ in sh.ids + sh.ms:
            if n not in J:
                count[n] = count.get(n, 0) + 1
    for a, sh in ops:
        for n, t in sh.ids + sh.ms:
            if n in J:
                continue
            cols.append(Col(f"{a}#{n}" if count[n] >= 2 else n, t, n in dict(sh.ids), a, n))
    return cols


def unqual(n: str) -> str:
    return n.split("#", 1)[1] if "#" in n else n


def clashes(cols: List[Col]) -> List[List[Col]]:
    by: Dict[str, List[Col]] = {}
    for c in cols:
        by.setdefault(unqual(c.name), []).append(c)
    return [v for v in by.values() if len(v) > 1]


# ------------------------------------------------------------------ clauses
def ref_spelling(rng, c: Col) -> str:
    """how a body refers to component c: qualified components by their qualified name; unique ones bare or `alias#name`"""
    if "#" in c.name or c.alias is None or c.name != c.orig:
        return c.name
    return f"{c.alias}#{c.name}" if rng.random() < 0.3 else c.name


def coq_clause(cl) -> str:
    k = cl[0]
    if k == "filter":
        return f"(JFilter {cl[2]})"
    if k == "calc":
        return "(JCalc " + coq_list([f"({coq_string(n)}, {e})" for n, _, e in cl[1]]) + ")"
    if k in ("keep", "drop"):
        return f"({'JKeep' if k == 'keep' else 'JDrop'} {coq_list([coq_string(s) for s in cl[1]])})"
    return "(JRename " + coq_list([f"({coq_string(o)}, {coq_string(n)})" for o, n in cl[1]]) + ")"


def vtl_clause(cl) -> str:
    k = cl[0]
    if k == "filter":
        return f"filter {cl[1]}"
    if k == "calc":
        return "calc " + ", ".join(f"{n} := {v}" for n, v, _ in cl[1])
    if k in ("keep", "drop"):
        return f"{k} " + ", ".join(cl[1])
    return "rename " + ", ".join(f"{o} to {n}" for o, n in cl[1])


class Fresh:
    """supply of component names not used by any input"""

    def __init__(self):
        self.n = 0

    def pop(self):
        self.n += 1
        return f"Z_{self.n}"

    def peek(self, k):
        return [f"Z_{self.n + 1 + i}" for i in range(k)]


def propose_clause(rng, kind: str, cols: List[Col], hist: Dict[str, int], fresh: "Fresh"):
    """(clause, new cols) or None.  clause = (kind, payload…) carrying both the VTL text pieces and the Coq pieces"""
    spell = {ref_spelling(rng, c): c for c in cols}
    env = {s: c.typ for s, c in spell.items()}
    nonid = [c for c in cols if not c.is_id]
    if kind == "filter":
        cg = G.CG(rng, env)
        v, q = cg.gen("Boolean", rng.choice([1, 2, 2, 3]))
        _merge(hist, cg.hist)
        return ("filter", v, q), cols
    if kind == "calc":
        cg = G.CG(rng, env)
        defs, new = [], list(cols)
        for _ in range(rng.choice([1, 1, 2])):
            unq = [c for c in nonid if "#" not in c.name]
            tgt = rng.choice([c.name for c in unq]) if unq and rng.random() < 0.35 else fresh.pop()
            if tgt in [d[0] for d in defs]:
                continue
            t = rng.choice(G.BASIC)
            v, q = cg.gen(t, rng.choice([1, 2, 2, 3]))
            defs.append((tgt, v, q))
            if tgt in [c.name for c in new]:
                new = [Col(c.name, t, c.is_id, c.alias, c.orig) if c.name == tgt else c for c in new]
            else:
                new = new + [Col(tgt, t, False, None, tgt)]
        if not defs:
            return None
        _merge(hist, cg.hist)
        return ("calc", defs), new
    if kind in ("keep", "drop"):
        if not nonid:
            return None
        k = rng.randrange(1, len(nonid) + 1)
        sel = rng.sample(nonid, k)
        if kind == "drop" and len(sel) == len(nonid):
            sel = sel[:-1]
        if not sel:
            return None
        names = [ref_spelling(rng, c) for c in sel]
        chosen = {c.name for c in sel}
        new = [c for c in cols if c.is_id or ((c.name in chosen) == (kind == "keep"))]
        return (kind, names), new
    # rename
    cands = cols if rng.random() < 0.25 else nonid
    if not cands:
        return None
    sel = rng.sample(cands, min(len(cands), rng.choice([1, 1, 2])))
    pairs, new = [], list(cols)
    for c in sel:
        nn = fresh.pop()
        pairs.append((ref_spelling(rng, c), nn))
        new = [Col(nn, x.typ, x.is_id, None, nn) if x is c else x for x in new]
    if not pairs:
        return None
    return ("rename", pairs), new


def fix_clause(rng, cols: List[Col], fresh: "Fresh", mode: str):
    """a clause of kind `mode` after which no two components unqualify to the same name (None when impossible)"""
    cl = clashes(cols)
    if not cl:
        return None
    ids_clash = any(c.is_id for g in cl for c in g)
    if ids_clash and mode != "rename":
        return None
    if mode == "rename":
        pairs, new = [], list(cols)
        for g in cl:
            keep_one = rng.randrange(len(g)) if rng.random() < 0.6 else None
            for i, c in enumerate(g):
                if i == keep_one:
                    continue
                nn = fresh.pop()
                pairs.append((c.name, nn))
                new = [Col(nn, x.typ, x.is_id, None, nn) if x is c else x for x in new]
        return ("rename", pairs), new
    victims = []
    for g in cl:
        keep_one = rng.randrange(len(g))
        victims += [c for i, c in enumerate(g) if i != keep_one]
    if mode == "drop":
        return ("drop", [c.name for c in victims]), [c for c in cols if c not in victims]
    kept = [c for c in cols if not c.is_id and c not in victims]
    if not kept:
        return None
    return ("keep", [ref_spelling(rng, c) for c in kept]), [c for c in cols if c.is_id or c in kept]


def _merge(h, other, prefix="c:"):
    for k, v in other.items():
        h[prefix + k] = h.get(prefix + k, 0) + v


# ------------------------------------------------------------------ case construction
def join_text(kind, ops_txt, using, body) -> str:
    s = f"{kind}({', '.join(ops_txt)}"
    if using:
        s += " using " + ", ".join(using)
    for cl in body:
        s += " " + vtl_clause(cl)
    return s + ")"


def join_coq(kind, ops, using, body) -> str:
    us = coq_opt(coq_list([coq_string(u) for u in using]) if using is not None else None)
    return (f"(SJoin {KINDS[kind]} {us} {coq_list([f'({coq_string(a)}, {coq_string(n)})' for a, n in ops])} "
            f"{coq_list([coq_clause(c) for c in body])})")


JOIN_CODES_MODELLED = {"1-1-13-9", "1-1-13-8", "1-1-13-13", "1-1-13-12", "1-1-13-11", "1-1-13-4", "1-1-13-6", "1-1-1-10"}


def make_case(rng, malformed=False, tries=30):
    for _ in range(tries):
        n_ops = rng.choice([2, 2, 3, 3, 3, 4])
        if malformed:
            config = rng.choice(["equal", "equal", "nested", "nested", "using_measure", "using_ids"])
            kind = rng.choice(list(KINDS))
        else:
            config = rng.choice(["equal", "equal", "nested", "nested", "nested", "using_measure", "using_ids"])
            kind = {"equal": ["inner_join", "left_join", "full_join", "full_join", "cross_join"],
                    "nested": ["inner_join", "inner_join", "inner_join", "left_join", "left_join", "cross_join"],
                    "using_measure": ["inner_join", "left_join"], "using_ids": ["inner_join", "left_join"]}[config]
            kind = rng.choice(kind)
        # row caps keep products (cross joins, and inner joins on few keys) small enough to evaluate in Coq
        cap = {2: 12, 3: 8, 4: 5}[n_ops] if kind != "cross_join" else {2: 8, 3: 5, 4: 3}[n_ops]
        dss, meta = gen_inputs(rng, n_ops, config, max_rows=cap)
        names = list(dss)
        if config == "nested" and kind == "left_join" and not malformed:
            names.sort(key=lambda n: -len(dss[n]["shape"].ids))      # the operand carrying every identifier first (stable)
        using = None
        if config == "using_measure":
            using = ["K"]
        elif config == "using_ids":
            using = [n for n, _ in dss["DS_1"]["shape"].ids]
            rng.shuffle(using)
        if malformed and rng.random() < 0.4:
            using = rng.choice([None, ["Id_1"], ["Id_2"], ["K"], ["Id_1", "Id_2"], ["Me_1"]])
        structs, dps = G.inputs_engine(dss)
        hist: Dict[str, int] = {}
        stmts = []   # (name, vtl, coq, is_result)
        shapes = {n: d["shape"] for n, d in dss.items()}
        prefix = ""
        # optionally one operand is an intermediate dataset produced by a clause statement
        if rng.random() < 0.2:
            dg = G.DG(rng, dss, structs)
            src = rng.choice(names)
            out = dg.clause((src, f"(DVar {coq_string(src)})", shapes[src]))
            if out is not None and [n for n, _ in out[2].ids] == [n for n, _ in shapes[src].ids]:
                stmts.append(("T_1", out[0], f"(SExpr {out[1]})", False))
                shapes["T_1"] = out[2]
                names[names.index(src)] = "T_1"
                prefix = f"T_1 := {out[0]};\n"
                hist["pre-clause-operand"] = 1
        ops, ops_txt = [], []
        alias_mode = rng.choice(["all", "all", "none", "some"])
        for i, n in enumerate(names):
            al = alias_mode == "all" or (alias_mode == "some" and rng.random() < 0.5)
            a = f"d{i + 1}" if al else n
            ops.append((a, n))
            ops_txt.append(f"{n} as {a}" if al else n)
        cols = join_structure(kind, using, [(a, shapes[n]) for a, n in ops])
        fresh = Fresh()
        body: List[Any] = []
        rejected = 0
        # the grammar fixes the order of the body: [filter] [calc] [keep|drop] [rename], each at most once
        slots = [k for k, p in (("filter", 0.4), ("calc", 0.4), ("keepdrop", 0.35), ("rename", 0.35)) if rng.random() < p]
        resolve = rng.random() < (0.5 if malformed else 0.9)
        while len(slots) > 3:
            slots.remove(rng.choice(slots))

        def accept(cl):
            nonlocal rejected
            txt = join_text(kind, ops_txt, using, body + [cl])
            r = engine.semantic_case(f"{prefix}DS_t <- {txt};", structs)
            if not r["ok"] and not (r["err"][0] == "Semantic" and r["err"][1] in JOIN_CODES_MODELLED and r["err"][1] != "1-1-1-10"):
                rejected += 1
                return False
            return True

        for slot in ("filter", "calc"):
            if slot in slots:
                for _ in range(4):
                    p = propose_clause(rng, slot, cols, hist, fresh)
                    if p is not None and accept(p[0]):
                        body.append(p[0])
                        cols = p[1]
                        break
        # the homonyms still present must be resolved by the keep/drop slot or by the rename slot
        fix_mode = None
        if resolve and clashes(cols):
            ids_clash = any(c.is_id for g in clashes(cols) for c in g)
            fix_mode = "rename" if ids_clash else rng.choice(["rename", "rename", "drop", "keep"])
        if fix_mode in ("drop", "keep"):
            f = fix_clause(rng, cols, fresh, fix_mode)
            if f is None:
                fix_mode = "rename"
            else:
                body.append(f[0])
                cols = f[1]
        elif "keepdrop" in slots and len(body) < (2 if fix_mode == "rename" else 3):
            for _ in range(4):
                p = propose_clause(rng, rng.choice(["keep", "drop"]), cols, hist, fresh)
                if p is not None and accept(p[0]):
                    body.append(p[0])
                    cols = p[1]
                    break
        if fix_mode == "rename" and clashes(cols):
            f = fix_clause(rng, cols, fresh, "rename")
            if f is not None:
                cl, new_cols = f
                if "rename" in slots and rng.random() < 0.5:      # plus a renaming that is not needed
                    extra = [c for c in new_cols if not c.is_id and c.name not in [n for _, n in cl[1]] and "#" not in c.name]
                    if extra:
                        c = rng.choice(extra)
                        nn = fresh.pop()
                        cl = ("rename", cl[1] + [(ref_spelling(rng, c), nn)])
                        new_cols = [Col(nn, x.typ, x.is_id, None, nn) if x is c else x for x in new_cols]
                body.append(cl)
                cols = new_cols
        elif "rename" in slots and len(body) < 3:
            for _ in range(4):
                p = propose_clause(rng, "rename", cols, hist, fresh)
                if p is not None and accept(p[0]):
                    body.append(p[0])
                    cols = p[1]
                    break
        txt = join_text(kind, ops_txt, using, body)
        r = engine.semantic_case(f"{prefix}DS_t <- {txt};", structs)
        if not r["ok"]:
            code = r["err"][1] if r["err"][0] == "Semantic" else None
            if code not in JOIN_CODES_MODELLED:
                continue          # not a join rule (typing of a body expression …): outside the model
            if not malformed and code != "1-1-13-9" and rng.random() < 0.8:
                continue
        elif malformed and rng.random() < 0.7:
            continue
        stmts.append(("DS_r", txt, join_coq(kind, ops, using, body), True))
        script = "".join(f"{n} {'<-' if last else ':='} {v};\n" for n, v, _, last in stmts)
        coq = "[" + "; ".join(f"({coq_string(n)}, {c})" for n, _, c, _ in stmts) + "]"
        for cl in body:
            hist["clause:" + cl[0]] = hist.get("clause:" + cl[0], 0) + 1
        feat = {"kind": kind, "n_ops": n_ops, "config": config, "using": using is not None, "alias": alias_mode,
                "dup_mode": meta["dup_mode"], "overlap": meta["overlap"], "body_len": len(body), "arrangement": meta["arrangement"],
                "first_lacks_shared_id": _first_lacks_shared(ops, shapes),
                "dup_names": any("#" in c.name for c in join_structure(kind, using, [(a, shapes[n]) for a, n in ops])),
                "semantic": "ok" if r["ok"] else r["err"][1]}
        return {"dss": dss, "structs": structs, "dps": dps, "script": script, "coq": coq, "hist": hist, "rejected": rejected,
                "feat": feat, "parts": {"kind": kind, "ops": ops, "ops_txt": ops_txt, "using": using, "body": body,
                                        "pre": [s for s in stmts if not s[3]]}}
    return None


def _first_lacks_shared(ops, shapes) -> bool:
    """an identifier missing in the first operand is shared by two later operands (the ON clause of the later one must use it)"""
    ids = [set(n for n, _ in shapes[d].ids) for _, d in ops]
    return any((ids[i] & ids[j]) - ids[0] for i in range(1, len(ids)) for j in range(i + 1, len(ids)))


def rebuild(c, body=None, ops_idx=None):
    """the same case with a shorter body / fewer operands (for shrinking)"""
    p = c["parts"]
    body = p["body"] if body is None else body
    ops, ops_txt = p["ops"], p["ops_txt"]
    if ops_idx is not None:
        ops, ops_txt = [ops[i] for i in ops_idx], [ops_txt[i] for i in ops_idx]
    txt = join_text(p["kind"], ops_txt, p["using"], body)
    stmts = list(p["pre"]) + [("DS_r", txt, join_coq(p["kind"], ops, p["using"], body), True)]
    out = dict(c)
    out["script"] = "".join(f"{n} {'<-' if last else ':='} {v};\n" for n, v, _, last in stmts)
    out["coq"] = "[" + "; ".join(f"({coq_string(n)}, {q})" for n, _, q, _ in stmts) + "]"
    out["parts"] = dict(p, body=body, ops=ops, ops_txt=ops_txt)
    return out


# ------------------------------------------------------------------ evaluation
def eval_model(cases, tag, impl=False):
    b = "true" if impl else "false"
    return coq_eval(HEADER, [f"run_jscript {b} {G.inputs_coq(c['dss'])} {c['coq']} \"DS_r\"" for c in cases], tag)


def run_engine(c):
    return engine.run_case(c["script"], c["structs"], c["dps"])


def case_json(c):
    j = exprk.case_json(c)
    j["feat"] = c.get("feat", {})
    return j


def case_from_json(j):
    c = exprk.case_from_json(j)
    c["feat"] = j.get("feat", {})
    return c


def engine_dup_keys(er) -> Optional[str]:
    """the property predicate `one datapoint per identifier key` evaluated on the engine's result"""
    if not er["ok"] or "DS_r" not in er["datasets"]:
        return None
    d = er["datasets"]["DS_r"]
    idx = [i for i, c in enumerate(d["comps"]) if c[1] == "Identifier"]
    seen, dup = set(), []
    for r in d["rows"]:
        k = tuple(r[i] for i in idx)
        if k in seen:
            dup.append(k)
        seen.add(k)
    return f"identifier keys occurring in more than one result datapoint: {dup[:4]}" if dup else None


def shrink(c, still_bad):
    cur = c
    if "parts" in cur:
        body = list(cur["parts"]["body"])
        sem0 = engine.semantic_case(cur["script"].replace("DS_r <-", "DS_r :="), cur["structs"])
        i = len(body) - 1
        while i >= 0:
            cand = rebuild(cur, body=body[:i] + body[i + 1:])
            # a clause may only go when the script keeps its semantic status (dropping a calc must not orphan a later `keep Z`)
            sem = engine.semantic_case(cand["script"].replace("DS_r <-", "DS_r :="), cand["structs"])
            if sem["ok"] == sem0["ok"] and sem.get("err") == sem0.get("err") and still_bad(cand):
                cur, body = cand, body[:i] + body[i + 1:]
            i -= 1
    return exprk.shrink(cur, still_bad)


def _strip(er):
    er = dict(er)
    er.pop("exc", None)
    return er


def _worker(job):
    """(kind, payload): generates (or loads) one case and runs it on the engine — executed in a pool process"""
    import random
    kind, payload = job
    engine.install(need_parser=True)
    if kind == "corpus":
        c = case_from_json(payload)
    else:
        rng = random.Random(payload)
        c = None
        while c is None:
            c = make_case(rng, malformed=(kind == "malformed"))
    return c, _strip(run_engine(c))


def _pool_map(jobs):
    import multiprocessing as mp
    from common import NCPU
    if len(jobs) <= 3:
        return [_worker(j) for j in jobs]
    with mp.get_context("spawn").Pool(processes=max(2, min(12, NCPU - 2))) as pool:
        return pool.map(_worker, jobs, chunksize=4)


def run_k(ctx, n_valid: int, n_malformed: int, tag="c04"):
    engine.install(need_parser=True)
    cdir = CORPUS / "C04"
    jobs = []
    if cdir.exists():
        for p in sorted(cdir.glob("*.json")):
            jobs.append(("corpus", json.loads(p.read_text())))
    n_corpus = len(jobs)
    jobs += [("valid", ctx.rng.getrandbits(60)) for _ in range(n_valid)]
    jobs += [("malformed", ctx.rng.getrandbits(60)) for _ in range(n_malformed)]
    done = _pool_map(jobs)
    cases = [c for c, _ in done]
    engine_results = [er for _, er in done]
    rejected = sum(c["rejected"] for c in cases)
    ctx.log(f"generated and ran {len(cases) - n_corpus} cases (+{n_corpus} corpus) on the engine")
    model = eval_model(cases, tag)
    ctx.log(f"model evaluated ({len(cases)} cases)")
    dist: Dict[str, Dict[str, int]] = {k: {} for k in ("kind", "n_ops", "config", "arrangement", "first_lacks_shared_id", "using", "alias", "dup_mode", "overlap", "body_len",
                                                       "dup_names", "semantic", "result_rows", "engine_errors", "clauses")}

    def bump(k, v):
        dist[k][str(v)] = dist[k].get(str(v), 0) + 1
    dis = 0
    for i, (c, m) in enumerate(zip(cases, model)):
        f = c.get("feat", {})
        for k in ("kind", "n_ops", "config", "arrangement", "first_lacks_shared_id", "using", "alias", "dup_mode", "body_len", "dup_names", "semantic"):
            if k in f:
                bump(k, f[k])
        for o in f.get("overlap", []):
            bump("overlap", o)
        for k, v in c["hist"].items():
            dist["clauses"][k] = dist["clauses"].get(k, 0) + v
        er = engine_results[i]
        if er["ok"] and "DS_r" in er["datasets"]:
            n = len(er["datasets"]["DS_r"]["rows"])
            bump("result_rows", "0" if n == 0 else "1-3" if n <= 3 else "4-12" if n <= 12 else ">12")
        elif not er["ok"]:
            bump("engine_errors", er["err"])
        ctx.count(hashlib.sha1((c["script"] + json.dumps(case_json(c)["inputs"], sort_keys=True, default=str)).encode()).hexdigest())
        if len(ctx.cov["samples"]) < 6 and i >= n_corpus:
            ctx.sample({"script": c["script"], "inputs": case_json(c)["inputs"],
                        "engine": (er["datasets"]["DS_r"]["rows"][:4] if er["ok"] and "DS_r" in er["datasets"] else str(er.get("err")))})
        d = exprk.compare(er, m)
        if d is None:
            continue
        dis += 1
        pred = engine_dup_keys(er)
        if f.get("kind") == "full_join" and f.get("n_ops", 2) >= 3 and pred:
            # the repaired left-deep formulation (Model/Join.v full_combos_impl) is evaluated only to NAME the regression
            try:
                back = exprk.compare(er, eval_model([c], tag + "_impl", impl=True)[0]) is None
            except Exception:  # noqa
                back = False
            if back:
                ctx.violation(REGRESSION_FULL3, f"{c['script'].strip()} :: the engine again behaves as the left-deep full join repaired by "
                              f"fix 94e8b5c (ON compares with the first operand only): {d}; {pred}",
                              {"case": case_json(c), "disagreement": d, "predicate": pred})
                continue
        raw = (not er["ok"]) and er["err"][0] in ("RawDuckDB", "RawPython")
        key = ("raw:" + er["err"][1] if raw else "wrong-result") + ":" + f.get("kind", "?") + (":using" if f.get("using") else "") + \
              ":" + "+".join(sorted(k for k in c["hist"] if k.startswith("clause:")))
        if ctx._known_key(key) is None and dis <= 2:
            budget = [30]          # probes (engine run + one coq_eval each): shrinking is bounded, the case stays valid when it stops early

            def still_bad(cc):
                if budget[0] <= 0:
                    return False
                budget[0] -= 1
                mm = eval_model([cc], tag + "_shr")[0]
                return exprk.compare(run_engine(cc), mm) is not None
            try:
                c = shrink(c, still_bad)
                er = run_engine(c)
                d = exprk.compare(er, eval_model([c], tag + "_shr")[0]) or d
                pred = engine_dup_keys(er)
            except Exception as e:  # noqa
                ctx.log("shrinking failed:", e)
            cdir.mkdir(parents=True, exist_ok=True)
            cj = json.dumps(case_json(c), sort_keys=True, default=str)
            (cdir / (hashlib.sha1(cj.encode()).hexdigest()[:10] + ".json")).write_text(cj)
        ctx.violation(key, f"{c['script'].strip()} :: {d}" + (f"; {pred}" if pred else ""),
                      {"case": case_json(c), "disagreement": d, "predicate": pred})
    dist["clauses"] = dict(sorted(dist["clauses"].items(), key=lambda x: -x[1]))
    ctx.cov["distribution"] = dict(dist, corpus=n_corpus, valid_stream=n_valid, malformed_stream=n_malformed,
                                   clause_candidates_rejected_by_semantic_analysis=rejected)
    ctx.cov["disagreements"] = dis
    return dis


def replay_case(obj):
    c = case_from_json(obj["case"])
    er = run_engine(c)
    m = eval_model([c], "c04_replay")[0]
    mi = eval_model([c], "c04_replay_impl", impl=True)[0]
    d = exprk.compare(er, m)
    print("script:", c["script"])
    print("inputs:", json.dumps(case_json(c)["inputs"], default=str))
    print("engine  :", er.get("datasets", {}).get("DS_r") if er["ok"] else (er["err"], er["msg"]))
    print("expected:", exprk.model_result(m, None), "(Model/Join.v, relational join)")
    print("left-deep full join (repaired defect):", "engine agrees with it" if exprk.compare(er, mi) is None else "engine differs from it")
    print("predicate:", engine_dup_keys(er))
    print("verdict:", "agree" if d is None else d)
    return 0 if d is None else 1
