"""C06 correspondence: generated analytic (window) invocations run on the real engine and evaluated by Model/Analytic.v inside Coq.

One case = one dataset (2 identifiers: partition id Id_1 + order id Id_2, 0-30 datapoints, 1-3 measures with nulls) and ONE analytic
invocation over it (dataset level or inside calc).  Cases over the same dataset are grouped into one script (one statement each) so the
engine's per-run connection set-up is paid once per group; every group is ALSO run on a second random permutation of the input rows
and the two engine outputs must be equal as sets (the property's second sentence evaluated directly on engine output)."""
from __future__ import annotations

import hashlib
import json
import os
from fractions import Fraction
from typing import Any, Dict, List, Optional, Tuple

import coqval as V
import exprgen as G
import exprk
from common import CORPUS, coq_eval, coq_list, coq_string, coq_z

HEADER = ("From Coq Require Import ZArith QArith String List.\nImport ListNotations.\n"
          "From VTL Require Import Base.Val Model.Table Model.Scalar Model.Expr Model.Analytic.\nOpen Scope string_scope.\n")

WINDOWED = ["sum", "avg", "count", "min", "max", "median", "stddev_pop", "stddev_samp", "var_pop", "var_samp", "first_value", "last_value"]
NUMERIC_ONLY = {"sum", "avg", "median", "stddev_pop", "stddev_samp", "var_pop", "var_samp", "ratio_to_report"}
ALL_FUNS = WINDOWED + ["lag", "lead", "rank", "ratio_to_report"]
COQ_F = {"sum": "FSum", "avg": "FAvg", "count": "FCount", "min": "FMin", "max": "FMax", "median": "FMedian", "stddev_pop": "FStddevPop",
         "stddev_samp": "FStddevSamp", "var_pop": "FVarPop", "var_samp": "FVarSamp", "first_value": "FFirst", "last_value": "FLast",
         "rank": "FRank", "ratio_to_report": "FRatio"}
NUMERIC = ("Integer", "Number")


# ------------------------------------------------------------------ datasets
def gen_value(rng, typ, null_p):
    if rng.random() < null_p:
        return None
    if typ == "Integer":
        return rng.choice([0, 1, 2, 3, 5, 7, -4, -1, 12, 20, 100]) if rng.random() < 0.7 else rng.randrange(-20, 21)
    if typ == "Number":
        return Fraction(rng.randrange(-40, 41), 4)
    if typ == "Boolean":
        return rng.random() < 0.5
    return rng.choice(["a", "b", "ab", "Hello", " x ", "", "Q1", "zz top"])


def gen_dataset(rng, nrows=None, measure_types=None):
    t1 = rng.choice(["Integer", "Integer", "String"])
    t2 = rng.choice(["Integer", "Integer", "Integer", "Number", "String"])
    u1 = [1, 2, 3] if t1 == "Integer" else ["A", "B", "C"]
    u1 = u1[: rng.choice([1, 2, 3, 3])]
    if t2 == "Integer":
        u2 = rng.choice([list(range(1, 13)), [1, 2, 3, 5, 8, 9, 10, 12, 15, 20, 21, 30], [-3, -2, 0, 1, 2, 4, 5, 6, 7, 10, 11, 13]])
    elif t2 == "Number":
        u2 = [Fraction(k, 4) for k in (-6, -2, 0, 1, 2, 4, 5, 8, 9, 12, 14, 20)]
    else:
        u2 = list("abcdefghijkl")
    nm = rng.choice([1, 1, 2, 2, 3])
    ms = [(f"Me_{j}", rng.choice(measure_types or ["Integer", "Integer", "Number", "Number", "String", "Boolean"])) for j in range(1, nm + 1)]
    universe = [(a, b) for a in u1 for b in u2]
    if nrows is None:
        nrows = rng.choice([0, 1, 2, 3, 4, 5, 6, 8, 10, 12, 15, 20, 25, 30])
    keys = rng.sample(universe, min(nrows, len(universe)))
    null_p = rng.choice([0.0, 0.15, 0.25, 0.25, 0.5])
    rows = [([a, b], [gen_value(rng, t, null_p) for _, t in ms]) for a, b in keys]
    return {"shape": G.Shape([("Id_1", t1), ("Id_2", t2)], ms), "rows": rows}


# ------------------------------------------------------------------ invocations
def bound_text(b):
    k, n = b
    return {"up": "unbounded preceding", "uf": "unbounded following", "cur": "current data point"}.get(k) or f"{n} {'preceding' if k == 'prec' else 'following'}"


def bound_coq(b):
    k, n = b
    return {"up": "UnbPrec", "uf": "UnbFoll", "cur": "Cur"}.get(k) or f"({'Prec' if k == 'prec' else 'Foll'} {n}%nat)"


def normalise_bounds(a, b):
    """the engine's AST constructor (Terminals.visitWindowingClause) swaps two bounds of the same direction written the other way round"""
    (ka, na), (kb, nb) = a, b
    da = "p" if ka in ("prec", "up") else "f" if ka in ("foll", "uf") else "c"
    db = "p" if kb in ("prec", "up") else "f" if kb in ("foll", "uf") else "c"
    if da == db == "p":
        if (ka == "prec" and kb == "prec" and nb > na) or kb == "up":
            return b, a
    if da == db == "f":
        if (ka == "foll" and kb == "foll" and nb < na) or ka == "uf":
            return b, a
    return a, b


def frame_valid(lo, hi):
    """frames DuckDB accepts (after normalisation): start may not be after end by kind"""
    if lo[0] == "uf" or hi[0] == "up":
        return False
    if lo[0] == "cur" and hi[0] == "prec":
        return False
    if lo[0] == "foll" and hi[0] in ("prec", "cur"):
        return False
    return True


def gen_bound(rng):
    k = rng.choice(["up", "prec", "prec", "cur", "foll", "foll", "uf"])
    return (k, rng.choice([0, 1, 1, 2, 3]) if k in ("prec", "foll") else 0)


def gen_window(rng, allow_range):
    for _ in range(50):
        a, b = gen_bound(rng), gen_bound(rng)
        if a[0] == b[0] and a[0] in ("up", "uf"):
            continue
        lo, hi = normalise_bounds(a, b)
        if not frame_valid(lo, hi):
            continue
        mode = "range" if (allow_range and rng.random() < 0.3) else "data"
        return {"mode": mode, "a": list(a), "b": list(b)}
    return {"mode": "data", "a": ["prec", 1], "b": ["foll", 1]}


def gen_spec(rng, sh: G.Shape, windowed: bool, ties=False, ord_measures=None):
    """partition by / order by making the order total inside every partition (unless ties=True: order by a measure only);
    ord_measures: the measures the engine lets this invocation order by (inside calc: only the operand component)"""
    ms = list(ord_measures) if ord_measures is not None else [n for n, _ in sh.ms]
    if not ms:
        ms = ["Id_2"]
    r = rng.random()
    d = lambda: rng.random() < 0.4  # noqa: E731
    if ties:
        part, order = ["Id_1"], [[rng.choice(ms), d()]]
    elif r < 0.62:
        part, order = ["Id_1"], [["Id_2", d()]]
    elif r < 0.77:
        part, order = ["Id_1"], [[rng.choice(ms), d()], ["Id_2", d()]]
    elif r < 0.87:
        o = [["Id_1", d()], ["Id_2", d()]]
        if rng.random() < 0.5:
            o.reverse()
        if rng.random() < 0.3:
            o.insert(0, [rng.choice(ms), d()])
        part, order = [], o
    elif r < 0.94:
        part, order = ["Id_1", "Id_2"], [[rng.choice(ms + ["Id_2"]), d()]]
    else:
        part, order = ["Id_2"], [["Id_1", d()]]
    win = None
    if windowed and rng.random() < 0.88:
        t_first = dict(sh.ids + sh.ms)[order[0][0]]
        win = gen_window(rng, allow_range=(len(order) == 1 and t_first in NUMERIC and order[0][0] in dict(sh.ids)))
    return part, order, win


def gen_invocation(rng, sh: G.Shape, fun=None, level=None, type_error=False) -> Optional[dict]:
    """type_error=True: a numeric-only function over a String/Boolean operand (the engine must answer Semantic 1-1-1-1)"""
    f = fun or rng.choice(sorted(NUMERIC_ONLY) if type_error else ALL_FUNS)
    level = level or ("calc" if f == "rank" else rng.choice(["ds", "ds", "calc"]))
    if f == "rank" and level == "ds":
        return None
    mt = dict(sh.ms)
    inv: Dict[str, Any] = {"level": level, "f": f}
    if level == "ds":
        if f in NUMERIC_ONLY and all(t in NUMERIC for t in mt.values()) == type_error:
            return None
        optypes = list(mt.values())
    else:
        cands = [n for n, t in sh.ms if ((t in NUMERIC) != type_error or f not in NUMERIC_ONLY)]
        if type_error and f not in NUMERIC_ONLY:
            return None
        if f == "rank":
            inv["operand"] = None
        else:
            if not cands:
                return None
            inv["operand"] = rng.choice(cands)
        inv["target"] = rng.choice(["Me_9", "Me_9", "Me_8"] + [n for n, _ in sh.ms])
        optypes = [mt[inv["operand"]]] if inv["operand"] else []
    ties = f == "rank" and rng.random() < 0.5
    om = None if (level == "ds" or f == "rank") else [inv["operand"]]
    part, order, win = gen_spec(rng, sh, windowed=f in WINDOWED, ties=ties, ord_measures=om)
    if f == "ratio_to_report":     # grammar: ratio_to_report(x over (partition by ...)): the partition clause is mandatory, nothing else is allowed
        order, win = [], None
        part = part or ["Id_1"]
    if f in ("lag", "lead", "rank"):
        win = None
    inv.update({"part": part, "ord": order, "win": win, "ties": ties, "asc_kw": rng.random() < 0.3, "type_error": bool(type_error)})
    if f in ("lag", "lead"):
        inv["n"] = rng.choice([0, 1, 1, 1, 2, 3])
        inv["dflt"] = None
        if rng.random() < 0.3 and optypes and all(t in NUMERIC for t in optypes):
            inv["dflt"] = rng.choice([-1, 0, 99])
        elif rng.random() < 0.3 and level == "calc" and optypes == ["String"]:
            inv["dflt"] = "zz"
    return inv


def over_text(inv):
    parts = []
    if inv["part"]:
        parts.append("partition by " + ", ".join(inv["part"]))
    if inv["ord"]:
        parts.append("order by " + ", ".join(f"{c}{' desc' if d else (' asc' if inv.get('asc_kw') else '')}" for c, d in inv["ord"]))
    if inv["win"]:
        w = inv["win"]
        parts.append(f"{'data points' if w['mode'] == 'data' else 'range'} between {bound_text(w['a'])} and {bound_text(w['b'])}")
    return "over (" + " ".join(parts) + ")"


def inv_text(inv, ds="DS_1") -> str:
    f = inv["f"]
    operand = ds if inv["level"] == "ds" else inv["operand"]
    if f == "rank":
        call = f"rank({over_text(inv)})"
    elif f in ("lag", "lead"):
        d = inv.get("dflt")
        dt = "" if d is None else (f', "{d}"' if isinstance(d, str) else f", {d}")
        call = f"{f}({operand}, {inv['n']}{dt} {over_text(inv)})"
    else:
        call = f"{f}({operand} {over_text(inv)})"
    return call if inv["level"] == "ds" else f"{ds}[calc {inv['target']} := {call}]"


def spec_coq(inv) -> str:
    part = coq_list([coq_string(p) for p in inv["part"]])
    order = coq_list([f"({coq_string(c)}, {'true' if d else 'false'})" for c, d in inv["ord"]])
    if inv["win"]:
        w = inv["win"]
        lo, hi = normalise_bounds(tuple(w["a"]), tuple(w["b"]))
        win = f"(Some (mkW {'Rows' if w['mode'] == 'data' else 'Range'} {bound_coq(lo)} {bound_coq(hi)}))"
    else:
        win = "None"
    return f"(mkA {part} {order} {win})"


def fun_coq(inv) -> str:
    f = inv["f"]
    if f in ("lag", "lead"):
        d = inv.get("dflt")
        dv = "VNull" if d is None else f"(VStr {coq_string(d)})" if isinstance(d, str) else f"(VInt {coq_z(d)})"
        return f"({'FLag' if f == 'lag' else 'FLead'} {inv['n']}%nat {dv})"
    return COQ_F[f]


def inv_coq(inv, sh: G.Shape, rename: Optional[List[Tuple[str, str]]] = None, dvar="D") -> str:
    """the declared types reach the model only as `is this component Integer/Number` flags of the typed entry points"""
    b = lambda t: "true" if t in NUMERIC else "false"  # noqa: E731
    if inv["level"] == "ds":
        e = f"(d_analytic_t {coq_list([b(t) for _, t in sh.ms])} {fun_coq(inv)} {spec_coq(inv)} {dvar})"
    else:
        op = coq_string(inv["operand"] or "")
        opn = b(dict(sh.ms).get(inv["operand"], "Integer")) if inv["operand"] else "true"
        e = f"(d_calc_analytic_t {opn} {dvar} {coq_string(inv['target'])} {fun_coq(inv)} {spec_coq(inv)} {op})"
    if rename:
        rl = coq_list([f"({coq_string(a)}, {coq_string(b)})" for a, b in rename])
        e = f"(bind {e} (fun d0 => Ok (d_rename d0 {rl})))"
    return e


def squared_cols(inv, sh: G.Shape) -> List[str]:
    """columns of the engine result holding a standard deviation (compared through their square)"""
    if inv["f"] not in ("stddev_pop", "stddev_samp"):
        return []
    return [n for n, _ in sh.ms] if inv["level"] == "ds" else [inv["target"]]


# ------------------------------------------------------------------ engine side (worker processes)
def inputs_engine(dss):
    """exprgen.inputs_engine with Number identifiers passed as floats too"""
    dss2 = {n: {"shape": d["shape"], "rows": [([float(x) if isinstance(x, Fraction) else x for x in k], m) for k, m in d["rows"]]} for n, d in dss.items()}
    return G.inputs_engine(dss2)


def _worker_init():
    os.environ["MEANINGFUL_DATA_VTLENGINE_VERIF"] = "1"
    import engine
    engine.install(need_parser=True)


def _canon_result(res, stmts):
    import engine
    from vtlengine.Model import Dataset
    out = {}
    for name, _, sq in stmts:
        v = res.get(name)
        if not isinstance(v, Dataset):
            out[name] = None
            continue
        if sq and v.data is not None:
            for c in sq:
                if c in v.data.columns:
                    v.data[c] = v.data[c].map(lambda x: None if x is None or x != x else float(x) * float(x))
        out[name] = engine.canon_dataset(v)
    return out


def _run_script(stmts, structs, dps):
    import copy
    import engine
    import vtlengine
    script = "".join(f"{n} <- {t};\n" for n, t, _ in stmts)
    try:
        res = vtlengine.run(script, copy.deepcopy(structs), {k: v.copy() for k, v in dps.items()})
    except Exception as e:  # noqa
        return {"ok": False, "err": engine.classify_error(e), "msg": str(e)[:400]}
    return {"ok": True, "datasets": _canon_result(res, stmts)}


def run_group_job(job) -> dict:
    """job: {'dss': {name: {'ids','ms','rows'}}, 'stmts': [(name, vtl, squared cols)], 'perm': permutation of row indices}
    -> {'a': [per statement result], 'b': [same on the permuted input]} each result {'ok', 'ds'|'err','msg'}"""
    try:
        out = {}
        for tag, perm in (("a", None), ("b", job["perm"])):
            dss = {}
            for n, d in job["dss"].items():
                rows = d["rows"] if perm is None else [d["rows"][i] for i in perm]
                dss[n] = {"shape": G.Shape([tuple(x) for x in d["ids"]], [tuple(x) for x in d["ms"]]), "rows": rows}
            structs, dps = inputs_engine(dss)
            r = _run_script(job["stmts"], structs, dps)
            if r["ok"]:
                out[tag] = [{"ok": True, "ds": r["datasets"][n]} for n, _, _ in job["stmts"]]
            elif len(job["stmts"]) == 1:
                out[tag] = [{"ok": False, "err": r["err"], "msg": r["msg"]}]
            else:  # attribute the failure: run every statement on its own
                res = []
                for st in job["stmts"]:
                    r1 = _run_script([st], structs, dps)
                    res.append({"ok": True, "ds": r1["datasets"][st[0]]} if r1["ok"] else {"ok": False, "err": r1["err"], "msg": r1["msg"]})
                out[tag] = res
        return out
    except Exception as e:  # the harness must not hide a case
        import traceback
        return {"harness_error": f"{type(e).__name__}: {e}", "tb": traceback.format_exc()[-1500:]}


class EnginePool:
    def __init__(self, workers=8):
        import multiprocessing as mp
        from concurrent.futures import ProcessPoolExecutor
        self.ex = ProcessPoolExecutor(max_workers=workers, mp_context=mp.get_context("spawn"), initializer=_worker_init)

    def submit(self, jobs):
        return [self.ex.submit(run_group_job, j) for j in jobs]

    @staticmethod
    def gather(futs, timeout=1800):
        return [f.result(timeout=timeout) for f in futs]

    def map(self, jobs, timeout=1800):
        return self.gather(self.submit(jobs), timeout)

    def close(self):
        self.ex.shutdown(wait=False, cancel_futures=True)


# ------------------------------------------------------------------ groups
def ds_json(d):
    sh = d["shape"]
    return {"ids": [list(x) for x in sh.ids], "ms": [list(x) for x in sh.ms],
            "rows": [[[str(x) if isinstance(x, Fraction) else x for x in k], [str(x) if isinstance(x, Fraction) else x for x in m]] for k, m in d["rows"]]}


def ds_from_json(j):
    ids, ms = [tuple(x) for x in j["ids"]], [tuple(x) for x in j["ms"]]

    def conv(vals, comps):
        return [Fraction(x) if (t == "Number" and x is not None) else x for x, (_, t) in zip(vals, comps)]
    return {"shape": G.Shape(ids, ms), "rows": [(conv(k, ids), conv(m, ms)) for k, m in j["rows"]]}


def job_rows(d):
    """rows in the plain form inputs_engine understands (Fractions survive pickling)"""
    return {"ids": [list(x) for x in d["shape"].ids], "ms": [list(x) for x in d["shape"].ms], "rows": d["rows"]}


def make_type_error_group(rng, n_inv):
    """numeric-only functions over String/Boolean operands; every statement is expected to raise Semantic 1-1-1-1"""
    d = gen_dataset(rng, nrows=rng.choice([0, 3, 6]), measure_types=["String", "Boolean", "Integer"])
    if all(t in NUMERIC for _, t in d["shape"].ms):
        d["shape"].ms[0] = (d["shape"].ms[0][0], "String")
        d["rows"] = [(k, [gen_value(rng, "String", 0.25)] + list(m[1:])) for k, m in d["rows"]]
    invs = []
    for _ in range(n_inv * 8):
        inv = gen_invocation(rng, d["shape"], type_error=True)
        if inv is not None:
            invs.append(inv)
        if len(invs) >= n_inv:
            break
    return {"ds": d, "invs": invs, "perm": list(reversed(range(len(d["rows"]))))}


def make_group(rng, n_inv, fixed=None, nrows=None, measure_types=None):
    """one dataset + n_inv invocations; `fixed` = list of (fun, level) to force"""
    d = gen_dataset(rng, nrows=nrows, measure_types=measure_types)
    invs = []
    tries = 0
    want = list(fixed) if fixed else [None] * n_inv
    while want and tries < 90:
        tries += 1
        w = want[0]
        inv = gen_invocation(rng, d["shape"], *(w or ()))
        if inv is None:
            if w is not None and tries % 6 == 0:
                want.pop(0)  # this dataset cannot host the forced function
            continue
        invs.append(inv)
        want.pop(0)
    perm = list(range(len(d["rows"])))
    rng.shuffle(perm)
    if len(perm) > 1 and perm == list(range(len(perm))):
        perm.reverse()
    return {"ds": d, "invs": invs, "perm": perm}


def group_job(g):
    sh = g["ds"]["shape"]
    stmts = [(f"R_{i + 1}", inv_text(inv), squared_cols(inv, sh)) for i, inv in enumerate(g["invs"])]
    return {"dss": {"DS_1": job_rows(g["ds"])}, "stmts": stmts, "perm": g["perm"]}


def result_renames(g):
    """Operators/Analytic.py: a dataset-level count over an operand with a single measure names its result int_var; mirrored by d_rename"""
    ms = [n for n, _ in g["ds"]["shape"].ms]
    return [[(ms[0], "int_var")] if (inv["level"] == "ds" and inv["f"] == "count" and len(ms) == 1 and ms[0] != "int_var") else None
            for inv in g["invs"]]


def group_coq(g, renames) -> str:
    d = g["ds"]
    sh = d["shape"]
    rows = coq_list([V.to_row(k, [t for _, t in sh.ids], m, [t for _, t in sh.ms]) for k, m in d["rows"]])
    dterm = f"(mkD {coq_list([coq_string(n) for n, _ in sh.ids])} {coq_list([coq_string(n) for n, _ in sh.ms])} {rows})"
    # every case: (the theorems' decidable hypothesis total_order evaluated on this very input, the model's result)
    return f"(let D := {dterm} in {coq_list(['(total_order D ' + spec_coq(inv) + ', ' + inv_coq(inv, sh, ren) + ')' for inv, ren in zip(g['invs'], renames)])})"


def eval_groups(groups, renames_list, tag):
    return coq_eval(HEADER, [group_coq(g, r) for g, r in zip(groups, renames_list)], tag, shard=3)


# ------------------------------------------------------------------ comparison
def compare_one(eres, parsed) -> Optional[str]:
    if eres["ok"]:
        if eres["ds"] is None:
            return "engine returned no dataset for the statement"
        er = {"ok": True, "datasets": {"DS_r": eres["ds"]}}
    else:
        er = {"ok": False, "err": tuple(eres["err"]), "msg": eres["msg"]}
    return exprk.compare(er, parsed)


def perm_diff(a, b) -> Optional[str]:
    """the two engine outputs (original / permuted input) must be the same set of datapoints (or the same error)"""
    if a["ok"] != b["ok"]:
        return f"one input order gives {'a dataset' if a['ok'] else a['err']}, the other {'a dataset' if b['ok'] else b['err']}"
    if not a["ok"]:
        return None if tuple(a["err"]) == tuple(b["err"]) else f"errors differ: {a['err']} / {b['err']}"
    if a["ds"] is None or b["ds"] is None:
        return None if a["ds"] == b["ds"] else "one run returned no dataset"
    if a["ds"]["comps"] != b["ds"]["comps"]:
        return f"structures differ: {a['ds']['comps']} / {b['ds']['comps']}"
    if a["ds"]["rows"] != b["ds"]["rows"]:
        oa = [r for r in a["ds"]["rows"] if r not in b["ds"]["rows"]][:3]
        ob = [r for r in b["ds"]["rows"] if r not in a["ds"]["rows"]][:3]
        return f"datapoints differ between input orders: only first {oa}; only permuted {ob}"
    return None


def frame_shape(inv) -> str:
    w = inv["win"]
    if inv["f"] not in WINDOWED:
        return "n/a"
    if not w:
        return "default"
    lo, hi = normalise_bounds(tuple(w["a"]), tuple(w["b"]))
    return f"{w['mode']}:{lo[0]}..{hi[0]}"


def stable_key(inv, kind) -> str:
    fs = frame_shape(inv).split(":")
    return f"{kind}:{inv['f']}:{inv['level']}:{fs[0]}"


def case_json(g, i):
    return {"dataset": ds_json(g["ds"]), "inv": g["invs"][i], "perm": g["perm"], "vtl": inv_text(g["invs"][i])}


def group_from_case(j):
    return {"ds": ds_from_json(j["dataset"]), "invs": [j["inv"]], "perm": j.get("perm") or list(range(len(j["dataset"]["rows"])))}


def case_hash(cj) -> str:
    return hashlib.sha1(json.dumps(cj, sort_keys=True, default=str).encode()).hexdigest()
