"""Correspondence runner shared by C01/C02 (and reused by C10/C33): generated statements over Model/Expr.v evaluated by the engine
and by `deval` inside Coq, compared by component name with type-driven canonicalisation."""
from __future__ import annotations

import json
from fractions import Fraction
from typing import Any, Dict, List, Optional

import coqval as V
import engine
import exprgen as G
from common import coq_eval

HEADER = ("From Coq Require Import ZArith QArith String List.\nImport ListNotations.\n"
          "From VTL Require Import Base.Val Model.Table Model.Scalar Model.Expr.\nOpen Scope string_scope.\n")


def canon_model_val(t: Any, typ: str):
    v = V.from_val(t)
    if v is None:
        return None
    if typ == "Number":
        if isinstance(v, bool):
            return ("BADTYPE", v)
        if isinstance(v, int):
            return f"{v}/1"
        if isinstance(v, str) and "/" in v:
            f = Fraction(v).limit_denominator(10 ** 6)
            return f"{f.numerator}/{f.denominator}"
        return ("BADTYPE", v)
    if typ == "Integer":
        if isinstance(v, bool):
            return ("BADTYPE", v)
        if isinstance(v, int):
            return v
        if isinstance(v, str) and "/" in v:
            f = Fraction(v)
            return int(f) if f.denominator == 1 else ("NONINT", v)
        return ("BADTYPE", v)
    if typ == "Boolean":
        return v if isinstance(v, bool) else ("BADTYPE", v)
    return v if isinstance(v, str) else ("BADTYPE", v)


def canon_engine_val(v, typ):
    if v is None:
        return None
    if typ == "Integer" and isinstance(v, str) and "/" in v:
        f = Fraction(v)
        return int(f) if f.denominator == 1 else ("NONINT", v)
    if typ == "Number" and isinstance(v, int) and not isinstance(v, bool):
        return f"{v}/1"
    return v


def model_result(parsed, comps_engine: Optional[list]):
    """parsed coq value of type res dset -> ('ok', names, rows-as-dicts) | ('err', code)"""
    if parsed[0] == "Err":
        return ("err", parsed[1][1] if isinstance(parsed[1], tuple) else str(parsed[1]))
    d = parsed[1]
    ids = [x[1] for x in d["d_ids"]]
    ms = [x[1] for x in d["d_ms"]]
    rows = []
    for k, m in d["d_rows"]:
        if len(k) != len(ids) or len(m) != len(ms):
            return ("err", "model-arity")
        rows.append(dict(zip(ids + ms, list(k) + list(m))))
    return ("ok", ids, ms, rows)


def compare(engine_res, parsed) -> Optional[str]:
    """None when engine and model agree, else a description"""
    m = model_result(parsed, None)
    if not engine_res["ok"]:
        kind, code = engine_res["err"]
        if m[0] == "err" and m[1] == code:
            return None
        return f"engine raises {kind} {code} ({engine_res['msg'][:120]}); model gives {('Err ' + m[1]) if m[0] == 'err' else 'a dataset with %d rows' % len(m[3])}"
    if m[0] == "err":
        return f"engine returns a dataset; model gives Err {m[1]}"
    d = engine_res["datasets"].get("DS_r")
    if d is None:
        return "engine returned no DS_r"
    names = [c[0] for c in d["comps"]]
    types = {c[0]: c[2] for c in d["comps"]}
    _, ids, ms, mrows = m
    if sorted(names) != sorted(ids + ms):
        return f"component names differ: engine {names}, model {ids + ms}"
    if sorted(c[0] for c in d["comps"] if c[1] == "Identifier") != sorted(ids):
        return f"identifier sets differ: engine {[c[0] for c in d['comps'] if c[1] == 'Identifier']}, model {ids}"
    erows = V.sort_rows([tuple(canon_engine_val(v, types[n]) for n, v in zip(names, r)) for r in d["rows"]])
    mr = V.sort_rows([tuple(canon_model_val(r[n], types[n]) for n in names) for r in mrows])
    if erows != mr:
        only_e = [r for r in erows if r not in mr][:3]
        only_m = [r for r in mr if r not in erows][:3]
        return f"datapoints differ (columns {names}): only in engine {only_e}; only in model {only_m}"
    return None


def _flags(dg, stmts_out):
    """facts about the generated script that the classification of a disagreement needs (stable under shrinking of the data):
    measure-renaming-operator  some node's single measure was renamed by the engine (bool_var / int_var …)
    union-under-structure-change  a union is used INSIDE a statement whose result has other component names than the union"""
    flags = []
    if dg.renaming_ops and any(any(t in v for t in dg.renaming_ops) for v, _ in stmts_out):
        flags.append("measure-renaming-operator")
    for v, sh in stmts_out:
        for ut, ush in dg.unions:
            if ut in v and ut != v and (sorted(n for n, _ in ush.ids) != sorted(n for n, _ in sh.ids) or
                                        sorted(n for n, _ in ush.ms) != sorted(n for n, _ in sh.ms)):
                flags.append("union-under-structure-change")
    return sorted(set(flags))


def make_case(rng, depth, risky_div=False, measure_types=None, tries=20, nested=False, kinds=None, directed=None):
    """flat mode (default): a script of 1-4 statements, each applying ONE dataset-level operator or a clause chain to inputs or
    earlier results; nested mode: one statement with operators nested up to `depth` (exercises the engine's nested-operator path);
    directed=<family>: one statement from exprgen.DG.directed over inputs of that family"""
    for _ in range(tries):
        setops = (not kinds) or "setop" in kinds
        fam = {"nest21": "nest21", "setctx": "same", "chain": None}[directed] if directed else ("mixed" if setops and rng.random() < 0.7 else None)
        if directed == "chain" and rng.random() < 0.3:
            fam = "same"
        dss = G.gen_inputs(rng, n=rng.choice([2, 3]), measure_types=measure_types, family=fam)
        structs, dps = G.inputs_engine(dss)
        dg = G.DG(rng, dss, structs, risky_div=risky_div)
        if kinds:
            dg.kinds = kinds
            if nested:
                dg.nested_kinds = kinds
        if directed:
            out = dg.directed(directed)
            if out is None or out[0] in dss:
                continue
            stmts = [("DS_r", out[0], out[1], True)]
            outs = [(out[0], out[2])]
            nested = not G_FLAT_CHAIN.fullmatch(out[0])
        elif nested:
            out = dg.gen(depth)
            if out is None or out[0] in dss:
                continue
            stmts = [("DS_r", out[0], out[1], True)]
            outs = [(out[0], out[2])]
        else:
            leaves = {n: d["shape"] for n, d in dss.items()}
            stmts, outs = [], []
            k = rng.choice([1, 2, 2, 3, 4]) if depth > 1 else 1
            ok = True
            for i in range(k):
                last = i == k - 1
                # semantic shapes of earlier results are learned by asking the engine about the script prefix
                prefix = "".join(f"{n} := {v};\n" for n, v, _, _ in stmts)
                dg.prefix = prefix
                out = dg.gen_flat(leaves)
                if out is None:
                    ok = False
                    break
                name = "DS_r" if last else f"T_{i + 1}"
                stmts.append((name, out[0], out[1], last))
                outs.append((out[0], out[2]))
                leaves = dict(leaves)
                leaves[name] = out[2]
            if not ok:
                continue
        script = "".join(f"{n} {'<-' if last else ':='} {v};\n" for n, v, _, last in stmts)
        coq = "[" + "; ".join(f"({G.coq_string(n)}, {c})" for n, _, c, _ in stmts) + "]"
        return {"dss": dss, "structs": structs, "dps": dps, "script": script, "coq": coq, "hist": dg.hist,
                "rejected": dg.rejected, "nested": nested, "flags": _flags(dg, outs), "family": directed or ("nested" if nested else "flat")}
    return None


# a clause chain over a named dataset (anything else in one statement nests operators)
G_FLAT_CHAIN = __import__("re").compile(r"[A-Za-z_0-9]+(\[[^\]]*\])+")


def case_json(c):
    return {"script": c["script"], "coq": c["coq"], "nested": c.get("nested", False), "flags": c.get("flags", []),
            "inputs": {n: {"ids": d["shape"].ids, "ms": d["shape"].ms,
                           "rows": [[k, [str(x) if isinstance(x, Fraction) else x for x in m]] for k, m in d["rows"]]}
                       for n, d in c["dss"].items()}}


def case_from_json(j):
    dss = {}
    for n, d in j["inputs"].items():
        ms = [tuple(x) for x in d["ms"]]
        rows = [(list(k), [Fraction(x) if (t == "Number" and x is not None) else x for x, (_, t) in zip(m, ms)]) for k, m in d["rows"]]
        dss[n] = {"shape": G.Shape([tuple(x) for x in d["ids"]], ms), "rows": rows}
    structs, dps = G.inputs_engine(dss)
    flags = j.get("flags")
    if flags is None:   # cases stored before flags existed
        flags = ["measure-renaming-operator"] if ('"bool_var"' in j["coq"] or '"int_var"' in j["coq"]) else []
    return {"dss": dss, "structs": structs, "dps": dps, "script": j["script"], "coq": j["coq"], "hist": {}, "rejected": 0,
            "nested": j.get("nested", False), "flags": flags}


def run_engine(c):
    return engine.run_case(c["script"], c["structs"], c["dps"])


def eval_model(cases, tag):
    return coq_eval(HEADER, [f"run_script {G.inputs_coq(c['dss'])} {c['coq']} \"DS_r\"" for c in cases], tag)


def shrink(c, still_bad):
    """drop input rows while the disagreement persists (each probe = engine run + one coq_eval)"""
    cur = c
    for name in list(cur["dss"]):
        i = 0
        while i < len(cur["dss"][name]["rows"]):
            cand = dict(cur)
            cand["dss"] = {k: dict(v) for k, v in cur["dss"].items()}
            cand["dss"][name]["rows"] = cur["dss"][name]["rows"][:i] + cur["dss"][name]["rows"][i + 1:]
            cand["structs"], cand["dps"] = G.inputs_engine(cand["dss"])
            if still_bad(cand):
                cur = cand
            else:
                i += 1
    return cur


CLAUSE_ON_RESULT = __import__("re").compile(r"\)\s*\[\s*(filter|calc|keep|drop|rename|sub)\b")


def classify_disagreement(c, er):
    """stable key of a disagreement: WHAT kind of failure on WHICH script shape (matched against the known findings)"""
    if not er["ok"]:
        kind, code = er["err"]
        msg = er.get("msg", "")
        if kind in ("RawDuckDB", "RawPython"):
            sym = f"raw-{code}"
        elif code == "2-1-1-1":  # the engine's catch-all for an unexpected DuckDB error
            sym = ("decimal-scale-overflow" if ("Needed scale" in msg or "Out of Range" in msg) else
                   "sql-binder-error" if "Binder Error" in msg else "sql-parser-error" if "Parser Error" in msg else "duckdb-runtime-error")
        else:
            sym = f"vtl-error-{code}"
    else:
        sym = "wrong-result"
    flags = c.get("flags", [])
    if (not er["ok"] and "Could not convert string" in er.get("msg", "") and __import__("re").search(r"\|\|\s*null|null\s*\|\|", c["script"])):
        # `x || null` stored as an intermediate result gets DuckDB's default type for an all-NULL column (INT32); a later string operation on it fails
        return "null-constant-concat:intermediate-result-not-typed-string"
    if sym == "decimal-scale-overflow":   # one root cause (DECIMAL(28,10): every * adds the scales), nested or not
        return "number-multiplication:decimal-scale-overflow"
    if (CLAUSE_ON_RESULT.search(c["script"]) and "measure-renaming-operator" in flags and not er["ok"]
            and __import__("re").search(r'"(bool_var|int_var|num_var|str_var)" not found', er.get("msg", ""))):
        # the recorded defect: a clause applied directly to the result of a measure-renaming operator (wherever it sits in the statement)
        return "nested:clause-applied-to-operator-result:failure"
    if "union-under-structure-change" in flags and (sym == "wrong-result" or sym.startswith("sql-")):
        return f"nested:union-under-structure-change:{'failure' if sym != 'wrong-result' else sym}"
    if (c.get("nested") and "measure-renaming-operator" in flags and sym == "wrong-result" and "[rename" in c["script"].replace(" ", "").replace("[rename", "[rename")
            and not CLAUSE_ON_RESULT.search(c["script"])):
        # a measure-renaming operator (between, comparison, ceil …) applied directly to a clause result whose single measure was renamed:
        # the SQL keeps the renamed column, the fetch looks for bool_var / int_var and drops the measure
        return "nested:renaming-operator-over-renamed-measure:wrong-result"
    if c.get("nested"):
        if CLAUSE_ON_RESULT.search(c["script"]):
            # the known defect concerns operators whose single measure the engine renames; anything else is a different shape
            shape = "clause-applied-to-operator-result" if "measure-renaming-operator" in flags else "clause-applied-to-plain-operator-result"
        else:
            shape = "nested-operators"
        return f"nested:{shape}:{'failure' if sym != 'wrong-result' and 'decimal' not in sym else sym}"
    if sym == "decimal-scale-overflow":
        return "number-multiplication:decimal-scale-overflow"
    return sym + ":" + "+".join(sorted(k for k in c["hist"] if not k.startswith("c:")))[:80]


def make_incompatible_case(rng):
    """a set operator over operands whose structures differ in the NUMBER of components (an extra measure, a missing identifier):
    semantic analysis must answer 1-1-17-1, as d_setop does"""
    dss = G.gen_inputs(rng, family="same")
    names = list(dss)
    a, b = names[0], names[1]
    sh = dss[b]["shape"]
    if len(sh.ids) > 1 and rng.random() < 0.5:
        ids = sh.ids[:-1]
        seen, rows = set(), []
        for k, m in dss[b]["rows"]:
            if tuple(k[:-1]) not in seen:
                seen.add(tuple(k[:-1]))
                rows.append((k[:-1], m))
        dss[b] = {"shape": G.Shape(ids, sh.ms), "rows": rows}
    else:
        dss[b] = {"shape": G.Shape(sh.ids, sh.ms + [("Me_5", "Integer")]), "rows": [(k, m + [rng.choice([None, 1, 2])]) for k, m in dss[b]["rows"]]}
    if rng.random() < 0.5:
        a, b = b, a
    op = rng.choice(list(G.SETOP))
    structs, dps = G.inputs_engine(dss)
    return {"dss": dss, "structs": structs, "dps": dps, "script": f"DS_r <- {op}({a}, {b});\n",
            "coq": f"[(\"DS_r\", (DSet {G.SETOP[op]} (DVar {G.coq_string(a)}) (DVar {G.coq_string(b)})))]",
            "hist": {"set:" + op: 1, "set:incompatible-structures": 1}, "rejected": 0, "nested": False, "flags": [], "family": "incompatible"}


def creates_case_variant(c):
    """does some clause of the script (calc target, rename target) create a component whose name equals another component's
    name up to letter case?  (C29: the shape of the recorded catalog-collision defect, now that the generator really emits
    rename and calc of new components)"""
    import re
    names = {x for d in c["dss"].values() for x, _ in d["shape"].ids + d["shape"].ms}
    created = (set(re.findall(r"\bcalc\s+([A-Za-z_][A-Za-z_0-9]*)\s*:=", c["script"])) |
               set(re.findall(r",\s*([A-Za-z_][A-Za-z_0-9]*)\s*:=", c["script"])) |
               set(re.findall(r"\brename\s+[A-Za-z_][A-Za-z_0-9]*\s+to\s+([A-Za-z_][A-Za-z_0-9]*)", c["script"])))
    allnames = names | created
    return any(a != b and a.lower() == b.lower() for a in created for b in allnames)


def run_k(ctx, pid, n_flat, n_nested, kinds, tag, directed=None, nested_kinds=None, corpus_dir=None, cov_key="distribution",
          exclude_flags=(), n_incompatible=0):
    """corpus first, then generated flat scripts, then a nested stream, then the directed single-statement families
    (`directed` = {family: count}); returns the number of disagreements"""
    import hashlib
    from common import CORPUS
    engine.install(need_parser=True)
    cdir = CORPUS / (corpus_dir or pid)
    cases = []
    if cdir.exists():
        for p in sorted(cdir.glob("*.json")):
            cases.append(case_from_json(json.loads(p.read_text())))
    n_corpus = len(cases)
    rejected = 0
    def wanted(c):
        return c is not None and not (c["nested"] and any(f in exclude_flags for f in c["flags"]))
    while len(cases) < n_corpus + n_flat:
        c = make_case(ctx.rng, ctx.rng.choice([1, 2, 2, 3]), risky_div=(ctx.rng.random() < 0.15), kinds=kinds)
        if c:
            cases.append(c)
            rejected += c["rejected"]
    while len(cases) < n_corpus + n_flat + n_nested:
        c = make_case(ctx.rng, ctx.rng.choice([2, 3]), nested=True, kinds=nested_kinds)
        if wanted(c):
            cases.append(c)
    for _ in range(n_incompatible):
        cases.append(make_incompatible_case(ctx.rng))
    fam_hist = {}
    for fam, cnt in (directed or {}).items():
        got = tries = 0
        while got < cnt and tries < cnt * 6:
            tries += 1
            c = make_case(ctx.rng, 2, risky_div=(ctx.rng.random() < 0.1), directed=fam, tries=6)
            if wanted(c):
                cases.append(c)
                got += 1
        fam_hist[fam] = got
        ctx.oblige(f"generator: directed family {fam} produced its {cnt} cases", got == cnt, f"{got} of {cnt}")
    model = eval_model(cases, tag)
    hist, errs, dis = {}, {}, 0
    flag_hist = {}
    rows_hist = {"0": 0, "1-3": 0, "4-12": 0}
    for c, m in zip(cases, model):
        for k, v in c["hist"].items():
            hist[k] = hist.get(k, 0) + v
        for f in c.get("flags", []):
            flag_hist[f] = flag_hist.get(f, 0) + 1
        for d in c["dss"].values():
            n = len(d["rows"])
            rows_hist["0" if n == 0 else "1-3" if n <= 3 else "4-12"] += 1
        er = run_engine(c)
        if not er["ok"]:
            errs[str(er["err"])] = errs.get(str(er["err"]), 0) + 1
        ctx.count(hashlib.sha1((c["script"] + json.dumps(case_json(c)["inputs"], sort_keys=True, default=str)).encode()).hexdigest())
        if len(ctx.cov["samples"]) < 5:
            ctx.sample({"script": c["script"], "inputs": case_json(c)["inputs"],
                        "engine": (er["datasets"]["DS_r"]["rows"][:4] if er["ok"] and "DS_r" in er["datasets"] else str(er.get("err")))})
        d = compare(er, m)
        if d is not None and er["ok"] and m[0] == "Err":
            # non-persistent intermediate results are lazy in the engine: a runtime error inside a statement DS_r does not depend on is
            # never raised (and no value is produced for it either).  Compare on the statements DS_r depends on.
            pc = prune_to_result(c)
            if pc is not None:
                d = compare(er, eval_model([pc], tag + "_prn")[0])
        if d is None:
            continue
        dis += 1
        key = classify_disagreement(c, er)
        if ctx._known_key(key) is None and dis <= 3:
            def still_bad(cc):
                mm = eval_model([cc], tag + "_shr")[0]
                return compare(run_engine(cc), mm) is not None
            try:
                c = shrink(c, still_bad)
                er = run_engine(c)
                d = compare(er, eval_model([c], tag + "_shr")[0]) or d
            except Exception:
                pass
            cdir.mkdir(parents=True, exist_ok=True)
            cj = json.dumps(case_json(c), sort_keys=True, default=str)
            (cdir / (hashlib.sha1(cj.encode()).hexdigest()[:10] + ".json")).write_text(cj)
        ctx.violation(key, f"{c['script'].strip()} :: {d}", {"case": case_json(c), "disagreement": d})
    ctx.cov[cov_key] = {"operators": dict(sorted(hist.items(), key=lambda x: -x[1])), "engine_errors": errs,
                        "input_rows": rows_hist, "corpus": n_corpus, "flat": n_flat, "nested": n_nested, "directed": fam_hist,
                        "script_flags": flag_hist, "generator_candidates_rejected_by_semantic_analysis": rejected}
    ctx.cov["disagreements"] = ctx.cov.get("disagreements", 0) + dis if cov_key != "distribution" else dis
    return dis


def prune_to_result(c):
    """the case restricted to the statements `DS_r` depends on (transitively, by name); None if nothing is removed"""
    import re
    stmts = re.findall(r'\("([^"]+)", ', c["coq"])
    lines = [l for l in c["script"].split(";\n") if l.strip()]
    # split the coq list into its top-level items
    body = c["coq"].strip()[1:-1]
    items, depth, cur = [], 0, ""
    for ch in body:
        if ch == ";" and depth == 0:
            items.append(cur.strip()); cur = ""
            continue
        depth += ch in "([" 
        depth -= ch in ")]"
        cur += ch
    if cur.strip():
        items.append(cur.strip())
    names = [re.match(r'\("([^"]+)"', it).group(1) for it in items]
    if len(names) != len(lines):
        return None
    need, changed = {"DS_r"}, True
    while changed:
        changed = False
        for n_, it in zip(names, items):
            if n_ in need:
                for m_ in names:
                    if m_ not in need and f'"{m_}"' in it.split(",", 1)[1]:
                        need.add(m_); changed = True
    if len(need) == len(names):
        return None
    keep = [i for i, n_ in enumerate(names) if n_ in need]
    pc = dict(c)
    pc["coq"] = "[" + "; ".join(items[i] for i in keep) + "]"
    pc["script"] = "".join(lines[i].strip() + ";\n" for i in keep)
    return pc


def replay_case(obj):
    c = case_from_json(obj["case"])
    er = run_engine(c)
    m = eval_model([c], "replay")[0]
    d = compare(er, m)
    print("script:", c["script"])
    print("engine:", er.get("datasets", {}).get("DS_r") if er["ok"] else (er["err"], er["msg"]))
    print("model :", model_result(m, None))
    print("verdict:", "agree" if d is None else d)
    return 0 if d is None else 1
