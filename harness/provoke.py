"""Provokes real coded VTL errors through public entry points (used by C26's dynamic part and C32).
Works without the parser; when the parser front end is available, also through scripts."""
from __future__ import annotations

import pandas as pd


def _ds(name, comps):
    return {"datasets": [{"name": name, "DataStructure": [
        {"name": n, "type": t, "role": r, "nullable": nl} for n, t, r, nl in comps]}]}


def provoke_errors(ctx) -> int:
    import engine
    mode = engine.install()
    import vtlengine
    from vtlengine.Exceptions import VTLEngineException
    n = 0
    calls = []
    st = _ds("DS_1", [("Id_1", "Integer", "Identifier", False), ("Me_1", "Number", "Measure", True)])
    calls.append(lambda: vtlengine.validate_dataset(st, {"DS_1": pd.DataFrame({"Id_1": [1, 1], "Me_1": [1.0, 2.0]})}))
    calls.append(lambda: vtlengine.validate_dataset(st, {"DS_1": pd.DataFrame({"Id_1": [None, 1], "Me_1": [1.0, 2.0]})}))
    calls.append(lambda: vtlengine.validate_dataset(st, {"DS_1": pd.DataFrame({"Me_1": [1.0, 2.0]})}))
    calls.append(lambda: vtlengine.validate_dataset(st, {"DS_1": pd.DataFrame({"Id_1": ["a", "b"], "Me_1": [1.0, 2.0]})}))
    calls.append(lambda: vtlengine.validate_dataset(st, {"DS_2": pd.DataFrame({"Id_1": [1], "Me_1": [1.0]})}))
    calls.append(lambda: vtlengine.validate_dataset({"datasets": [{"name": "X"}]}, None))
    calls.append(lambda: vtlengine.validate_dataset(_ds("D", [("Id_1", "Wrong", "Identifier", False)]), None))
    calls.append(lambda: vtlengine.validate_dataset(_ds("D", [("Id_1", "Integer", "Identifier", True)]), None))
    stp = _ds("DS_1", [("Id_1", "Time_Period", "Identifier", False), ("Me_1", "Date", "Measure", True)])
    for v, d in [("2020-13", "2020-01-01"), ("2020Q1", "2020-02-30"), ("abc", "x")]:
        calls.append(lambda v=v, d=d: vtlengine.validate_dataset(stp, {"DS_1": pd.DataFrame({"Id_1": [v], "Me_1": [d]})}))
    from vtlengine.DataTypes import Boolean, Date, Integer, Number, String, TimePeriod
    from vtlengine.DataTypes import binary_implicit_promotion, unary_implicit_promotion
    for a, b, tc in [(String, Integer, Number), (Boolean, Date, Integer), (TimePeriod, String, Number)]:
        calls.append(lambda a=a, b=b, tc=tc: binary_implicit_promotion(a, b, tc))
        calls.append(lambda a=a, tc=tc: unary_implicit_promotion(a, tc))
    from vtlengine.DataTypes.TimeHandling import TimePeriodHandler
    for s in ["2020-W60", "2020-Q7", "20-01", "2020-M00"]:
        calls.append(lambda s=s: TimePeriodHandler(s))
    if mode == "frontend":
        try:
            import scripts_err
            calls += scripts_err.calls()
        except ImportError:
            pass
    for c in calls:
        try:
            c()
        except VTLEngineException:
            n += 1
        except Exception:
            n += 1
    return n
