"""Shared machinery of C18 / C19 / C20 (input loaders): generator of structures and tables, the four input forms
(CSV file, DataFrame of strings, DataFrame with native dtypes, Parquet file) driven through the real `vtlengine.run`
and `vtlengine.validate_dataset`, the same cases evaluated in the Coq model (Model/Loader.v) and the documented formats
(`denote`), canonicalisation, comparison, attribution of a disagreement to ONE labelled cell / violation (shrinking).

A *content table* is rows of cells `None | str`; every form is derived from it:
  csv      RFC-4180 text, None -> empty field
  df_str   pandas DataFrame, object columns holding str / None
  df_nat   the same DataFrame where every column whose cells all have a native equivalent is converted
           (int64 / Int64 / float64 / bool / boolean / datetime64[us]); other columns stay strings
  parquet  pyarrow table of string columns
Every value family carries a label (stable: used in finding keys) and its status under docs/data_types.rst:
  'valid'   a documented representation     'invalid' clearly not one     'silent' the documentation does not decide
The truth of valid/invalid is NOT taken from the label: it is `denote` of the Coq spec; the label's status is cross-checked
against it (obligation), and 'silent' families never produce a C19 claim."""
from __future__ import annotations

import csv as _csv
import datetime as _dt
import decimal
import io
import json
import multiprocessing as mp
import os
import re
import sys
import tempfile
import time
from fractions import Fraction
from pathlib import Path
from typing import Any, Dict, List, Optional, Tuple

from common import CORPUS, NCPU, coq_eval, coq_string

TYPES = ["Integer", "Number", "String", "Boolean", "Date", "Time", "Time_Period", "Duration"]
COQ_TY = {"Integer": "TInteger", "Number": "TNumber", "String": "TString", "Boolean": "TBoolean", "Date": "TDate",
          "Time": "TTime", "Time_Period": "TPeriod", "Duration": "TDuration"}
FORMS = ["csv", "df_str", "df_nat", "parquet", "pq_nat"]     # pq_nat: Parquet file with typed (native) columns
SCRIPT = "DS_r <- DS_1;"
INPUT_KINDS = ("DataLoad", "InputValidation")

HEADER = """From Coq Require Import ZArith Ascii String List Bool.
Import ListNotations.
From VTL Require Import Base.Calendar Model.Types Model.Regex Gen.Regex Model.Loader.
Open Scope string_scope. Open Scope Z_scope.
Inductive oval := ONull | OInt (z : Z) | ODec (z : Z) | OBool (b : bool) | OStr (s : string) | OTs (d u : Z) | OPer (y : Z) (i : string) (n : Z).
Definition oshow (v : sval) : oval :=
  match v with
  | SNull => ONull | SInt z => OInt z | SDec z => ODec z | SBool b => OBool b
  | SStr s => OStr (string_of_list_ascii s) | STs d u => OTs d u | SPer y i n => OPer y (String i EmptyString) n
  end.
Inductive tout := OAcc (rows : list (list oval)) | ORej (c : string) | OLate (c : string).
Definition tshow (r : tresult) : tout :=
  match r with TAcc rows => OAcc (map (map oshow) rows) | TRej c => ORej c | TLate c => OLate c end.
Definition all6 (st : structure) (tb tbn : table) : list tout :=
  [tshow (load_run PCsv st tb); tshow (load_run PDfStr st tb); tshow (load_run PDfNat st tbn); tshow (load_run PParquet st tb);
   tshow (load_pandas false st tb); tshow (load_pandas true st tb); tshow (load_pandas false st tbn); tshow (load_run PParquet st tbn)].
"""


# =============================================================================================== value families
def _ri(rng, lo, hi):
    return rng.randint(lo, hi)


def _date(rng, lo=1800, hi=9999):
    y = rng.choice([_ri(rng, lo, hi), _ri(rng, 1990, 2030), _ri(rng, 1990, 2030)])
    m = _ri(rng, 1, 12)
    d = _ri(rng, 1, 28)
    return y, m, d


def _d(y, m, d):
    return f"{y:04d}-{m:02d}-{d:02d}"


COMMON_YEARS = [2021, 2019, 1900, 2100, 2023]       # 52-week common years
LEAP53 = [2020, 2004, 2032]                         # leap years with 53 ISO weeks
Y53 = [2015, 2026, 2020, 2004]                      # years with 53 ISO weeks
Y52 = [2021, 2019, 2022, 2024, 2016]                # years with 52 ISO weeks


class Fam:
    """One family of cell values: `label` (stable, used in finding keys), `doc` status under docs/data_types.rst,
    `gen()` a random member, `directed` the members always exercised as single-cell cases (deterministic)."""

    def __init__(self, label, doc, rng, values=None, templates=None, years=None, gen=None):
        self.label, self.doc = label, doc
        if values is not None:
            self.directed = list(values)
            self.gen = lambda: rng.choice(values)
        elif templates is not None:
            ys = years or [2021]
            self.directed = [t.format(y=y) for y in ys[:2] for t in templates]
            pool = years
            self.gen = lambda: rng.choice(templates).format(
                y=rng.choice(pool) if pool else rng.choice([rng.randint(1000, 9999), rng.randint(1990, 2030), rng.randint(1990, 2030)]))
        else:
            import random as _r
            self.gen = gen
            st = rng.getstate()
            rng.seed(sum(map(ord, label)) * 31 + len(label))          # deterministic directed sample, independent of the main stream
            self.directed = sorted({gen() for _ in range(5)})
            rng.setstate(st)

    def __iter__(self):          # (label, doc, gen) - the shape the generator unpacks
        return iter((self.label, self.doc, self.gen))

    def __getitem__(self, i):
        return (self.label, self.doc, self.gen)[i]


def families(rng) -> Dict[str, List[Fam]]:
    """type -> [Fam].  The first family ('plain') is used for all non-focus cells."""
    def V(label, doc, values):
        return Fam(label, doc, rng, values=values)

    def T(label, doc, templates, years=None):
        return Fam(label, doc, rng, templates=templates, years=years)

    def G(label, doc, gen):
        return Fam(label, doc, rng, gen=gen)
    hms = lambda lo=0: f"{_ri(rng, 0, 23):02d}:{_ri(rng, 0, 59):02d}:{_ri(rng, lo, 59):02d}"  # noqa: E731
    F: Dict[str, List[Fam]] = {}
    F["Integer"] = [
        G("plain", "valid", lambda: str(_ri(rng, -10 ** 6, 10 ** 6))),
        V("zero-forms", "valid", ["0", "-0", "007", "+5", "-12"]),
        V("whole-float-form", "valid", ["1.0", "5.", "1e3", "1E3", "1.5e1", "-2.0", "120e-1", "3.000"]),
        V("fractional", "invalid", ["1.5", "0.5", "-0.5", "2.5", "-2.5", ".5", "2.50", "1.25e1", "15e-1", "1.4", "0.4999", "3.7",
                                    "0.0000001", "-0.0000001", "1e-7", "-2.5e-9", "25e-1"]),
        # sign x magnitude x spelling (each also supplied as int64 / Int64 / float64 / float32 columns)
        V("negative", "valid", ["-1", "-42", "-999999999999", "-1000000"]),
        V("negative-whole-float-form", "valid", ["-1.0", "-2e3", "-5.", "-1.5e1", "-120e-1"]),
        V("zero-float-forms", "valid", ["0.0", "-0.0", "0e0", "-0e5", "0."]),
        V("huge-exact-in-double", "valid", ["4503599627370496", "-4503599627370496", "1e15", "-1e15", "9007199254740992"]),
        V("hex", "invalid", ["0x1A", "0X1a", "0xff", "0b101"]),
        V("padded", "silent", [" 7", "7 ", " 42 ", "\t5"]),
        V("above-2^53", "valid", ["9007199254740993", "-9007199254740993", "9007199254740995", "18014398509481985"]),
        V("int64-max", "silent", ["9223372036854775807", "-9223372036854775808"]),
        V("overflow", "silent", ["9223372036854775808", "1e19", "99999999999999999999"]),
        V("non-numeric", "invalid", ["abc", "1,5", "--1", "true", "1 000", "12a", "+", "e3", "1e", "1.5."]),
        V("nan-inf-word", "silent", ["nan", "NaN", "inf", "-inf", "Infinity"]),
        V("blank-only", "silent", [" ", "   "]),
        V("empty-string", "silent", [""]),
    ]
    F["Number"] = [
        G("plain", "valid", lambda: rng.choice([f"{_ri(rng, -10 ** 5, 10 ** 5)}.{_ri(rng, 0, 9999):04d}", str(_ri(rng, -999, 999)),
                                                f"{_ri(rng, -999, 999)}.{_ri(rng, 0, 9)}", "3.14", "-0.5", "42"])),
        V("scientific", "valid", ["1e5", "1E-3", "2.5e2", "-1.25E+2", "1e-10", "12e0"]),
        V("dot-forms", "valid", [".5", "5.", "-.25", "+2.5", "007.50"]),
        V("below-scale", "valid", ["1e-11", "0.00000000004", "0.000000000049"]),
        # sign x magnitude x spelling (each also supplied as float64 and, when exact, float32 columns / typed Parquet)
        V("negative-tiny", "valid", ["-0.0000005", "-5e-07", "-1.25e-9", "-0.00001234", "-9.5e-5", "-1e-10"]),
        V("positive-tiny", "valid", ["0.00000025", "5e-07", "3e-5", "0.000099", "7.5e-8"]),
        V("negative-below-scale", "valid", ["-1e-11", "-0.00000000004", "-6e-11", "-5e-30"]),
        V("negative-huge", "valid", ["-1e15", "-123456789012345", "-9.5e16", "-65536e10"]),
        V("positive-huge", "valid", ["1e15", "123456789012345", "9.5e16", "65536e10"]),
        V("zero-forms", "valid", ["0.0", "-0.0", "0e0", "-0", "+0.0", "0.000"]),
        V("negative-exponent-forms", "valid", ["-2.5E+3", "-1e-3", "-12e-2", "-1.5e+10", "-.5e1"]),
        V("hex", "invalid", ["0x10", "0xA.8"]),
        V("padded", "silent", [" 1.5", "1.5 ", " -2 "]),
        V("non-numeric", "invalid", ["abc", "1,5", "--1", "1.2.3", "1e", "1.5e", "1d", "1f", "$3"]),
        V("nan-inf-word", "silent", ["nan", "NaN", "inf", "-inf", "Infinity"]),
        V("out-of-decimal-range", "silent", ["1e400", "1234567890123456789", "1e18", "-1e18"]),
        V("blank-only", "silent", [" ", "   "]),
        V("empty-string", "silent", [""]),
    ]
    F["Boolean"] = [
        V("plain", "valid", ["true", "false"]),
        V("case-and-digit", "valid", ["TRUE", "False", "tRuE", "fALSE", "1", "0"]),
        V("duckdb-spellings", "silent", ["t", "f", "T", "F", "yes", "no", "y", "n", "YES", "No"]),
        V("not-boolean", "invalid", ["2", "-1", "1.0", "0.0", "abc", "on", "off", "tru", "01", "yes!", "truee"]),
        V("padded", "silent", [" true", "true ", " 1"]),
        V("embedded-quote", "silent", ['"TRUE"', 'tr"ue', '"0"']),
        V("blank-only", "silent", [" ", "   "]),
        V("empty-string", "silent", [""]),
    ]
    words = ["abc", "x", "Hello World", "z9", "Q", "value", "naïve", "é€", "NULL", "null", "NA", "None", "nan", "0", "1.5", "true"]
    F["String"] = [
        G("plain", "valid", lambda: rng.choice(words) + str(_ri(rng, 0, 999))),
        V("embedded-quote", "valid", ['a"b', 'say "hi" now', 'x"', '5" pipe', 'a""b']),
        V("surrounding-quotes", "silent", ['"quoted"', '"a"', '"x y"']),
        V("comma-newline", "valid", ["a,b", "line\nbreak", "a;b", "x,y,z", "tab\there", "semi;colon|pipe"]),
        V("padded", "valid", [" padded ", " lead", "trail ", "  "]),
        V("null-words", "valid", ["NULL", "null", "NA", "None", "nan", "N/A"]),
        V("blank-only", "valid", [" ", "   "]),
        V("empty-string", "silent", [""]),
    ]
    F["Date"] = [
        G("plain", "valid", lambda: _d(*_date(rng))),
        G("datetime", "valid", lambda: _d(*_date(rng)) + rng.choice([" ", "T"]) + hms()),
        G("datetime-fraction", "valid", lambda: _d(*_date(rng)) + rng.choice([" ", "T"]) + hms(1) + rng.choice([".5", ".123456", ".123456789", ".000001", ".25"])),
        G("datetime-timezone", "valid", lambda: _d(*_date(rng)) + "T" + hms(1) + rng.choice(["Z", "+02:00", "-05:00", "+00:00", "-14:00"])),
        G("midnight-datetime", "valid", lambda: _d(*_date(rng)) + rng.choice([" 00:00:00", "T00:00:00"])),
        V("leap-day", "valid", ["2020-02-29", "2000-02-29", "2024-02-29"]),
        V("year-boundary", "valid", ["1800-01-01", "9999-12-31", "1800-12-31"]),
        V("year-before-1800", "invalid", ["1799-12-31", "0001-01-01", "1066-10-14", "1700-06-15"]),
        V("year-5-digits", "invalid", ["10000-01-01", "12020-05-05"]),
        V("invalid-calendar-day", "invalid", ["2020-02-30", "2021-02-29", "2020-04-31", "1900-02-29", "2020-01-32", "2020-01-00"]),
        V("invalid-month", "invalid", ["2020-13-01", "2020-00-10", "2020-99-01"]),
        V("partial-time", "invalid", ["2020-01-15T10:30", "2020-01-15 10", "2020-01-15T"]),
        V("time-out-of-range", "invalid", ["2020-01-15T25:00:00", "2020-01-15 24:00:00", "2020-01-15T10:60:00", "2020-01-15T10:30:60"]),
        V("bad-separator", "invalid", ["2020-01-15X10:30:00", "2020/01/15", "15/01/2020", "2020.01.15", "2020-01-15t10:30:00", "Jan 15 2020", "abc"]),
        V("one-digit-month-day", "silent", ["2020-1-5", "2020-01-5", "2020-1-15", "2020-3-07"]),
        V("one-digit-month-with-time", "silent", ["2020-1-5 10:30:00", "2020-3-07T08:00:01", "2020-01-5 10:30:00"]),
        V("compact", "silent", ["20200115", "19991231"]),
        V("padded", "silent", [" 2020-01-15", "2020-01-15 ", " 2020-01-15 10:30:00"]),
        V("timezone-without-colon", "silent", ["2020-01-15T10:30:00+0200", "2020-01-15T10:30:00+02"]),
        V("blank-only", "silent", [" ", "   "]),
        V("empty-string", "silent", [""]),
    ]

    def interval():
        y, m, d = _date(rng, 1900, 2100)
        a = _dt.date(y, m, d)
        b = a + _dt.timedelta(days=_ri(rng, 0, 700))
        return a.isoformat() + "/" + b.isoformat()
    F["Time"] = [
        G("plain", "valid", interval),
        G("same-day", "valid", lambda: (lambda x: x + "/" + x)(_d(*_date(rng, 1900, 2100)))),
        V("with-times", "valid", ["2020-01-01T00:00:00/2020-12-31T23:59:59", "2021-03-01T08:00:00/2021-03-01T09:30:00"]),
        G("year-only", "valid", lambda: str(_ri(rng, 1900, 2100))),
        G("year-month", "valid", lambda: f"{_ri(rng, 1900, 2100)}-{_ri(rng, 1, 12):02d}"),
        V("reversed", "invalid", ["2020-12-31/2020-01-01", "2021-01-02/2021-01-01", "2020-01-01T10:00:00/2020-01-01T09:00:00", "2030-01-01/1999-01-01"]),
        V("invalid-calendar-date", "invalid", ["2020-13-01/2020-12-31", "2020-02-30/2020-12-31", "2020-01-01/2020-12-32", "2021-02-29/2021-03-01",
                                               "2020-01-01/2020-00-10", "2020-01-01T25:00:00/2020-12-31T00:00:00"]),
        V("year-month-out-of-range", "invalid", ["2020-13", "2020-00"]),
        V("malformed", "invalid", ["2020-01-01", "2020-01-01/", "/2020-01-01", "abc", "2020-01-01 / 2020-12-31", "2020-01-01-2020-12-31",
                                   "2020-01-01/2020-12-31/2021-01-01", "20200101/20201231"]),
        V("one-digit-fields", "silent", ["2020-1-1/2020-12-31", "2020-6", "2020-01-01/2020-2-1"]),
        V("space-separated-times", "silent", ["2020-01-01 10:00:00/2020-12-31 10:00:00"]),
        V("padded", "silent", [" 2020", "2020-01-01/2020-12-31 ", " 2020-01-01/2020-12-31"]),
        V("year-outside-4-digits", "silent", ["10000", "999", "0000"]),
        V("blank-only", "silent", [" ", "   "]),
        V("empty-string", "silent", [""]),
    ]
    F["Time_Period"] = [
        G("plain", "valid", lambda: f"{rng.choice([_ri(rng, 1000, 9999), _ri(rng, 1990, 2030)])}" +
          rng.choice(["", "A", "-A1", f"S{_ri(rng, 1, 2)}", f"-S{_ri(rng, 1, 2)}", f"Q{_ri(rng, 1, 4)}", f"-Q{_ri(rng, 1, 4)}"])),
        G("month", "valid", lambda: (lambda y, m: rng.choice([f"{y}M{m}", f"{y}M{m:02d}", f"{y}-{m:02d}", f"{y}-{m}", f"{y}-M{m:02d}", f"{y}-M{m}"]))(_ri(rng, 1000, 9999), _ri(rng, 1, 12))),
        G("week", "valid", lambda: (lambda y, w: rng.choice([f"{y}W{w}", f"{y}W{w:02d}", f"{y}-W{w:02d}"]))(_ri(rng, 1000, 9999), _ri(rng, 1, 52))),
        T("week-53-of-53-week-year", "valid", ["{y}W53", "{y}-W53"], Y53),
        G("day", "valid", lambda: (lambda y, d: rng.choice([f"{y}D{d}", f"{y}D{d:02d}", f"{y}D{d:03d}", f"{y}-D{d:03d}", f"{y}-D{d}"]))(_ri(rng, 1000, 9999), _ri(rng, 1, 365))),
        T("day-366-of-leap-year", "valid", ["{y}D366", "{y}-D366"], [2020, 2000, 2024, 1996]),
        G("iso-date", "valid", lambda: _d(*_date(rng, 1000, 9999))),
        T("week-53-of-52-week-year", "invalid", ["{y}W53", "{y}-W53"], Y52),
        T("day-366-of-common-year", "invalid", ["{y}D366", "{y}-D366"], COMMON_YEARS),
        T("month-out-of-range", "invalid", ["{y}M13", "{y}M00", "{y}M0", "{y}-13", "{y}-00", "{y}-M13", "{y}-M00", "{y}M99"]),
        T("week-out-of-range", "invalid", ["{y}W54", "{y}W00", "{y}-W99", "{y}-W00", "{y}W60", "{y}-W54"]),
        T("day-out-of-range", "invalid", ["{y}D367", "{y}D000", "{y}-D367", "{y}-D000", "{y}D999", "{y}D0"]),
        T("semester-quarter-out-of-range", "invalid", ["{y}S3", "{y}-S0", "{y}Q5", "{y}Q0", "{y}-Q9"]),
        V("iso-date-invalid-calendar", "invalid", ["2020-02-30", "2021-02-29", "2020-13-01", "2020-00-01", "2020-04-31"]),
        V("number-with-junk", "invalid", ["2020M1.4", "2020M+1", "2020M 1", "2020M0x1", "2020-M1.4", "2020-5.4", "2020- 5", "2020-+5", "2020-0x5",
                                          "2020-1e0", "2020Q1.4", "2020Q 1", "2020S1.2", "2020-S1.2", "2020-Q1.4", "2020D1e2"]),
        V("number-too-long", "invalid", ["2020M123", "2020-123", "2020M012", "2020-M001", "2020D0366", "2020-D0366", "2020-W053", "2020W123", "2020D1234"]),
        V("unknown-indicator", "invalid", ["2020X1", "2020B2", "2020H1", "2020T3", "2020Z12"]),
        V("date-with-trailing-junk", "invalid", ["2020-01-15x", "2020-01-15junk", "2020-01-15/2020-01-16"]),
        V("indicator-without-number", "invalid", ["2020-Q", "2020-M", "2020-W", "2020-D", "2020-S", "2020-Mx"]),
        V("malformed", "invalid", ["abc", "20201", "202", "2020Q", "2020M", "abcdA", "abcd", "-020", "20.0", "abcd-Q1", "2020\tQ1", "2020--1",
                                   "Q1-2020", "2020/Q1", "2020D-1"]),
        V("annual-variants", "silent", ["2020-A", "2020A1", "2020-A2", "2020-A0", "2020A9", "2020Axyz"]),
        V("lowercase-indicator", "silent", ["2020q1", "2020-q1", "2020m1", "2020a", "2020-w05", "2020d12", "2020s2"]),
        V("padded", "silent", [" 2020Q1", "2020Q1 ", "2020-M1 ", "2020 ", "2020-D1  ", "2020A "]),
        V("datetime", "silent", ["2020-01-01 00:00:00", "2020-01-01T00:00:00", "2020-03-05 10:30:00"]),
        V("one-digit-date", "silent", ["2020-1-1", "2020-01-5", "2020-1-15"]),
        V("year-below-1000", "silent", ["0000", "0999Q1", "0001-M01", "0500"]),
        V("year-5-digits", "silent", ["10000", "12020Q1"]),
        V("blank-only", "silent", [" ", "   "]),
        V("empty-string", "silent", [""]),
    ]
    F["Duration"] = [
        V("plain", "valid", ["A", "S", "Q", "M", "W", "D"]),
        V("lowercase", "silent", ["a", "d", "m", "q"]),
        V("padded", "silent", [" D", "D ", " M "]),
        V("not-a-duration", "invalid", ["X", "AA", "P1Y", "P1M", "PT1H", "P1D", "H", "Y", "1", "DD", "day"]),
        V("blank-only", "silent", [" ", "   "]),
        V("empty-string", "silent", [""]),
    ]
    return F


# labels for which a difference between the forms is the documented / unavoidable behaviour of the CSV format
C18_EXEMPT = {"empty-string": "a CSV field cannot distinguish the empty string from null",
              "surrounding-quotes": "docs/data_types.rst: 'Surrounding double quotes are stripped automatically' (CSV)",
              "Boolean:embedded-quote": "deliberate CSV tolerance (build_select_columns strips quotes of Boolean fields as it does for String); "
                                        "the documentation is silent for Boolean"}


def c18_exempt(f) -> bool:
    return bool(f) and (f["label"] in C18_EXEMPT or f"{f['type']}:{f['label']}" in C18_EXEMPT)


# =============================================================================================== distinct plain identifiers
def plain_id_value(ty: str, i: int, rng) -> str:
    if ty == "Integer":
        return str(1000 + 7 * i)
    if ty == "Number":
        return f"{1000 + i}.5"
    if ty == "String":
        return f"key{i}"
    if ty == "Boolean":
        return ["true", "false"][i % 2]
    if ty == "Date":
        return (_dt.date(2001, 1, 1) + _dt.timedelta(days=37 * i)).isoformat()
    if ty == "Time":
        a = _dt.date(2001, 1, 1) + _dt.timedelta(days=40 * i)
        return a.isoformat() + "/" + (a + _dt.timedelta(days=9)).isoformat()
    if ty == "Time_Period":
        return f"{2001 + i}Q{1 + i % 4}"
    if ty == "Duration":
        return "ASQMWD"[i % 6]
    raise ValueError(ty)


ID_CAP = {"Boolean": 2, "Duration": 6}


# =============================================================================================== case generation
def gen_case(rng, F, idx: int) -> Dict[str, Any]:
    n_ids = rng.choice([0, 1, 1, 1, 1, 2, 2, 1])
    id_types = [rng.choice(["Integer", "String", "Date", "Time_Period", "Integer", "String", "Time", "Duration", "Boolean", "Number"]) for _ in range(n_ids)]
    n_me = rng.randint(1, 3)
    comps = []
    for k, t in enumerate(id_types):
        comps.append([f"Id_{k + 1}", t, "Identifier", False])
    for k in range(n_me):
        role = rng.choice(["Measure", "Measure", "Attribute"])
        comps.append([("Me_" if role == "Measure" else "At_") + str(k + 1), rng.choice(TYPES), role, rng.random() < 0.7])
    max_rows = 5
    for t in id_types:
        max_rows = min(max_rows, ID_CAP.get(t, 5)) if n_ids == 1 else max_rows
    n_rows = rng.choice([0, 1, 1, 2, 3, 4, 5]) if n_ids else rng.choice([0, 1, 1, 1])
    n_rows = min(n_rows, max_rows)
    rows, labels = [], []
    for i in range(n_rows):
        row, lab = [], []
        for (name, ty, role, nullable) in comps:
            if role == "Identifier":
                row.append(plain_id_value(ty, i if n_ids == 1 else (i // 2 if name == "Id_1" else i), rng))
                lab.append("plain")
            else:
                if nullable and rng.random() < 0.15:
                    row.append(None)
                    lab.append("null")
                else:
                    row.append(F[ty][0][2]())
                    lab.append("plain")
        rows.append(row)
        labels.append(lab)
    cols = [c[0] for c in comps]
    case = {"idx": idx, "comps": comps, "cols": cols, "rows": rows, "labels": labels, "violations": [], "focus": None}
    # ---- focus cell: one non-plain family
    if n_rows and rng.random() < 0.8:
        r = rng.randrange(n_rows)
        c = rng.randrange(len(comps))
        ty = comps[c][1]
        fam = rng.choice(F[ty][1:])
        v = fam[2]()
        if not ((comps[c][2] == "Identifier" or not comps[c][3]) and v == ""):     # '' in a NOT NULL column is the null violation
            rows[r][c] = v
            labels[r][c] = fam[0]
            case["focus"] = {"row": r, "col": c, "type": ty, "label": fam[0], "doc": fam[1], "value": v,
                             "role": comps[c][2], "nullable": comps[c][3]}
    # ---- structural violations: 0..3
    nv = rng.choice([0, 0, 0, 0, 0, 1, 1, 1, 2, 3])
    kinds = ["duplicate-key", "null-identifier", "missing-identifier-column", "missing-non-nullable-column", "missing-nullable-column",
             "extra-column", "no-identifier-two-rows", "null-in-non-nullable"]
    chosen = []
    for _ in range(nv):
        k = rng.choice(kinds)
        if k not in chosen:
            chosen.append(k)
    chosen.sort(key=kinds.index if False else (lambda k: ["duplicate-key", "null-identifier", "no-identifier-two-rows", "null-in-non-nullable",
                                                            "missing-identifier-column", "missing-non-nullable-column",
                                                            "missing-nullable-column", "extra-column"].index(k)))
    for k in chosen:          # row-level violations first (cells are still aligned with comps), then column-level ones
        if k == "duplicate-key" and n_ids and len(rows) >= 1:
            src = rng.randrange(len(rows))
            new = list(rows[src])
            newl = list(labels[src])
            for c, comp in enumerate(comps):
                if comp[2] != "Identifier":
                    new[c] = F[comp[1]][0][2]()
                    newl[c] = "plain"
            rows.append(new)
            labels.append(newl)
        elif k == "null-identifier" and n_ids and rows:
            r = rng.randrange(len(rows))
            c = rng.randrange(n_ids)
            if case["focus"] and (case["focus"]["row"], case["focus"]["col"]) == (r, c):
                continue
            rows[r][c] = None
            labels[r][c] = "null"
        elif k == "missing-identifier-column" and n_ids:
            name = comps[rng.randrange(n_ids)][0]
            if not _drop_col(case, name):
                continue
        elif k == "missing-non-nullable-column":
            cand = [c[0] for c in comps if c[2] != "Identifier" and not c[3] and c[0] in case["cols"]]
            if not cand or not _drop_col(case, rng.choice(cand)):
                continue
        elif k == "missing-nullable-column":
            cand = [c[0] for c in comps if c[2] != "Identifier" and c[3] and c[0] in case["cols"]]
            if not cand or not _drop_col(case, rng.choice(cand)):
                continue
        elif k == "extra-column":
            case["cols"].append("Zz_9")
            for r, row in enumerate(case["rows"]):
                row.append(rng.choice(["q", "1", None]))
                labels[r].append("extra")
        elif k == "no-identifier-two-rows" and n_ids == 0 and len(rows) >= 1:
            while len(rows) < 2:
                rows.append([F[c[1]][0][2]() for c in comps])
                labels.append(["plain"] * len(rows[-1]))
        elif k == "null-in-non-nullable" and rows:
            cand = [i for i, name in enumerate(case["cols"]) if any(c[0] == name and c[2] != "Identifier" and not c[3] for c in comps)]
            if not cand:
                continue
            c = rng.choice(cand)
            r = rng.randrange(len(rows))
            if case["focus"] and (case["focus"]["row"], case["cols"][c]) == (r, comps[case["focus"]["col"]][0]):
                continue
            rows[r][c] = None
            labels[r][c] = "null"
        else:
            continue
        case["violations"].append(k)
    if not case["rows"]:
        case["violations"] = [k + ":no-rows" if k in ("missing-identifier-column", "missing-non-nullable-column") else k
                              for k in case["violations"]]
    # column order
    if rng.random() < 0.25 and len(case["cols"]) > 1:
        perm = list(range(len(case["cols"])))
        rng.shuffle(perm)
        case["cols"] = [case["cols"][j] for j in perm]
        case["rows"] = [[row[j] for j in perm] for row in case["rows"]]
        case["labels"] = [[lab[j] for j in perm] for lab in case["labels"]]
    # native plan: per column a kind or None
    case["native"] = plan_native(case, rng)
    return case


def _drop_col(case, name) -> bool:
    if name not in case["cols"] or len(case["cols"]) <= 1:       # a table without any column is not an input
        return False
    f = case["focus"]
    if f and case["comps"][f["col"]][0] == name:
        return False
    j = case["cols"].index(name)
    case["cols"].pop(j)
    for row in case["rows"]:
        row.pop(j)
    for lab in case["labels"]:
        lab.pop(j)
    return True


def comp_of(case, name):
    for c in case["comps"]:
        if c[0] == name:
            return c
    return None


def focus_cell(case):
    """(row index, column index in case['cols']) of the focus cell, or None"""
    f = case.get("focus")
    if not f:
        return None
    name = case["comps"][f["col"]][0]
    if name not in case["cols"]:
        return None
    return f["row"], case["cols"].index(name)


# =============================================================================================== native conversion
_INT_RE = re.compile(r"^[+-]?\d{1,19}$")
_NUM_RE = re.compile(r"^[+-]?(\d+\.?\d*|\.\d+)([eE][+-]?\d+)?$")
_DATE_RE = re.compile(r"^(\d{4})-(\d{2})-(\d{2})$")
_DT_RE = re.compile(r"^(\d{4})-(\d{2})-(\d{2})[ T](\d{2}):(\d{2}):(\d{2})(\.\d{1,6})?$")


def native_cell(ty: str, v: Optional[str]):
    """('int', z) | ('flt', float) | ('bool', b) | ('ts', datetime) | None when the string has no native equivalent"""
    if v is None:
        return ("null",)
    if ty == "Integer":
        if _INT_RE.match(v) and -2 ** 63 <= int(v) < 2 ** 63:
            return ("int", int(v))
        if _NUM_RE.match(v) and len(v) <= 12:
            return ("flt", float(v))
        return None
    if ty == "Number":
        if _NUM_RE.match(v) and len(v.lstrip("+-").replace(".", "").split("e")[0].split("E")[0]) <= 15:
            x = float(v)
            if x == x and abs(x) != float("inf"):
                return ("flt", x)
        return None
    if ty == "Boolean":
        if v.lower() == "true" or v == "1":
            return ("bool", True)
        if v.lower() == "false" or v == "0":
            return ("bool", False)
        return None
    if ty == "Date":
        m = _DATE_RE.match(v)
        try:
            if m:
                return ("ts", _dt.datetime(int(m.group(1)), int(m.group(2)), int(m.group(3))))
            m = _DT_RE.match(v)
            if m:
                us = int(((m.group(7) or ".0")[1:] + "000000")[:6])
                return ("ts", _dt.datetime(*(int(m.group(i)) for i in range(1, 7)), us))
        except ValueError:
            return None
        return None
    return None


def _f32_text(x: float) -> str:
    """shortest decimal that identifies the float32 nearest to x (what DuckDB prints for a FLOAT)"""
    import numpy as np
    return str(np.float32(x))


def f32_safe(v: str) -> bool:
    """the text v denotes exactly the value its float32 shows: the float32 column then has the SAME content as the text forms"""
    import numpy as np
    try:
        f = np.float32(float(v))
        if not np.isfinite(f):
            return False
        # the float32 must BE the number (the engine widens it to double exactly): 1e15 prints '1e+15' as float32 but is 999999986991104
        return (decimal.Decimal(str(f)) == decimal.Decimal(v.strip())                         # what a FLOAT prints
                and float(f) == float(v) and decimal.Decimal(float(f)) == decimal.Decimal(v.strip()))   # what a FLOAT is
    except Exception:
        return False


def plan_native(case, rng) -> Dict[str, Optional[str]]:
    plan: Dict[str, Optional[str]] = {}
    for j, name in enumerate(case["cols"]):
        comp = comp_of(case, name)
        if comp is None:
            plan[name] = None
            continue
        ty = comp[1]
        cells = [native_cell(ty, row[j]) for row in case["rows"]]
        if not cells or any(c is None for c in cells) or ty in ("String", "Time", "Time_Period", "Duration"):
            plan[name] = None
            continue
        kinds = {c[0] for c in cells}
        has_null = "null" in kinds
        vals = [row[j] for row in case["rows"] if row[j] is not None]
        all_f32 = all(f32_safe(v) for v in vals)
        forced = (case.get("force_native") or {}).get(name)
        if forced and ty in ("Integer", "Number"):
            all_int = all(_INT_RE.match(v) and -2 ** 63 <= int(v) < 2 ** 63 for v in vals)
            exact_f64 = all(abs(float(v)) < 2 ** 53 or not _INT_RE.match(v) for v in vals)
            ok = {"float32": all_f32, "float64": exact_f64, "int64": all_int and not has_null, "Int64": all_int}[forced]
            plan[name] = forced if ok else None
            continue
        if ty == "Integer":
            big = any(c[0] == "int" and abs(c[1]) >= 2 ** 53 for c in cells)
            if "flt" in kinds:
                plan[name] = rng.choice(["float64", "float64", "float32"]) if all_f32 else "float64"
            elif big:
                plan[name] = "Int64" if has_null else rng.choice(["int64", "Int64"])
            else:
                plan[name] = rng.choice(["Int64", "float64"]) if has_null else rng.choice(["int64", "int64", "Int64", "float64"])
        elif ty == "Number":
            plan[name] = rng.choice(["float64", "float64", "float32"]) if all_f32 else "float64"
        elif ty == "Boolean":
            plan[name] = "boolean" if has_null else rng.choice(["bool", "boolean"])
        elif ty == "Date":
            if any(c[0] == "ts" and c[1].year < 1700 for c in cells):
                plan[name] = None
            else:
                plan[name] = "datetime64[us]"
    return plan


def native_raw(ty: str, kind: Optional[str], v: Optional[str]):
    """the model-side raw cell of the native DataFrame"""
    if kind is None:
        return ("null",) if v is None else ("str", v)
    c = native_cell(ty, v)
    if c[0] == "null":
        return ("null",)
    if kind in ("int64", "Int64"):
        return ("int", int(c[1]))
    if kind in ("float64", "float32"):
        x = float(c[1])
        d = decimal.Decimal(repr(x) if kind == "float64" else _f32_text(x))
        sign, digits, exp = d.as_tuple()
        m = int("".join(map(str, digits)))
        return ("flt", -m if sign else m, exp)
    if kind in ("bool", "boolean"):
        return ("bool", bool(c[1]))
    if kind == "datetime64[us]":
        t = c[1]
        days = (t.date() - _dt.date(1970, 1, 1)).days
        us = ((t.hour * 60 + t.minute) * 60 + t.second) * 1000000 + t.microsecond
        return ("ts", days, us)
    raise ValueError(kind)


# =============================================================================================== the four forms
def csv_text(cols: List[str], rows: List[List[Optional[str]]]) -> str:
    def field(v, single):
        if v is None:
            return '""' if single else ""
        if v == "" or any(ch in v for ch in ',"\n\r') or v != v.strip():
            return '"' + v.replace('"', '""') + '"'
        return v
    single = len(cols) == 1
    out = [",".join(field(c, False) for c in cols)]
    for r in rows:
        out.append(",".join(field(v, single) for v in r))
    return "\n".join(out) + "\n"


def build_forms(case, td: str) -> Dict[str, Any]:
    import pandas as pd
    import pyarrow as pa
    import pyarrow.parquet as pq
    cols, rows = case["cols"], case["rows"]
    out: Dict[str, Any] = {}
    p = os.path.join(td, "DS_1.csv")
    with open(p, "w", newline="", encoding="utf-8") as f:
        f.write(csv_text(cols, rows))
    out["csv"] = Path(p)
    out["df_str"] = pd.DataFrame({c: pd.Series([r[j] for r in rows], dtype=object) for j, c in enumerate(cols)}, columns=cols)
    nat = {}
    for j, c in enumerate(cols):
        kind = case["native"].get(c)
        comp = comp_of(case, c)
        vals = [r[j] for r in rows]
        if kind is None or comp is None:
            nat[c] = pd.Series(vals, dtype=object)
            continue
        cells = [native_cell(comp[1], v) for v in vals]
        if kind == "int64":
            nat[c] = pd.Series([x[1] for x in cells], dtype="int64")
        elif kind == "Int64":
            nat[c] = pd.Series([None if x[0] == "null" else x[1] for x in cells], dtype="Int64")
        elif kind in ("float64", "float32"):
            nat[c] = pd.Series([float("nan") if x[0] == "null" else float(x[1]) for x in cells], dtype=kind)
        elif kind == "bool":
            nat[c] = pd.Series([x[1] for x in cells], dtype="bool")
        elif kind == "boolean":
            nat[c] = pd.Series([None if x[0] == "null" else x[1] for x in cells], dtype="boolean")
        elif kind == "datetime64[us]":
            nat[c] = pd.Series([None if x[0] == "null" else x[1] for x in cells], dtype="datetime64[us]")
    out["df_nat"] = pd.DataFrame(nat, columns=cols)
    pp = os.path.join(td, "DS_1.parquet")
    tbl = pa.table({c: pa.array([r[j] for r in rows], type=pa.string()) for j, c in enumerate(cols)}) if cols else pa.table({})
    pq.write_table(tbl, pp)
    out["parquet"] = Path(pp)
    # the same table with typed columns (int64 / double / float / bool / timestamp[us]); NaN / NA / NaT become Parquet nulls
    os.makedirs(os.path.join(td, "typed"), exist_ok=True)
    pn = os.path.join(td, "typed", "DS_1.parquet")
    if cols:
        pq.write_table(pa.Table.from_pandas(out["df_nat"], preserve_index=False), pn)
    else:
        pq.write_table(pa.table({}), pn)
    out["pq_nat"] = Path(pn)
    return out


def structs_of(case):
    import engine
    return engine.structures(engine.ds_struct("DS_1", [tuple(c) for c in case["comps"]]))


# =============================================================================================== canonical values
_PER_RE = re.compile(r"^(\d+)(?:([ASQMWD])(\d+))?$")
_OUTDATE_RE = re.compile(r"^(\d{4,})-(\d{2})-(\d{2})(?:T(\d{2}):(\d{2}):(\d{2})(?:\.(\d{6}))?)?$")


def canon_engine_value(ty: str, v):
    if v is None:
        return None
    if ty == "Date":
        m = _OUTDATE_RE.match(str(v))
        if not m:
            return ("?date", str(v))
        g = m.groups()
        return ("ts", int(g[0]), int(g[1]), int(g[2]), int(g[3] or 0), int(g[4] or 0), int(g[5] or 0), int(g[6] or 0))
    if ty == "Time_Period":
        m = _PER_RE.match(str(v))
        if not m:
            return ("?per", str(v))
        return ("per", int(m.group(1)), m.group(2) or "A", int(m.group(3) or 1))
    return v


def _civil(days: int):
    d = _dt.date(1970, 1, 1).toordinal() + days
    if d < 1:
        return (0, 0, 0)
    t = _dt.date.fromordinal(d)
    return (t.year, t.month, t.day)


def canon_model_value(o):
    """parsed oval -> same canonical form as canon_engine_value(engine.canon_*)"""
    if o == "ONull":
        return None
    tag = o[0]
    if tag == "OInt":
        return int(o[1])
    if tag == "ODec":
        f = Fraction(int(o[1]), 10 ** 10)
        g = Fraction(float(f)).limit_denominator(10 ** 6)
        return f"{g.numerator}/{g.denominator}"
    if tag == "OBool":
        return bool(o[1])
    if tag == "OStr":
        return o[1][1]
    if tag == "OTs":
        y, m, d = _civil(int(o[1]))
        us = int(o[2])
        s, us = divmod(us, 1000000)
        h, rem = divmod(s, 3600)
        mi, sec = divmod(rem, 60)
        return ("ts", y, m, d, h, mi, sec, us)
    if tag == "OPer":
        return ("per", int(o[1]), o[2][1], int(o[3]))
    raise ValueError(o)


def _sort_rows(rows):
    return sorted(rows, key=lambda r: json.dumps([None if x is None else [type(x).__name__, str(x)] for x in r]))


def canon_model_outcome(t):
    tag = t[0] if isinstance(t, tuple) else t
    if tag == "OAcc":
        return {"ok": True, "rows": _sort_rows([tuple(canon_model_value(o) for o in row) for row in t[1]])}
    code = t[1][1]
    if tag == "ORej":
        return {"ok": False, "stage": "load", "code": code}
    return {"ok": False, "stage": "late", "code": code}


def engine_code(kind, code) -> str:
    if kind in ("RawPython", "RawDuckDB"):
        return "raw:" + str(code).removesuffix("Error")     # (the word "Error" must not appear in Coq output: common.coq_eval greps for it)
    return str(code)


# =============================================================================================== engine worker
_worker_ready = False


def _worker_init():
    global _worker_ready
    sys.path[:0] = [str(Path(__file__).resolve().parent), os.environ.get("VERIF_REPO", "/repo") + "/src"]
    os.environ.setdefault("MEANINGFUL_DATA_VTLENGINE_VERIF", "1")
    import engine
    engine.install(need_parser=True)
    import vtlengine  # noqa
    import warnings
    warnings.filterwarnings("ignore")
    _worker_ready = True


ALL_KEYS = ["csv", "df_str", "df_nat", "parquet", "pq_nat", "val_df", "val_csv", "val_dfn"]
VAL_FORM = {"val_df": "df_str", "val_csv": "csv", "val_dfn": "df_nat"}


def run_engine_case(arg) -> Dict[str, Any]:
    """the real-engine outcomes of one case for the requested keys (run() on a form / validate_dataset() on a form)"""
    case, keys = arg if isinstance(arg, tuple) else (arg, ALL_KEYS)
    if not _worker_ready:
        _worker_init()
    import engine
    import vtlengine
    st = structs_of(case)
    res: Dict[str, Any] = {}
    has_native = any(case["native"].get(c) for c in case["cols"])
    with tempfile.TemporaryDirectory(prefix="verif_loader_") as td:
        forms = build_forms(case, td)
        for k in FORMS:
            if k not in keys:
                continue
            v = forms[k]
            if k == "df_nat" and not has_native and "df_str" in res:      # identical frame: reuse the outcome
                res[k] = dict(res["df_str"], same_as="df_str")
                continue
            if k == "pq_nat" and not has_native and "parquet" in res:     # identical file
                res[k] = dict(res["parquet"], same_as="parquet")
                continue
            r = engine.run_case(SCRIPT, st, {"DS_1": v})
            if r["ok"]:
                ds = r["datasets"].get("DS_r")
                if ds is None:
                    res[k] = {"ok": False, "stage": "late", "kind": "Harness", "code": "no DS_r", "msg": ""}
                    continue
                names = [c[0] for c in ds["comps"]]
                tys = {c[0]: c[1] for c in case["comps"]}
                rows = [tuple(canon_engine_value(tys.get(names[i], "String"), x) for i, x in enumerate(row)) for row in ds["rows"]]
                res[k] = {"ok": True, "rows": _sort_rows(rows), "names": names}
            else:
                kind, code = r["err"]
                res[k] = {"ok": False, "kind": kind, "code": engine_code(kind, code), "msg": r["msg"][:300],
                          "stage": "load" if kind in INPUT_KINDS else "late"}
        for k in ("val_df", "val_csv", "val_dfn"):
            if k not in keys:
                continue
            v = forms[VAL_FORM[k]]
            if k == "val_dfn" and not has_native and "val_df" in res:
                res[k] = dict(res["val_df"], same_as="val_df")
                continue
            try:
                vtlengine.validate_dataset(st, {"DS_1": v.copy() if hasattr(v, "copy") else v})
                res[k] = {"ok": True}
            except Exception as e:  # noqa
                kind, code = engine.classify_error(e)
                res[k] = {"ok": False, "kind": kind, "code": engine_code(kind, code), "msg": str(e)[:300],
                          "stage": "load" if kind in INPUT_KINDS else "late"}
    return res


def run_engine(cases, keys=None, procs: Optional[int] = None) -> List[Dict[str, Any]]:
    keys = list(keys or ALL_KEYS)
    procs = procs or max(2, min(NCPU - 4, 12))
    args = [(c, keys) for c in cases]
    if len(cases) <= 4:
        return [run_engine_case(a) for a in args]
    ctx = mp.get_context("spawn")
    with ctx.Pool(procs, initializer=_worker_init) as pool:
        return pool.map(run_engine_case, args, chunksize=max(1, len(cases) // (procs * 8)))


# =============================================================================================== Coq side
def coq_str(s: str) -> str:
    return f"(s_ {coq_string(s)})"


def coq_raw(c) -> str:
    k = c[0]
    if k == "null":
        return "RNull"
    if k == "str":
        return f"(RStr {coq_str(c[1])})"
    if k == "int":
        return f"(RInt ({c[1]}))"
    if k == "flt":
        return f"(RFlt ({c[1]}) ({c[2]}))"
    if k == "bool":
        return f"(RBool {'true' if c[1] else 'false'})"
    if k == "ts":
        return f"(RTs ({c[1]}) ({c[2]}))"
    raise ValueError(c)


def coq_case(case) -> str:
    comps = "[" + "; ".join(f"mkComp {coq_string(n)} {COQ_TY[t]} {'true' if r == 'Identifier' else 'false'} {'true' if nl else 'false'}"
                            for n, t, r, nl in case["comps"]) + "]"
    cols = "[" + "; ".join(coq_string(c) for c in case["cols"]) + "]"

    def tb(native: bool) -> str:
        rows = []
        for row in case["rows"]:
            cells = []
            for j, v in enumerate(row):
                name = case["cols"][j]
                comp = comp_of(case, name)
                if native and comp is not None:
                    cells.append(coq_raw(native_raw(comp[1], case["native"].get(name), v)))
                else:
                    cells.append(coq_raw(("null",) if v is None else ("str", v)))
            rows.append("[" + "; ".join(cells) + "]")
        return f"(mkTable {cols} [" + "; ".join(rows) + "])"
    return f"all6 {comps} {tb(False)} {tb(True)}"


MODEL_KEYS = ["csv", "df_str", "df_nat", "parquet", "val_df", "val_csv", "val_dfn", "pq_nat"]


def run_model(cases, tag: str) -> List[Dict[str, Any]]:
    got = coq_eval(HEADER, [coq_case(c) for c in cases], tag, shard=120)
    out = []
    for g in got:
        out.append({k: canon_model_outcome(t) for k, t in zip(MODEL_KEYS, g)})
    return out


def run_denote(pairs: List[Tuple[str, str]], tag: str) -> Dict[Tuple[str, str], Any]:
    """(type, string) -> ('some', canonical value) | None   from the Coq spec `denote`"""
    exprs = [f"option_map oshow (denote {COQ_TY[t]} {coq_str(s)})" for t, s in pairs]
    got = coq_eval(HEADER, exprs, tag, shard=600)
    res = {}
    for (t, s), g in zip(pairs, got):
        res[(t, s)] = None if g is None else ("some", canon_model_value(g[1]))
    return res


# =============================================================================================== comparison helpers
# the validator's failure CLASS for Integer magnitudes >= 2^63 depends on pandas/pyarrow internals (presence of NA in the
# column): modelled as a rejection only
LENIENT = {("raw:Overflow", "0-3-1-6"), ("0-3-1-6", "raw:Overflow")}


_FRAC_RE = re.compile(r"^-?\d+/\d+$")


def norm_val(v):
    """Numbers come back through DuckDB's DECIMAL(28,10) -> DOUBLE conversion, which is one ulp off for magnitudes whose scaled
    integer exceeds 2^53 (1e15 is returned as 1000000000000000.125): compare Numbers to 15 significant digits"""
    if isinstance(v, str) and _FRAC_RE.match(v):
        a, b = v.split("/")
        return "%.14e" % (int(a) / int(b))
    if isinstance(v, (list, tuple)):
        return [norm_val(x) for x in v]
    return v


def norm_rows(rows):
    return [[norm_val(x) for x in r] for r in rows]


def tie_equal(e, m, key: str) -> bool:
    if e["ok"] != m["ok"]:
        return False
    if e["ok"]:
        if key.startswith("val"):
            return True
        # (sort AFTER normalising: the two sides are sorted by their un-normalised spelling, '7901…/64' sorts differently from '1234…/1')
        return sorted(norm_rows(e["rows"]), key=repr) == sorted(norm_rows(m["rows"]), key=repr)
    if (e["code"], m["code"]) in LENIENT:
        return True
    return e["stage"] == m["stage"] and e["code"] == m["code"]


def tie_skip(case, key: str) -> Optional[str]:
    """comparisons that depend on the drifted dependency versions of this sandbox, not on vtlengine"""
    if key == "val_csv" and not case["rows"] and any(c[1] == "Duration" for c in case["comps"]):
        return "pandas-3 string dtype: Series.map(...).all() on an empty string[pyarrow] column raises TypeError"
    return None


def status(o) -> str:
    """A accepted | R rejected with a VTL input error | L failed with another error (after the load / raw exception)"""
    if o["ok"]:
        return "A"
    return "R" if o["stage"] == "load" else "L"


def short(o) -> str:
    if o["ok"]:
        return "accepted" + (f" {o['rows']}" if "rows" in o else "")
    return f"{o.get('kind', '')} {o['code']}".strip()


def has_native(case) -> bool:
    return any(case["native"].get(c) for c in case["cols"])


def run_forms(case) -> List[str]:
    return ["csv", "df_str", "parquet"] + (["df_nat", "pq_nat"] if has_native(case) else [])


# ---- what docs + declared structure require (C19)
def spec_expectation(case, den) -> Dict[str, Any]:
    """{'claim': False, 'why'} | {'claim': True, 'accept': bool, 'rows': [...] | None, 'why': str}"""
    comps = {c[0]: c for c in case["comps"]}
    cols = case["cols"]
    f = case.get("focus")
    if f and f["doc"] == "silent" and focus_cell(case) is not None:
        return {"claim": False, "why": f"documentation silent on {f['type']}:{f['label']}"}
    reasons = []
    for name, c in comps.items():
        if name not in cols and (c[2] == "Identifier" or not c[3]):
            reasons.append("missing-required-column")
    idn = [c[0] for c in case["comps"] if c[2] == "Identifier"]
    if not idn and len(case["rows"]) > 1:
        reasons.append("no-identifier-two-rows")
    den_rows = []
    for r, row in enumerate(case["rows"]):
        drow = {}
        for j, v in enumerate(row):
            name = cols[j]
            if name not in comps:
                continue
            c = comps[name]
            if v is None:
                drow[name] = None
                if c[2] == "Identifier":
                    reasons.append("null-identifier")
                elif not c[3]:
                    reasons.append("null-in-non-nullable")
            else:
                d = den[(c[1], v)]
                if d is None:
                    reasons.append(f"invalid-value:{c[1]}")
                    drow[name] = ("?invalid",)
                else:
                    drow[name] = d[1]
        den_rows.append(drow)
    if not reasons and idn and all(n in cols for n in idn):
        keys = [json.dumps([str(dr[n]) for n in idn]) for dr in den_rows]
        if len(set(keys)) != len(keys):
            reasons.append("duplicate-key")
    if reasons:
        return {"claim": True, "accept": False, "rows": None, "why": ", ".join(sorted(set(reasons)))}
    rows = _sort_rows([tuple(dr.get(c[0]) for c in case["comps"]) for dr in den_rows])
    return {"claim": True, "accept": True, "rows": rows, "why": "no violation"}


# ---- the three property predicates on ENGINE outcomes: list of (relation, forms, detail); empty = holds
def c18_problems(case, eng) -> List[Tuple[str, str, str]]:
    f = case.get("focus")
    if c18_exempt(f) and focus_cell(case) is not None:
        return []
    forms = run_forms(case)
    st = {k: status(eng[k]) for k in forms}
    vals = set(st.values())
    if vals == {"R"}:
        return []
    if vals == {"L"} and len({eng[k]["code"] for k in forms}) == 1:
        return []            # the same non-input failure in every form: identical behaviour (the failure itself is C19's subject)
    if vals == {"A"}:
        groups: Dict[str, List[str]] = {}
        for k in forms:
            groups.setdefault(json.dumps(sorted(norm_rows(eng[k]["rows"]), key=repr), default=str), []).append(k)
        if len(groups) == 1:
            return []
        desc = " | ".join("+".join(v) + " -> " + json.dumps(json.loads(g), default=str)[:160] for g, v in groups.items())
        return [("different-values", "/".join("+".join(v) for v in groups.values()), desc)]
    desc = ", ".join(f"{k}: {short(eng[k])[:120]}" for k in forms)
    sig = "/".join(f"{s}:" + "+".join(k for k in forms if st[k] == s) for s in ("A", "R", "L") if s in vals)
    return [("accepted-by-some-rejected-by-others", sig, desc)]


def c19_problems(case, eng, exp) -> List[Tuple[str, str, str]]:
    if not exp["claim"]:
        return []
    out: Dict[str, List[str]] = {}
    det = {}
    for k in run_forms(case):
        o = eng[k]
        s = status(o)
        if exp["accept"]:
            if s == "A":
                if sorted(norm_rows(o["rows"]), key=repr) != sorted(norm_rows(exp["rows"]), key=repr):
                    rel = "valid-input-loaded-as-another-value"
                else:
                    continue
            elif s == "R":
                rel = "valid-input-rejected"
            else:
                rel = "valid-input-fails-after-load"
        else:
            if s == "R":
                continue
            rel = "invalid-input-accepted" if s == "A" else "invalid-input-not-an-input-error"
        out.setdefault(rel, []).append(k)
        det[rel] = f"{k}: {short(o)[:160]}"
    return [(rel, "+".join(ks), f"expected {'accept ' + str(exp['rows'])[:120] if exp['accept'] else 'VTL input error'} ({exp['why']}); {det[rel]}")
            for rel, ks in out.items()]


C20_PAIRS = [("val_df", "df_str"), ("val_csv", "csv"), ("val_dfn", "df_nat")]


def c20_problems(case, eng) -> List[Tuple[str, str, str]]:
    out: Dict[str, List[str]] = {}
    det = {}
    for vk, rk in C20_PAIRS:
        if rk == "df_nat" and not has_native(case):
            continue
        if vk not in eng or rk not in eng:
            continue
        if tie_skip(case, vk):
            continue
        v, r = eng[vk], eng[rk]
        if v["ok"] == r["ok"]:
            continue
        if rk == "df_nat" and not v["ok"] and v["code"] == "raw:Attribute" and "datetime64[us]" in case["native"].values():
            # one defect whatever else the table holds: check_date() calls .strip() on a pandas Timestamp
            out.setdefault("@Date:native-datetime64:validate-rejects-run-accepts", []).append(rk)
            det["@Date:native-datetime64:validate-rejects-run-accepts"] = \
                f"validate_dataset(df_nat): {short(v)[:120]} {v.get('msg', '')[:80]}; run(df_nat): {short(r)[:120]}"
            continue
        rel = "validate-accepts-run-rejects" if v["ok"] else "validate-rejects-run-accepts"
        out.setdefault(rel, []).append(rk)
        det[rel] = f"validate_dataset({VAL_FORM[vk]}): {short(v)[:120]}; run({rk}): {short(r)[:120]}"
    return [(rel, "+".join(ks), det[rel]) for rel, ks in out.items()]


# ---- directed cases
def directed_value_cases(F, start_idx=0, per_family: Optional[int] = None) -> List[Dict[str, Any]]:
    out = []
    i = start_idx
    for ty in TYPES:
        for fam in F[ty]:
            vals = fam.directed if per_family is None else fam.directed[:per_family]
            numeric = ty in ("Integer", "Number") and fam.label not in ("blank-only", "padded", "empty-string")
            for n, v in enumerate(vals):
                if not numeric:
                    out.append(single_cell_case(ty, v, fam.label, fam.doc, idx=i))
                    i += 1
                    continue
                # numeric families: the text forms + EVERY native dtype that holds the value exactly (DataFrame column and typed
                # Parquet column); deterministic, no random choice
                made = 0
                for kind in ("float64", "float32", "int64", "Int64"):
                    c = single_cell_case(ty, v, fam.label, fam.doc, idx=i, force_native={"Me_1": kind})
                    if c["native"].get("Me_1") == kind:
                        out.append(c)
                        i += 1
                        made += 1
                        if per_family is not None and n > 0:
                            break            # quick tier: all dtypes for the first value of the family, one for the others
                if not made:
                    out.append(single_cell_case(ty, v, fam.label, fam.doc, idx=i))
                    i += 1
            # blank / padded cells: also in a NOT NULL column (the nullable branch of the loaders is a different expression)
            if fam.label in ("blank-only", "padded"):
                for v in vals[:1] if per_family is not None else vals:
                    out.append(single_cell_case(ty, v, fam.label, fam.doc, nullable=False, idx=i))
                    i += 1
    # the same values as identifiers for a few types/labels where the role changes the path (NOT NULL, duplicates)
    for ty, lab in (("Time_Period", "indicator-without-number"), ("String", "embedded-quote"), ("Integer", "fractional"),
                    ("Date", "datetime"), ("Boolean", "not-boolean")):
        fam = [f for f in F[ty] if f.label == lab][0]
        for v in fam.directed[:3]:
            out.append(single_cell_case(ty, v, lab, fam.doc, role="Identifier", nullable=False, idx=i))
            i += 1
    return out


STRUCT_KINDS = ["duplicate-key", "null-identifier", "missing-identifier-column", "missing-non-nullable-column", "missing-nullable-column",
                "extra-column", "no-identifier-two-rows", "null-in-non-nullable",
                "missing-identifier-column:no-rows", "missing-non-nullable-column:no-rows"]


def directed_struct_cases(start_idx=0) -> List[Dict[str, Any]]:
    import random
    out = []
    base = [["Id_1", "Integer", "Identifier", False], ["Id_2", "String", "Identifier", False],
            ["Me_1", "Number", "Measure", True], ["Me_2", "String", "Measure", False]]
    for n, kind in enumerate(STRUCT_KINDS):
        comps = [list(c) for c in base]
        rows = [["1", "a", "1.5", "x"], ["2", "b", None, "y"]]
        cols = [c[0] for c in comps]
        k0 = kind.split(":")[0]
        if kind.endswith(":no-rows"):
            rows = []
        if k0 == "duplicate-key":
            rows.append(["1", "a", "7", "z"])
        elif k0 == "null-identifier":
            rows[1][1] = None
        elif k0 == "missing-identifier-column":
            cols.pop(1); rows = [r[:1] + r[2:] for r in rows]
        elif k0 == "missing-non-nullable-column":
            cols.pop(3); rows = [r[:3] for r in rows]
        elif k0 == "missing-nullable-column":
            cols.pop(2); rows = [r[:2] + r[3:] for r in rows]
        elif k0 == "extra-column":
            cols.append("Zz_9"); rows = [r + ["q"] for r in rows]
        elif k0 == "no-identifier-two-rows":
            comps = comps[2:]; cols = cols[2:]; rows = [r[2:] for r in rows]; rows[1][0] = "2.5"
        elif k0 == "null-in-non-nullable":
            rows[0][3] = None
        case = {"idx": start_idx + n, "comps": comps, "cols": cols, "rows": rows, "labels": [["plain"] * len(cols) for _ in rows],
                "violations": [kind], "focus": None}
        case["native"] = plan_native(case, random.Random(n))
        out.append(case)
    # the same without any violation (control)
    case = {"idx": start_idx + len(out), "comps": [list(c) for c in base], "cols": [c[0] for c in base],
            "rows": [["1", "a", "1.5", "x"], ["2", "b", None, "y"]], "labels": [["plain"] * 4] * 2, "violations": [], "focus": None}
    case["native"] = plan_native(case, random.Random(99))
    out.append(case)
    return out


def case_fingerprint(case) -> str:
    f = case.get("focus")
    return json.dumps([[c[1], c[2], c[3]] for c in case["comps"]] + [f and [f["type"], f["label"], f["value"]], case["violations"],
                      len(case["rows"])], default=str)


def describe(case) -> Dict[str, Any]:
    return {"comps": case["comps"], "cols": case["cols"], "rows": case["rows"], "labels": case.get("labels"), "native": case.get("native"),
            "focus": case.get("focus"), "violations": case.get("violations"), "idx": case.get("idx", 0), "script": SCRIPT}


BENIGN_KINDS = {"missing-nullable-column"}       # injected, but not a violation: never part of a finding key


def real_violations(case) -> List[str]:
    return [k for k in (case.get("violations") or []) if k not in BENIGN_KINDS]


def base_key(case) -> str:
    f = case.get("focus")
    v = real_violations(case)
    parts = []
    if f and focus_cell(case) is not None:
        parts.append(f"{f['type']}:{f['label']}")
    if v:
        parts.append("structure:" + "+".join(sorted(v)))
    return "|".join(parts) if parts else "plain-values"


# =============================================================================================== the campaign
def campaign(ctx, keys: List[str], n_random: int, kcheck_per_pattern: Optional[int] = None) -> Dict[str, Any]:
    """regenerate Gen/Regex.v, check the matcher, generate + run + model all cases, tie them; returns everything the
    property-specific part needs"""
    from translate import regex as R
    t0 = time.time()
    d = R.emit()
    ctx.oblige("T-regex: every loader pattern is inside the translated subset", not d["failures"], "; ".join(d["failures"]))
    ctx.cov["regex_patterns"] = {p["name"]: p["pattern"] for p in d["patterns"]}
    import engine
    engine.install()
    from vtlengine.duckdb_transpiler.Config.config import get_decimal_type
    ctx.oblige("Number columns are DECIMAL(28,10) (the configuration the model describes)", get_decimal_type() == "DECIMAL(28,10)",
               get_decimal_type())
    proved = ctx.prove(ctx.pid)
    if proved:
        R.kcheck(ctx, d, per_pattern=kcheck_per_pattern)
    F = families(ctx.rng)
    cases: List[Dict[str, Any]] = []
    for obj in load_corpus(ctx.pid):
        c = obj.get("case")
        if c:
            c = dict(c)
            c["idx"] = len(cases)
            c["origin"] = "corpus"
            cases.append(c)
    n_corpus = len(cases)
    dv = directed_value_cases(F, len(cases), per_family=2 if ctx.tier == "quick" else None)
    for c in dv:
        c["origin"] = "directed-value"
    cases += dv
    ds = directed_struct_cases(len(cases))
    for c in ds:
        c["origin"] = "directed-structure"
    cases += ds
    for i in range(n_random):
        c = gen_case(ctx.rng, F, len(cases))
        c["origin"] = "generated"
        cases.append(c)
    ctx.log(f"cases: {n_corpus} corpus + {len(dv)} directed values + {len(ds)} directed structures + {n_random} generated")
    t1 = time.time()
    eng = run_engine(cases, keys)
    t2 = time.time()
    mod = run_model(cases, f"loader_{ctx.pid.lower()}") if proved else None
    t3 = time.time()
    pairs = sorted({(comp_of(c, c["cols"][j])[1], v) for c in cases for row in c["rows"] for j, v in enumerate(row)
                    if v is not None and comp_of(c, c["cols"][j]) is not None})
    den = run_denote(pairs, f"denote_{ctx.pid.lower()}") if proved else {}
    t4 = time.time()
    ctx.log(f"engine {t2 - t1:.0f}s ({len(cases) * len(keys)} calls), model {t3 - t2:.0f}s, denote {t4 - t3:.0f}s ({len(pairs)} cells)")
    # ---- tie: faithful model vs engine
    n_cmp = n_bad = n_skip = 0
    if mod is not None:
        for c, e, m in zip(cases, eng, mod):
            for k in keys:
                why = tie_skip(c, k)
                if why:
                    n_skip += 1
                    continue
                n_cmp += 1
                if not tie_equal(e[k], m[k], k):
                    n_bad += 1
                    if n_bad <= 8:
                        ctx.oblige(f"K: faithful model = engine on case {c['idx']} ({base_key(c)}) form {k}", False,
                                   f"engine {short(e[k])[:200]} / model {short(m[k])[:200]} / table {json.dumps(describe(c), default=str)[:600]}")
                        CORPUS.joinpath(ctx.pid).mkdir(parents=True, exist_ok=True)
                        (CORPUS / ctx.pid / f"tie-{abs(hash(case_fingerprint(c))) % 10 ** 8}.json").write_text(
                            json.dumps({"case": describe(c), "form": k, "engine": short(e[k]), "model": short(m[k])}, indent=1, default=str))
        ctx.oblige(f"K: faithful model (Model/Loader.v) = engine on {n_cmp} outcomes of {len(cases)} tables "
                   f"({n_skip} skipped for dependency drift)", n_bad == 0, f"{n_bad} disagreements")
    # ---- labels vs spec (harness self-check)
    if den:
        wrong = []
        for ty in TYPES:
            for fam in F[ty]:
                for v in fam.directed:
                    dv_ = den.get((ty, v))
                    if (ty, v) not in den:
                        continue
                    if fam.doc == "valid" and dv_ is None or fam.doc == "invalid" and dv_ is not None:
                        wrong.append(f"{ty}:{fam.label}:{v!r} labelled {fam.doc} but valid_repr={dv_ is not None}")
        ctx.oblige("value families: label status agrees with the Coq spec valid_repr on every directed value", not wrong, "; ".join(wrong[:6]))
    # ---- distribution
    from collections import Counter
    dist = {"origin": Counter(c["origin"] for c in cases),
            "focus_type": Counter((c["focus"] or {}).get("type", "none") for c in cases),
            "focus_doc_status": Counter((c["focus"] or {}).get("doc", "none") for c in cases),
            "focus_label": Counter(f"{c['focus']['type']}:{c['focus']['label']}" for c in cases if c.get("focus")),
            "violation_kinds": Counter(k for c in cases for k in c["violations"]),
            "violations_per_table": Counter(len(c["violations"]) for c in cases),
            "rows_per_table": Counter(len(c["rows"]) for c in cases),
            "identifiers_per_structure": Counter(sum(1 for x in c["comps"] if x[2] == "Identifier") for c in cases),
            "component_types": Counter(x[1] for c in cases for x in c["comps"]),
            "native_dtypes": Counter(v for c in cases for v in c["native"].values() if v),
            "outcome_by_form": {k: dict(Counter(status(e[k]) for e in eng)) for k in keys}}
    ctx.cov["input_distribution"] = json.loads(json.dumps(dist))
    ctx.cov["tie"] = {"outcomes_compared": n_cmp, "disagreements": n_bad, "skipped_dependency_drift": n_skip,
                      "engine_seconds": round(t2 - t1, 1), "model_seconds": round(t3 - t2, 1)}
    for c in cases:
        ctx.count(case_fingerprint(c))
    for c in cases[n_corpus:n_corpus + 2] + cases[-3:]:
        ctx.sample({"table": describe(c)})
    return {"cases": cases, "eng": eng, "mod": mod, "den": den, "F": F, "proved": proved}


def _pure(case) -> bool:
    f = case.get("focus") if focus_cell(case) is not None else None
    v = real_violations(case)
    return (1 if f else 0) + len(v) <= 1


def attributed_key(case, rel: str, pure_keys) -> str:
    """a table with a focus cell AND structural violations (or several violations): the problem is attributed to the one
    ingredient that shows the same problem on its own; otherwise the combination is reported as such"""
    if rel.startswith("@"):
        return rel[1:]
    if _pure(case):
        return f"{base_key(case)}:{rel}"
    f = case.get("focus") if focus_cell(case) is not None else None
    if f and f"{f['type']}:{f['label']}:{rel}" in pure_keys:
        return f"{f['type']}:{f['label']}:{rel}"
    for k in sorted(real_violations(case)):
        if f"structure:{k}:{rel}" in pure_keys:
            return f"structure:{k}:{rel}"
    return f"{base_key(case)}:{rel}"


def report(ctx, found: List[Tuple[Dict[str, Any], str, str, str]], what_prefix: str):
    """found: [(case, relation, forms, detail)] -> one ctx.violation per stable key (the smallest table is the replay)"""
    pure_keys = {f"{base_key(c)}:{rel}" for c, rel, _, _ in found if _pure(c) and not rel.startswith("@")}
    best: Dict[str, Any] = {}
    count: Dict[str, int] = {}
    for case, rel, forms, detail in found:
        key = attributed_key(case, rel, pure_keys)
        count[key] = count.get(key, 0) + 1
        size = (0 if _pure(case) else 1, 0 if case.get("origin", "").startswith("directed") else 1, len(case["rows"]) * len(case["cols"]))
        if key not in best or size < best[key][3]:
            best[key] = (case, forms, detail, size)
    for key in sorted(best):
        case, forms, detail, _ = best[key]
        f = case.get("focus")
        val = f" value {f['value']!r}" if f else ""
        ctx.violation(key, f"{what_prefix} {key}{val} [{forms}] {detail}"[:900],
                      {"case": describe(case), "forms": forms, "detail": detail, "occurrences": count[key]})
    ctx.cov["violation_keys"] = {k: count[k] for k in sorted(count)}


def replay_case(ctx, obj, keys, problems_fn) -> int:
    case = obj["case"]
    case.setdefault("labels", [["plain"] * len(case["cols"]) for _ in case["rows"]])
    eng = run_engine([case], keys)[0]
    for k in keys:
        print(f"  {k:8s} -> {short(eng[k])[:300]}")
    probs = problems_fn(case, eng)
    print("expected:", obj.get("what", "")[:300])
    print("observed:", probs if probs else "property holds on this input now")
    return 1 if probs else 0


# =============================================================================================== corpus / single cells
def load_corpus(pid: str) -> List[Dict[str, Any]]:
    d = CORPUS / pid
    out = []
    if d.exists():
        for p in sorted(d.glob("*.json")):
            try:
                out.append(json.loads(p.read_text()))
            except Exception:
                pass
    return out


def single_cell_case(ty: str, value: Optional[str], label: str, doc: str, role="Measure", nullable=True, idx=0, force_native=None):
    import random
    if role == "Identifier":
        comps = [["Id_1", ty, "Identifier", False], ["Me_1", "Integer", "Measure", True]]
        rows = [[value, "1"]]
        col = 0
    else:
        comps = [["Id_1", "Integer", "Identifier", False], ["Me_1", ty, role, nullable]]
        rows = [["1", value]]
        col = 1
    case = {"idx": idx, "comps": comps, "cols": [c[0] for c in comps], "rows": rows,
            "labels": [["plain", "plain"]], "violations": [],
            "focus": {"row": 0, "col": col, "type": ty, "label": label, "doc": doc, "value": value, "role": role, "nullable": nullable}}
    case["labels"][0][col] = label
    if force_native:
        case["force_native"] = force_native
    case["native"] = plan_native(case, random.Random(idx))
    return case
