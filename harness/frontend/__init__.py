"""Stand-in for vtlengine's unbuildable pybind11 parser ``vtl_cpp_parser``.

``install()`` extracts the serialized ATNs + name vectors from the repo's generated
``Vtl.cpp`` / ``VtlTokens.cpp``, has a long-lived Java child (``VtlFront.java``, ANTLR Java
runtime's Lexer/ParserInterpreter) parse with exactly that grammar, and registers a module
object with the API of bindings.cpp's ``PYBIND11_MODULE`` under
``vtlengine.AST.Grammar._cpp_parser.vtl_cpp_parser`` in ``sys.modules`` so that
``import vtlengine`` works without touching the repo.

    import frontend; frontend.install()      # before (or after) importing vtlengine
"""

from __future__ import annotations

import atexit
import fcntl
import hashlib
import os
import re
import struct
import subprocess
import sys
import threading
import types
from array import array
from pathlib import Path
from typing import Any, Dict, List, Optional, Tuple

MODNAME = "vtlengine.AST.Grammar._cpp_parser.vtl_cpp_parser"
HERE = Path(__file__).resolve().parent
BUILD = HERE / "build"
JAVA_SRC = HERE / "VtlFront.java"
JAR = os.environ.get(
    "VERIF_ANTLR_JAR",
    "/opt/veriftools/tlapm/lib/tlapm/backends/Isabelle/contrib/solr-9.7.0-1/lib/antlr4-runtime-4.11.1.jar",
)
TAB_WIDTH = 4

_lock = threading.RLock()  # guards the pipe and the "last parse" state
_module: Optional[types.ModuleType] = None
_grammar: Optional["_Grammar"] = None
_child: Optional["_Child"] = None
_last: Optional["_Tree"] = None


# --------------------------------------------------------------------------- extraction
def _cstrings(chunk: str) -> List[str]:
    """C++ string literals of one ``std::vector<std::string>{...}`` initialiser."""
    esc = {"n": "\n", "t": "\t", "r": "\r", "\\": "\\", '"': '"', "'": "'"}
    return [
        re.sub(r"\\(.)", lambda m: esc.get(m.group(1), m.group(1)), s)
        for s in re.findall(r'"((?:[^"\\]|\\.)*)"', chunk)
    ]


def _static_data(cpp: str) -> Tuple[List[List[str]], List[int]]:
    """(name vectors, serialized ATN) of an ANTLR-generated C++ recognizer."""
    m = re.search(r"std::make_unique<\w+StaticData>\(", cpp)
    a = cpp.index("serializedATNSegment[] = {", m.end())
    vectors = [_cstrings(c) for c in cpp[m.end() : a].split("std::vector<std::string>{")[1:]]
    atn = [int(x) for x in re.findall(r"-?\d+", cpp[a : cpp.index("};", a)].split("{", 1)[1])]
    return vectors, atn


def _g4_rules(g4: str) -> Dict[str, List[Tuple[Optional[str], bool]]]:
    """rule name -> [(label or None, starts_with_self_reference)] per top-level alternative."""
    g4 = re.sub(r"/\*.*?\*/", " ", g4, flags=re.S)
    g4 = re.sub(r"//[^\n]*", " ", g4)
    g4 = re.sub(r"^\s*parser\s+grammar\s+\w+\s*;", " ", g4)
    g4 = re.sub(r"options\s*\{[^}]*\}", " ", g4)
    rules: Dict[str, List[Tuple[Optional[str], bool]]] = {}
    for name, body in re.findall(r"(\w+)\s*:(.*?);", g4, flags=re.S):
        alts, depth, cur = [], 0, []
        for ch in body:
            depth += ch == "("
            depth -= ch == ")"
            if ch == "|" and depth == 0:
                alts.append("".join(cur))
                cur = []
            else:
                cur.append(ch)
        alts.append("".join(cur))
        out = []
        for alt in alts:
            lab = re.search(r"#\s*(\w+)\s*$", alt)
            first = re.match(r"\s*(?:\w+\s*=\s*)?(\w+)", alt)
            out.append((lab.group(1) if lab else None, bool(first and first.group(1) == name)))
        rules[name] = out
    return rules


def _cap(s: str) -> str:
    return s[:1].upper() + s[1:]


class _Grammar:
    """Everything derived from the repo working tree (keyed by a digest of the source files)."""

    def __init__(self, repo: Path) -> None:
        d = repo / "src/vtlengine/AST/Grammar"
        self.files = [d / "_cpp_parser" / n for n in ("Vtl.cpp", "VtlTokens.cpp", "bindings.cpp")] + [d / "Vtl.g4"]
        blobs = [p.read_bytes() for p in self.files]
        self.digest = hashlib.sha1(b"\0".join(blobs)).hexdigest()[:16]
        par, lex, bnd, g4 = (b.decode("utf-8") for b in blobs)
        (self.rule_names, self.literal, self.symbolic), self.par_atn = _static_data(par)
        (self.lex_rules, self.channels, self.modes, lit2, sym2), self.lex_atn = _static_data(lex)
        assert self.par_atn[0] == 4 and self.lex_atn[0] == 4, "unexpected serialized ATN version"
        assert (lit2, sym2) == (self.literal, self.symbolic), "lexer/parser vocabularies differ"
        self.cache = BUILD / "cache" / (self.digest + ".txt")
        # label -> (rule index, alt_index) exactly as bindings.cpp's g_type_map
        rule_of = {_cap(n): i for i, n in enumerate(self.rule_names)}
        self.type_map = {
            ctx: (rule_of[rule], int(idx))
            for ctx, rule, idx in re.findall(
                r"g_type_map\[typeid\(Vtl::(\w+)Context\)\]\s*=\s*\{Vtl::Rule(\w+),\s*(-?\d+)\}", bnd
            )
        }
        # module constants: m.attr("X") = static_cast<int>(Vtl::Y | antlr4::Token::EOF)
        self.constants: Dict[str, int] = {}
        for name, scope, ident in re.findall(r'm\.attr\("(\w+)"\)\s*=\s*static_cast<int>\(([\w:]+)::(\w+)\)', bnd):
            if scope == "antlr4::Token":
                self.constants[name] = {"EOF": -1}[ident]
            elif ident.startswith("Rule") and ident[4:] in rule_of:
                self.constants[name] = rule_of[ident[4:]]
            else:
                self.constants[name] = self.symbolic.index(ident)
        self.g4 = _g4_rules(g4)
        self.alt_maps: List[Optional[Dict[int, int]]] = []  # filled by bind_alts()
        self.alt_default: List[int] = []

    def write_cache(self) -> None:
        if self.cache.exists():
            return
        lines = [" ".join(map(str, self.lex_atn)), " ".join(map(str, self.par_atn))]
        for v in (self.lex_rules, self.channels, self.modes, self.literal, self.symbolic, self.rule_names):
            assert not any("\t" in s or "\n" in s for s in v)
            lines.append("\t".join(v))
        self.cache.parent.mkdir(parents=True, exist_ok=True)
        tmp = self.cache.with_suffix(".tmp%d" % os.getpid())
        tmp.write_text("\n".join(lines) + "\n", encoding="utf-8")
        os.replace(tmp, self.cache)

    def bind_alts(self, describe: str) -> None:
        """Build altCode -> alt_index tables, cross-checking the ATN shape against Vtl.g4.

        ``describe`` is the Java child's hello: per rule ``name, isLeftRecursive, nOuterAlts,
        prec...`` (see VtlFront.buildCodes).  altCode k>0 is the k-th alternative of the outer
        block (k-th *primary* alternative for left-recursive rules); altCode -p is the operator
        alternative guarded by ``precpred(_ctx, p)``, whose original number is n - p + 1.
        """
        self.alt_maps, self.alt_default = [], []
        for i, line in enumerate(describe.splitlines()):
            name, lrec, outer, *precs = line.split("\t")
            assert name == self.rule_names[i]
            alts = self.g4[name]
            labels = [a[0] for a in alts]
            if not any(labels):  # unlabelled rule: typeid is the plain rule context -> -1
                assert self.type_map[_cap(name)] == (i, -1), name
                self.alt_maps.append(None)
                self.alt_default.append(-1)
                continue
            assert all(labels), "partially labelled rule " + name
            idx = []
            for lab in labels:
                r, k = self.type_map[_cap(lab)]
                assert r == i and k >= 0, (name, lab)
                idx.append(k)
            n = len(alts)
            if n == 1:  # generated code creates the labelled context unconditionally
                self.alt_maps.append(None)
                self.alt_default.append(idx[0])
                continue
            table: Dict[int, int] = {}
            if lrec == "1":
                ops = [n - int(p) + 1 for p in precs]  # original (1-based) numbers of operator alts
                assert sorted(ops) == [k + 1 for k, a in enumerate(alts) if a[1]], (name, ops)
                primary = [k + 1 for k, a in enumerate(alts) if not a[1]]
                assert int(outer) == len(primary), (name, outer, primary)
                for code, k in enumerate(primary, 1):
                    table[code] = idx[k - 1]
                for p, k in zip(precs, ops):
                    table[-int(p)] = idx[k - 1]
            else:
                assert int(outer) == n and not precs, (name, outer, n)
                for k in range(1, n + 1):
                    table[k] = idx[k - 1]
            self.alt_maps.append(table)
            self.alt_default.append(-1)  # decision not reached (syntax error): base context
        assert len(self.alt_maps) == len(self.rule_names)


# --------------------------------------------------------------------------- Java child
def _compile() -> Path:
    """(Re)compile VtlFront.java into build/classes when missing or stale; returns the class dir."""
    classes = BUILD / "classes"
    want = hashlib.sha1(JAVA_SRC.read_bytes() + JAR.encode()).hexdigest()
    stamp = classes / ".stamp"
    if stamp.exists() and stamp.read_text() == want and (classes / "VtlFront.class").exists():
        return classes
    classes.mkdir(parents=True, exist_ok=True)
    for old in classes.glob("*.class"):
        old.unlink()
    subprocess.run(
        ["javac", "-nowarn", "-cp", JAR, "-d", str(classes), str(JAVA_SRC)],
        check=True, stdout=subprocess.PIPE, stderr=subprocess.STDOUT,
    )
    stamp.write_text(want)
    return classes


class _Child:
    def __init__(self, grammar: _Grammar) -> None:
        BUILD.mkdir(parents=True, exist_ok=True)
        with open(BUILD / ".lock", "w") as lk:  # serialise extraction/compilation across processes
            fcntl.flock(lk, fcntl.LOCK_EX)
            grammar.write_cache()
            classes = _compile()
        self.pid = os.getpid()
        self.log = open(BUILD / "java-stderr.log", "ab")
        self.proc = subprocess.Popen(
            ["java", "-XX:+UseSerialGC", "-Xshare:auto", "-cp", f"{JAR}:{classes}", "VtlFront", str(grammar.cache)],
            stdin=subprocess.PIPE, stdout=subprocess.PIPE, stderr=self.log, bufsize=1 << 16,
        )
        self.hello = self._read().decode("utf-8")

    def _read(self) -> bytes:
        out = self.proc.stdout
        head = out.read(4)
        if len(head) < 4:
            raise BrokenPipeError("VtlFront exited (see %s)" % (BUILD / "java-stderr.log"))
        (n,) = struct.unpack(">i", head)
        data = out.read(n)
        if len(data) < n:
            raise BrokenPipeError("VtlFront: short response")
        return data

    def request(self, payload: bytes) -> bytes:
        self.proc.stdin.write(struct.pack(">i", len(payload)))
        self.proc.stdin.write(payload)
        self.proc.stdin.flush()
        return self._read()

    def alive(self) -> bool:
        return self.pid == os.getpid() and self.proc.poll() is None

    def close(self) -> None:
        if self.pid != os.getpid():  # forked copy: the pipe belongs to the parent
            return
        try:
            self.proc.stdin.close()  # EOF on stdin makes the helper exit
            self.proc.wait(timeout=5)
        except Exception:
            self.proc.kill()
        for f in (self.proc.stdout, self.log):
            try:
                f.close()
            except Exception:
                pass


def _ensure_child() -> _Child:
    """Lazily start (or restart after death/fork/grammar change) the single Java child."""
    global _child
    g = _grammar
    if g is None:
        raise RuntimeError("frontend.install() has not been called")
    if _child is None or not _child.alive() or _child.digest != g.digest:  # type: ignore[attr-defined]
        if _child is not None:
            _child.close()
        _child = _Child(g)
        _child.digest = g.digest  # type: ignore[attr-defined]
    if not g.alt_maps:
        g.bind_alts(_child.hello)
    return _child


@atexit.register
def _shutdown() -> None:
    global _child
    if _child is not None:
        _child.close()
        _child = None


# --------------------------------------------------------------------------- parse results
class _Tree:
    """One parse: decoded response of the Java child (see VtlFront.java for the layout)."""

    __slots__ = ("src", "tok", "nodes", "extra", "comments", "error", "maps", "defaults")

    def tok_text(self, i: int) -> str:
        if i < 0:
            return ""
        t = self.extra.get(i)
        if t is not None:
            return t
        b = 5 * i
        tok = self.tok
        if tok[b] == -1:  # CommonToken::getText() of the EOF token
            return "<EOF>"
        return self.src[tok[b + 3] : tok[b + 4] + 1]  # Python str and ANTLR both index code points


class TerminalNode:
    __slots__ = ("symbol_type", "text", "line", "column")
    is_terminal = True

    def __init__(self, tree: _Tree, i: int) -> None:
        tok, b = tree.tok, 5 * i
        self.symbol_type = tok[b]
        self.line = tok[b + 1]
        self.column = tok[b + 2]
        self.text = tree.tok_text(i)

    def __repr__(self) -> str:
        return f"<TerminalNode {self.symbol_type} {self.text!r} @{self.line}:{self.column}>"


class ParseNode:
    """Lazy view of one rule context inside the flat pre-order node array."""

    __slots__ = ("_t", "_p", "rule_index", "alt_index", "_children")
    is_terminal = False

    def __init__(self, tree: _Tree, p: int) -> None:
        self._t, self._p, self._children = tree, p, None
        r = self.rule_index = tree.nodes[p]
        m = tree.maps[r]
        self.alt_index = tree.defaults[r] if m is None else m.get(tree.nodes[p + 1], -1)

    @property
    def children(self) -> List[Any]:
        ch = self._children
        if ch is None:
            t, nodes, p = self._t, self._t.nodes, self._p
            ch, end, p = [], p + nodes[p + 4], p + 5
            while p < end:
                v = nodes[p]
                if v < 0:
                    ch.append(TerminalNode(t, -v - 1))
                    p += 1
                else:
                    ch.append(ParseNode(t, p))
                    p += nodes[p + 4]
            self._children = ch
        return ch

    def _tok(self, slot: int, field: int) -> int:
        i = self._t.nodes[self._p + slot]
        return self._t.tok[5 * i + field] if i >= 0 else 0

    start_line = property(lambda s: s._tok(2, 1))
    start_column = property(lambda s: s._tok(2, 2))
    stop_line = property(lambda s: s._tok(3, 1))
    stop_column = property(lambda s: s._tok(3, 2))
    stop_text = property(lambda s: s._t.tok_text(s._t.nodes[s._p + 3]))
    ctx_id = property(lambda s: (s.rule_index, s.alt_index))

    @property
    def text(self) -> str:  # ctx->getText(): all terminal texts of the subtree, no separators
        t, nodes, p = self._t, self._t.nodes, self._p
        out, end, p = [], p + nodes[p + 4], p + 5
        while p < end:
            v = nodes[p]
            if v < 0:
                out.append(t.tok_text(-v - 1))
                p += 1
            else:
                p += 5
        return "".join(out)

    def __repr__(self) -> str:
        return f"<ParseNode rule={self.rule_index} alt={self.alt_index}>"


def _source_line_expanded(src: bytes, line: int, column: int) -> Tuple[str, int]:
    """bindings.cpp extract_source_line_expanded(): works on UTF-8 *bytes* like the C++ does."""
    if line < 1:
        return "", column
    start, cur = 0, 1
    while cur < line and start < len(src):
        if src[start] == 10:
            cur += 1
        start += 1
    if cur != line:
        return "", column
    out = bytearray()
    orig, remapped = 1, column
    for i in range(start, len(src)):
        c = src[i]
        if c == 10:
            break
        if orig == column:
            remapped = len(out) + 1
        if c == 9:
            out += b" " * TAB_WIDTH
        elif c != 13:
            out.append(c)
        orig += 1
    if column > orig:
        remapped = len(out) + 1
    return out.decode("utf-8", "replace"), remapped


def _decode(src: str, data: bytes, g: _Grammar) -> _Tree:
    hdr = struct.unpack_from("<10i", data, 0)
    ntok, nnodes, ncom, nextra, has_err, eline, ecol, under, nmsg, noff = hdr
    if ntok < 0:
        raise RuntimeError("VtlFront internal failure:\n" + data[40 : 40 + nmsg].decode("utf-8", "replace"))
    nints = 5 * ntok + nnodes + 5 * ncom + 2 * nextra
    a = array("i")
    a.frombytes(data[40 : 40 + 4 * nints])
    if sys.byteorder != "little":
        a.byteswap()
    t = _Tree()
    t.src, t.maps, t.defaults = src, g.alt_maps, g.alt_default
    o = 5 * ntok
    t.tok, t.nodes = a[:o], a[o : o + nnodes]
    o += nnodes
    com = a[o : o + 5 * ncom]
    o += 5 * ncom
    ext = a[o:]
    pos = 40 + 4 * nints
    msg = data[pos : pos + nmsg].decode("utf-8")
    off = data[pos + nmsg : pos + nmsg + noff].decode("utf-8")
    pos += nmsg + noff
    t.extra = {}
    for k in range(nextra):
        n = ext[2 * k + 1]
        t.extra[ext[2 * k]] = data[pos : pos + n].decode("utf-8")
        pos += n
    t.comments = [
        {"type": com[k], "text": src[com[k + 3] : com[k + 4] + 1], "line": com[k + 1], "column": com[k + 2]}
        for k in range(0, 5 * ncom, 5)
    ]
    t.error = None
    if has_err:
        # ANTLR columns are 0-based; the C++ remaps a 1-based column through tab expansion and
        # stores it 0-based again.
        line_text, col1 = _source_line_expanded(src.encode("utf-8"), eline, ecol + 1)
        t.error = {
            "line": eline, "column": col1 - 1, "message": msg, "offending_text": off,
            "source_line": line_text, "underline_length": under,
        }
    return t


# --------------------------------------------------------------------------- module API
def parse(text: str) -> ParseNode:
    """Parse VTL text and return the parse tree root node."""
    global _last
    if not isinstance(text, str):
        raise TypeError("parse(): incompatible function arguments, expected str")
    payload = text.encode("utf-8")
    with _lock:
        for attempt in (0, 1):
            child = _ensure_child()
            try:
                data = child.request(payload)
                break
            except (BrokenPipeError, OSError, ValueError):
                if attempt:
                    raise
                child.proc.kill()  # restart once if the helper died
        _last = _decode(text, data, _grammar)
        return ParseNode(_last, 0)


def get_input_text() -> str:
    """Get the input text from the last parse() call."""
    with _lock:
        return _last.src if _last is not None else ""


def get_comments() -> List[Dict[str, Any]]:
    """Get comment tokens from the last parse() call."""
    with _lock:
        return [dict(c) for c in _last.comments] if _last is not None else []


def get_syntax_error() -> Optional[Dict[str, Any]]:
    """Get the first syntax error from the last parse() call, or None if there were none."""
    with _lock:
        return dict(_last.error) if _last is not None and _last.error is not None else None


def install(repo: Optional[str] = None) -> types.ModuleType:
    """Idempotently register the stand-in parser module built from the current repo tree."""
    global _module, _grammar, _last
    with _lock:
        g = _Grammar(Path(repo or os.environ.get("VERIF_REPO", "/repo")))
        if _grammar is None or _grammar.digest != g.digest:
            _grammar, _last = g, None  # the Java child is (re)started lazily by the next parse()
        if _module is None:
            _module = types.ModuleType(MODNAME, "Java-ATN-interpreter stand-in for the C++ ANTLR4 VTL parser")
            _module.__file__ = __file__
        m = _module
        for k in [k for k in vars(m) if k.isupper()]:
            delattr(m, k)
        m.ParseNode, m.TerminalNode = ParseNode, TerminalNode
        m.parse, m.get_input_text = parse, get_input_text
        m.get_comments, m.get_syntax_error = get_comments, get_syntax_error
        for k, v in _grammar.constants.items():
            setattr(m, k, v)
        sys.modules[MODNAME] = m
        pkg = sys.modules.get(MODNAME.rpartition(".")[0])
        if pkg is not None:
            pkg.vtl_cpp_parser = m
        return m
