"""``python -m frontend.selftest``: structural checks of the stand-in + a throughput figure."""

import sys
import time

import frontend


def walk(n, seen):
    if n.is_terminal:
        seen["terminals"] += 1
        return
    seen["rules"] += 1
    seen["labelled"] += n.alt_index >= 0
    assert n.ctx_id == (n.rule_index, n.alt_index)
    assert n.text == "".join(c.text for c in n.children)
    for c in n.children:
        walk(c, seen)


def main() -> int:
    t0 = time.time()
    m = frontend.install()
    g = frontend._grammar
    t1 = time.time()
    root = m.parse("a := 1;\n")  # starts the Java child, binds the alt tables
    t2 = time.time()
    checks = 0

    def ok(cond, what):
        nonlocal checks
        checks += 1
        if not cond:
            raise AssertionError(what)

    labelled_rules = sum(1 for mp, d in zip(g.alt_maps, g.alt_default) if mp is not None or d >= 0)
    ok(sys.modules[frontend.MODNAME] is m and frontend.install() is m, "install() idempotent")
    ok(root.ctx_id == (0, -1) and root.children[-1].text == "<EOF>", "start/EOF")
    ok(m.TOKEN_EOF == -1 and m.RULE_START == 0 and m.IDENTIFIER == g.symbolic.index("IDENTIFIER"), "constants")
    lab = {(r, k): n for n, (r, k) in g.type_map.items() if k >= 0}

    def first(src, label, path):
        n = m.parse(src)
        ok(m.get_syntax_error() is None, src)
        for i in path:
            n = n.children[i]
        ok(lab.get(n.ctx_id) == label, f"{src!r}: expected {label}, got {lab.get(n.ctx_id)} {n.ctx_id}")

    E = (0, 2)  # start -> statement -> expr
    for src, label in [
        ("r := (a);", "ParenthesisExpr"), ("r := abs(a);", "FunctionsExpression"), ("r := a[keep x];", "ClauseExpr"),
        ("r := a#b;", "MembershipExpr"), ("r := -a;", "UnaryExpr"), ("r := a*b;", "ArithmeticExpr"),
        ("r := a/b;", "ArithmeticExpr"), ("r := a+b;", "ArithmeticExprOrConcat"), ("r := a||b;", "ArithmeticExprOrConcat"),
        ("r := a<=b;", "ComparisonExpr"), ("r := a in {1,2};", "InNotInExpr"), ("r := a and b;", "BooleanExpr"),
        ("r := a or b;", "BooleanExpr"), ("r := a xor b;", "BooleanExpr"), ("r := if a then b else c;", "IfExpr"),
        ("r := case when a then b else c;", "CaseExpr"), ("r := 1;", "ConstantExpr"), ("r := a;", "VarIdExpr"),
        ("r := a + b * c;", "ArithmeticExprOrConcat"), ("r := a * b + c;", "ArithmeticExprOrConcat"),
        ("r := a = b and c;", "BooleanExpr"), ("r := a#b + c[keep x];", "ArithmeticExprOrConcat"),
    ]:
        first(src, label, E)
    C = (0, 2, 2, 0, 1, 2)  # ... expr -> datasetClause -> calcClause -> calcClauseItem -> exprComponent
    for src, label in [
        ("r := a[calc x := (y)];", "ParenthesisExprComp"), ("r := a[calc x := abs(y)];", "FunctionsExpressionComp"),
        ("r := a[calc x := not y];", "UnaryExprComp"), ("r := a[calc x := y*z];", "ArithmeticExprComp"),
        ("r := a[calc x := y-z];", "ArithmeticExprOrConcatComp"), ("r := a[calc x := y<>z];", "ComparisonExprComp"),
        ("r := a[calc x := y not_in {1}];", "InNotInExprComp"), ("r := a[calc x := y and z];", "BooleanExprComp"),
        ("r := a[calc x := y or z];", "BooleanExprComp"), ("r := a[calc x := if y then 1 else 2];", "IfExprComp"),
        ("r := a[calc x := case when y then 1 else 2];", "CaseExprComp"), ("r := a[calc x := null];", "ConstantExprComp"),
        ("r := a[calc x := y];", "CompId"), ("r := a[calc x := y + z * w];", "ArithmeticExprOrConcatComp"),
    ]:
        first(src, label, C)
    first("r <- a;", "PersistAssignment", (0,))
    first("define operator f (x integer) returns integer is x + 1 end operator;", "DefineExpression", (0,))
    first("r := nvl(a, 0);", "NvlAtom", E + (0, 0))
    first("r := sum(a group by x);", "AggrDataset", E + (0, 0))

    # error conventions of CollectingErrorListener
    m.parse("a := \tb +;\n")
    e = m.get_syntax_error()
    ok(e and e["line"] == 1 and e["column"] == 12 and e["source_line"] == "a :=     b +;" and e["underline_length"] == 1
       and e["offending_text"] == ";", f"tab expansion: {e}")
    m.parse("a := $;\n")
    e = m.get_syntax_error()
    ok(e and e["message"].startswith("token recognition error at: '$'") and e["offending_text"] == ""
       and (e["line"], e["column"]) == (1, 5), f"lexer error: {e}")
    m.parse("/* x */ a := b; // y\n")
    cm = m.get_comments()
    ok([c["type"] for c in cm] == [m.ML_COMMENT, m.SL_COMMENT] and cm[1]["text"] == "// y" and cm[0]["column"] == 0
       and m.get_input_text() == "/* x */ a := b; // y\n", f"comments: {cm}")

    seen = {"rules": 0, "terminals": 0, "labelled": 0}
    big = "".join(f"d{i} := inner_join(a as x, b filter c > {i} calc z := x#y + nvl(q, 0) * 2 keep z);\n" for i in range(300))
    walk(m.parse(big), seen)
    ok(m.get_syntax_error() is None, "big script")

    n, t3 = 3000, time.time()
    for i in range(n):
        m.parse(f"DS_r := DS_1[calc Me_2 := Me_1 + {i} * 2];")
    dt = time.time() - t3
    print(f"grammar digest          : {g.digest}")
    print(f"rules / labelled rules  : {len(g.rule_names)} / {labelled_rules}")
    print(f"type-map entries        : {len(g.type_map)}")
    print(f"exported constants      : {len(g.constants)}")
    print(f"token types             : {len(g.symbolic) - 1}")
    print(f"checks passed           : {checks}")
    print(f"walked nodes            : {seen['rules']} rule / {seen['terminals']} terminal / {seen['labelled']} labelled")
    print(f"install                 : {t1 - t0:.3f}s, first parse (JVM start) {t2 - t1:.3f}s")
    print(f"throughput              : {n / dt:.0f} small scripts/s ({n} in {dt:.2f}s)")
    return 0


if __name__ == "__main__":
    sys.exit(main())
