"""pytest plugin: ``-p frontend.conftest_shim`` installs the parser stand-in before collection.

Loaded in the controller and (xdist re-passes ``-p``) in every worker, each of which gets its
own Java child.  Also keeps pytest/Python from dropping bytecode caches into the repo.
"""

import sys

sys.dont_write_bytecode = True

import frontend  # noqa: E402

frontend.install()
