// Long-lived helper: interprets the repo's serialized ANTLR ATNs (extracted from Vtl.cpp /
// VtlTokens.cpp by frontend/__init__.py) with the Java runtime's LexerInterpreter +
// ParserInterpreter and streams compact parse trees to Python.
//
// Wire protocol (stdin -> stdout):
//   request : int32 BE byte length, then UTF-8 script text (length < 0 => quit)
//   response: int32 BE payload length, then payload (all ints little-endian):
//     hdr[10] = nTok, nNodeInts, nComments, nExtra, hasErr, errLine, errCol, underline,
//               msgBytes, offendingTextBytes          (nTok == -1 => internal failure, msgBytes set)
//     tok[5*nTok]      = type, line, col, startChar, stopChar        (chars = code points)
//     nodes[nNodeInts] = pre-order; rule node = rule, altCode, startTok, stopTok, subtreeInts
//                                   terminal  = -(tokIdx+1)
//     comments[5*n]    = type, line, col, startChar, stopChar
//     extra[2*nExtra]  = tokIdx, byteLen   (tokens whose text is not src[start..stop])
//     bytes            = msg, offendingText, extra texts
//   On startup one "describe" response is sent first: a UTF-8 text describing how alternative
//   codes were derived per rule, so that Python can cross-check them against Vtl.g4.
//
// altCode: 0 = no outer alternative recorded; k>0 = k-th alternative of the rule's outer block
// (for left-recursive rules: k-th *primary* alternative); -p = operator alternative of a
// left-recursive rule whose precedence predicate is precpred(_ctx, p).
import org.antlr.v4.runtime.*;
import org.antlr.v4.runtime.atn.*;
import org.antlr.v4.runtime.tree.*;

import java.io.*;
import java.nio.ByteBuffer;
import java.nio.ByteOrder;
import java.nio.charset.StandardCharsets;
import java.nio.file.*;
import java.util.*;

public final class VtlFront {
    static final class Ctx extends InterpreterRuleContext {
        int code;
        Ctx(ParserRuleContext parent, int invokingState, int rule) { super(parent, invokingState, rule); }
    }

    /** ParserInterpreter that remembers which outer alternative each rule context took. */
    static final class P extends ParserInterpreter {
        final int[][] code; // [decision state number][predicted alt] -> altCode, null = not an outer block
        P(Vocabulary v, List<String> rules, ATN atn, TokenStream in, int[][] code) {
            super("Vtl.g4", v, rules, atn, in);
            this.code = code;
        }
        @Override protected InterpreterRuleContext createInterpreterRuleContext(ParserRuleContext p, int inv, int rule) {
            return new Ctx(p, inv, rule);
        }
        // Outer block of a rule: _ctx is the context just entered.  Operator block of a
        // left-recursive rule's (...)* loop: ParserInterpreter.visitState has already called
        // pushNewRecursionContext at the STAR_LOOP_ENTRY, so _ctx is the NEW wrapping context.
        @Override protected int visitDecisionState(DecisionState p) {
            int alt = super.visitDecisionState(p); // throws NoViableAlt -> code stays 0
            int[] c = code[p.stateNumber];
            if (c != null && alt < c.length) ((Ctx) _ctx).code = c[alt];
            return alt;
        }
    }

    static final class Err extends BaseErrorListener {
        boolean has; int line, col, underline; String msg, text;
        @Override public void syntaxError(Recognizer<?, ?> r, Object off, int line, int col, String msg, RecognitionException e) {
            if (has) return; // only the first error is kept (bindings.cpp CollectingErrorListener)
            has = true; this.line = line; this.col = col; this.msg = msg; text = ""; underline = 1;
            if (off instanceof Token) {
                Token t = (Token) off;
                text = t.getText(); if (text == null) text = "";
                int a = t.getStartIndex(), b = t.getStopIndex();
                if (b != -1 && b >= a) underline = b - a + 1;
            }
        }
    }

    static final class Ints {
        int[] a = new int[1 << 12]; int n;
        void add(int v) { if (n == a.length) a = Arrays.copyOf(a, n * 2); a[n++] = v; }
    }

    // ---------------------------------------------------------------- grammar data
    static ATN lexAtn, parAtn;
    static Vocabulary vocab;
    static List<String> lexRules, channels, modes, parRules;
    static int ML, SL;
    static int[][] code;
    static LexerInterpreter lexer;
    static P parser;
    static final Err err = new Err();

    static int[] ints(String line) {
        String[] p = line.trim().split(" ");
        int[] r = new int[p.length];
        for (int i = 0; i < p.length; i++) r[i] = Integer.parseInt(p[i]);
        return r;
    }
    static List<String> names(String line) { return Arrays.asList(line.split("\t", -1)); }
    static String[] nullEmpty(List<String> l) {
        String[] r = new String[l.size()];
        for (int i = 0; i < r.length; i++) r[i] = l.get(i).isEmpty() ? null : l.get(i);
        return r;
    }

    static String load(String file) throws IOException {
        List<String> L = Files.readAllLines(Paths.get(file), StandardCharsets.UTF_8);
        lexAtn = new ATNDeserializer().deserialize(ints(L.get(0)));
        parAtn = new ATNDeserializer().deserialize(ints(L.get(1)));
        lexRules = names(L.get(2)); channels = names(L.get(3)); modes = names(L.get(4));
        List<String> sym = names(L.get(6));
        vocab = new VocabularyImpl(nullEmpty(names(L.get(5))), nullEmpty(sym));
        parRules = names(L.get(7));
        ML = sym.indexOf("ML_COMMENT"); SL = sym.indexOf("SL_COMMENT");
        return buildCodes();
    }

    /** Locate, per rule, the decision states whose predicted alternative identifies the labelled alt. */
    static String buildCodes() {
        code = new int[parAtn.states.size()][];
        StringBuilder d = new StringBuilder();
        for (int r = 0; r < parAtn.ruleToStartState.length; r++) {
            RuleStartState s = parAtn.ruleToStartState[r];
            ATNState first = s.transition(0).target;
            int outer = 0;
            // A rule with >1 alternatives starts with a BasicBlockStartState (one epsilon edge per
            // alternative).  Single-alternative rules have no outer block; if their first element
            // happens to be a (...) subrule we record it too, Python ignores codes for such rules.
            if (first instanceof BasicBlockStartState) {
                outer = first.getNumberOfTransitions();
                int[] c = new int[outer + 1];
                for (int k = 1; k <= outer; k++) c[k] = k;
                code[first.stateNumber] = c;
            }
            d.append(parRules.get(r)).append('\t').append(s.isLeftRecursiveRule ? 1 : 0).append('\t').append(outer);
            if (s.isLeftRecursiveRule) {
                // ANTLR rewrote  e : primary | e op e ...  into  e[p] : (primary alts) ( {prec>=p}? op alts )* .
                // The loop's StarLoopEntryState is flagged isPrecedenceDecision by the deserializer; its
                // non-exit edge leads to the StarBlockStart choosing among operator alternatives, each of
                // which begins with a PrecedencePredicateTransition carrying prec = nAlts - origAlt + 1.
                for (ATNState st : parAtn.states) {
                    if (!(st instanceof StarLoopEntryState) || st.ruleIndex != r || !((StarLoopEntryState) st).isPrecedenceDecision) continue;
                    for (Transition t : st.getTransitions()) {
                        if (t.target instanceof LoopEndState) continue;
                        ATNState blk = t.target;
                        int n = blk.getNumberOfTransitions();
                        int[] c = new int[n + 1];
                        for (int j = 0; j < n; j++) {
                            ATNState x = blk.transition(j).target;
                            int guard = 0;
                            while (!(x.transition(0) instanceof PrecedencePredicateTransition)) {
                                if (!x.transition(0).isEpsilon() || x.getNumberOfTransitions() != 1 || ++guard > 8)
                                    throw new IllegalStateException("no precedence predicate in loop alt of " + parRules.get(r));
                                x = x.transition(0).target;
                            }
                            c[j + 1] = -((PrecedencePredicateTransition) x.transition(0)).precedence;
                            d.append('\t').append(-c[j + 1]);
                        }
                        code[blk.stateNumber] = c;
                    }
                }
            }
            d.append('\n');
        }
        return d.toString();
    }

    static void fresh() {
        lexer = new LexerInterpreter("VtlTokens.g4", vocab, lexRules, channels, modes, lexAtn, CharStreams.fromString(""));
        lexer.removeErrorListeners(); lexer.addErrorListener(err);
        parser = new P(vocab, parRules, parAtn, new CommonTokenStream(lexer), code);
        parser.removeErrorListeners(); parser.addErrorListener(err);
        parser.getInterpreter().setPredictionMode(PredictionMode.SLL);
    }

    // ---------------------------------------------------------------- one parse
    static Ints tok, nodes, extraIdx; static List<byte[]> extraTxt; static int[] remap;

    static int tokId(Token t) {
        if (t == null) return -1;
        int i = t.getTokenIndex();
        if (i >= 0 && i < remap.length && remap[i] >= 0) return remap[i];
        int id = tok.n / 5;
        tok.add(t.getType()); tok.add(t.getLine()); tok.add(t.getCharPositionInLine());
        tok.add(t.getStartIndex()); tok.add(t.getStopIndex());
        if (i >= 0 && i < remap.length) remap[i] = id;
        else { // conjured by error recovery ("<missing X>"): text is explicit, not a slice of the input
            String s = t.getText();
            byte[] b = (s == null ? "" : s).getBytes(StandardCharsets.UTF_8);
            extraIdx.add(id); extraIdx.add(b.length); extraTxt.add(b);
        }
        return id;
    }

    static void emit(ParseTree t) {
        if (t instanceof TerminalNode) { nodes.add(-(tokId(((TerminalNode) t).getSymbol()) + 1)); return; }
        ParserRuleContext c = (ParserRuleContext) t;
        int pos = nodes.n;
        nodes.add(c.getRuleIndex()); nodes.add(c instanceof Ctx ? ((Ctx) c).code : 0);
        nodes.add(tokId(c.start)); nodes.add(tokId(c.stop)); nodes.add(0);
        if (c.children != null) for (ParseTree k : c.children) emit(k);
        nodes.a[pos + 4] = nodes.n - pos;
    }

    static byte[] parse(String text) {
        err.has = false;
        lexer.setInputStream(CharStreams.fromString(text));
        CommonTokenStream ts = new CommonTokenStream(lexer);
        parser.setTokenStream(ts); // resets parser state, keeps the warmed-up DFA cache
        ParserRuleContext tree = parser.parse(0);
        ts.fill();
        List<Token> all = ts.getTokens();
        tok = new Ints(); nodes = new Ints(); extraIdx = new Ints(); extraTxt = new ArrayList<>();
        remap = new int[all.size()]; Arrays.fill(remap, -1);
        emit(tree);
        Ints com = new Ints();
        for (Token t : all) {
            int ty = t.getType();
            if (ty == ML || ty == SL) { com.add(ty); com.add(t.getLine()); com.add(t.getCharPositionInLine()); com.add(t.getStartIndex()); com.add(t.getStopIndex()); }
        }
        byte[] msg = err.has ? err.msg.getBytes(StandardCharsets.UTF_8) : new byte[0];
        byte[] off = err.has ? err.text.getBytes(StandardCharsets.UTF_8) : new byte[0];
        int bytes = msg.length + off.length;
        for (byte[] b : extraTxt) bytes += b.length;
        ByteBuffer bb = ByteBuffer.allocate(4 * (10 + tok.n + nodes.n + com.n + extraIdx.n) + bytes).order(ByteOrder.LITTLE_ENDIAN);
        bb.putInt(tok.n / 5).putInt(nodes.n).putInt(com.n / 5).putInt(extraIdx.n / 2).putInt(err.has ? 1 : 0)
          .putInt(err.line).putInt(err.col).putInt(err.underline).putInt(msg.length).putInt(off.length);
        bb.asIntBuffer().put(tok.a, 0, tok.n).put(nodes.a, 0, nodes.n).put(com.a, 0, com.n).put(extraIdx.a, 0, extraIdx.n);
        bb.position(bb.position() + 4 * (tok.n + nodes.n + com.n + extraIdx.n));
        bb.put(msg).put(off);
        for (byte[] b : extraTxt) bb.put(b);
        return bb.array();
    }

    static byte[] failure(Throwable e) {
        StringWriter sw = new StringWriter(); e.printStackTrace(new PrintWriter(sw));
        byte[] msg = sw.toString().getBytes(StandardCharsets.UTF_8);
        ByteBuffer bb = ByteBuffer.allocate(40 + msg.length).order(ByteOrder.LITTLE_ENDIAN);
        bb.putInt(-1); for (int i = 1; i < 10; i++) bb.putInt(i == 8 ? msg.length : 0);
        return bb.put(msg).array();
    }

    static void serve(String file) throws IOException {
        DataInputStream in = new DataInputStream(new BufferedInputStream(new FileInputStream(FileDescriptor.in), 1 << 16));
        DataOutputStream out = new DataOutputStream(new BufferedOutputStream(new FileOutputStream(FileDescriptor.out), 1 << 16));
        System.setOut(System.err); // nothing but responses may reach the pipe
        byte[] hello = load(file).getBytes(StandardCharsets.UTF_8);
        fresh();
        out.writeInt(hello.length); out.write(hello); out.flush();
        while (true) {
            int n;
            try { n = in.readInt(); } catch (EOFException e) { return; }
            if (n < 0) return;
            byte[] req = new byte[n]; in.readFully(req);
            byte[] resp;
            try { resp = parse(new String(req, StandardCharsets.UTF_8)); }
            catch (Throwable e) { resp = failure(e); fresh(); } // interpreter state unknown: rebuild it
            out.writeInt(resp.length); out.write(resp); out.flush();
        }
    }

    public static void main(String[] a) throws Exception {
        final Throwable[] fail = new Throwable[1];
        // tree emission recurses once per nesting level: give the worker a very large stack
        Thread t = new Thread(null, () -> { try { serve(a[0]); } catch (Throwable e) { fail[0] = e; } }, "serve", 2L << 30);
        t.start(); t.join();
        if (fail[0] != null) { fail[0].printStackTrace(); System.exit(1); }
    }
}
