"""setup_cmd: regenerate every Gen/*.v, full `make` of the Coq development, build the parser front end."""
import importlib
import sys
import time

import common
from common import COQ, coq_make, sh

t0 = time.time()
rc = 0
# 1. all translators (each module under translate/ exposing regenerate())
import pkgutil
import translate
for m in pkgutil.iter_modules(translate.__path__):
    mod = importlib.import_module(f"translate.{m.name}")
    if hasattr(mod, "regenerate"):
        try:
            mod.regenerate()
            print(f"[setup] regenerated via translate.{m.name}")
        except Exception as e:
            print(f"[setup] translate.{m.name} failed: {type(e).__name__}: {e}")
            rc = 1
# 2. full build
import json
man = json.loads((common.VERIF / "MANIFEST.json").read_text())
targets = [f"theories/Props/{c['property_id']}.vo" for c in man["checks"]
           if (COQ / "theories" / "Props" / f"{c['property_id']}.v").exists()]
claimed = {c["property_id"] for c in man["checks"]}
# companion property files (Props/<id><Suffix>.v, e.g. C10Types.v) of claimed properties
for f in sorted((COQ / "theories" / "Props").glob("C[0-9][0-9]?*.v")):
    if f.stem[:3] in claimed and f"theories/Props/{f.stem}.vo" not in targets:
        targets.append(f"theories/Props/{f.stem}.vo")
ok, out = coq_make(["-k", *targets], timeout=3000)
print(out[-3000:])
if not ok:
    # a property whose closure does not build is reported by that property's own check (as a broken obligation);
    # setup only fails when the infrastructure itself is unusable
    print("[setup] WARNING: some property closures did not build; the corresponding checks will report it")
# 3. parser front end
try:
    import engine
    print("[setup] engine mode:", engine.install())
except Exception as e:
    print("[setup] front end:", e)
print(f"[setup] done in {time.time()-t0:.0f}s rc={rc}")
sys.exit(rc)
