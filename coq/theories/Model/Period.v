(* Model/Period.v — VTL Time_Period values (definitions only; lemmas in Proofs/PeriodP.v).
   Part 1: the SPECIFICATION, over Base/Calendar (periods_in_year, validity, shift = n steps in calendar order, start/end dates,
           time_agg, the documented input spellings and the four documented output formats).
   Part 2: `*_impl` = faithful transcriptions of the engine: the SQL macros of duckdb_transpiler/sql/{init,time_operators}.sql
           (DuckDB builtins mapped to Calendar: MAKE_DATE, LAST_DAY, STRPTIME('%G-W%V-%u'), DAYOFYEAR, ISOYEAR, WEEK, `//` and `%`
           truncating) and the Python side (TimePeriodHandler, check_time_period).  Tied to the real code by harness/props/c08.py and
           c21.py (exhaustive X tie over 1900-2100). *)
From Coq Require Import ZArith Bool List String Ascii.
Import ListNotations.
From VTL Require Import Base.Calendar.
Open Scope Z_scope.

(* ================================================================== Part 1: specification *)
Inductive ind := IA | IS | IQ | IM | IW | ID.
Record period := mkP { p_year : Z; p_ind : ind; p_num : Z }.

Definition ind_eqb (a b : ind) : bool :=
  match a, b with IA, IA | IS, IS | IQ, IQ | IM, IM | IW, IW | ID, ID => true | _, _ => false end.
Definition period_eqb (p q : period) : bool :=
  (p_year p =? p_year q) && ind_eqb (p_ind p) (p_ind q) && (p_num p =? p_num q).
Definition all_ind : list ind := [IA; IS; IQ; IM; IW; ID].

(* number of periods of a year: weeks and days follow the calendar *)
Definition periods_in_year (i : ind) (y : Z) : Z :=
  match i with IA => 1 | IS => 2 | IQ => 4 | IM => 12 | IW => weeks_in_year y | ID => days_in_year y end.

Definition period_valid (p : period) : bool :=
  (1 <=? p_num p) && (p_num p <=? periods_in_year (p_ind p) (p_year p)).

(* position of a period on the time line of its indicator (an order isomorphism with Z, see PeriodP.index_of_index) *)
Definition index (p : period) : Z :=
  match p_ind p with
  | IA => p_year p
  | IS => 2 * p_year p + (p_num p - 1)
  | IQ => 4 * p_year p + (p_num p - 1)
  | IM => 12 * p_year p + (p_num p - 1)
  | IW => (iso_week_start (p_year p) (p_num p) + 3) / 7
  | ID => date_of_doy (p_year p) (p_num p)
  end.

Definition of_index (i : ind) (k : Z) : period :=
  match i with
  | IA => mkP k IA 1
  | IS => mkP (k / 2) IS (k mod 2 + 1)
  | IQ => mkP (k / 4) IQ (k mod 4 + 1)
  | IM => mkP (k / 12) IM (k mod 12 + 1)
  | IW => let z := 7 * k - 3 in mkP (iso_year_of z) IW (iso_week_of z)
  | ID => mkP (year_of k) ID (doy_of k)
  end.

(* timeshift: the period n steps later in calendar order *)
Definition shift (p : period) (n : Z) : period := of_index (p_ind p) (index p + n).

(* the step-by-step reading (this is what TimeHandling.next_period / previous_period do) *)
Definition next_period (p : period) : period :=
  if p_num p =? periods_in_year (p_ind p) (p_year p) then mkP (p_year p + 1) (p_ind p) 1
  else mkP (p_year p) (p_ind p) (p_num p + 1).
Definition prev_period (p : period) : period :=
  if p_num p =? 1 then mkP (p_year p - 1) (p_ind p) (periods_in_year (p_ind p) (p_year p - 1))
  else mkP (p_year p) (p_ind p) (p_num p - 1).

(* first and last day (day numbers) *)
Definition start_date (p : period) : Z :=
  let y := p_year p in let n := p_num p in
  match p_ind p with
  | IA => jan1 y
  | IS => days_from_civil y (6 * (n - 1) + 1) 1
  | IQ => days_from_civil y (3 * (n - 1) + 1) 1
  | IM => days_from_civil y n 1
  | IW => iso_week_start y n
  | ID => date_of_doy y n
  end.
Definition end_date (p : period) : Z :=
  let y := p_year p in let n := p_num p in
  match p_ind p with
  | IA => jan1 (y + 1) - 1
  | IS => last_day_of_month y (6 * n)
  | IQ => last_day_of_month y (3 * n)
  | IM => last_day_of_month y n
  | IW => iso_week_start y n + 6
  | ID => date_of_doy y n
  end.

(* the period of indicator i that contains day z *)
Definition period_of_date (i : ind) (z : Z) : period :=
  match i with
  | IA => mkP (year_of z) IA 1
  | IS => mkP (year_of z) IS ((month_of z - 1) / 6 + 1)
  | IQ => mkP (year_of z) IQ ((month_of z - 1) / 3 + 1)
  | IM => mkP (year_of z) IM (month_of z)
  | IW => mkP (iso_year_of z) IW (iso_week_of z)
  | ID => mkP (year_of z) ID (doy_of z)
  end.

Definition rank (i : ind) : Z := match i with IA => 6 | IS => 5 | IQ => 4 | IM => 3 | IW => 2 | ID => 1 end.

(* time_agg on a period: None = "cannot aggregate to a finer indicator" (VTL error 2-1-19-1) *)
Definition time_agg (target : ind) (p : period) : option period :=
  if rank target <? rank (p_ind p) then None
  else if ind_eqb target (p_ind p) then Some p
  else Some (period_of_date target (end_date p)).

(* scalar extractors: month of the first day, day-of-month / day-of-year of the last day *)
Definition getyear (p : period) : Z := p_year p.
Definition getmonth (p : period) : Z := month_of (start_date p).
Definition dayofmonth (p : period) : Z := day_of (end_date p).
Definition dayofyear (p : period) : Z := doy_of (end_date p).
Definition datediff (a b : period) : Z := Z.abs (end_date b - end_date a).
(* dateadd on a day number *)
Definition dateadd (z : Z) (n : Z) (unit : ind) : Z :=
  match unit with
  | ID => z + n | IW => z + 7 * n
  | IM => add_months z n | IQ => add_months z (3 * n) | IS => add_months z (6 * n) | IA => add_months z (12 * n)
  end.

(* ------------------------------------------------------------------ dataset-level models (one series, list of (period, value)) *)
(* fill_time_series between two periods of one indicator: every period of the time line from lo to hi *)
Definition fill_range (lo hi : period) : list period :=
  map (of_index (p_ind lo)) (zrange (index lo) (index hi - index lo + 1)).

(* flow_to_stock = running sums in time order, stock_to_flow = first differences *)
Fixpoint flow_to_stock_from (acc : Z) (l : list Z) : list Z :=
  match l with [] => [] | x :: r => (acc + x) :: flow_to_stock_from (acc + x) r end.
Definition flow_to_stock (l : list Z) : list Z := flow_to_stock_from 0 l.
Fixpoint stock_to_flow_from (prev : Z) (l : list Z) : list Z :=
  match l with [] => [] | x :: r => (x - prev) :: stock_to_flow_from x r end.
Definition stock_to_flow (l : list Z) : list Z := stock_to_flow_from 0 l.

(* ================================================================== strings *)
Open Scope string_scope.
Open Scope Z_scope.
Infix "=s" := String.eqb (at level 70, no associativity).

Definition digit_char (d : Z) : ascii := ascii_of_N (Z.to_N (48 + d)).
Definition is_digit (c : ascii) : bool := let n := Z.of_N (N_of_ascii c) in (48 <=? n) && (n <=? 57).
Definition digit_val (c : ascii) : Z := Z.of_N (N_of_ascii c) - 48.

Definition str1 (c : ascii) : string := String c EmptyString.
Definition pad2 (n : Z) : string := String (digit_char (n / 10 mod 10)) (str1 (digit_char (n mod 10))).
Definition pad3 (n : Z) : string := String (digit_char (n / 100 mod 10)) (pad2 n).
Definition pad4 (n : Z) : string := String (digit_char (n / 1000 mod 10)) (pad3 n).

(* decimal rendering of a non-negative number without padding (Python f"{n}", SQL CAST(n AS VARCHAR)); fuel = digits *)
Fixpoint dec_fuel (fuel : nat) (n : Z) (acc : string) : string :=
  match fuel with
  | O => acc
  | S f => let acc' := String (digit_char (n mod 10)) acc in
           if n / 10 =? 0 then acc' else dec_fuel f (n / 10) acc'
  end.
Definition dec_nat (n : Z) : string := dec_fuel 20 n EmptyString.
Definition dec_int (n : Z) : string := if n <? 0 then String "-" (dec_nat (- n)) else dec_nat n.

Fixpoint all_digits (s : string) : bool :=
  match s with EmptyString => true | String c r => is_digit c && all_digits r end.
Fixpoint digits_val (s : string) (acc : Z) : Z :=
  match s with EmptyString => acc | String c r => digits_val r (acc * 10 + digit_val c) end.
(* a non-empty digit string as a number *)
Definition parse_digits (s : string) : option Z :=
  match s with EmptyString => None | _ => if all_digits s then Some (digits_val s 0) else None end.

Definition slen (s : string) : Z := Z.of_nat (String.length s).
(* SQL SUBSTR(s, start, len) / SUBSTR(s, start) for start >= 1 *)
Definition sub3 (s : string) (start len : Z) : string := String.substring (Z.to_nat (start - 1)) (Z.to_nat len) s.
Definition sub2 (s : string) (start : Z) : string := String.substring (Z.to_nat (start - 1)) (String.length s) s.
Definition upper_char (c : ascii) : ascii :=
  let n := N_of_ascii c in if (N.leb 97 n && N.leb n 122)%bool then ascii_of_N (n - 32) else c.
Fixpoint upper (s : string) : string :=
  match s with EmptyString => EmptyString | String c r => String (upper_char c) (upper r) end.
Fixpoint repeat0 (n : nat) : string := match n with O => EmptyString | S k => String "0" (repeat0 k) end.
(* SQL LPAD(s, n, '0'): pads on the left, and TRUNCATES to the first n characters when s is longer *)
Definition lpad0 (s : string) (n : Z) : string :=
  if slen s <=? n then repeat0 (Z.to_nat (n - slen s)) ++ s else sub3 s 1 n.
Definition char_in (c : string) (l : list string) : bool := existsb (String.eqb c) l.

Definition ind_letter (i : ind) : string :=
  match i with IA => "A" | IS => "S" | IQ => "Q" | IM => "M" | IW => "W" | ID => "D" end.
Definition letter_ind (c : string) : option ind :=
  if c =s "A" then Some IA else if c =s "S" then Some IS else if c =s "Q" then Some IQ
  else if c =s "M" then Some IM else if c =s "W" then Some IW else if c =s "D" then Some ID else None.
Definition num_width (i : ind) : Z := match i with ID => 3 | IM | IW => 2 | _ => 1 end.

(* month / day of the n-th day of a leap / common year, and back *)
Definition month_lengths (lp : bool) : list Z := [31; if lp then 29 else 28; 31; 30; 31; 30; 31; 31; 30; 31; 30; 31].
Fixpoint md_go (ms : list Z) (m n : Z) : Z * Z :=
  match ms with [] => (m, n) | len :: rest => if n <=? len then (m, n) else md_go rest (m + 1) (n - len) end.
Definition md_of_doy (lp : bool) (n : Z) : Z * Z := md_go (month_lengths lp) 1 n.
Definition doy_of_md (lp : bool) (m d : Z) : Z :=
  fold_left Z.add (firstn (Z.to_nat (m - 1)) (month_lengths lp)) 0 + d.
Definition md_valid (lp : bool) (m d : Z) : bool :=
  (1 <=? m) && (m <=? 12) && (1 <=? d) && (d <=? nth (Z.to_nat (m - 1)) (month_lengths lp) 0).

(* ------------------------------------------------------------------ the four documented output formats (docs/data_types.rst) *)
Inductive fmt := FVtl | FReporting | FGregorian | FNatural.
Definition all_fmt : list fmt := [FVtl; FReporting; FGregorian; FNatural].

Definition date_suffix (lp : bool) (n : Z) : string :=
  let '(m, d) := md_of_doy lp n in "-" ++ pad2 m ++ "-" ++ pad2 d.

(* the part after the 4-digit year; None = the format cannot express the indicator *)
Definition render_suffix (f : fmt) (lp : bool) (i : ind) (n : Z) : option string :=
  match f with
  | FVtl => Some (match i with IA => "" | _ => ind_letter i ++ dec_nat n end)
  | FReporting => Some (match i with
                        | IA => "-A1" | IS | IQ => "-" ++ ind_letter i ++ dec_nat n
                        | IM | IW => "-" ++ ind_letter i ++ pad2 n | ID => "-D" ++ pad3 n end)
  | FGregorian => match i with
                  | IA => Some "" | IM => Some ("-" ++ pad2 n) | ID => Some (date_suffix lp n)
                  | _ => None end
  | FNatural => Some (match i with
                      | IA => "" | IS | IQ => "-" ++ ind_letter i ++ dec_nat n
                      | IM => "-" ++ pad2 n | IW => "-W" ++ pad2 n | ID => date_suffix lp n end)
  end.
Definition render (f : fmt) (p : period) : option string :=
  option_map (fun s => pad4 (p_year p) ++ s) (render_suffix f (is_leap (p_year p)) (p_ind p) (p_num p)).
Definition expressible (f : fmt) (i : ind) : bool :=
  match f, i with FGregorian, (IS | IQ | IW) => false | _, _ => true end.
(* internal (canonical) representation: 2020A, 2020-S1, 2020-Q1, 2020-M01, 2020-W01, 2020-D001 *)
Definition canonical_suffix (i : ind) (n : Z) : string :=
  match i with IA => "A" | IS | IQ => "-" ++ ind_letter i ++ dec_nat n
             | IM | IW => "-" ++ ind_letter i ++ pad2 n | ID => "-D" ++ pad3 n end.
Definition canonical (p : period) : string := pad4 (p_year p) ++ canonical_suffix (p_ind p) (p_num p).

(* ------------------------------------------------------------------ documented input spellings *)
Definition opt_bind {A B} (o : option A) (f : A -> option B) : option B := match o with Some x => f x | None => None end.
Definition digits_upto (s : string) (maxlen : Z) : option Z :=
  if (1 <=? slen s) && (slen s <=? maxlen) then parse_digits s else None.

(* the part after the year: (indicator, number); y is only used for the leap flag of YYYY-MM-DD *)
Definition parse_suffix (lp : bool) (s : string) : option (ind * Z) :=
  if s =s "" then Some (IA, 1)                                      (* YYYY *)
  else if s =s "A" then Some (IA, 1)                                (* YYYYA *)
  else if s =s "-A1" then Some (IA, 1)                              (* YYYY-A1 *)
  else
    let c1 := sub3 s 1 1 in
    if c1 =s "-" then
      let c2 := sub3 s 2 1 in
      match letter_ind c2 with
      | Some IA => None
      | Some i =>                                                   (* YYYY-Sx -Qx -Mxx -Mx -Wxx -D[xx]x *)
          opt_bind (digits_upto (sub2 s 3) (num_width i)) (fun n => Some (i, n))
      | None =>
          if slen s <=? 3 then                                       (* YYYY-MM, YYYY-M *)
            opt_bind (digits_upto (sub2 s 2) 2) (fun n => Some (IM, n))
          else if (slen s =? 6) && (sub3 s 4 1 =s "-") then        (* YYYY-MM-DD *)
            opt_bind (digits_upto (sub3 s 2 2) 2) (fun m =>
            opt_bind (digits_upto (sub3 s 5 2) 2) (fun d =>
              if md_valid lp m d then Some (ID, doy_of_md lp m d) else None))
          else None
      end
    else
      match letter_ind c1 with
      | Some IA => None
      | Some i =>                                                   (* YYYYSx Qx Mm Mmm Ww Www D[dd]d *)
          opt_bind (digits_upto (sub2 s 2) (num_width i)) (fun n => Some (i, n))
      | None => None
      end.

(* a time period literal denotes a period (None = not a documented form / not a period of the calendar) *)
Definition parse_in (s : string) : option period :=
  if (4 <=? slen s) && all_digits (sub3 s 1 4) then
    let y := digits_val (sub3 s 1 4) 0 in
    opt_bind (parse_suffix (is_leap y) (sub2 s 5)) (fun '(i, n) =>
      let p := mkP y i n in if period_valid p then Some p else None)
  else None.

(* zero padding to at least k digits (never truncates) *)
Definition zpad (k : Z) (n : Z) : string :=
  let d := dec_nat n in if slen d <=? k then repeat0 (Z.to_nat (k - slen d)) ++ d else d.

(* every documented spelling of a period (docs/data_types.rst, "Accepted input formats") *)
Definition spelling_suffixes (lp : bool) (i : ind) (n : Z) : list string :=
  match i with
  | IA => [""; "A"; "-A1"]
  | IS => ["S" ++ dec_nat n; "-S" ++ dec_nat n]
  | IQ => ["Q" ++ dec_nat n; "-Q" ++ dec_nat n]
  | IM => ["M" ++ dec_nat n; "M" ++ pad2 n; "-" ++ pad2 n; "-" ++ dec_nat n; "-M" ++ pad2 n; "-M" ++ dec_nat n]
  | IW => ["W" ++ dec_nat n; "W" ++ pad2 n; "-W" ++ pad2 n]
  | ID => ["D" ++ dec_nat n; "D" ++ zpad 2 n; "D" ++ zpad 3 n; "-D" ++ dec_nat n; "-D" ++ zpad 2 n; "-D" ++ zpad 3 n; date_suffix lp n]
  end.
Definition spellings (p : period) : list string :=
  map (fun s => pad4 (p_year p) ++ s) (spelling_suffixes (is_leap (p_year p)) (p_ind p) (p_num p)).

(* ================================================================== Part 2: the engine, transcribed *)
(* ------------------------------------------------------------------ time_operators.sql *)
(* vtl_period_limit: constants 52 and 365 *)
Definition period_limit_impl (i : ind) : Z :=
  match i with IA => 1 | IS => 2 | IQ => 4 | IM => 12 | IW => 52 | ID => 365 end.

(* vtl_tp_shift BEFORE fix 1bd5380 (kept as a regression witness only): one arithmetic for every indicator with the constant limits;
   DuckDB `//` and `%` on integers truncate toward zero = Z.quot / Z.rem.  The A/S/Q/M branches are still the macro's. *)
Definition shift_before_fix (p : period) (n : Z) : period :=
  match p_ind p with
  | IA => mkP (p_year p + n) IA 1
  | i =>
      let L := period_limit_impl i in
      let t := p_num p + n in
      mkP (p_year p + (if t <=? 0 then Z.quot t L - 1 else Z.quot (t - 1) L)) i
          (Z.rem (Z.rem (t - 1) L + L) L + 1)
  end.

(* _TP_NEXT_PERIOD of the transpiler (fill_time_series) BEFORE fix 50e3447 (regression witness only): constant limits *)
Definition next_before_fix (p : period) : period :=
  if period_limit_impl (p_ind p) <? p_num p + 1 then mkP (p_year p + 1) (p_ind p) 1
  else mkP (p_year p) (p_ind p) (p_num p + 1).
(* vtl_periods_in_year (fix 50e3447): WEEKOFYEAR(MAKE_DATE(y,12,28)) / DAYOFYEAR(MAKE_DATE(y,12,31)) for W / D *)
Definition periods_in_year_impl (i : ind) (y : Z) : Z :=
  match i with
  | IW => iso_week_of (days_from_civil y 12 28)
  | ID => doy_of (days_from_civil y 12 31)
  | _ => period_limit_impl i
  end.
(* _TP_NEXT_PERIOD of the transpiler (fill_time_series), after the fix *)
Definition next_impl (p : period) : period :=
  if periods_in_year_impl (p_ind p) (p_year p) <? p_num p + 1 then mkP (p_year p + 1) (p_ind p) 1
  else mkP (p_year p) (p_ind p) (p_num p + 1).

(* DuckDB date builtins; None = DuckDB raises *)
Definition make_date (y m d : Z) : option Z := if valid_date y m d then Some (days_from_civil y m d) else None.
Definition last_day (z : Z) : Z := let '(y, m, _) := civil_from_days z in last_day_of_month y m.
(* STRPTIME(y || '-W' || ww || '-' || u, '%G-W%V-%u'): week 1..53 accepted for every year (observed), day u *)
Definition strptime_gvu (y w u : Z) : option Z :=
  if (1 <=? w) && (w <=? 53) then Some (iso_week_start y w + (u - 1)) else None.

Definition end_date_impl (p : period) : option Z :=
  let y := p_year p in let n := p_num p in
  match p_ind p with
  | IA => make_date y 12 31
  | IS => make_date y (n * 6) (if n =? 1 then 30 else 31)
  | IQ => option_map last_day (make_date y (n * 3) 1)
  | IM => option_map last_day (make_date y n 1)
  | IW => strptime_gvu y n 7
  | ID => option_map (fun z => z + (n - 1)) (make_date y 1 1)
  end.
Definition start_date_impl (p : period) : option Z :=
  let y := p_year p in let n := p_num p in
  match p_ind p with
  | IA => make_date y 1 1
  | IS => make_date y ((n - 1) * 6 + 1) 1
  | IQ => make_date y ((n - 1) * 3 + 1) 1
  | IM => make_date y n 1
  | IW => strptime_gvu y n 1
  | ID => option_map (fun z => z + (n - 1)) (make_date y 1 1)
  end.

Definition getmonth_impl (p : period) : option Z :=
  let n := p_num p in
  match p_ind p with
  | IA => Some 1 | IS => Some ((n - 1) * 6 + 1) | IQ => Some ((n - 1) * 3 + 1) | IM => Some n
  | IW => option_map month_of (strptime_gvu (p_year p) n 1)
  | ID => option_map (fun z => month_of (z + (n - 1))) (make_date (p_year p) 1 1)
  end.
Definition dayofmonth_impl (p : period) : option Z := option_map day_of (end_date_impl p).
Definition dayofyear_impl (p : period) : option Z :=
  match p_ind p with ID => Some (p_num p) | _ => option_map doy_of (end_date_impl p) end.
Definition datediff_impl (a b : period) : option Z :=
  opt_bind (end_date_impl a) (fun ea => opt_bind (end_date_impl b) (fun eb => Some (Z.abs (eb - ea)))).
(* vtl_dateadd on the date part (TIMESTAMP + INTERVAL n MONTH clamps the day) *)
Definition dateadd_impl (z n : Z) (unit : ind) : Z :=
  match unit with
  | ID => z + n | IW => z + n * 7
  | IM => add_months z n | IQ => add_months z (n * 3) | IS => add_months z (n * 6) | IA => add_months z (12 * n)
  end.

(* vtl_time_agg_date: YEAR/MONTH/QUARTER/ISOYEAR/WEEK/DAYOFYEAR of DuckDB = Calendar; c = civil_from_days z (shared by the targets) *)
Definition time_agg_date_of (c : Z * Z * Z) (z : Z) (target : ind) : period :=
  let '(y, m, _) := c in
  match target with
  | IA => mkP y IA 1
  | IS => mkP y IS (Z.quot (m - 1) 6 + 1)
  | IQ => mkP y IQ ((m - 1) / 3 + 1)
  | IM => mkP y IM m
  | IW => mkP (iso_year_of z) IW (iso_week_of z)
  | ID => mkP y ID (z - jan1 y + 1)
  end.
Definition time_agg_date_impl (z : Z) (target : ind) : period := time_agg_date_of (civil_from_days z) z target.
Inductive agg_res := AggOk (p : period) | AggFiner | AggRaw.
(* vtl_time_agg_tp; e = vtl_tp_end_date(p) (shared by the targets) *)
Definition time_agg_of_end (e : option Z) (p : period) (target : ind) : agg_res :=
  if rank target <? rank (p_ind p) then AggFiner
  else if ind_eqb (p_ind p) target then AggOk p
  else match e with Some z => AggOk (time_agg_date_impl z target) | None => AggRaw end.
Definition time_agg_tp_impl (p : period) (target : ind) : agg_res := time_agg_of_end (end_date_impl p) p target.

(* vtl_tp_shift (after fix 1bd5380): weeks and days go through the calendar,
   vtl_time_agg_date(vtl_tp_start_date(p) + INTERVAL (7*n | n) DAY, 'W' | 'D'); None = DuckDB raises (week number outside 1..53) *)
Definition shift_impl (p : period) (n : Z) : option period :=
  match p_ind p with
  | IW => option_map (fun z => time_agg_date_impl (z + 7 * n) IW) (start_date_impl p)
  | ID => option_map (fun z => time_agg_date_impl (z + n) ID) (start_date_impl p)
  | _ => Some (shift_before_fix p n)
  end.
Definition enc_op (o : option period) : Z := match o with Some p => p_year p * 1000 + p_num p | None => 9999999 end.

(* ------------------------------------------------------------------ init.sql: strings *)
Inductive sres := SOk (s : string) | SNull | SErr.
Definition sres_cat (a : string) (b : sres) : sres := match b with SOk s => SOk (a ++ s) | r => r end.

(* CAST(varchar AS INTEGER) / TRY_CAST, on the strings that occur here: optional surrounding blanks are not modelled *)
Definition cast_int (s : string) : option Z := parse_digits s.

(* the year field after fix aa363dc: vtl_year_str(y) = LPAD(CAST(y AS VARCHAR), 4, '0') in SQL, f"{year:04d}" in Python (years are
   0..9999 on both sides, where the two coincide) *)
Definition zfill4 (y : Z) : string := lpad0 (dec_int y) 4.
(* vtl_period_to_string, parameterised by the rendering of the year *)
Definition period_to_string_with (yr : Z -> string) (p : period) : string :=
  match p_ind p with
  | IA => yr (p_year p) ++ "A"
  | i => yr (p_year p) ++ "-" ++ ind_letter i ++ lpad0 (dec_int (p_num p)) (num_width i)
  end.
Definition period_to_string_impl : period -> string := period_to_string_with zfill4.
(* before the fix (regression witness only): CAST(year AS VARCHAR), not padded *)
Definition period_to_string_before_fix : period -> string := period_to_string_with dec_int.

(* vtl_period_parse: positions 1-4 year, 6 indicator, 7.. number; raw letters *)
Definition period_parse_impl (s : string) : option (Z * string * Z) :=
  if sub3 s 5 1 =s "-" then
    opt_bind (cast_int (sub3 s 1 4)) (fun y => opt_bind (cast_int (sub2 s 7)) (fun n => Some (y, sub3 s 6 1, n)))
  else opt_bind (cast_int (sub3 s 1 4)) (fun y => Some (y, "A", 1)).

Definition is_upper_letter (c : string) : bool :=
  match c with String a EmptyString => let n := N_of_ascii a in (N.leb 65 n && N.leb n 90)%bool | _ => false end.

(* CAST(SUBSTR(input,1,10) AS DATE) then DAYOFYEAR: YYYY-MM-DD with 1-2 digit month/day; None = conversion error *)
Definition cast_date_doy (s : string) : option Z :=
  if (slen s =? 10) && all_digits (sub3 s 1 4) && (sub3 s 5 1 =s "-") && (sub3 s 8 1 =s "-") then
    opt_bind (parse_digits (sub3 s 6 2)) (fun m => opt_bind (parse_digits (sub3 s 9 2)) (fun d =>
      let y := digits_val (sub3 s 1 4) 0 in
      if valid_date y m d then Some (doy_of (days_from_civil y m d)) else None))
  else None.

Definition norm_num (width : Z) (o : option Z) (try_ : bool) (pre : string) : sres :=
  match o with
  | Some n => SOk (pre ++ (if width =? 1 then dec_int n else lpad0 (dec_int n) width))
  | None => if try_ then SNull else SErr
  end.

(* vtl_period_normalize, branch by branch *)
Definition period_normalize_impl (s : string) : sres :=
  let c5 := sub3 s 5 1 in let c6 := sub3 s 6 1 in let y4 := sub3 s 1 4 in
  if (slen s =? 5) && (c5 =s "A") then SOk s
  else if (c5 =s "-") && (((slen s =? 7) && char_in c6 ["S"; "Q"]) || ((slen s =? 8) && char_in c6 ["M"; "W"])
                           || ((slen s =? 9) && (c6 =s "D"))) then SOk s
  else if slen s =? 4 then SOk (s ++ "A")
  else if negb (c5 =s "-") then
    let u := upper c5 in
    if u =s "A" then SOk (y4 ++ "A")
    else if char_in u ["S"; "Q"] then norm_num 1 (cast_int (sub2 s 6)) false (y4 ++ "-" ++ u)
    else if char_in u ["M"; "W"] then norm_num 2 (cast_int (sub2 s 6)) false (y4 ++ "-" ++ u)
    else norm_num 3 (cast_int (sub2 s 6)) false (y4 ++ "-D")
  else if is_upper_letter (upper c6) then
    let u := upper c6 in
    if u =s "A" then SOk (y4 ++ "A")
    else if char_in u ["S"; "Q"] then norm_num 1 (cast_int (sub2 s 7)) true (y4 ++ "-" ++ u)
    else if char_in u ["M"; "W"] then norm_num 2 (cast_int (sub2 s 7)) true (y4 ++ "-" ++ u)
    else norm_num 3 (cast_int (sub2 s 7)) true (y4 ++ "-D")
  else if (10 <=? slen s) && (c5 =s "-") && (sub3 s 8 1 =s "-") then
    norm_num 3 (cast_date_doy (sub3 s 1 10)) false (y4 ++ "-D")
  else norm_num 2 (cast_int (sub2 s 6)) false (y4 ++ "-M").

(* vtl_doy_to_date(year_str, doy): CAST(year_str || '-01-01' AS DATE) + (doy-1) days, rendered YYYY-MM-DD *)
Definition render_date (z : Z) : string :=
  let '(y, m, d) := civil_from_days z in pad4 y ++ "-" ++ pad2 m ++ "-" ++ pad2 d.
Definition doy_to_date_impl (year_str : string) (doy : option Z) : sres :=
  match doy with
  | None => SNull
  | Some n => if (slen year_str =? 4) && all_digits year_str
              then SOk (render_date (jan1 (digits_val year_str 0) + (n - 1))) else SErr
  end.

Definition try_num (s : string) : sres := match cast_int s with Some n => SOk (dec_int n) | None => SNull end.

(* vtl_period_to_vtl / _sdmx_reporting / _sdmx_gregorian / _natural on the canonical string *)
Definition render_impl (f : fmt) (s : string) : sres :=
  let y4 := sub3 s 1 4 in let c6 := sub3 s 6 1 in
  match f with
  | FVtl => if slen s <=? 5 then SOk y4 else sres_cat (y4 ++ c6) (try_num (sub2 s 7))
  | FReporting => if slen s <=? 5 then SOk (y4 ++ "-A1") else SOk s
  | FGregorian =>
      if slen s <=? 5 then SOk y4
      else if c6 =s "M" then SOk (y4 ++ "-" ++ sub2 s 7)
      else if c6 =s "D" then doy_to_date_impl y4 (cast_int (sub2 s 7))
      else SErr
  | FNatural =>
      if slen s <=? 5 then SOk y4
      else if c6 =s "M" then SOk (y4 ++ "-" ++ sub2 s 7)
      else if c6 =s "D" then doy_to_date_impl y4 (cast_int (sub2 s 7))
      else if c6 =s "W" then SOk s
      else sres_cat (y4 ++ "-" ++ c6) (try_num (sub2 s 7))
  end.

(* ------------------------------------------------------------------ Python: TimeHandling.py, _time_checking.py *)
(* outcome of constructing a TimePeriodHandler: the period, or the error raised *)
Inductive pyres := PyOk (p : period) | PyErr (code : string).   (* code: "2-1-19-x" or "VE" *)

Definition py_periods (i : ind) : Z := match i with ID => 366 | IW => 53 | IM => 12 | IQ => 4 | IS => 2 | IA => 1 end.

(* the three property setters, in the order of __init__: year, period_indicator, period_number *)
Definition py_build (y : Z) (letter : string) (n : Z) : pyres :=
  if (y <? 0) || (9999 <? y) then PyErr "2-1-19-10"
  else match letter_ind letter with
       | None => PyErr "2-1-19-2"
       | Some i =>
           if negb (ind_eqb i IA) && negb ((1 <=? n) && (n <=? py_periods i)) then PyErr "2-1-19-7"
           else if ind_eqb i ID && (days_in_year y <? n) then PyErr "2-1-19-9"
           else PyOk (mkP y i n)
       end.

Fixpoint split_dash (s : string) (cur : string) : list string :=
  match s with
  | EmptyString => [cur]
  | String c r => if Ascii.eqb c "-" then cur :: split_dash r EmptyString else split_dash r (cur ++ str1 c)
  end.
Fixpoint has_dash (s : string) : bool :=
  match s with EmptyString => false | String c r => Ascii.eqb c "-" || has_dash r end.

(* int(): digit strings only (the regexes of check_time_period guarantee that) *)
Definition py_int (s : string) : option Z := parse_digits s.

(* from_input_customer_support_to_internal *)
Definition py_from_hyphenated (s : string) : option (Z * string * Z) + string :=
  match split_dash s EmptyString with
  | p0 :: rest =>
      match py_int p0 with
      | None => inr "VE"
      | Some y =>
          match rest with
          | [m; d] =>   (* day_of_year(period): strptime %Y-%m-%d on the whole string *)
              match py_int m, py_int d with
              | Some mm, Some dd => if (slen p0 =? 4) && valid_date y mm dd && (slen m <=? 2) && (slen d <=? 2)
                                    then inl (Some (y, "D", doy_of (days_from_civil y mm dd))) else inr "VE"
              | _, _ => inr "VE"
              end
          | [t] =>
              let len := slen t in
              if len =? 4 then match py_int (sub2 t 2) with Some n => inl (Some (y, "D", n)) | None => inr "VE" end
              else if len =? 3 then match py_int (sub2 t 2) with Some n => inl (Some (y, sub3 t 1 1, n)) | None => inr "VE" end
              else if len =? 2 then
                if char_in (sub3 t 1 1) ["A"; "S"; "Q"; "M"; "W"; "D"]
                then match py_int (sub2 t 2) with Some n => inl (Some (y, sub3 t 1 1, n)) | None => inr "VE" end
                else match py_int t with Some n => inl (Some (y, "M", n)) | None => inr "VE" end
              else if len =? 1 then match py_int t with Some n => inl (Some (y, "M", n)) | None => inr "VE" end
              else inr "2-1-19-6"
          | _ => inr "IE"
          end
      end
  | [] => inr "VE"
  end.

(* TimePeriodHandler(s) *)
Definition py_handler (s : string) : pyres :=
  if has_dash s then
    match py_from_hyphenated s with
    | inl (Some (y, l, n)) => py_build y l n
    | inl None => PyErr "VE"
    | inr e => PyErr e
    end
  else
    match py_int (sub3 s 1 4) with
    | None => PyErr "VE"
    | Some y =>
        let l := if 4 <? slen s then sub3 s 5 1 else "A" in
        if 5 <? slen s then match py_int (sub2 s 6) with Some n => py_build y l n | None => PyErr "VE" end
        else py_build y l 1
    end.

(* __str__ and the four *_representation methods, parameterised by the rendering of the year: f"{self.year:04d}" after fix
   aa363dc, f"{self.year}" before *)
Definition py_str_with (yr : Z -> string) (p : period) : string :=
  match p_ind p with
  | IA => yr (p_year p) ++ "A"
  | IW | IM => yr (p_year p) ++ "-" ++ ind_letter (p_ind p) ++ (if p_num p <? 10 then "0" else "") ++ dec_int (p_num p)
  | ID => yr (p_year p) ++ "-D" ++ (if p_num p <? 10 then "00" else if p_num p <? 100 then "0" else "") ++ dec_int (p_num p)
  | i => yr (p_year p) ++ "-" ++ ind_letter i ++ dec_int (p_num p)
  end.
Definition py_str : period -> string := py_str_with zfill4.
Definition py_str_before_fix : period -> string := py_str_with dec_int.
Definition py02 (n : Z) : string := (if n <? 10 then "0" else "") ++ dec_int n.
Definition py03 (n : Z) : string := (if n <? 10 then "00" else if n <? 100 then "0" else "") ++ dec_int n.
(* period_to_date(year, "D", n) = strptime(f"{year:04d}-D{n}", "%Y-D%j"): fails below `lowest` (1 after the fix: datetime has no year
   0; 1000 before it: %Y needs four digits); date.isoformat() pads the year to 4 digits *)
Inductive ckres := CkOk (s : string) | CkErr (code : string).
Definition py_iso_date (lowest y n : Z) : ckres :=
  if y <? lowest then CkErr "VE" else CkOk (render_date (jan1 y + (n - 1))).
Definition py_render_with (yr : Z -> string) (lowest : Z) (f : fmt) (p : period) : ckres :=
  let y := yr (p_year p) in let n := p_num p in let i := p_ind p in
  match f with
  | FVtl => CkOk (match i with IA => y | _ => y ++ ind_letter i ++ dec_int n end)
  | FGregorian => match i with
                  | IA => CkOk y | IM => CkOk (y ++ "-" ++ py02 n) | ID => py_iso_date lowest (p_year p) n
                  | _ => CkErr "2-1-19-21" end
  | FReporting => CkOk (match i with
                        | IA => y ++ "-A1" | IW | IM => y ++ "-" ++ ind_letter i ++ py02 n
                        | ID => y ++ "-D" ++ py03 n | _ => y ++ "-" ++ ind_letter i ++ dec_int n end)
  | FNatural => match i with
                | IA => CkOk y | IM => CkOk (y ++ "-" ++ py02 n) | ID => py_iso_date lowest (p_year p) n
                | IW => CkOk (y ++ "-W" ++ py02 n) | _ => CkOk (y ++ "-" ++ ind_letter i ++ dec_int n) end
  end.
Definition py_render : fmt -> period -> ckres := py_render_with zfill4 1.
Definition py_render_before_fix : fmt -> period -> ckres := py_render_with dec_int 1000.

(* max_periods_in_year / next_period / previous_period / shift_period of TimeHandling.py *)
Definition py_max_periods (i : ind) (y : Z) : Z :=
  match i with ID => days_in_year y | IW => iso_week_of (days_from_civil y 12 28) | _ => py_periods i end.
Definition py_next (p : period) : period :=
  if p_num p =? py_max_periods (p_ind p) (p_year p) then mkP (p_year p + 1) (p_ind p) 1
  else mkP (p_year p) (p_ind p) (p_num p + 1).
Definition py_prev (p : period) : period :=
  if p_num p =? 1 then mkP (p_year p - 1) (p_ind p) (py_max_periods (p_ind p) (p_year p - 1))
  else mkP (p_year p) (p_ind p) (p_num p - 1).
Fixpoint iter_period (n : nat) (f : period -> period) (p : period) : period :=
  match n with O => p | S k => iter_period k f (f p) end.
Definition py_shift (p : period) (n : Z) : period :=
  match p_ind p with
  | IA => mkP (p_year p + n) IA (p_num p)
  | _ => if 0 <=? n then iter_period (Z.to_nat n) py_next p else iter_period (Z.to_nat (- n)) py_prev p
  end.

(* _vtl_period_re and _sdmx_period_re of _time_checking.py, as predicates *)
Definition one_of_chars (c : string) (cs : string) : bool :=
  match c with String a EmptyString => existsb (Ascii.eqb a) (list_ascii_of_string cs) | _ => false end.
Definition re_vtl (s : string) : bool :=
  let y := sub3 s 1 4 in let t := sub2 s 5 in
  (4 <=? slen s) && all_digits y &&
  ((t =s "") || (t =s "A")
   || ((slen t =? 2) && (sub3 t 1 1 =s "S") && one_of_chars (sub3 t 2 1) "12")
   || ((slen t =? 2) && (sub3 t 1 1 =s "Q") && one_of_chars (sub3 t 2 1) "1234")
   || ((sub3 t 1 1 =s "M") && (((slen t =? 2) && all_digits (sub2 t 2))
                                 || ((slen t =? 3) && one_of_chars (sub3 t 2 1) "01" && all_digits (sub2 t 3))))
   || ((sub3 t 1 1 =s "W") && (((slen t =? 2) && all_digits (sub2 t 2))
                                 || ((slen t =? 3) && one_of_chars (sub3 t 2 1) "012345" && all_digits (sub2 t 3))))
   || ((sub3 t 1 1 =s "D") && ((((slen t =? 2) || (slen t =? 3)) && all_digits (sub2 t 2))
                                 || ((slen t =? 4) && one_of_chars (sub3 t 2 1) "0123" && all_digits (sub2 t 3))))).
Definition re_sdmx (s : string) : bool :=
  let y := sub3 s 1 4 in let t := sub2 s 6 in
  (6 <=? slen s) && all_digits y && (sub3 s 5 1 =s "-") &&
  ((((slen t =? 1) || (slen t =? 2)) && all_digits t)
   || ((slen t =? 5) && all_digits (sub3 t 1 2) && (sub3 t 3 1 =s "-") && all_digits (sub3 t 4 2))
   || ((sub3 t 1 1 =s "M") &&
         (((slen t =? 3) && (((sub3 t 2 1 =s "0") && one_of_chars (sub3 t 3 1) "123456789")
                               || ((sub3 t 2 1 =s "1") && one_of_chars (sub3 t 3 1) "012")))
          || ((slen t =? 2) && one_of_chars (sub3 t 2 1) "123456789")))
   || ((slen t =? 2) && (sub3 t 1 1 =s "Q") && one_of_chars (sub3 t 2 1) "1234")
   || ((slen t =? 2) && (sub3 t 1 1 =s "S") && one_of_chars (sub3 t 2 1) "12")
   || ((sub3 t 1 1 =s "W") &&
         (((slen t =? 3) && ((one_of_chars (sub3 t 2 1) "01234" && all_digits (sub3 t 3 1))
                               || ((sub3 t 2 1 =s "5") && one_of_chars (sub3 t 3 1) "0123")))
          || ((slen t =? 2) && one_of_chars (sub3 t 2 1) "123456789")))
   || ((sub3 t 1 1 =s "D") && ((((slen t =? 2) || (slen t =? 3)) && all_digits (sub2 t 2))
                                 || ((slen t =? 4) && one_of_chars (sub3 t 2 1) "0123" && all_digits (sub2 t 3))))
   || (t =s "A1")).

(* check_time_period (after strip): the canonical string, or the error *)
Definition ck_of (r : pyres) : ckres := match r with PyOk p => CkOk (py_str p) | PyErr e => CkErr e end.
Definition iso_date_parts (s : string) : option (string * string * string) :=
  match split_dash s EmptyString with
  | [y; m; d] => if (slen y =? 4) && all_digits y && (1 <=? slen m) && (slen m <=? 2) && all_digits m
                    && (1 <=? slen d) && (slen d <=? 2) && all_digits d then Some (y, m, d) else None
  | _ => None
  end.
Definition iso_month_parts (s : string) : option (string * string) :=
  match split_dash s EmptyString with
  | [y; m] => if (slen y =? 4) && all_digits y && (1 <=? slen m) && (slen m <=? 2) && all_digits m then Some (y, m) else None
  | _ => None
  end.
Definition check_time_period_impl (s : string) : ckres :=
  if re_vtl s then ck_of (py_handler (if slen s =? 4 then s ++ "A" else s))
  else
    let s1 := match iso_date_parts s with
              | Some (y, m, d) => y ++ "-" ++ py02 (digits_val m 0) ++ "-" ++ py02 (digits_val d 0)
              | None => s end in
    let s2 := match iso_month_parts s1 with Some (y, m) => y ++ "-M" ++ m | None => s1 end in
    if re_sdmx s2 then ck_of (py_handler s2) else CkErr "VE:format".

(* ================================================================== Part 3: rows evaluated by the correspondence (harness/translate/period.py) *)
(* Whole tables are compared through a polynomial fingerprint h' = (B*h + x) mod 2^61 (printing millions of numbers from Coq is
   too slow); a shard whose fingerprint differs is re-evaluated pointwise (the `*_rows` functions) to find the input. *)
Definition fp_mask : Z := 2305843009213693951.
Definition fp_step (h x : Z) : Z := Z.land (1000003 * h + x) fp_mask.
Definition fpz (l : list Z) : Z := fold_left fp_step l 7.
Fixpoint fps_go (s : string) (h : Z) : Z :=
  match s with EmptyString => h | String c r => fps_go r (fp_step h (Z.of_N (N_of_ascii c))) end.
Definition fps (l : list string) : Z := fold_left (fun h s => fps_go s (fp_step h 10)) l 7.

Definition enc_day (o : option Z) : Z := match o with Some z => z + 1000000 | None => 9999999 end.
Definition enc_num (o : option Z) : Z := match o with Some z => z | None => 9999999 end.
Definition enc_p (p : period) : Z := p_year p * 1000 + p_num p.
Definition enc_agg (r : agg_res) : Z := match r with AggOk q => enc_p q | AggFiner => 9999998 | AggRaw => 9999999 end.
Definition static_max (i : ind) : Z := match i with IA => 1 | IS => 2 | IQ => 4 | IM => 12 | IW => 53 | ID => 366 end.

(* scalar macros on one period (also on week 53 / day 366 of years that do not have them: the engine accepts them) *)
Definition dayofyear_of_end (e : option Z) (p : period) : option Z :=
  match p_ind p with ID => Some (p_num p) | _ => option_map doy_of e end.
(* e = end_date_impl p is computed once: dayofmonth_impl p = option_map day_of e, dayofyear_impl p = dayofyear_of_end e p,
   time_agg_tp_impl p t = time_agg_of_end e p t by unfolding (PeriodP.tie_scalar_row_unfold) *)
Definition tie_scalar_row (p : period) : list Z :=
  let e := end_date_impl p in
  [if period_valid p then 1 else 0; enc_day (start_date_impl p); enc_day e;
   enc_num (getmonth_impl p); enc_num (option_map day_of e); enc_num (dayofyear_of_end e p)]
  ++ map (fun t => enc_agg (time_agg_of_end e p t)) all_ind ++ [enc_p (next_impl p)].
Definition tie_scalar_rows (i : ind) (y : Z) : list (list Z) :=
  map (fun n => tie_scalar_row (mkP y i n)) (zrange 1 (static_max i)).

(* vtl_tp_shift for a list of shifts *)
Definition tie_shift_row (p : period) (ns : list Z) : list Z := map (fun n => enc_op (shift_impl p n)) ns.
Definition tie_shift_rows (i : ind) (y : Z) (ns : list Z) : list (list Z) :=
  map (fun n => tie_shift_row (mkP y i n) ns) (zrange 1 (static_max i)).
Definition tie_period_fp (i : ind) (y : Z) (ns : list Z) : list Z :=
  [periods_in_year i y; fpz (List.concat (tie_scalar_rows i y)); fpz (List.concat (tie_shift_rows i y ns))].

(* DuckDB date builtins against Calendar, one row per day of year y; vtl_time_agg_date; vtl_dateadd for the shifts ns *)
Definition tie_calendar_row (ns : list Z) (us : list ind) (z : Z) : list Z :=
  let c := civil_from_days z in
  let '(y, m, d) := c in
  [z + 1000000; y; m; d; z - jan1 y + 1; iso_year_of z; iso_week_of z; iso_dow z;
   last_day_of_month y m + 1000000; (m - 1) / 3 + 1]
  ++ map (fun t => enc_p (time_agg_date_of c z t)) all_ind
  ++ flat_map (fun n => map (fun u => dateadd_impl z n u + 1000000) us) ns.
Definition tie_calendar_rows (y : Z) (ns : list Z) (us : list ind) : list (list Z) :=
  map (tie_calendar_row ns us) (zrange (jan1 y) (days_in_year y)).
Definition tie_calendar_fp (y : Z) (ns : list Z) (us : list ind) : list Z :=
  [if is_leap y then 1 else 0; days_in_year y; weeks_in_year y; jan1 y + 1000000; week1_monday y + 1000000;
   fpz (List.concat (tie_calendar_rows y ns us))].

(* strings *)
Definition sres_str (r : sres) : string := match r with SOk s => s | SNull => "~NULL" | SErr => "~ERR" end.
Definition ostr (o : option string) : string := match o with Some s => s | None => "~NONE" end.
Definition ckres_str (r : ckres) : string :=
  match r with CkOk s => s | CkErr e => if e =s "2-1-19-21" then "~NONE" else "~" ++ e end.
Definition valid_nums (i : ind) (y : Z) : list Z := zrange 1 (periods_in_year i y).

(* SQL side: to_string, parse, the four renderers on the canonical string, normalize of every spelling *)
Definition tie_sql_row (p : period) : list string :=
  let c := period_to_string_impl p in
  [c; match period_parse_impl c with Some (y, l, n) => dec_int y ++ l ++ dec_int n | None => "~ERR" end]
  ++ map (fun f => sres_str (render_impl f c)) all_fmt
  ++ map (fun s => sres_str (period_normalize_impl s)) (spellings p).
(* the specification: canonical form, the four documented renderings, the documented spellings *)
Definition tie_spec_row (p : period) : list string :=
  [canonical p] ++ map (fun f => ostr (render f p)) all_fmt ++ spellings p.
(* Python side: str, the four representations, check_time_period of every spelling *)
Definition tie_py_row (p : period) : list string :=
  [py_str p] ++ map (fun f => ckres_str (py_render f p)) all_fmt
  ++ map (fun s => ckres_str (check_time_period_impl s)) (spellings p).
Definition tie_string_rows (i : ind) (y : Z) : list (list string) :=
  map (fun n => let p := mkP y i n in (tie_spec_row p ++ ["#"] ++ tie_sql_row p ++ ["#"] ++ tie_py_row p)%list) (valid_nums i y).
Definition tie_string_fp (i : ind) (y : Z) : list Z :=
  [fps (flat_map (fun n => tie_spec_row (mkP y i n)) (valid_nums i y));
   fps (flat_map (fun n => tie_sql_row (mkP y i n)) (valid_nums i y));
   fps (flat_map (fun n => tie_py_row (mkP y i n)) (valid_nums i y))].

(* python period arithmetic: max_periods_in_year, next, previous, shift by the given numbers *)
Definition tie_py_shift_row (ns : list Z) (p : period) : list Z :=
  [py_max_periods (p_ind p) (p_year p); enc_p (py_next p); enc_p (py_prev p)] ++ map (fun n => enc_p (py_shift p n)) ns
  ++ [start_date p + 1000000; end_date p + 1000000] ++ map (fun n => enc_p (shift p n)) ns.
Definition tie_py_shift_rows (i : ind) (y : Z) (ns : list Z) : list (list Z) :=
  map (fun n => tie_py_shift_row ns (mkP y i n)) (valid_nums i y).
Definition tie_py_shift_fp (i : ind) (y : Z) (ns : list Z) : list Z := [fpz (List.concat (tie_py_shift_rows i y ns))].

(* ------------------------------------------------------------------ expectations of the dataset-level correspondence (K) *)
Definition k_shift (n : Z) (ps : list period) : list Z :=
  map (fun p => enc_p (shift p n)) ps ++ map (fun p => enc_op (shift_impl p n)) ps.
Definition k_index (ps : list period) : list Z := flat_map (fun p => [if period_valid p then 1 else 0; index p]) ps.
Definition k_scalar (ps : list period) : list Z := flat_map (fun p => [getyear p; getmonth p; dayofmonth p; dayofyear p]) ps.
Definition k_agg (t : ind) (ps : list period) : list Z :=
  map (fun p => match time_agg t p with Some q => enc_p q | None => -1 end) ps.
Definition enc_date (z : Z) : Z := let '(y, m, d) := civil_from_days z in y * 10000 + m * 100 + d.
Definition k_date_scalar (zs : list Z) : list Z := flat_map (fun z => [year_of z; month_of z; day_of z; doy_of z]) zs.
Definition k_date_agg (t : ind) (last : bool) (zs : list Z) : list Z :=
  map (fun z => let q := period_of_date t z in enc_date (if last then end_date q else start_date q)) zs.
Definition k_dateadd (n : Z) (u : ind) (zs : list Z) : list Z := map (fun z => enc_date (dateadd z n u)) zs.
Definition k_tp_dateadd (n : Z) (u : ind) (ps : list period) : list Z := map (fun p => enc_date (dateadd (end_date p) n u)) ps.
Definition k_datediff (ps qs : list period) : list Z := map (fun pq => datediff (fst pq) (snd pq)) (combine ps qs).
Definition k_date_diff (zs ws : list Z) : list Z := map (fun zw => Z.abs (fst zw - snd zw)) (combine zs ws).
Definition k_shift_inv (n : Z) (ps : list period) : list Z :=
  map (fun p => enc_op (opt_bind (shift_impl p n) (fun q => shift_impl q (- n)))) ps.
