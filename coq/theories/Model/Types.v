(* The nine VTL scalar types and the operator-registry record.  Definitions only. *)
From Coq Require Import String List Bool.
Import ListNotations.

Inductive ty := TString | TNumber | TInteger | TTime | TDate | TPeriod | TDuration | TBoolean | TNull.

Definition all_ty : list ty := [TString; TNumber; TInteger; TTime; TDate; TPeriod; TDuration; TBoolean; TNull].
Definition all_oty : list (option ty) := None :: map Some all_ty.

Definition ty_eqb (a b : ty) : bool :=
  match a, b with
  | TString, TString | TNumber, TNumber | TInteger, TInteger | TTime, TTime | TDate, TDate
  | TPeriod, TPeriod | TDuration, TDuration | TBoolean, TBoolean | TNull, TNull => true
  | _, _ => false
  end.

Definition oty_eqb (a b : option ty) : bool :=
  match a, b with
  | None, None => true
  | Some x, Some y => ty_eqb x y
  | _, _ => false
  end.

Definition memty (x : ty) (l : list ty) : bool := existsb (ty_eqb x) l.
Definition inter (a b : list ty) : list ty := filter (fun x => memty x b) a.
Definition subset (a b : list ty) : bool := forallb (fun x => memty x b) a.
Definition set_eq (a b : list ty) : bool := subset a b && subset b a.

Record opinfo := mkOp {
  o_name : string; o_op : string; o_arity : nat;
  o_tc : option ty;          (* type_to_check *)
  o_rt : option ty;          (* return_type *)
  o_comm : bool              (* the operator is commutative in VTL *)
}.
