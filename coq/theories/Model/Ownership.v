(* Ownership — who may be modified by a public API call (definitions only; proofs in Proofs/OwnershipP.v).

   A skeleton is a straight-line list of operations over variables denoting objects:
     Alias d s   d := s                       (same object)
     Copy d s    d := a NEW object holding a copy of s      (df.rename(..), df.fillna(..), copy.deepcopy, {**a, **b}, ...)
     New d       d := a new object
     Mutate x t  in-place modification of aspect t of the object x denotes   (x.columns = .., x[c] = .., del x[k], inplace=True)
     Raise       a point where the function may raise (no effect)
     Nop
   "Fault at position k" = the call raises after its first k operations (`run_prefix k`): every operation boundary is a
   possible failure point, a superset of the real `raise` sites.
   Objects 0..nc-1 are the caller's arguments; parameter j is variable 2+j; variables 0 and 1 are the locals `data` / `tmp`.
   The heap records, per object, which aspects were modified.  Aliasing inside pandas/duckdb internals is not modelled.
   `validate_impl`, `run_impl_o`, ... are faithful to the CURRENT code (the engine is compared with them on every run);
   `validate_before_fix` is the code before the repair commit, kept only for the regression-witness theorems. *)
From Coq Require Import List Bool Arith.
Import ListNotations.

Definition var := nat.
Definition obj := nat.
Definition tag := nat.

Inductive op :=
| Alias (d s : var)
| Copy (d s : var)
| New (d : var)
| Mutate (x : var) (t : tag)
| Raise
| Nop.

Record ost := mkO { env : var -> obj; heap : obj -> list tag; next : obj }.

Definition updf {X} (f : nat -> X) (i : nat) (v : X) : nat -> X := fun j => if Nat.eqb j i then v else f j.

Definition exec_op (o : op) (s : ost) : ost :=
  match o with
  | Alias d x => mkO (updf (env s) d (env s x)) (heap s) (next s)
  | Copy d x => mkO (updf (env s) d (next s)) (updf (heap s) (next s) []) (S (next s))
  | New d => mkO (updf (env s) d (next s)) (updf (heap s) (next s) []) (S (next s))
  | Mutate x t => mkO (env s) (updf (heap s) (env s x) (t :: heap s (env s x))) (next s)
  | Raise | Nop => s
  end.

Definition run_all (p : list op) (s : ost) : ost := fold_left (fun st o => exec_op o st) p s.
Definition run_prefix (k : nat) (p : list op) (s : ost) : ost := run_all (firstn k p) s.

(* nc caller objects; parameter j is variable 2+j; every other variable denotes a junk local object *)
Definition oinit (nc : nat) : ost :=
  mkO (fun v => if (2 <=? v) && (v <? 2 + nc) then v - 2 else nc) (fun _ => []) (S nc).

(* ---- static alias (taint) analysis: which variables may denote a caller object -------------------------------- *)
Definition taint0 (nc : nat) : var -> bool := fun v => (2 <=? v) && (v <? 2 + nc).

Definition taint_op (o : op) (T : var -> bool) : var -> bool :=
  match o with
  | Alias d x => updf T d (T x)
  | Copy d _ | New d => updf T d false
  | _ => T
  end.

Definition taint_all (p : list op) (T : var -> bool) : var -> bool := fold_left (fun t o => taint_op o t) p T.

(* no Mutate target may alias a caller-owned object *)
Fixpoint safe (T : var -> bool) (p : list op) : bool :=
  match p with
  | [] => true
  | Mutate x _ :: rest => negb (T x) && safe T rest
  | o :: rest => safe (taint_op o T) rest
  end.

(* what the caller sees afterwards: the modification log of each of its objects *)
Definition caller_view (nc : nat) (s : ost) : list (list tag) := map (heap s) (seq 0 nc).

(* ---- aspects ----------------------------------------------------------------------------------------------------- *)
Definition TColsId : tag := 0.   (* the columns Index object was replaced (same labels) *)
Definition TCols : tag := 1.     (* column labels changed *)
Definition TAddCol : tag := 2.   (* a column was added *)
Definition TValues : tag := 3.   (* cell values / dtypes changed *)
Definition TDictKeys : tag := 4. (* keys of a dict added / removed / rebound *)

Definition vData : var := 0.
Definition vTmp : var := 1.
Definition pStructs : var := 2.      (* data_structures *)
Definition pDatapoints : var := 3.   (* the datapoints dict *)
Definition pScalars : var := 4.      (* scalar_values *)
Definition pVd : var := 5.           (* value_domains *)
Definition pEr : var := 6.           (* external_routines *)
Definition pDf (i : nat) : var := 7 + i.   (* the i-th DataFrame *)
Definition ncaller (n : nat) : nat := 5 + n.

Definition when (b : bool) (o : op) : op := if b then o else Nop.

(* ---- files/parser/__init__.py::_validate_pandas on the i-th DataFrame -------------------------------------------- *)
Record dfclass := mkDf {
  bom : bool;        (* a column label starts with U+FEFF *)
  missing : bool;    (* a nullable component has no column *)
  emptystr : bool    (* a non-String column holds "" *)
}.

(* BEFORE the fix (regression witness only): `data` WAS the caller's frame until `data = data.fillna(...)` rebound it *)
Definition validate_block_before_fix (i : nat) (c : dfclass) : list op :=
  [ Alias vData (pDf i);
    Mutate vData TColsId;                 (* data.columns = pd.Index(bom_stripped) *)
    when (bom c) (Mutate vData TCols);
    Raise;                                (* 0-3-1-5 missing non-nullable component *)
    when (missing c) (Mutate vData TAddCol);   (* data[name] = None *)
    Raise;                                (* 0-3-1-15 extra columns *)
    Raise;                                (* 0-3-1-3 / 0-3-1-4 identifiers *)
    when (emptystr c) (Mutate vData TValues);  (* data[c] = data[c].replace("", pd.NA) *)
    Copy vData vData;                     (* data = data.fillna(value=pd.NA) *)
    Mutate vData TValues;                 (* casts, on the copy *)
    Raise;                                (* 0-3-1-6 *)
    Raise ].                              (* 0-3-1-7 duplicates *)

(* CURRENT code: `data = data.rename(columns=<BOM-stripped>)` -- a new frame from the first line on; everything below
   works on that copy (the label / column / value writes are the same statements as before) *)
Definition validate_block_impl (i : nat) (c : dfclass) : list op :=
  [ Copy vData (pDf i);                   (* data = data.rename(columns=...): labels are stripped while the copy is made *)
    Nop;
    Nop;
    Raise;                                (* 0-3-1-5 missing non-nullable component *)
    when (missing c) (Mutate vData TAddCol);   (* data[name] = None, on the copy *)
    Raise;                                (* 0-3-1-15 extra columns *)
    Raise;                                (* 0-3-1-3 / 0-3-1-4 identifiers *)
    when (emptystr c) (Mutate vData TValues);  (* data[c] = data[c].replace("", pd.NA), on the copy *)
    Copy vData vData;                     (* data = data.fillna(value=pd.NA) *)
    Mutate vData TValues;                 (* casts *)
    Raise;                                (* 0-3-1-6 *)
    Raise ].                              (* 0-3-1-7 duplicates *)

Definition block_len : nat := 12.

Fixpoint blocks (f : nat -> dfclass -> list op) (i : nat) (cs : list dfclass) : list op :=
  match cs with
  | [] => []
  | c :: rest => f i c ++ blocks f (S i) rest
  end.

(* validate_dataset(data_structures, {name: DataFrame}, scalar_values): structures and dicts are only read *)
Definition validate_prelude : list op :=
  [Alias vTmp pStructs; New vTmp; Raise; Alias vTmp pDatapoints; Raise].
Definition validate_before_fix (cs : list dfclass) : list op :=
  validate_prelude ++ blocks validate_block_before_fix 0 cs ++ [Alias vTmp pScalars; Raise].
Definition validate_impl (cs : list dfclass) : list op :=
  validate_prelude ++ blocks validate_block_impl 0 cs ++ [Alias vTmp pScalars; Raise].

(* ---- API/__init__.py::run --------------------------------------------------------------------------------------- *)
(* extract_datapoint_paths keeps the caller's frame (Alias); register_dataframes renames on a copy and only reads *)
Definition run_block (i : nat) (_ : dfclass) : list op :=
  [Alias vData (pDf i); Copy vData vData; Mutate vData TCols; Raise].

(* url = some datapoint value is an http(s) URL and data_structures is a path: run() stores the fetched frame into the
   caller's dict and deletes keys from it *)
Definition run_impl_o (url : bool) (cs : list dfclass) : list op :=
  [Alias vTmp pStructs; New vTmp; Raise;         (* load_datasets *)
   Alias vTmp pScalars; Raise;                   (* scalar values are read *)
   Alias vTmp pVd; New vTmp; Raise;              (* load_value_domains builds new objects *)
   Alias vTmp pEr; New vTmp; Raise;              (* load_external_routines *)
   New vTmp; Mutate vTmp TValues; Raise;         (* semantic analysis on deep copies *)
   Alias vTmp pDatapoints;
   when url (Mutate vTmp TDictKeys); Raise]      (* datapoints[url_name] = url_df ; del datapoints[url_name] *)
  ++ blocks run_block 0 cs ++ [New vTmp; Mutate vTmp TValues; Raise].

Definition run_spec_o (cs : list dfclass) : list op := run_impl_o false cs.

(* run_sdmx: builds its own structures list and datapoints dict, then calls run *)
Definition run_sdmx_o (cs : list dfclass) : list op :=
  [Raise; New vTmp; Mutate vTmp TDictKeys; Raise] ++ run_impl_o false cs.

Definition semantic_o : list op :=
  [Raise; Alias vTmp pStructs; New vTmp; Raise; Alias vTmp pVd; New vTmp; Raise; Alias vTmp pEr; New vTmp; Raise;
   New vTmp; Mutate vTmp TValues; Raise].

(* prettify / generate_sdmx: the script is an immutable str (or a frozen TransformationScheme); everything is built new *)
Definition prettify_o : list op := [Raise; New vTmp; Raise; New vData; Mutate vData TValues].
Definition generate_sdmx_o : list op := [Raise; New vTmp; Raise; New vData; Mutate vData TValues; Raise].

(* validate_value_domain / validate_external_routine: the definition dict (or list of dicts) is validated against the JSON
   schema and a new ValueDomain / ExternalRoutine object is built from its fields; create_ast: text in, new AST out *)
Definition validate_vd_o : list op := [Raise; Alias vTmp pVd; Raise; New vTmp; Mutate vTmp TValues; Raise].
Definition validate_er_o : list op := [Raise; Alias vTmp pEr; Raise; New vTmp; Mutate vTmp TValues; Raise].
Definition create_ast_o : list op := [Raise; New vTmp; Mutate vTmp TValues; Raise].
