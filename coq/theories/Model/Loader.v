(* Model/Loader.v — input loaders of vtlengine (definitions only; lemmas in Proofs/LoaderP.v).

   SPEC side     valid_repr / denote : the DOCUMENTED input formats of docs/data_types.rst with real calendar ranges;
                 (where the documentation is silent the harness claims no violation: see harness/loadergen.py DOC_SILENT).
   FAITHFUL side transcriptions of
                   duckdb_transpiler/io/_io.py          load_datapoints_duckdb (CSV), register_dataframes (DataFrame),
                                                        _load_parquet, _validate_loaded_table, _normalize_time_period_columns
                   duckdb_transpiler/io/_validation.py  build_select_columns, validate_temporal_columns, validate_no_duplicates
                   duckdb_transpiler/sql/init.sql       vtl_period_normalize
                   files/parser/__init__.py             _validate_pandas (validate_dataset)
                   DataTypes/_time_checking.py          check_date, check_time, check_time_period ; TimeHandling.TimePeriodHandler
                 together with the DuckDB 1.5.5 cast rules they rely on (VARCHAR->BIGINT/INTEGER/DOUBLE/DECIMAL(28,10)/BOOLEAN/
                 DATE/TIMESTAMP, DOUBLE->BIGINT, SUBSTR/LPAD/UPPER/TRIM), observed on the installed DuckDB.
   The regexes are NOT written here: they are Gen.Regex.re_* regenerated from the pattern strings of the working tree.

   Modelled domain (stated in the evidence): ASCII cells; numeric literals without digit-group underscores; decimal literals with
   a fractional part have at most 15 significant digits on the CSV Integer path (DOUBLE transit); DECIMAL(28,10) is the default
   Number configuration. *)
From Coq Require Import ZArith Ascii String List Bool.
Import ListNotations.
From VTL Require Import Base.Calendar Model.Types Model.Regex Gen.Regex.
Open Scope Z_scope.

(* ------------------------------------------------------------------------------------------------ characters and strings *)
Definition ch (n : nat) : ascii := ascii_of_nat n.
Definition c_sp := " "%char.   Definition c_minus := "-"%char.  Definition c_plus := "+"%char.
Definition c_dot := "."%char.  Definition c_quote := """"%char. Definition c_slash := "/"%char.
Definition c_colon := ":"%char. Definition c_T := "T"%char.     Definition c_Z := "Z"%char.
Definition c_0 := "0"%char.

Definition code (c : ascii) : Z := Z.of_nat (nat_of_ascii c).
Definition is_digit (c : ascii) : bool := (48 <=? code c) && (code c <=? 57).
Definition digit_val (c : ascii) : Z := code c - 48.
Definition is_lower (c : ascii) : bool := (97 <=? code c) && (code c <=? 122).
Definition is_upper (c : ascii) : bool := (65 <=? code c) && (code c <=? 90).
Definition upper_c (c : ascii) : ascii := if is_lower c then ascii_of_nat (nat_of_ascii c - 32) else c.
Definition lower_c (c : ascii) : ascii := if is_upper c then ascii_of_nat (nat_of_ascii c + 32) else c.
Definition upper (s : str) : str := map upper_c s.
Definition lower (s : str) : str := map lower_c s.
(* C isspace / Python str.strip() on ASCII: space, \t \n \v \f \r (Python also strips \x1c-\x1f) *)
Definition is_space_c (c : ascii) : bool := (code c =? 32) || ((9 <=? code c) && (code c <=? 13)).
Definition is_space_py (c : ascii) : bool := is_space_c c || ((28 <=? code c) && (code c <=? 31)).

Fixpoint str_eqb (a b : str) : bool :=
  match a, b with
  | [], [] => true
  | x :: a', y :: b' => Ascii.eqb x y && str_eqb a' b'
  | _, _ => false
  end.
Fixpoint drop_while (p : ascii -> bool) (s : str) : str :=
  match s with [] => [] | c :: t => if p c then drop_while p t else s end.
Definition rdrop_while (p : ascii -> bool) (s : str) : str := rev (drop_while p (rev s)).
Definition strip_by (p : ascii -> bool) (s : str) : str := rdrop_while p (drop_while p s).
Definition trim_sp (s : str) : str := strip_by (Ascii.eqb c_sp) s.            (* DuckDB TRIM(x): blanks only *)
Definition strip_c (s : str) : str := strip_by is_space_c s.                   (* whitespace skipped by DuckDB numeric casts *)
Definition strip_py (s : str) : str := strip_by is_space_py s.                 (* Python str.strip() *)
Definition remove_char (c : ascii) (s : str) : str := filter (fun x => negb (Ascii.eqb x c)) s.
Definition mem_char (c : ascii) (s : str) : bool := existsb (Ascii.eqb c) s.
Definition slen (s : str) : Z := Z.of_nat (length s).
(* SQL SUBSTR(s, start [, len]) with 1-based start >= 1 *)
Definition substr_from (s : str) (start : nat) : str := skipn (start - 1) s.
Definition substr (s : str) (start len : nat) : str := firstn len (skipn (start - 1) s).
Definition char_at (s : str) (start : nat) : str := substr s start 1.           (* SUBSTR(s, start, 1): "" past the end *)
(* DuckDB LPAD(s, n, '0'): pads on the left, and TRUNCATES to n characters when s is longer *)
Definition lpad0 (s : str) (n : nat) : str := if (length s <? n)%nat then repeat c_0 (n - length s) ++ s else firstn n s.
Definition in_strs (s : str) (l : list str) : bool := existsb (str_eqb s) l.
Definition is_str (s : str) (lit : string) : bool := str_eqb s (s_ lit).

(* decimal rendering of an integer (CAST(n AS VARCHAR), Python str(n)) *)
Fixpoint digits_fuel (fuel : nat) (n : Z) (acc : str) : str :=
  match fuel with
  | O => acc
  | S f => let acc' := ascii_of_nat (Z.to_nat (48 + n mod 10)) :: acc in
           if n <? 10 then acc' else digits_fuel f (n / 10) acc'
  end.
Definition render_nat (n : Z) : str := digits_fuel 40 n [].
Definition render_Z (z : Z) : str := if z <? 0 then c_minus :: render_nat (- z) else render_nat z.

(* ------------------------------------------------------------------------------------------------ numeric literals *)
(* digits: returns (value of acc extended, number of digits read, rest) *)
Fixpoint scan_digits (s : str) (acc : Z) (n : Z) : Z * Z * str :=
  match s with
  | c :: t => if is_digit c then scan_digits t (acc * 10 + digit_val c) (n + 1) else (acc, n, s)
  | [] => (acc, n, [])
  end.
Definition scan_sign (s : str) : bool * str :=
  match s with
  | c :: t => if Ascii.eqb c c_minus then (true, t) else if Ascii.eqb c c_plus then (false, t) else (false, s)
  | [] => (false, [])
  end.
Definition is_e (c : ascii) : bool := Ascii.eqb c "e"%char || Ascii.eqb c "E"%char.

(* [+-]? (D+ (. D* )? | . D+) ([eE][+-]?D+)?   ->   (mantissa, exponent10): the literal denotes mantissa * 10^exponent10.
   The grammar shared by DuckDB's string->numeric casts and Python float() (without '_' digit separators, inf, nan). *)
Definition lex_dec_core (s : str) : option (bool * Z * Z) :=
  let '(neg, s1) := scan_sign s in
  let '(ip, n1, s2) := scan_digits s1 0 0 in
  let '(m, n2, s3) :=
      match s2 with
      | c :: t => if Ascii.eqb c c_dot then let '(a, k, r) := scan_digits t ip 0 in (a, k, r) else (ip, 0, s2)
      | [] => (ip, 0, [])
      end in
  if (n1 + n2 =? 0) then None else
  match s3 with
  | [] => Some (neg, m, - n2)
  | c :: t =>
      if is_e c then
        let '(eneg, t1) := scan_sign t in
        let '(ev, k, t2) := scan_digits t1 0 0 in
        if (k =? 0) then None else
        match t2 with [] => Some (neg, m, (if eneg then - ev else ev) - n2) | _ => None end
      else None
  end.
Definition lex_dec (s : str) : option (Z * Z) :=
  match lex_dec_core s with Some (neg, m, e) => Some (if neg then - m else m, e) | None => None end.

Definition pow10 (e : Z) : Z := 10 ^ e.
Definition dec_integral (m e : Z) : bool := if e >=? 0 then true else m mod pow10 (- e) =? 0.
Definition dec_exact_Z (m e : Z) : Z := if e >=? 0 then m * pow10 e else m / pow10 (- e).
(* rounding of m*10^e to an integer, half away from zero (DuckDB string -> integer/decimal casts) *)
Definition round_half_away (m e : Z) : Z :=
  if e >=? 0 then m * pow10 e
  else let p := pow10 (- e) in
       let a := Z.abs m in
       let q := a / p in let r := a mod p in
       let q' := if 2 * r >=? p then q + 1 else q in
       if m <? 0 then - q' else q'.
(* half to even (DuckDB DOUBLE -> BIGINT uses nearbyint) *)
Definition round_half_even (m e : Z) : Z :=
  if e >=? 0 then m * pow10 e
  else let p := pow10 (- e) in
       let a := Z.abs m in
       let q := a / p in let r := a mod p in
       let q' := if 2 * r >? p then q + 1 else if 2 * r =? p then (if Z.even q then q else q + 1) else q in
       if m <? 0 then - q' else q'.
(* an integer read through an IEEE double: 53 significant bits, ties to even *)
Definition to_double_int (n : Z) : Z :=
  let a := Z.abs n in
  if a <? 2 ^ 53 then n else
  let k := Z.log2 a - 52 in
  let q := a / 2 ^ k in let r := a mod 2 ^ k in let h := 2 ^ (k - 1) in
  let q' := if r >? h then q + 1 else if r =? h then (if Z.even q then q else q + 1) else q in
  let v := q' * 2 ^ k in if n <? 0 then - v else v.
Definition in_int64 (z : Z) : bool := (- 2 ^ 63 <=? z) && (z <=? 2 ^ 63 - 1).
Definition in_int32 (z : Z) : bool := (- 2 ^ 31 <=? z) && (z <=? 2 ^ 31 - 1).

(* hexadecimal / binary integer literals accepted by DuckDB's string -> integer cast (no sign) *)
Definition hex_val (c : ascii) : option Z :=
  if is_digit c then Some (digit_val c)
  else let u := code (upper_c c) in if (65 <=? u) && (u <=? 70) then Some (u - 55) else None.
Fixpoint scan_hex (s : str) (acc : Z) : option Z :=
  match s with [] => Some acc | c :: t => match hex_val c with Some v => scan_hex t (acc * 16 + v) | None => None end end.
Fixpoint scan_bin (s : str) (acc : Z) : option Z :=
  match s with
  | [] => Some acc
  | c :: t => if Ascii.eqb c c_0 then scan_bin t (acc * 2) else if Ascii.eqb c "1"%char then scan_bin t (acc * 2 + 1) else None
  end.
Definition lex_radix (s : str) : option Z :=
  match s with
  | z :: x :: d :: t =>
      if Ascii.eqb z c_0 && Ascii.eqb (upper_c x) "X"%char then scan_hex (d :: t) 0
      else if Ascii.eqb z c_0 && Ascii.eqb (upper_c x) "B"%char then scan_bin (d :: t) 0
      else None
  | _ => None
  end.

(* DuckDB CAST(VARCHAR AS BIGINT / INTEGER) *)
Definition duck_int_cast (range : Z -> bool) (s : str) : option Z :=
  let t := strip_c s in
  match lex_radix t with
  | Some v => if range v then Some v else None
  | None => match lex_dec t with
            | Some (m, e) => let v := round_half_away m e in if range v then Some v else None
            | None => None
            end
  end.
Definition cast_bigint := duck_int_cast in_int64.
Definition cast_int32 := duck_int_cast in_int32.

(* read_csv column typed DOUBLE + the CASE of build_select_columns: non-integral -> error, else CAST(x AS BIGINT) *)
Definition csv_integer (s : str) : option Z :=
  match lex_dec (strip_c s) with
  | Some (m, e) => if dec_integral m e then
                     let d := to_double_int (dec_exact_Z m e) in
                     if (- 2 ^ 63 <=? d) && (d <? 2 ^ 63) then Some d else None
                   else None
  | None => None
  end.

(* DuckDB CAST(VARCHAR AS DECIMAL(28,10)): value scaled by 10^10, half away from zero, |scaled| < 10^28 *)
Definition dec_scale : Z := 10.
Definition dec_width : Z := 28.
Definition cast_decimal_me (m e : Z) : option Z :=
  let v := round_half_away m (e + dec_scale) in
  if Z.abs v <? pow10 dec_width then Some v else None.
Definition cast_decimal (s : str) : option Z :=
  match lex_dec (strip_c s) with Some (m, e) => cast_decimal_me m e | None => None end.

(* DuckDB CAST(VARCHAR AS BOOLEAN): no trimming *)
Definition cast_bool (s : str) : option bool :=
  let l := lower s in
  if in_strs l [s_ "true"; s_ "t"; s_ "yes"; s_ "y"; s_ "1"] then Some true
  else if in_strs l [s_ "false"; s_ "f"; s_ "no"; s_ "n"; s_ "0"] then Some false
  else None.

(* Python float(str): strip, then the decimal grammar, inf / infinity / nan (any case, optional sign) *)
Inductive pyfloat := PFin (m e : Z) | PInf | PNan.
Definition py_float_word (t : str) : option pyfloat :=
  let '(_, u) := scan_sign t in
  let l := lower u in
  if in_strs l [s_ "inf"; s_ "infinity"] then Some PInf
  else if is_str l "nan" then Some PNan else None.
Definition py_float (s : str) : option pyfloat :=
  let t := strip_py s in
  match lex_dec t with
  | Some (m, e) => Some (PFin m e)
  | None => py_float_word t
  end.

(* ------------------------------------------------------------------------------------------------ dates and timestamps *)
Definition us_per_day : Z := 86400000000.
(* n digits exactly *)
Fixpoint take_digits (n : nat) (s : str) (acc : Z) : option (Z * str) :=
  match n with
  | O => Some (acc, s)
  | S k => match s with c :: t => if is_digit c then take_digits k t (acc * 10 + digit_val c) else None | [] => None end
  end.
(* 1 or 2 digits *)
Definition take_1or2 (s : str) : option (Z * str) :=
  match s with
  | a :: b :: t => if is_digit a then (if is_digit b then Some (digit_val a * 10 + digit_val b, t) else Some (digit_val a, b :: t)) else None
  | [a] => if is_digit a then Some (digit_val a, []) else None
  | [] => None
  end.
Definition expect (c : ascii) (s : str) : option str :=
  match s with x :: t => if Ascii.eqb x c then Some t else None | [] => None end.
(* fractional seconds: first 6 digits kept (truncation), right-padded *)
Fixpoint frac_us (s : str) (k : nat) (acc : Z) : Z * str :=
  match s with
  | c :: t => if is_digit c then
                match k with O => frac_us t O acc | S k' => frac_us t k' (acc * 10 + digit_val c) end
              else (acc * 10 ^ Z.of_nat k, s)
  | [] => (acc * 10 ^ Z.of_nat k, [])
  end.
Record dt := mkDt { d_y : Z; d_m : Z; d_d : Z; d_time : option (Z * Z * Z * Z) (* h mi s us *) }.

(* YYYY-M[M]-D[D] ( [ T]HH:MM:SS(.f+)? (Z | [+-]HH:MM)? )?   the timezone suffix is read and discarded (wall clock kept) *)
Definition lex_time_part (s : str) : option (Z * Z * Z * Z) :=
  match take_digits 2 s 0 with
  | Some (h, s1) => match expect c_colon s1 with
    | Some s2 => match take_digits 2 s2 0 with
      | Some (mi, s3) => match expect c_colon s3 with
        | Some s4 => match take_digits 2 s4 0 with
          | Some (sec, s5) =>
              let '(us, s6) := match s5 with
                               | c :: t => if Ascii.eqb c c_dot then frac_us t 6 0 else (0, s5)
                               | [] => (0, []) end in
              let tz_ok := match s6 with
                           | [] => true
                           | [c] => Ascii.eqb c c_Z
                           | c :: t => (Ascii.eqb c c_plus || Ascii.eqb c c_minus) &&
                                       match take_digits 2 t 0 with
                                       | Some (_, t1) => match expect c_colon t1 with
                                                         | Some t2 => match take_digits 2 t2 0 with Some (_, []) => true | _ => false end
                                                         | None => false end
                                       | None => false end
                           end in
              if tz_ok then Some (h, mi, sec, us) else None
          | None => None end
        | None => None end
      | None => None end
    | None => None end
  | None => None end.
Definition lex_datetime (s : str) : option dt :=
  match take_digits 4 s 0 with
  | Some (y, s1) => match expect c_minus s1 with
    | Some s2 => match take_1or2 s2 with
      | Some (m, s3) => match expect c_minus s3 with
        | Some s4 => match take_1or2 s4 with
          | Some (d, s5) =>
              match s5 with
              | [] => Some (mkDt y m d None)
              | c :: t => if Ascii.eqb c c_sp || Ascii.eqb c c_T then
                            match lex_time_part t with Some tm => Some (mkDt y m d (Some tm)) | None => None end
                          else None
              end
          | None => None end
        | None => None end
      | None => None end
    | None => None end
  | None => None end.
Definition time_ok (t : Z * Z * Z * Z) : bool :=
  let '(h, mi, s, _) := t in (h <=? 23) && (mi <=? 59) && (s <=? 59).
Definition us_of_time (t : option (Z * Z * Z * Z)) : Z :=
  match t with Some (h, mi, s, us) => ((h * 60 + mi) * 60 + s) * 1000000 + us | None => 0 end.
(* DuckDB CAST(VARCHAR AS TIMESTAMP) on a string of that shape: calendar check only (year 0 excluded from the model) *)
Definition cast_timestamp (s : str) : option (Z * Z) :=
  match lex_datetime s with
  | Some f => if (1 <=? d_y f) && valid_date (d_y f) (d_m f) (d_d f) && match d_time f with Some t => time_ok t | None => true end
              then Some (days_from_civil (d_y f) (d_m f) (d_d f), us_of_time (d_time f)) else None
  | None => None
  end.
(* register_dataframes/_detect_date_type_overrides: the column becomes TIMESTAMP when some string has 'T' or ' ' at index 10 *)
Definition has_time_at_10 (s : str) : bool :=
  (10 <? slen s) && match nth_error s 10 with Some c => Ascii.eqb c c_T || Ascii.eqb c c_sp | None => false end.

(* ------------------------------------------------------------------------------------------------ values *)
Inductive raw :=                      (* one input cell *)
| RNull
| RStr (s : str)                      (* text: CSV field (decoded), str cell of a DataFrame, string column of a Parquet file *)
| RInt (z : Z)                        (* native int64 *)
| RFlt (m e : Z)                      (* native finite float64, shortest decimal m*10^e *)
| RNaN | RInf (neg : bool)
| RBool (b : bool)
| RTs (days us : Z).                  (* native datetime64 *)

Inductive sval :=                     (* a loaded value *)
| SNull
| SInt (z : Z)
| SDec (scaled : Z)                   (* DECIMAL(28,10): value = scaled / 10^10 *)
| SBool (b : bool)
| SStr (s : str)
| STs (days us : Z)                   (* DATE / TIMESTAMP *)
| SPer (y : Z) (ind : ascii) (n : Z). (* a time period as TimePeriodHandler holds it *)

Definition sval_eqb (a b : sval) : bool :=
  match a, b with
  | SNull, SNull => true
  | SInt x, SInt y => x =? y
  | SDec x, SDec y => x =? y
  | SBool x, SBool y => Bool.eqb x y
  | SStr x, SStr y => str_eqb x y
  | STs d u, STs d' u' => (d =? d') && (u =? u')
  | SPer y i n, SPer y' i' n' => (y =? y') && Ascii.eqb i i' && (n =? n')
  | _, _ => false
  end.
Definition is_snull (v : sval) : bool := match v with SNull => true | _ => false end.

Inductive path := PCsv | PDfStr | PDfNat | PParquet.
Definition path_eqb (a b : path) : bool :=
  match a, b with PCsv, PCsv | PDfStr, PDfStr | PDfNat, PDfNat | PParquet, PParquet => true | _, _ => false end.

Definition E6 : string := "0-3-1-6".   (* cast / format *)
Definition E3 : string := "0-3-1-3".   (* null in identifier / NOT NULL column *)
Definition E4 : string := "0-3-1-4".   (* dataset without identifiers with more than one datapoint *)
Definition E5 : string := "0-3-1-5".   (* missing non-nullable component *)
Definition E7 : string := "0-3-1-7".   (* duplicated identifiers *)
Definition E15 : string := "0-3-1-15". (* extra columns (pandas validator only) *)
Definition E118 : string := "0-1-1-8". (* missing identifier column in a file *)
Definition RAW_ValueError : string := "raw:Value".
Definition RAW_AttributeError : string := "raw:Attribute".
Definition RAW_Overflow : string := "raw:Overflow".

(* outcome of one cell / one table: accepted with a value, rejected at load with an input-error code, or failing LATER
   (after the load, while results are formatted) with a non-input error *)
Inductive result (A : Type) := Acc (v : A) | Rej (code : string) | Late (code : string).
Arguments Acc {A}. Arguments Rej {A}. Arguments Late {A}.

(* ------------------------------------------------------------------------------------------------ stage A: INSERT ... SELECT *)
(* the cell as the CSV reader hands it over: empty field (quoted or not) = NULL *)
Definition csv_cell (r : raw) : raw := match r with RStr [] => RNull | _ => r end.

(* `col_ts`: the Date column was created as TIMESTAMP (CSV: always; DataFrame: some string has a time at index 10; Parquet and
   native: never) *)
Definition date_of_ts (col_ts : bool) (v : Z * Z) : sval := if col_ts then STs (fst v) (snd v) else STs (fst v) 0.

Definition stageA_str (p : path) (t : ty) (col_ts : bool) (s : str) : result sval :=
  match t with
  | TInteger => match (if path_eqb p PCsv then csv_integer s else cast_bigint s) with Some z => Acc (SInt z) | None => Rej E6 end
  | TNumber => match cast_decimal s with Some z => Acc (SDec z) | None => Rej E6 end
  | TBoolean => let s' := if path_eqb p PCsv then remove_char c_quote s else s in
                match s' with
                | [] => Acc SNull                       (* CSV: NULLIF(REPLACE(x, dquote, ''), '') *)
                | _ => match cast_bool s' with Some b => Acc (SBool b) | None => Rej E6 end
                end
  | TString => if path_eqb p PCsv then Acc (SStr (remove_char c_quote s)) else Acc (SStr s)
  | TDate => if matches re_VALID_DATE s then
               match cast_timestamp s with Some v => Acc (date_of_ts col_ts v) | None => Rej E6 end
             else Rej E6
  | _ => Acc (SStr s)                                   (* Time, Time_Period, Duration: VARCHAR, validated after the load *)
  end.

(* CAST of a native column *)
Definition stageA_native (t : ty) (r : raw) : result sval :=
  match t, r with
  | _, RNull => Acc SNull
  | TInteger, RInt z => Acc (SInt z)
  | TInteger, RFlt m e => let v := round_half_even m e in if in_int64 v then Acc (SInt v) else Rej E6
  | TInteger, RNaN => Acc SNull                          (* pandas NaN arrives as NULL *)
  | TInteger, RInf _ => Rej E6
  | TInteger, RBool b => Acc (SInt (if b then 1 else 0))
  | TNumber, RInt z => match cast_decimal_me z 0 with Some v => Acc (SDec v) | None => Rej E6 end
  | TNumber, RFlt m e => match cast_decimal_me m e with Some v => Acc (SDec v) | None => Rej E6 end
  | TNumber, RNaN => Acc SNull
  | TNumber, RInf _ => Rej E6
  | TBoolean, RBool b => Acc (SBool b)
  | TBoolean, RInt z => Acc (SBool (negb (z =? 0)))
  | TBoolean, RFlt m _ => Acc (SBool (negb (m =? 0)))
  | TDate, RTs d us => Acc (STs d 0)                     (* target DATE: the time of day is dropped *)
  | TString, RInt z => Acc (SStr (render_Z z))
  | _, _ => Rej E6
  end.

Definition stageA (p : path) (t : ty) (nullable : bool) (col_ts : bool) (r : raw) : result sval :=
  match p with
  | PCsv => match csv_cell r with
            | RNull => Acc SNull
            | RStr s =>
                (* a field made of quote characters only: REPLACE gives ''; NULLIF(…, '') exists on nullable columns only *)
                match t, stageA_str PCsv t true s with
                | TString, Acc (SStr []) => if nullable then Acc SNull else Acc (SStr [])
                | TBoolean, Acc SNull => if nullable then Acc SNull else Rej E6
                | _, x => x
                end
            | _ => Rej E6
            end
  | PDfStr | PParquet => match r with
                         | RNull => Acc SNull
                         | RStr s => match t, s with
                                     | TBoolean, [] => Rej E6
                                     | _, _ => stageA_str p t (match p with PDfStr => col_ts | _ => false end) s
                                     end
                         | _ => stageA_native t r        (* typed Parquet column (BIGINT/DOUBLE/FLOAT/BOOLEAN/TIMESTAMP): same CASTs as a native frame *)
                         end
  | PDfNat => match r with
              | RStr s => match t, s with TBoolean, [] => Rej E6 | _, _ => stageA_str PDfStr t col_ts s end
              | _ => stageA_native t r
              end
  end.

(* ------------------------------------------------------------------------------------------------ stage B: vtl_period_normalize *)
Definition okS (s : str) : result (option str) := Acc (Some s).
(* CAST(CAST(x AS INTEGER) AS VARCHAR) / TRY_CAST: error, NULL, or the rendered integer *)
Definition cast_int_str (s : str) : option str := option_map render_Z (cast_int32 s).
Definition is_alpha_AZ (s : str) : bool := match s with [c] => is_upper c | _ => false end.

(* transcription of sql/init.sql vtl_period_normalize (input is neither NULL nor ''): Acc (Some s) | Acc None (= SQL NULL) | Rej *)
Definition period_normalize (input : str) : result (option str) :=
  let len := length input in
  let c5 := char_at input 5 in let c6 := char_at input 6 in
  let y4 := substr input 1 4 in
  let pre := y4 ++ [c_minus] in
  if (len =? 5)%nat && is_str c5 "A" then okS input
  else if is_str c5 "-" && (((len =? 7)%nat && (is_str c6 "S" || is_str c6 "Q"))
                            || ((len =? 8)%nat && (is_str c6 "M" || is_str c6 "W"))
                            || ((len =? 9)%nat && is_str c6 "D")) then okS input
  else if (len =? 4)%nat then okS (input ++ s_ "A")
  else if negb (is_str c5 "-") then
    let u := upper c5 in
    if is_str u "A" then okS (y4 ++ s_ "A")
    else match cast_int_str (substr_from input 6) with
         | None => Rej E6                                         (* CAST error -> DataLoadError *)
         | Some n =>
             if is_str u "S" || is_str u "Q" then okS (pre ++ u ++ n)
             else if is_str u "M" || is_str u "W" then okS (pre ++ u ++ lpad0 n 2)
             else okS (pre ++ s_ "D" ++ lpad0 n 3)
         end
  else if is_alpha_AZ (upper c6) then
    let u := upper c6 in
    if is_str u "A" then okS (y4 ++ s_ "A")
    else match cast_int_str (substr_from input 7) with
         | None => Acc None                                       (* TRY_CAST -> NULL, the concatenation is NULL *)
         | Some n =>
             if is_str u "S" || is_str u "Q" then okS (pre ++ u ++ n)
             else if is_str u "M" || is_str u "W" then okS (pre ++ u ++ lpad0 n 2)
             else okS (pre ++ s_ "D" ++ lpad0 n 3)
         end
  else if (10 <=? len)%nat && is_str (char_at input 8) "-" then
    (* CAST(SUBSTR(input,1,10) AS DATE) -> DAYOFYEAR *)
    let d10 := substr input 1 10 in
    match lex_datetime d10 with
    | Some f => if (1 <=? d_y f) && valid_date (d_y f) (d_m f) (d_d f) && match d_time f with None => true | _ => false end
                then okS (pre ++ s_ "D" ++ lpad0 (render_Z (doy_of (days_from_civil (d_y f) (d_m f) (d_d f)))) 3)
                else Rej E6
    | None => Rej E6
    end
  else match cast_int_str (substr_from input 6) with
       | None => Rej E6
       | Some n => okS (pre ++ s_ "M" ++ lpad0 n 2)
       end.

(* ------------------------------------------------------------------------------------------------ after the load *)
(* validate_temporal_columns: x IS NOT NULL AND x != '' AND NOT regexp_matches(UPPER(TRIM(x)), pattern) -> error *)
Definition temporal_ok (t : ty) (v : sval) : bool :=
  match v with
  | SStr [] => true
  | SStr s => let u := upper (trim_sp s) in
              match t with
              | TPeriod => matches re_TIME_PERIOD u
              | TTime => matches re_TIME_INTERVAL u
              | TDuration => matches re_DURATION u
              | _ => true
              end
  | _ => true
  end.

(* Python int(): optional sign, digits, surrounding whitespace (enough for the strings that pass the pattern) *)
Definition py_int (s : str) : option Z :=
  let t := strip_py s in
  let '(neg, u) := scan_sign t in
  match u with
  | [] => None
  | _ => let '(v, n, r) := scan_digits u 0 0 in match r with [] => Some (if neg then - v else v) | _ => None end
  end.
Fixpoint split_on (c : ascii) (s : str) (cur : str) : list str :=
  match s with
  | [] => [rev cur]
  | x :: t => if Ascii.eqb x c then rev cur :: split_on c t [] else split_on c t (x :: cur)
  end.
Definition period_max (ind : ascii) : option Z :=
  if Ascii.eqb ind "A" then Some 1 else if Ascii.eqb ind "S" then Some 2 else if Ascii.eqb ind "Q" then Some 4
  else if Ascii.eqb ind "M" then Some 12 else if Ascii.eqb ind "W" then Some 53 else if Ascii.eqb ind "D" then Some 366 else None.
(* TimePeriodHandler setters: year 0..9999 (2-1-19-10), indicator (2-1-19-2), number range (2-1-19-7), day of year (2-1-19-9) *)
Definition handler_check (y : Z) (ind : ascii) (n : Z) : result sval :=
  if negb ((0 <=? y) && (y <=? 9999)) then Late "2-1-19-10"
  else match period_max ind with
       | None => Late "2-1-19-2"
       | Some mx =>
           if Ascii.eqb ind "A" then Acc (SPer y ind n)
           else if negb ((1 <=? n) && (n <=? mx)) then Late "2-1-19-7"
           else if Ascii.eqb ind "D" && (n >? days_in_year y) then Late "2-1-19-9"
           else Acc (SPer y ind n)
       end.
(* TimePeriodHandler(stored string) as reached from the output formatter; None = a raw Python exception (ValueError/IndexError) *)
Definition py_handler (v : str) : option (result sval) :=
  if mem_char c_minus v then
    match split_on c_minus v [] with
    | [ys; second] =>
        match py_int ys with
        | None => None
        | Some y =>
            match second with
            | [] => None
            | i :: numpart =>
                let l := length second in
                if (l =? 4)%nat then match py_int numpart with Some n => Some (handler_check y "D" n) | None => None end
                else if (l =? 3)%nat then match py_int numpart with Some n => Some (handler_check y i n) | None => None end
                else if (l =? 2)%nat then
                  (if in_strs [i] [s_ "A"; s_ "S"; s_ "Q"; s_ "M"; s_ "W"; s_ "D"]
                   then match py_int numpart with Some n => Some (handler_check y i n) | None => None end
                   else match py_int second with Some n => Some (handler_check y "M" n) | None => None end)
                else if (l =? 1)%nat then match py_int second with Some n => Some (handler_check y "M" n) | None => None end
                else Some (Late "2-1-19-6")
            end
        end
    | _ => None                      (* YYYY-MM-DD never reaches here in canonical form *)
    end
  else
    match py_int (firstn 4 v) with
    | None => None
    | Some y =>
        match skipn 4 v with
        | [] => Some (handler_check y "A" 1)
        | [i] => Some (handler_check y i 1)
        | i :: num => match py_int num with Some n => Some (handler_check y i n) | None => None end
        end
    end.

(* what run() hands back for a stored value of a component of type t *)
Definition finalize (t : ty) (v : sval) : result sval :=
  match t, v with
  | TPeriod, SStr s => match py_handler s with Some r => r | None => Late RAW_ValueError end
  | _, _ => Acc v
  end.

(* ------------------------------------------------------------------------------------------------ one value through run() *)
(* a nullable measure holding this single value (col_ts = what the column override would be for this value alone) *)
Definition own_col_ts (p : path) (r : raw) : bool :=
  match p, r with
  | PCsv, _ => true
  | PDfStr, RStr s | PDfNat, RStr s => has_time_at_10 s
  | _, _ => false
  end.
Definition stageB (t : ty) (v : sval) : result sval :=
  match t, v with
  | TPeriod, SStr [] => Acc v
  | TPeriod, SStr s => match period_normalize s with
                       | Acc (Some n) => Acc (SStr n)
                       | Acc None => Acc SNull
                       | Rej c => Rej c
                       | Late c => Late c
                       end
  | _, _ => Acc v
  end.
Definition accept_run (p : path) (t : ty) (r : raw) : result sval :=
  match stageA p t true (own_col_ts p r) r with
  | Acc a => match stageB t a with
             | Acc b => if temporal_ok t b then finalize t b else Rej E6
             | x => x
             end
  | x => x
  end.
Definition accept_csv := accept_run PCsv.
Definition accept_df_str := accept_run PDfStr.
Definition accept_df_native := accept_run PDfNat.
Definition accept_parquet := accept_run PParquet.

(* ------------------------------------------------------------------------------------------------ the pandas validator *)
(* check_date *)
Definition py_check_date (s0 : str) : bool :=
  let s := strip_py s0 in
  if has_time_at_10 s then
    matches re_strict_datetime s &&
    match lex_datetime s with
    | Some f => valid_date (d_y f) (d_m f) (d_d f) && (1 <=? d_y f) && match d_time f with Some t => time_ok t | None => false end
                && (1800 <=? d_y f) && (d_y f <=? 9999)
    | None => false
    end
  else
    (* date.fromisoformat (3.11+): YYYY-MM-DD, YYYYMMDD; the loader first turns YYYY-MM-D into YYYY-MM-0D *)
    let s1 := if (length s =? 9)%nat && is_str (char_at s 8) "-" then firstn 8 s ++ [c_0] ++ skipn 8 s else s in
    let parsed :=
        match take_digits 4 s1 0 with
        | Some (y, a) =>
            match a with
            | c :: a1 =>
                if Ascii.eqb c c_minus then
                  match take_digits 2 a1 0 with
                  | Some (m, b) => match expect c_minus b with
                                   | Some b1 => match take_digits 2 b1 0 with Some (d, []) => Some (y, m, d) | _ => None end
                                   | None => None end
                  | None => None end
                else match take_digits 2 a 0 with
                     | Some (m, b) => match take_digits 2 b 0 with Some (d, []) => Some (y, m, d) | _ => None end
                     | None => None end
            | [] => None
            end
        | None => None
        end in
    match parsed with
    | Some (y, m, d) => (1 <=? y) && valid_date y m d && (1800 <=? y) && (y <=? 9999)
    | None => false
    end.

(* Python str comparison on ASCII *)
Fixpoint str_gtb (a b : str) : bool :=
  match a, b with
  | [], _ => false
  | _ :: _, [] => true
  | x :: a', y :: b' => if code x >? code y then true else if code x <? code y then false else str_gtb a' b'
  end.

(* check_time *)
Definition py_check_time (s0 : str) : bool :=
  let s := strip_py s0 in
  if matches re_year_py s then match py_int s with Some y => 1 <=? y | None => false end       (* strptime %Y: 0001..9999 *)
  else if matches re_month_py s then
    match split_on c_minus s [] with
    | [ys; ms] => match py_int ys, py_int ms with Some y, Some m => (1 <=? y) && (1 <=? m) && (m <=? 12) | _, _ => false end
    | _ => false end
  else if matches re_time_interval_py s then
    match split_on c_slash s [] with
    | [a; b] => negb (str_gtb a b)
    | _ => false end
  else false.

(* check_time_period: Acc | Rej (ValueError -> 0-3-1-6) | Late (RunTimeError of TimePeriodHandler, not caught by the validator) *)
Definition two_digits (n : Z) : str := lpad0 (render_Z n) 2.
Definition py_check_time_period (s0 : str) : result unit :=
  let s := strip_py s0 in
  let via (v : str) : result unit :=
      match py_handler v with
      | Some (Acc _) => Acc tt
      | Some (Rej c) => Rej c
      | Some (Late c) => Late c
      | None => Rej E6                       (* ValueError from int()/strptime inside the handler is caught -> 0-3-1-6 *)
      end in
  if matches re_vtl_period s then via (if (length s =? 4)%nat then s ++ s_ "A" else s)
  else
    let s1 := if matches re_iso_date_py s then
                match split_on c_minus s [] with
                | [y; m; d] => match py_int m, py_int d with
                               | Some mi, Some di => y ++ [c_minus] ++ two_digits mi ++ [c_minus] ++ two_digits di
                               | _, _ => s end
                | _ => s end
              else s in
    let s2 := if matches re_iso_month_py s1 then
                match split_on c_minus s1 [] with [y; m] => y ++ s_ "-M" ++ m | _ => s1 end
              else s1 in
    if matches re_sdmx_period s2 then
      match split_on c_minus s2 [] with
      | [y; m; d] =>                         (* YYYY-MM-DD: day_of_year via strptime *)
          match py_int y, py_int m, py_int d with
          | Some yi, Some mi, Some di => if (1 <=? yi) && valid_date yi mi di then Acc tt else Rej E6
          | _, _, _ => Rej E6 end
      | _ => via s2
      end
    else Rej E6.

(* one cell through _validate_pandas (`from_csv`: the frame comes from pd.read_csv, where "" is NA for every column) *)
Definition accept_pandas_cell (from_csv : bool) (t : ty) (r : raw) : result unit :=
  let r1 := match r with
            | RStr [] => (match t with TString => if from_csv then RNull else r | _ => RNull end)
            | RNaN => RNull
            | _ => r end in
  match r1 with
  | RNull => Acc tt
  | _ =>
    match t with
    | TString => Acc tt
    | TBoolean => Acc tt                                         (* _parse_boolean never fails *)
    | TInteger =>
        let f := match r1 with
                 | RStr s => py_float s
                 | RInt z => Some (PFin z 0)
                 | RFlt m e => Some (PFin m e)
                 | RInf _ => Some PInf
                 | _ => None end in
        match f with
        | Some (PFin m e) => if dec_integral m e then
                               let d := to_double_int (dec_exact_Z m e) in
                               if (- 2 ^ 63 <=? d) && (d <? 2 ^ 63) then Acc tt
                               else if (2 ^ 63 <=? d) && (d <? 2 ^ 64) then Rej E6       (* astype(int64[pyarrow]): ArrowInvalid *)
                               else Late RAW_Overflow                                     (* int too large for a C long: escapes raw *)
                             else Rej E6
        | Some PNan => Acc tt
        | _ => Rej E6
        end
    | TNumber =>
        match r1 with
        | RStr s => match py_float s with Some _ => Acc tt | None => Rej E6 end
        | RInt _ | RFlt _ _ | RInf _ => Acc tt
        | _ => Rej E6
        end
    | TDate => match r1 with
               | RStr s => if py_check_date s then Acc tt else Rej E6
               | RTs _ _ => Late RAW_AttributeError               (* Timestamp has no .strip(): escapes as a raw exception *)
               | _ => Rej E6 end
    | TTime => match r1 with RStr s => if py_check_time s then Acc tt else Rej E6 | _ => Rej E6 end
    | TPeriod => match r1 with
                 | RStr s => py_check_time_period s
                 | RInt z => py_check_time_period (render_Z z)
                 | _ => Rej E6 end
    | TDuration => match r1 with
                   | RStr s => if in_strs s [s_ "A"; s_ "S"; s_ "Q"; s_ "M"; s_ "W"; s_ "D"] then Acc tt else Rej E6
                   | _ => Rej E6 end
    | TNull => Acc tt
    end
  end.
Definition accept_pandas (t : ty) (r : raw) : result unit := accept_pandas_cell false t r.

(* ------------------------------------------------------------------------------------------------ tables *)
Record comp := mkComp { c_name : string; c_ty : ty; c_id : bool; c_nullable : bool }.
Definition structure := list comp.
Record table := mkTable { t_cols : list string; t_rows : list (list raw) }.

Definition required (c : comp) : bool := c_id c || negb (c_nullable c).
Definition has_col (tb : table) (n : string) : bool := existsb (String.eqb n) (t_cols tb).
Fixpoint index_of (n : string) (l : list string) (i : nat) : option nat :=
  match l with [] => None | x :: t => if String.eqb n x then Some i else index_of n t (S i) end.
Definition cell (tb : table) (row : list raw) (n : string) : option raw :=
  match index_of n (t_cols tb) 0 with Some i => Some (nth i row RNull) | None => None end.
Definition column (tb : table) (n : string) : list raw :=
  match index_of n (t_cols tb) 0 with Some i => map (fun row => nth i row RNull) (t_rows tb) | None => [] end.
Definition ids (st : structure) : list comp := filter c_id st.

(* generic helpers over results *)
Fixpoint first_rej {A} (l : list (result A)) : option string :=
  match l with [] => None | Rej c :: _ => Some c | Late c :: _ => Some c | _ :: t => first_rej t end.
Fixpoint accs {A} (l : list (result A)) : list A :=
  match l with [] => [] | Acc v :: t => v :: accs t | _ :: t => accs t end.

(* column override of register_dataframes *)
Definition col_ts_of (p : path) (tb : table) (c : comp) : bool :=
  match p with
  | PCsv => true
  | PDfStr | PDfNat => existsb (fun r => match r with RStr s => has_time_at_10 s | _ => false end) (column tb (c_name c))
  | PParquet => false
  end.

(* stage A of a row: one loaded value per component of the structure (a missing column is NULL) *)
Definition loadA_cell (p : path) (tb : table) (row : list raw) (c : comp) : result sval :=
  match cell tb row (c_name c) with
  | Some r => stageA p (c_ty c) (c_nullable c) (col_ts_of p tb c) r
  | None => Acc SNull
  end.
Definition loadA_row (p : path) (st : structure) (tb : table) (row : list raw) : list (result sval) :=
  map (loadA_cell p tb row) st.

Definition key_of (st : structure) (vals : list sval) : list sval :=
  map snd (filter (fun cv => c_id (fst cv)) (combine st vals)).
Fixpoint list_eqb {A} (eqb : A -> A -> bool) (a b : list A) : bool :=
  match a, b with [] , [] => true | x :: a', y :: b' => eqb x y && list_eqb eqb a' b' | _, _ => false end.
Definition key_eqb := list_eqb sval_eqb.
Fixpoint dedup (keys : list (list sval)) : list (list sval) :=
  match keys with [] => [] | k :: t => if existsb (key_eqb k) t then dedup t else k :: dedup t end.
(* validate_no_duplicates: COUNT( * ) <> COUNT(DISTINCT (ids)) *)
Definition has_duplicates (keys : list (list sval)) : bool := negb (length keys =? length (dedup keys))%nat.
Definition null_in_required (st : structure) (vals : list sval) : bool :=
  existsb (fun cv => required (fst cv) && is_snull (snd cv)) (combine st vals).

Inductive tresult := TAcc (rows : list (list sval)) | TRej (code : string) | TLate (code : string).

(* run('DS_r <- DS_1;') on one input table supplied through path p.
   Order of the checks = order in the code: file-level column checks (CSV/Parquet only), INSERT..SELECT (cast errors, then NOT NULL),
   vtl_period_normalize, DWI, duplicates, temporal patterns; after the load: formatting of the result. *)
Definition first_rej_rows (rows : list (list (result sval))) : option string := first_rej (concat rows).
(* _normalize_time_period_columns: UPDATE … SET col = vtl_period_normalize(col); a NULL written into a NOT NULL column is a
   constraint error, reported as 0-3-1-6 *)
Definition stageB_cell (cv : comp * sval) : result sval :=
  match stageB (c_ty (fst cv)) (snd cv) with
  | Acc SNull => if required (fst cv) && negb (is_snull (snd cv)) then Rej E6 else Acc SNull
  | x => x
  end.
Definition structural_stage (st : structure) (vb : list (list sval)) : option string :=
  if (length (ids st) =? 0)%nat then (if (1 <? length vb)%nat then Some E4 else None)
  else if has_duplicates (map (key_of st) vb) then Some E7 else None.

(* file-level column checks of the CSV / Parquet loaders (a DataFrame has none: a missing column is filled with NULL) *)
Definition file_checks (p : path) (st : structure) (tb : table) : option string :=
  let file_path := match p with PCsv | PParquet => true | _ => false end in
  if file_path && existsb (fun c => c_id c && negb (has_col tb (c_name c))) st then Some E118
  else if path_eqb p PCsv && existsb (fun c => negb (c_nullable c) && negb (has_col tb (c_name c))) st then Some E5
  else None.

(* INSERT .. SELECT (cast errors first, then NOT NULL) followed by the normalisation UPDATE: the stored rows, or the error *)
Definition stage_insert (p : path) (st : structure) (tb : table) : result (list (list sval)) :=
  let a := map (loadA_row p st tb) (t_rows tb) in
  match first_rej_rows a with
  | Some c => Rej c
  | None => let va := map accs a in
            if existsb (null_in_required st) va then Rej E3 else Acc va
  end.
Definition stage_normalize (st : structure) (va : list (list sval)) : result (list (list sval)) :=
  let b := map (fun vals => map stageB_cell (combine st vals)) va in
  match first_rej_rows b with Some c => Rej c | None => Acc (map accs b) end.
(* checks 2-4 of _validate_loaded_table on the stored rows, then the formatting of the result *)
Definition post_load (st : structure) (vb : list (list sval)) : tresult :=
  match structural_stage st vb with
  | Some c => TRej c
  | None =>
      if negb (forallb (fun vals => forallb (fun cv => temporal_ok (c_ty (fst cv)) (snd cv)) (combine st vals)) vb)
      then TRej E6
      else
        let f := map (fun vals => map (fun cv => finalize (c_ty (fst cv)) (snd cv)) (combine st vals)) vb in
        match first_rej (concat f) with
        | Some c => TLate c
        | None => TAcc (map accs f)
        end
  end.
Definition load_run (p : path) (st : structure) (tb : table) : tresult :=
  match file_checks p st tb with
  | Some c => TRej c
  | None =>
      match stage_insert p st tb with
      | Rej c | Late c => TRej c
      | Acc va =>
          match stage_normalize st va with
          | Rej c | Late c => TRej c
          | Acc vb => post_load st vb
          end
      end
  end.

(* validate_dataset on a DataFrame (from_csv = false) or on a CSV file (from_csv = true) *)
Definition pandas_col_check (from_csv : bool) (tb : table) (c : comp) : option (result unit) :=
  let col := if has_col tb (c_name c) then column tb (c_name c) else map (fun _ => RNull) (t_rows tb) in
  let rs := map (accept_pandas_cell from_csv (c_ty c)) col in
  match filter (fun r => match r with Acc _ => false | _ => true end) rs with x :: _ => Some x | [] => None end.
Fixpoint first_some {A B} (f : A -> option B) (l : list A) : option B :=
  match l with [] => None | x :: t => match f x with Some y => Some y | None => first_some f t end end.

(* value under which pandas compares identifiers in duplicated(): the CONVERTED value of _validate_pandas *)
Definition pandas_key_cell (t : ty) (r : raw) : sval :=
  match r with
  | RNull | RNaN => SNull
  | RStr s =>
      match t with
      | TString => SStr (remove_char c_quote s)
      | TBoolean => SBool (is_str (lower s) "true" || is_str s "1")
      | TInteger => match py_float s with Some (PFin m e) => SInt (to_double_int (dec_exact_Z m e)) | _ => SNull end
      | TNumber => match py_float s with Some (PFin m e) => SDec (round_half_away m (e + 20)) | _ => SStr (lower (strip_py s)) end
      | TDate => match lex_datetime (strip_py s) with
                 | Some f => STs (days_from_civil (d_y f) (d_m f) (d_d f)) (us_of_time (d_time f))
                 | None => SStr s end
      | TTime => let u := strip_py s in
                 if matches re_year_py u then SStr (u ++ s_ "-01-01/" ++ u ++ s_ "-12-31")
                 else if matches re_month_py u then
                   match split_on c_minus u [] with
                   | [ys; ms] => match py_int ys, py_int ms with
                                 | Some y, Some m => SStr (ys ++ [c_minus] ++ two_digits m ++ s_ "-01/" ++ ys ++ [c_minus] ++ two_digits m
                                                           ++ [c_minus] ++ two_digits (days_in_month y m))
                                 | _, _ => SStr u end
                   | _ => SStr u end
                 else SStr u
      | TPeriod => match stageB TPeriod (SStr (strip_py s)) with
                   | Acc (SStr n) => match py_handler n with Some (Acc v) => v | _ => SStr n end
                   | _ => SStr s end
      | _ => SStr s
      end
  | RInt z => match t with TBoolean => SBool (z =? 1) | TNumber => SDec (z * pow10 20) | TString => SStr (render_Z z) | _ => SInt z end
  | RFlt m e => match t with TInteger => SInt (dec_exact_Z m e) | TBoolean => SBool false | _ => SDec (round_half_away m (e + 20)) end
  | RBool b => SBool b
  | RTs d u => STs d u
  | RInf n => SStr (if n then s_ "-inf" else s_ "inf")
  end.

Definition is_null_pandas (r : raw) : bool := match r with RNull | RNaN => true | _ => false end.
Definition load_pandas (from_csv : bool) (st : structure) (tb : table) : tresult :=
  if from_csv && existsb (fun c => c_id c && negb (has_col tb (c_name c))) st then TRej E118
  else if existsb (fun c => negb (c_nullable c) && negb (has_col tb (c_name c))) st then TRej E5
  else if existsb (fun n => negb (existsb (fun c => String.eqb n (c_name c)) st)) (t_cols tb) then TRej E15
  else if existsb (fun c => c_id c && existsb (fun r => is_null_pandas (if from_csv then csv_cell r else r)) (column tb (c_name c))) st then TRej E3
  else if (length (ids st) =? 0)%nat && (1 <? length (t_rows tb))%nat then TRej E4
  else match first_some (pandas_col_check from_csv tb) st with
       | Some (Rej c) => TRej c
       | Some (Late c) => TLate c
       | _ =>
           let keys := map (fun row => map (fun c => match cell tb row (c_name c) with
                                                     | Some r => pandas_key_cell (c_ty c) r | None => SNull end) (ids st))
                           (t_rows tb) in
           if negb (length (ids st) =? 0)%nat && has_duplicates keys then TRej E7 else TAcc []
       end.

(* ------------------------------------------------------------------------------------------------ the documented formats *)
(* docs/data_types.rst.  denote t s = the value a documented representation s of type t denotes (None: s is not a documented
   representation, with real calendar ranges);  valid_repr t s = denote t s <> None. *)
Definition year_ok_date (y : Z) : bool := (1800 <=? y) && (y <=? 9999).       (* "Year range: 1800–9999" *)

(* Integer: "Whole numbers" (CSV) / "cast via str -> float -> int; non-integer floats are rejected" (DataFrame) *)
Definition spec_integer (s : str) : option Z :=
  match lex_dec (strip_py s) with
  | Some (m, e) => if dec_integral m e then Some (dec_exact_Z m e) else None
  | None => None
  end.
(* Number: "Decimal or integer numbers: 3.14, 1e5, 42" / "cast via str -> float" *)
Definition spec_number (s : str) : option (Z * Z) := lex_dec (strip_py s).
(* Boolean: "true", "false" (case-insensitive), "1", "0" *)
Definition spec_boolean (s : str) : option bool :=
  let l := lower s in
  if is_str l "true" || is_str s "1" then Some true else if is_str l "false" || is_str s "0" then Some false else None.
(* Date: ISO 8601 date (2-digit month and day), optional complete HH:MM:SS with T or space, optional fraction, optional Z / +-HH:MM;
   year 1800-9999.  The shape is the loader's own VALID_DATE_REGEX restricted to two-digit month and day. *)
Definition two_digit_md (s : str) : bool :=
  is_str (char_at s 5) "-" && is_str (char_at s 8) "-" &&
  ((length s =? 10)%nat || is_str (char_at s 11) " " || is_str (char_at s 11) "T").
Definition spec_date (s : str) : option (Z * Z) :=
  if matches re_VALID_DATE s && two_digit_md s then
    match lex_datetime s with
    | Some f => if year_ok_date (d_y f) && valid_date (d_y f) (d_m f) (d_d f) &&
                   match d_time f with Some t => time_ok t | None => true end
                then Some (days_from_civil (d_y f) (d_m f) (d_d f), us_of_time (d_time f)) else None
    | None => None
    end
  else None.
(* Time: "ISO 8601 interval 2020-01-01/2020-12-31"; also "YYYY" and "YYYY-MM" (expanded) *)
Definition spec_time (s : str) : option (Z * Z * Z * Z) :=     (* start day, start us, end day, end us *)
  match split_on c_slash s [] with
  | [a; b] =>
      match (if matches re_TIME_INTERVAL s then lex_datetime a else None), lex_datetime b with
      | Some fa, Some fb =>
          if valid_date (d_y fa) (d_m fa) (d_d fa) && valid_date (d_y fb) (d_m fb) (d_d fb)
             && match d_time fa with Some t => time_ok t | None => true end
             && match d_time fb with Some t => time_ok t | None => true end
          then let da := days_from_civil (d_y fa) (d_m fa) (d_d fa) in let db := days_from_civil (d_y fb) (d_m fb) (d_d fb) in
               let ua := us_of_time (d_time fa) in let ub := us_of_time (d_time fb) in
               if (da <? db) || ((da =? db) && (ua <=? ub)) then Some (da, ua, db, ub) else None
          else None
      | _, _ => None
      end
  | [a] =>
      match take_digits 4 a 0 with
      | Some (y, []) => Some (days_from_civil y 1 1, 0, days_from_civil y 12 31, 0)
      | Some (y, c :: r) =>
          if Ascii.eqb c c_minus then
            match take_digits 2 r 0 with
            | Some (m, []) => if (1 <=? m) && (m <=? 12) then Some (days_from_civil y m 1, 0, last_day_of_month y m, 0) else None
            | _ => None end
          else None
      | None => None
      end
  | _ => None
  end.
(* Duration: "A", "S", "Q", "M", "W", "D" *)
Definition spec_duration (s : str) : bool := in_strs s [s_ "A"; s_ "S"; s_ "Q"; s_ "M"; s_ "W"; s_ "D"].

(* Time_Period: the table "Accepted input formats".  period_in_calendar: the number exists in that year. *)
Definition period_in_calendar (y : Z) (ind : ascii) (n : Z) : bool :=
  if Ascii.eqb ind "A" then n =? 1
  else if Ascii.eqb ind "S" then (1 <=? n) && (n <=? 2)
  else if Ascii.eqb ind "Q" then (1 <=? n) && (n <=? 4)
  else if Ascii.eqb ind "M" then (1 <=? n) && (n <=? 12)
  else if Ascii.eqb ind "W" then (1 <=? n) && (n <=? weeks_in_year y)
  else if Ascii.eqb ind "D" then (1 <=? n) && (n <=? days_in_year y)
  else false.
Definition all_digits (s : str) : bool := forallb is_digit s.
Definition num_of (s : str) : Z := fst (fst (scan_digits s 0 0)).
Definition len_in (s : str) (lo hi : nat) : bool := (lo <=? length s)%nat && (length s <=? hi)%nat.
(* the documented shapes of what follows the 4-digit year: (indicator, number); None when the shape is not documented *)
Definition spec_period_tail (t : str) : option (ascii * Z) :=
  match t with
  | [] => Some ("A"%char, 1)                                                     (* YYYY *)
  | [a] => if Ascii.eqb a "A" then Some ("A"%char, 1) else None                   (* YYYYA *)
  | i :: num =>
      if Ascii.eqb i c_minus then
        match num with
        | j :: num2 =>
            if is_digit j then (if all_digits num && len_in num 1 2 then Some ("M"%char, num_of num) else None)   (* YYYY-MM, YYYY-M *)
            else if Ascii.eqb j "A" then (if is_str num2 "1" then Some ("A"%char, 1) else None)                    (* YYYY-A1 *)
            else if (Ascii.eqb j "S" || Ascii.eqb j "Q") then (if all_digits num2 && len_in num2 1 1 then Some (j, num_of num2) else None)
            else if Ascii.eqb j "M" then (if all_digits num2 && len_in num2 1 2 then Some (j, num_of num2) else None)
            else if Ascii.eqb j "W" then (if all_digits num2 && len_in num2 2 2 then Some (j, num_of num2) else None) (* YYYY-Wxx *)
            else if Ascii.eqb j "D" then (if all_digits num2 && len_in num2 1 3 then Some (j, num_of num2) else None)
            else None
        | [] => None
        end
      else if (Ascii.eqb i "S" || Ascii.eqb i "Q") then (if all_digits num && len_in num 1 1 then Some (i, num_of num) else None)
      else if (Ascii.eqb i "M" || Ascii.eqb i "W") then (if all_digits num && len_in num 1 2 then Some (i, num_of num) else None)
      else if Ascii.eqb i "D" then (if all_digits num && len_in num 1 3 then Some (i, num_of num) else None)
      else None
  end.
Definition spec_period (s : str) : option (Z * ascii * Z) :=
  match take_digits 4 s 0 with
  | Some (y, t) =>
      if (length s =? 10)%nat && is_str (char_at s 8) "-" then          (* YYYY-MM-DD *)
        match lex_datetime s with
        | Some f => match d_time f with
                    | None => if valid_date y (d_m f) (d_d f) then Some (y, "D"%char, doy_of (days_from_civil y (d_m f) (d_d f))) else None
                    | Some _ => None end
        | None => None end
      else match spec_period_tail t with
           | Some (i, n) => if period_in_calendar y i n then Some (y, i, n) else None
           | None => None end
  | None => None
  end.

Definition denote (t : ty) (s : str) : option sval :=
  match t with
  | TString => Some (SStr s)
  | TInteger => option_map SInt (spec_integer s)
  | TNumber => match spec_number s with Some (m, e) => option_map SDec (cast_decimal_me m e) | None => None end
  | TBoolean => option_map SBool (spec_boolean s)
  | TDate => option_map (fun v => STs (fst v) (snd v)) (spec_date s)
  | TTime => match spec_time s with
             | Some _ =>
                 (* YYYY and YYYY-MM are "expanded to the full year / month interval" *)
                 if (length s =? 4)%nat then Some (SStr (s ++ s_ "-01-01/" ++ s ++ s_ "-12-31"))
                 else if (length s =? 7)%nat then
                   Some (SStr (s ++ s_ "-01/" ++ s ++ [c_minus] ++ two_digits (days_in_month (num_of (firstn 4 s)) (num_of (skipn 5 s)))))
                 else Some (SStr s)
             | None => None end
  | TPeriod => match spec_period s with Some (y, i, n) => Some (SPer y i n) | None => None end
  | TDuration => if spec_duration s then Some (SStr s) else None
  | TNull => None
  end.
Definition valid_repr (t : ty) (s : str) : bool := match denote t s with Some _ => true | None => false end.
