(* VTL set operators over keyed tables (the specification of C05).  Operands are the row lists of structurally
   compatible datasets (same identifiers and components, columns aligned by name).  Definitions only. *)
From Coq Require Import List Bool.
Import ListNotations.
From VTL Require Import Base.Val Model.Table.

(* union: one datapoint per key present in any operand, taken from the FIRST operand that has the key *)
Definition union_step (acc d : list row) : list row := acc ++ filter (fun r => negb (has_key (fst r) acc)) d.
Definition union (ops : list (list row)) : list row := fold_left union_step ops [].

(* intersect: keys present in EVERY operand, datapoint of the first operand *)
Definition intersect (ops : list (list row)) : list row :=
  match ops with
  | [] => []
  | a :: rest => filter (fun r => forallb (has_key (fst r)) rest) a
  end.

Definition setdiff (a b : list row) : list row := filter (fun r => negb (has_key (fst r) b)) a.
Definition symdiff (a b : list row) : list row := setdiff a b ++ setdiff b a.

(* what the engine's SQL computes when the concatenation order of UNION ALL is preserved: keep the first physical row
   per key of the concatenation *)
Fixpoint first_per_key (seen rows : list row) : list row :=
  match rows with
  | [] => []
  | r :: t => if has_key (fst r) seen then first_per_key seen t else r :: first_per_key (r :: seen) t
  end.
Definition union_concat (ops : list (list row)) : list row := first_per_key [] (concat ops).

(* set expressions (nesting as the grammar allows) *)
Inductive sexpr :=
| SLeaf (rows : list (list val * list val))
| SUnion (l : list sexpr)
| SIntersect (l : list sexpr)
| SSetdiff (a b : sexpr)
| SSymdiff (a b : sexpr).

Fixpoint seval (e : sexpr) : list (list val * list val) :=
  match e with
  | SLeaf rows => rows
  | SUnion l => union (map seval l)
  | SIntersect l => intersect (map seval l)
  | SSetdiff a b => setdiff (seval a) (seval b)
  | SSymdiff a b => symdiff (seval a) (seval b)
  end.
