(* Viral attribute propagation (C28): the rules of `define viral propagation` (enumerated clauses over unordered value
   pairs / single values with an optional default; aggregate min / max / sum / avg), the value-level propagation
   functions and the operator classes of the engine's propagation model, over datasets projected on
   (identifiers, viral attribute).

   A dataset is an Expr.dset whose other components are either [] (no viral attribute) or [n] (the viral attribute n):
   measures never influence a viral value, so they are not carried (clause conditions of the modelled subset range over
   identifiers and the viral attribute).

   SPEC, IMPL, BEFORE FIX.  `vp_group` is the specification: a function of the MULTISET of the combined values
   (aggregate rules: order-free aggregates ignoring nulls; enumerated rules: the pair function folded over the values in
   canonical ascending order, nulls last).  `vp_group_impl` is the engine as it is: `list_reduce(list(col ORDER BY col), …)`
   — the same sorted fold.  `vp_group_before_fix` is the engine as it was (repo commit 52984f5 repaired it):
   `list_reduce(list(col), …)`, a left fold in PHYSICAL order; it is kept only as a regression witness.
   `veval false` evaluates with the engine's fold, `veval true` with the fold before the fix.  Definitions only. *)
From Coq Require Import ZArith QArith Qreduction String List Bool.
Import ListNotations.
From VTL Require Import Base.Val Model.Table Model.Scalar Model.Expr Model.SetOps.
Open Scope string_scope.
Open Scope list_scope.

(* ---------------- rules *)
Inductive aggfn := FMin | FMax | FSum | FAvg.
(* `when a and b then r` (the two values in either order) | `when a then r` *)
Inductive vclause := VC2 (a b r : val) | VC1 (a r : val).
(* enumerated: clauses + default (`else d`; no else = null) | aggregate *)
Inductive vrule := REnum (cls : list vclause) (dflt : val) | RAgg (f : aggfn).

Definition c_res (c : vclause) : val := match c with VC2 _ _ r | VC1 _ r => r end.

(* ---------------- enumerated rules on a pair / a single value *)
(* SQL: `'v' IN (a, b)`, or `(a IS NULL OR b IS NULL)` for the null literal; a NULL outcome does not select the clause *)
Definition in_pair (v a b : val) : bool :=
  if is_null v then is_null a || is_null b else val_eqb v a || val_eqb v b.

Definition c2_match (a b : val) (c : vclause) : bool :=
  match c with VC2 x y _ => in_pair x a b && in_pair y a b | VC1 _ _ => false end.
Definition c1_match (a b : val) (c : vclause) : bool :=
  match c with VC1 x _ => in_pair x a b | VC2 _ _ _ => false end.

(* binary clauses first (in declaration order), then unary clauses, then the default *)
Definition enum_pair (cls : list vclause) (d : val) (a b : val) : val :=
  match find (c2_match a b) cls with
  | Some c => c_res c
  | None => match find (c1_match a b) cls with Some c => c_res c | None => d end
  end.

(* one value alone: only unary clauses can apply *)
Definition c1_single (a : val) (c : vclause) : bool :=
  match c with VC1 x _ => if is_null x then is_null a else val_eqb a x | VC2 _ _ _ => false end.
Definition enum_single (cls : list vclause) (d : val) (a : val) : val :=
  match find (c1_single a) cls with Some c => c_res c | None => d end.

(* ---------------- a total order on values (per kind; kinds ranked; null last) *)
Definition vcanon (v : val) : val := match v with VNum q => VNum (Qred q) | _ => v end.
Definition vrank (v : val) : nat :=
  match v with VBool _ => 0 | VInt _ => 1 | VNum _ => 2 | VStr _ => 3 | VNull => 4 end.
Definition val_leb (a b : val) : bool :=
  match a, b with
  | VBool x, VBool y => implb x y
  | VInt x, VInt y => Z.leb x y
  | VNum x, VNum y => Qle_bool x y
  | VStr x, VStr y => String.leb x y            (* byte-wise, as DuckDB's binary collation *)
  | _, _ => Nat.leb (vrank a) (vrank b)
  end.

(* LEAST / GREATEST ignore nulls *)
Definition vmin2 (a b : val) : val :=
  if is_null a then b else if is_null b then a else if val_leb a b then a else b.
Definition vmax2 (a b : val) : val :=
  if is_null a then b else if is_null b then a else if val_leb a b then b else a.

Definition vadd (a b : val) : val :=
  match a, b with
  | VInt x, VInt y => VInt (x + y)
  | _, _ => match to_q a, to_q b with Some x, Some y => VNum (Qred (x + y)) | _, _ => VNull end
  end.

(* ---------------- aggregate rules on a pair: LEAST, GREATEST, a + b, (a + b) / 2.0 *)
Definition agg_pair (f : aggfn) (a b : val) : val :=
  match f with
  | FMin => vmin2 a b
  | FMax => vmax2 a b
  | FSum => if is_null a || is_null b then VNull else vadd a b
  | FAvg => if is_null a || is_null b then VNull else
            match to_q a, to_q b with Some x, Some y => VNum (Qred ((x + y) / (2 # 1))) | _, _ => VNull end
  end.

(* ---------------- aggregate rules on a group: MIN / MAX / SUM / AVG, nulls ignored, null when nothing is left *)
Definition nonnull (l : list val) : list val := filter (fun v => negb (is_null v)) l.
Fixpoint ints (l : list val) : option (list Z) :=
  match l with
  | [] => Some []
  | VInt z :: t => option_map (cons z) (ints t)
  | _ :: _ => None
  end.
Fixpoint nums (l : list val) : option (list Q) :=
  match l with
  | [] => Some []
  | v :: t => match to_q v, nums t with Some q, Some qs => Some (q :: qs) | _, _ => None end
  end.
Definition qadd (a b : Q) : Q := Qred (a + b).
Definition qsum (l : list Q) : Q := fold_right qadd 0%Q l.
Definition zsum (l : list Z) : Z := fold_right Z.add 0%Z l.

Definition agg_group (f : aggfn) (l : list val) : val :=
  let nn := nonnull (map vcanon l) in
  match f with
  | FMin => fold_right vmin2 VNull nn
  | FMax => fold_right vmax2 VNull nn
  | FSum => match nn with
            | [] => VNull
            | _ => match ints nn with
                   | Some zs => VInt (zsum zs)
                   | None => match nums nn with Some qs => VNum (qsum qs) | None => VNull end
                   end
            end
  | FAvg => match nn with
            | [] => VNull
            | _ => match nums nn with
                   | Some qs => VNum (Qred (qsum qs / inject_Z (Z.of_nat (length qs))))
                   | None => VNull
                   end
            end
  end.

(* ---------------- canonical order of a multiset of values *)
Fixpoint vinsert (x : val) (l : list val) : list val :=
  match l with
  | [] => [x]
  | h :: t => if val_leb x h then x :: l else h :: vinsert x t
  end.
Definition vsort (l : list val) : list val := fold_right vinsert [] l.

(* left fold of a binary function over a non-empty list; one value alone is returned as it is (list_reduce) *)
Definition fold1 (f : val -> val -> val) (l : list val) : val :=
  match l with [] => VNull | h :: t => fold_left f t h end.

(* ---------------- the propagation functions *)
Definition vp_pair (r : vrule) (a b : val) : val :=
  match r with REnum cls d => enum_pair cls d a b | RAgg f => agg_pair f a b end.

(* the single-value case of a rule *)
Definition vp_single (r : vrule) (a : val) : val :=
  match r with REnum cls d => enum_single cls d a | RAgg _ => a end.

(* SPEC: the values combined into one result datapoint, as a multiset *)
Definition vp_group (r : vrule) (values : list val) : val :=
  match r with
  | RAgg f => agg_group f values
  | REnum cls d => fold1 (enum_pair cls d) (vsort (map vcanon values))
  end.

(* the engine: list_reduce(list(col ORDER BY col), (acc, x) -> CASE … END) — DuckDB sorts ascending with nulls last *)
Definition vp_group_impl (r : vrule) (values : list val) : val :=
  match r with
  | RAgg f => agg_group f values
  | REnum cls d => fold1 (enum_pair cls d) (vsort (map vcanon values))
  end.

(* the engine BEFORE the fix: list_reduce(list(col), …) — left fold in physical order (regression witness only) *)
Definition vp_group_before_fix (r : vrule) (values : list val) : val :=
  match r with
  | RAgg f => agg_group f values
  | REnum cls d => fold1 (enum_pair cls d) values
  end.

(* row-preserving dataset-level operators: aggregate rules collapse the WHOLE operand (AGG(col) OVER ()) onto every
   datapoint, enumerated rules map each datapoint's own value *)
Definition vp_dataset_wide (r : vrule) (all : list val) (own : val) : val :=
  match r with
  | RAgg f => agg_group f all
  | REnum cls d => enum_single cls d own
  end.

(* operands folded in operand order (joins of more than two operands, case branches) *)
Definition vp_reduce (r : vrule) (vals : list val) : val := fold1 (vp_pair r) vals.

(* group of datapoints whose attribute has no rule: a single datapoint keeps its value, several give null
   (the statement is rejected afterwards by the 1-3-3-6 check) *)
Definition vp_no_rule_group (values : list val) : val :=
  match values with [v] => v | _ => VNull end.

(* ---------------- datasets projected on (identifiers, viral attribute) *)
Notation vrow := (list val * list val)%type (only parsing).
Definition vget (r : vrow) : val := hd VNull (snd r).
Definition has_v (d : dset) : bool := match d_ms d with [] => false | _ :: _ => true end.
Definition vvals (rows : list vrow) : list val := map vget rows.

Fixpoint rlook (n : string) (rules : list (string * vrule)) : option vrule :=
  match rules with [] => None | (k, r) :: t => if String.eqb n k then Some r else rlook n t end.
Definition rule_of (rules : list (string * vrule)) (d : dset) : option vrule :=
  match d_ms d with n :: _ => rlook n rules | [] => None end.

(* dataset∘dataset operators and joins: datapoints matched on the identifiers of the operand with fewer identifiers;
   the two viral values are combined with the pair function; an attribute present in one operand only passes through;
   a left join combines an unmatched datapoint with null *)
Inductive jkind := JInner | JLeft.

Definition combine_val (rule : option vrule) (ha hb : bool) (va vb : val) : list val :=
  if ha && hb then [match rule with Some r => vp_pair r va vb | None => VNull end]
  else if ha then [va] else if hb then [vb] else [].

Definition ERR_IDS : string := "1-1-13-11".

Definition v_combine (k : jkind) (rules : list (string * vrule)) (a b : dset) : res dset :=
  let ms := if has_v a then d_ms a else d_ms b in
  let rule := if has_v a then rule_of rules a else rule_of rules b in
  let cv := combine_val rule (has_v a) (has_v b) in
  if subset_s (d_ids b) (d_ids a) then
    bind (mapM (fun r =>
            match proj_key (d_ids a) (fst r) (d_ids b) with
            | None => Err "1-1-1-10"
            | Some kb => match find_key kb (d_rows b) with
                         | Some rb => Ok [(fst r, cv (vget r) (vget rb))]
                         | None => match k with JInner => Ok [] | JLeft => Ok [(fst r, cv (vget r) VNull)] end
                         end
            end) (d_rows a))
         (fun l => Ok (mkD (d_ids a) ms (concat l)))
  else if subset_s (d_ids a) (d_ids b) then
    match k with
    | JLeft => Err ERR_IDS
    | JInner =>
        bind (mapM (fun r =>
                match proj_key (d_ids b) (fst r) (d_ids a) with
                | None => Err "1-1-1-10"
                | Some ka => match find_key ka (d_rows a) with
                             | Some ra => Ok [(fst r, cv (vget ra) (vget r))]
                             | None => Ok []
                             end
                end) (d_rows b))
             (fun l => Ok (mkD (d_ids b) ms (concat l)))
    end
  else Err ERR_IDS.

(* row-preserving dataset-level operators (unary, dataset∘scalar, parameterised, check_datapoint) *)
Definition v_unary (rules : list (string * vrule)) (d : dset) : dset :=
  match rule_of rules d with
  | None => d
  | Some r => let all := vvals (d_rows d) in
              mkD (d_ids d) (d_ms d) (map (fun x => (fst x, [vp_dataset_wide r all (vget x)])) (d_rows d))
  end.

(* check_datapoint(… all) with one rule: one result datapoint per input datapoint, identified additionally by ruleid *)
Definition v_check_all (rules : list (string * vrule)) (rid : string) (d : dset) : dset :=
  let u := v_unary rules d in
  mkD (d_ids d ++ ["ruleid"]) (d_ms u) (map (fun x => (fst x ++ [VStr rid], snd x)) (d_rows u)).

(* aggregations: the values of the datapoints of one group are combined *)
Fixpoint nubk (l : list (list val)) : list (list val) :=
  match l with
  | [] => []
  | k :: t => k :: filter (fun x => negb (key_eqb k x)) (nubk t)
  end.
Definition gproj (d : dset) (by_ : list string) (r : vrow) : list val :=
  select_by (d_ids d) (fun n => mem_s n by_) (fst r).
Definition grp (old : bool) (rule : option vrule) (values : list val) : val :=
  match rule with
  | Some r => if old then vp_group_before_fix r values else vp_group_impl r values
  | None => vp_no_rule_group values
  end.
(* `clause` = the aggr clause `DS[aggr Me := op(…) group …]`, false = the standalone form `op(DS group …)`.
   They differ on one corner (as in Model/Aggr.v, C03_empty_operand_clause_without_grouping): with NO grouping identifier
   left, the clause always yields exactly one datapoint — over an empty operand its viral value is the rule applied to the
   empty group, which is null for every rule — whereas the standalone form yields one datapoint per non-empty group. *)
Definition group_keys (d : dset) (by_ : list string) (clause : bool) : list (list val) :=
  match filter (fun n => mem_s n by_) (d_ids d), clause with
  | [], true => [[]]
  | _, _ => nubk (map (gproj d by_) (d_rows d))
  end.
Definition v_group (old : bool) (rules : list (string * vrule)) (d : dset) (by_ : list string) (clause : bool) : dset :=
  let rule := rule_of rules d in
  mkD (filter (fun n => mem_s n by_) (d_ids d)) (d_ms d)
      (map (fun k => (k, if has_v d
                         then [grp old rule (vvals (filter (fun r => key_eqb k (gproj d by_ r)) (d_rows d)))]
                         else []))
           (group_keys d by_ clause)).

(* analytic invocation: every datapoint receives the combination over its partition *)
Definition v_analytic (old : bool) (rules : list (string * vrule)) (d : dset) (part : list string) : dset :=
  let rule := rule_of rules d in
  mkD (d_ids d) (d_ms d)
      (map (fun x => (fst x, if has_v d
                             then [grp old rule (vvals (filter (fun r => key_eqb (gproj d part x) (gproj d part r)) (d_rows d)))]
                             else []))
           (d_rows d)).

(* calc viral attribute n := constant; drop n *)
Definition v_setviral (d : dset) (n : string) (v : val) : dset :=
  mkD (d_ids d) [n] (map (fun x => (fst x, [v])) (d_rows d)).
Definition v_dropviral (d : dset) : dset :=
  mkD (d_ids d) [] (map (fun x => (fst x, [])) (d_rows d)).

Inductive sop := SoUnion | SoIntersect | SoSetdiff | SoSymdiff.
Definition v_setop (o : sop) (a b : dset) : dset :=
  mkD (d_ids a) (d_ms a)
      (match o with
       | SoUnion => union [d_rows a; d_rows b]
       | SoIntersect => intersect [d_rows a; d_rows b]
       | SoSetdiff => setdiff (d_rows a) (d_rows b)
       | SoSymdiff => symdiff (d_rows a) (d_rows b)
       end).

(* ---------------- expressions, operator classes *)
Inductive vexpr :=
| XVar (n : string)                            (* plain assignment of a dataset *)
| XBin (a b : vexpr)                           (* any dataset∘dataset binary operator *)
| XJoin (k : jkind) (a b : vexpr)              (* inner_join / left_join (more operands: nested to the left) *)
| XUn (a : vexpr)                              (* unary, dataset∘scalar, parameterised operators *)
| XCheckAll (rid : string) (a : vexpr)         (* check_datapoint(a, ruleset all), ruleset with the one rule rid *)
| XAggr (a : vexpr) (by_ : list string) (clause : bool)   (* aggregation (clause / standalone form), grouping identifiers resolved *)
| XAnalytic (a : vexpr) (part : list string)   (* analytic invocation, partition identifiers *)
| XFilter (a : vexpr) (c : cexpr)              (* filter over identifiers / the viral attribute *)
| XSame (a : vexpr)                            (* calc / keep / drop / rename of measures *)
| XSub (a : vexpr) (fixed : list (string * val))
| XSetViral (a : vexpr) (n : string) (v : val) (* calc viral attribute n := literal *)
| XDropViral (a : vexpr)                       (* drop of the viral attribute *)
| XSet (o : sop) (a b : vexpr).

Inductive opclass :=
| OcCombine          (* the rule over the values of the datapoints combined into the result datapoint *)
| OcGroup            (* idem, a whole group / partition *)
| OcRowPreserving    (* enumerated: per datapoint; aggregate: over the whole operand *)
| OcUnchanged        (* the value of each retained datapoint is kept *)
| OcSet.             (* the attribute itself is defined or removed by the clause *)
Definition class_of (x : vexpr) : opclass :=
  match x with
  | XBin _ _ | XJoin _ _ _ => OcCombine
  | XAggr _ _ _ | XAnalytic _ _ => OcGroup
  | XUn _ | XCheckAll _ _ => OcRowPreserving
  | XVar _ | XFilter _ _ | XSame _ | XSub _ _ | XSet _ _ _ => OcUnchanged
  | XSetViral _ _ _ | XDropViral _ => OcSet
  end.

Fixpoint veval (old : bool) (rules : list (string * vrule)) (e : denv) (x : vexpr) : res dset :=
  match x with
  | XVar n => match dlook n e with Some d => Ok d | None => Err "1-2-2" end
  | XBin a b => bind (veval old rules e a) (fun da => bind (veval old rules e b) (fun db => v_combine JInner rules da db))
  | XJoin k a b => bind (veval old rules e a) (fun da => bind (veval old rules e b) (fun db => v_combine k rules da db))
  | XUn a => bind (veval old rules e a) (fun d => Ok (v_unary rules d))
  | XCheckAll rid a => bind (veval old rules e a) (fun d => Ok (v_check_all rules rid d))
  | XAggr a by_ cl => bind (veval old rules e a) (fun d => Ok (v_group old rules d by_ cl))
  | XAnalytic a part => bind (veval old rules e a) (fun d => Ok (v_analytic old rules d part))
  | XFilter a c => bind (veval old rules e a) (fun d => d_filter d c)
  | XSame a => veval old rules e a
  | XSub a fixed => bind (veval old rules e a) (fun d => Ok (d_sub d fixed))
  | XSetViral a n v => bind (veval old rules e a) (fun d => Ok (v_setviral d n v))
  | XDropViral a => bind (veval old rules e a) (fun d => Ok (v_dropviral d))
  | XSet o a b => bind (veval old rules e a) (fun da => bind (veval old rules e b) (fun db => Ok (v_setop o da db)))
  end.

(* ---------------- the static pass: result structures, rule definitions, "every viral attribute has a rule" *)
Definition sstruct := (list string * list string)%type.      (* identifier names, [] or [viral name] *)
Definition senv := list (string * sstruct).
Fixpoint slook (n : string) (e : senv) : option sstruct :=
  match e with [] => None | (k, v) :: t => if String.eqb n k then Some v else slook n t end.
Definition senv_of (e : denv) : senv := map (fun p => (fst p, (d_ids (snd p), d_ms (snd p)))) e.

Definition s_combine (k : jkind) (a b : sstruct) : res sstruct :=
  let ms := match snd a with [] => snd b | _ => snd a end in
  if subset_s (fst b) (fst a) then Ok (fst a, ms)
  else if subset_s (fst a) (fst b) then match k with JLeft => Err ERR_IDS | JInner => Ok (fst b, ms) end
  else Err ERR_IDS.

Fixpoint vstatic (e : senv) (x : vexpr) : res sstruct :=
  match x with
  | XVar n => match slook n e with Some s => Ok s | None => Err "1-2-2" end
  | XBin a b => bind (vstatic e a) (fun sa => bind (vstatic e b) (fun sb => s_combine JInner sa sb))
  | XJoin k a b => bind (vstatic e a) (fun sa => bind (vstatic e b) (fun sb => s_combine k sa sb))
  | XUn a | XSame a | XFilter a _ | XAnalytic a _ => vstatic e a
  | XCheckAll _ a => bind (vstatic e a) (fun s => Ok (fst s ++ ["ruleid"], snd s))
  | XAggr a by_ _ => bind (vstatic e a) (fun s => Ok (filter (fun n => mem_s n by_) (fst s), snd s))
  | XSub a fixed => bind (vstatic e a) (fun s => Ok (filter (fun n => negb (mem_s n (map fst fixed))) (fst s), snd s))
  | XSetViral a n _ => bind (vstatic e a) (fun s => Ok (fst s, [n]))
  | XDropViral a => bind (vstatic e a) (fun s => Ok (fst s, []))
  | XSet _ a b => bind (vstatic e a) (fun sa => bind (vstatic e b) (fun _ => Ok sa))
  end.

(* a result whose viral attribute has no rule is rejected (semantic error 1-3-3-6) *)
Definition ERR_NO_RULE : string := "1-3-3-6".
Definition rule_present (rules : list (string * vrule)) (s : sstruct) : bool :=
  match snd s with [] => true | n :: _ => match rlook n rules with Some _ => true | None => false end end.

Fixpoint vcheck (rules : list (string * vrule)) (e : senv) (ss : list (string * vexpr)) : res unit :=
  match ss with
  | [] => Ok tt
  | (n, x) :: t => bind (vstatic e x) (fun s => if rule_present rules s then vcheck rules ((n, s) :: e) t else Err ERR_NO_RULE)
  end.

(* rule definitions: no two clauses over the same value set (1-3-3-4), one rule per variable (1-3-3-1),
   sum / avg need a numeric attribute (1-3-3-5) *)
Definition val_same (a b : val) : bool :=
  match a, b with
  | VNum x, VNum y => Z.eqb (Qnum x) (Qnum y) && Pos.eqb (Qden x) (Qden y)
  | _, _ => val_eqb a b
  end.
(* decidable check on the pair table of an enumerated rule: closed and associative over the values `dom`
   (the pair function is always commutative) — then even a left fold in physical order does not depend on the order *)
Definition closed_on (dom : list val) (f : val -> val -> val) : bool :=
  forallb (fun a => forallb (fun b => existsb (val_same (f a b)) dom) dom) dom.
Definition assoc_on (dom : list val) (f : val -> val -> val) : bool :=
  forallb (fun a => forallb (fun b => forallb (fun c => val_same (f (f a b) c) (f a (f b c))) dom) dom) dom.
Definition enum_order_safe (dom : list val) (cls : list vclause) (d : val) : bool :=
  closed_on dom (enum_pair cls d) && assoc_on dom (enum_pair cls d).

Definition cl_key (c : vclause) : list val :=
  match c with VC2 a b _ => if val_same a b then [a] else [a; b] | VC1 a _ => [a] end.
Definition key_sub (a b : list val) : bool := forallb (fun x => existsb (val_same x) b) a.
Definition same_cl_key (a b : vclause) : bool := key_sub (cl_key a) (cl_key b) && key_sub (cl_key b) (cl_key a).
Fixpoint dup_clause (cls : list vclause) : bool :=
  match cls with [] => false | c :: t => existsb (same_cl_key c) t || dup_clause t end.

Definition needs_numeric (r : vrule) : bool := match r with RAgg FSum | RAgg FAvg => true | _ => false end.

Fixpoint vdefs (numeric : string -> bool) (defs : list (string * vrule)) (acc : list (string * vrule))
  : res (list (string * vrule)) :=
  match defs with
  | [] => Ok acc
  | (n, r) :: t =>
      if match r with REnum cls _ => dup_clause cls | RAgg _ => false end then Err "1-3-3-4"
      else if match rlook n acc with Some _ => true | None => false end then Err "1-3-3-1"
      else if needs_numeric r && negb (numeric n) then Err "1-3-3-5"
      else vdefs numeric t (acc ++ [(n, r)])
  end.

(* ---------------- scripts *)
Fixpoint vstmts (old : bool) (rules : list (string * vrule)) (e : denv) (ss : list (string * vexpr)) : res denv :=
  match ss with
  | [] => Ok e
  | (n, x) :: t => bind (veval old rules e x) (fun d => vstmts old rules ((n, d) :: e) t)
  end.

Definition vrun (old : bool) (numeric : string -> bool) (defs : list (string * vrule)) (e : denv)
           (ss : list (string * vexpr)) (result : string) : res dset :=
  bind (vdefs numeric defs []) (fun rules =>
  bind (vcheck rules (senv_of e) ss) (fun _ =>
  bind (vstmts old rules e ss) (fun e' =>
  match dlook result e' with Some d => Ok d | None => Err "1-2-2" end))).
