(* Model of the dataset load/release schedule (DAGAnalyzer._ds_usage_analysis) and of the loop of
   duckdb_transpiler.io._execution.execute_queries that follows it.  Definitions only (lemmas: Proofs/SchedP.v).

   The statement list is the list of `dependencies` entries in key order (key k = k-th element, 1-based); a position in the
   script is written as a split  all = pre ++ s :: post  (k = length pre + 1), so that
       "k is the last statement reading x"   is   x read by s and by no statement of post,
       "x has no consumer at all"            is   x not read by any statement of all.
   Transcribed from the code (compared field by field with the real functions on every run, tie T-dag):
     global_inputs   names read that no statement assigns, in order of first use          (global_inputs)
     ins_at          global inputs whose first reader is this statement                    (insertion[k])
     del_at          deletion[k]: first the statement outputs whose last consumer is k (or that have no consumer and are
                     assigned by k), in key order of their producers, then the global inputs whose last consumer is k
     persistent_of   names assigned with <-, first occurrences                             (persistent)
     replay          the event history of execute_queries: per statement load_scheduled_datasets, CREATE TABLE,
                     cleanup_scheduled_datasets; then the loop over results not fetched yet.
   Event order: the engine's hook reports `release x` when cleanup STARTS handling x and `fetch x` from inside it, the DROP comes
   last; the model writes the effect order  Fetch x; Release x  (the harness swaps each adjacent release/fetch pair). *)
From Coq Require Import List Bool Arith PeanoNat.
Import ListNotations.
From VTL Require Import Model.Dag.

Inductive event :=
| Load (n : name)
| Exec (k : nat) (n : name)      (* statement key, name of the table created *)
| Release (n : name)
| Fetch (n : name).

(* elements of l that are not in seen, first occurrences only, in order (the `not in global_set` / `not in persistent_datasets` idiom) *)
Fixpoint fresh (seen : list name) (l : list name) : list name :=
  match l with
  | [] => []
  | x :: r => if memb x seen then fresh seen r else x :: fresh (x :: seen) r
  end.

Definition global_inputs (all : list stmt) : list name := fresh (outs all) (reads all).
Definition persistent_of (all : list stmt) : list name := fresh [] (outs (filter s_pers all)).

Definition ins_at (all pre : list stmt) (s : stmt) : list name := fresh (outs all ++ reads pre) (s_deps s).

Definition last_here (s : stmt) (post : list stmt) (x : name) : bool :=
  memb x (s_deps s) && negb (memb x (reads post)).

Definition del_at (all pre : list stmt) (s : stmt) (post : list stmt) : list name :=
  filter (last_here s post) (outs pre)
  ++ (if last_here s post (s_out s) || negb (memb (s_out s) (reads all)) then [s_out s] else [])
  ++ filter (last_here s post) (outs post)
  ++ filter (last_here s post) (global_inputs all).

(* DatasetSchedule as rows (insertion[k], deletion[k]) for k = 1..n, with global_inputs and persistent *)
Fixpoint sched_rows (all pre post : list stmt) : list (list name * list name) :=
  match post with
  | [] => []
  | s :: r => (ins_at all pre s, del_at all pre s r) :: sched_rows all (pre ++ [s]) r
  end.
Definition schedule_of (all : list stmt) : list (list name * list name) * list name * list name :=
  (sched_rows all [] all, global_inputs all, persistent_of all).

Section Replay.
  Variable all : list stmt.
  Variable tabled : name -> bool.          (* the name has a dataset structure in input_datasets (scalars do not) *)
  Variable rop : bool.                     (* return_only_persistent *)

  (* is the result of x put into `results` when x is cleaned up *)
  Definition selected (x : name) : bool :=
    negb (memb x (global_inputs all)) && (negb rop || memb x (persistent_of all)).

  Definition cleanup (x : name) : list event :=
    if selected x then [Fetch x; Release x] else [Release x].

  Definition block (pre : list stmt) (s : stmt) (post : list stmt) (k : nat) : list event :=
    map Load (filter tabled (ins_at all pre s))
    ++ Exec k (s_out s) :: flat_map cleanup (del_at all pre s post).

  Fixpoint replay_go (pre post : list stmt) (k : nat) : list event :=
    match post with
    | [] => []
    | s :: r => block pre s r k ++ replay_go (pre ++ [s]) r (S k)
    end.

  Definition fetched (h : list event) : list name :=
    flat_map (fun e => match e with Fetch n => [n] | _ => [] end) h.

  (* "Handle final results not yet processed" *)
  Fixpoint final_go (l : list stmt) (done : list name) : list event :=
    match l with
    | [] => []
    | s :: r => if memb (s_out s) done then final_go r done
                else if negb rop || s_pers s then Fetch (s_out s) :: final_go r (s_out s :: done)
                else final_go r done
    end.

  Definition replay : list event :=
    let h := replay_go [] all 1 in h ++ final_go all (fetched h).

  (* keys of the dictionary run() returns *)
  Definition returned : list name := fetched replay.
End Replay.

(* ---------------------------------------------------------------- the abstract table store *)
Definition apply_event (st : list name) (e : event) : list name :=
  match e with
  | Load n => n :: st
  | Exec _ n => n :: st
  | Release n => remove Nat.eq_dec n st
  | Fetch _ => st
  end.
Definition store_of (h : list event) (st : list name) : list name := fold_left apply_event h st.

Definition loads (h : list event) : list name := flat_map (fun e => match e with Load n => [n] | _ => [] end) h.
Definition execs (h : list event) : list name := flat_map (fun e => match e with Exec _ n => [n] | _ => [] end) h.
Definition releases (h : list event) : list name := flat_map (fun e => match e with Release n => [n] | _ => [] end) h.

(* P holds of every event, given the store just before it and the events after it *)
Fixpoint hist_all (P : list name -> event -> list event -> Prop) (st : list name) (h : list event) : Prop :=
  match h with
  | [] => True
  | e :: h' => P st e h' /\ hist_all P (apply_event st e) h'
  end.

(* ---------------------------------------------------------------- boolean checkers for a concrete history (used on real traces) *)
Definition deps_of (all : list stmt) (n : name) : list name := reads (filter (fun s => Nat.eqb (s_out s) n) all).

Fixpoint safe_historyb (all : list stmt) (tabled : name -> bool) (st : list name) (h : list event) : bool :=
  match h with
  | [] => true
  | e :: h' =>
      (match e with
       | Exec _ n => forallb (fun d => negb (memb d (outs all) || tabled d) || memb d st) (deps_of all n)
       | Fetch x => memb x st
       | Release x => forallb (fun n => negb (memb x (deps_of all n))) (execs h')
       | Load x => negb (memb x st)
       end) && safe_historyb all tabled (apply_event st e) h'
  end.
