(* Validation operators (C07): check, check_datapoint, check_hierarchy, hierarchy — list functions over Model/Expr.dset.
   Scope: `check` over a Boolean mono-measure operand with optional imbalance operand; datapoint rulesets with a variable
   signature (aliases), rules with/without `when`, error code / level, outputs invalid / all / all_measures; hierarchical
   rulesets with a variable signature over ONE code-item identifier (kept LAST among the identifiers of the model dataset;
   components are compared by name, so the position is immaterial), rules  Left cmp  ±Item ± Item …  without `when`, the six
   validation modes, input modes rule / rule_priority / dataset, outputs computed / all.
   `foo` is the reading of the VTL reference manual, `foo_impl` the engine (equal to `foo` unless stated), `foo_before_fix` the
   engine before a repair (regression witness).  Definitions only. *)
From Coq Require Import ZArith QArith String List Bool.
Import ListNotations.
From VTL Require Import Base.Val Model.Table Model.Scalar Model.Expr.
Open Scope string_scope.
Open Scope list_scope.

Definition is_false (v : val) : bool := match v with VBool false => true | _ => false end.
(* errorcode / errorlevel: the rule's value exactly where the outcome is FALSE, null elsewhere *)
Definition err_if_false (b e : val) : val := if is_false b then e else VNull.

(* ================================================================= check *)
Definition CHECK_MS : list string := ["bool_var"; "imbalance"; "errorcode"; "errorlevel"].

Definition first_val (l : list val) : val := match l with v :: _ => v | [] => VNull end.

(* value of the imbalance operand for a key: None = the imbalance operand has no datapoint with that key *)
Definition imb_of (imb : option dset) (k : list val) : option val :=
  match imb with
  | None => Some VNull
  | Some di => match find_key k (d_rows di) with Some ri => Some (first_val (snd ri)) | None => None end
  end.

Definition check_row (ec el : val) (k : list val) (b imbv : val) : list val * list val :=
  (k, [b; imbv; err_if_false b ec; err_if_false b el]).

Definition same_names (a b : list string) : bool :=
  Nat.eqb (List.length a) (List.length b) && forallb (fun p => String.eqb (fst p) (snd p)) (combine a b).

(* keep_unmatched = true: a datapoint of the operand without partner in the imbalance operand is kept with a null imbalance
   (manual: "all the datapoints of op are returned" / "the datapoints for which bool_var is FALSE"; the engine since the repair
   "check with an imbalance operand dropped datapoints…": LEFT JOIN);
   keep_unmatched = false: it is dropped (the engine BEFORE that repair joined operand and imbalance with an inner JOIN) *)
Definition d_check_gen (keep_unmatched : bool) (op : dset) (imb : option dset) (ec el : val) (invalid : bool) : res dset :=
  match d_ms op with
  | [_] =>
      if match imb with
         | Some di => negb (same_names (d_ids op) (d_ids di)) || negb (Nat.eqb (List.length (d_ms di)) 1)
         | None => false end
      then Err "1-1-10-1" else
      Ok (mkD (d_ids op) CHECK_MS
            (flat_map (fun r =>
               let b := first_val (snd r) in
               if invalid && negb (is_false b) then [] else
               match imb_of imb (fst r) with
               | Some v => [check_row ec el (fst r) b v]
               | None => if keep_unmatched then [check_row ec el (fst r) b VNull] else []
               end) (d_rows op)))
  | _ => Err "1-1-10-1"
  end.

Definition d_check := d_check_gen true.
(* the engine: since the repair it follows the manual; the earlier behaviour is kept as a regression witness *)
Definition d_check_impl := d_check_gen true.
Definition d_check_before_fix := d_check_gen false.

(* the statement  check(op_expr errorcode ec errorlevel el imbalance imb_expr output)  over dataset expressions *)
Definition run_check (before_fix : bool) (e : denv) (opx : dexpr) (imbx : option dexpr) (ec el : val) (invalid : bool) : res dset :=
  bind (deval e opx) (fun o =>
    match imbx with
    | None => d_check_gen (negb before_fix) o None ec el invalid
    | Some ix => bind (deval e ix) (fun i => d_check_gen (negb before_fix) o (Some i) ec el invalid)
    end).

(* ================================================================= check_datapoint *)
Record dprule := mkRule { r_name : string; r_when : option cexpr; r_then : cexpr; r_ec : val; r_el : val }.
Inductive dp_output := OInvalid | OAll | OAllMeasures.

(* variable signature: (name used inside the rules, component of the dataset) *)
Definition sig_env (sig : list (string * string)) (e : env) : res env :=
  mapM (fun p => match elook (snd p) e with Some v => Ok (fst p, v) | None => Err "1-1-1-10" end) sig.

(* outcome of a rule on one datapoint.  Without `when`: the value of the condition.  With `when`: the condition where the
   antecedent is TRUE, TRUE where the antecedent is FALSE (the rule does not apply), null where it is null *)
Definition rule_bool (w : option val) (t : val) : val :=
  match w with
  | None => t
  | Some (VBool true) => t
  | Some (VBool false) => VBool true
  | Some _ => VNull
  end.

Definition rule_outcome (sig : list (string * string)) (d : dset) (rl : dprule) (r : list val * list val) : res val :=
  bind (sig_env sig (row_env d r)) (fun e =>
    bind (ceval e (r_then rl)) (fun t =>
      match r_when rl with
      | None => Ok (rule_bool None t)
      | Some wc => bind (ceval e wc) (fun w => Ok (rule_bool (Some w) t))
      end)).

Definition DP_TAIL : list string := ["errorcode"; "errorlevel"].
Definition dp_ms (ms : list string) (o : dp_output) : list string :=
  match o with
  | OInvalid => ms ++ DP_TAIL
  | OAll => "bool_var" :: DP_TAIL
  | OAllMeasures => ms ++ "bool_var" :: DP_TAIL
  end.

Definition dp_row (o : dp_output) (rl : dprule) (r : list val * list val) (b : val) : list (list val * list val) :=
  let k := fst r ++ [VStr (r_name rl)] in
  match o with
  | OInvalid => if is_false b then [(k, snd r ++ [r_ec rl; r_el rl])] else []
  | OAll => [(k, [b; err_if_false b (r_ec rl); err_if_false b (r_el rl)])]
  | OAllMeasures => [(k, snd r ++ [b; err_if_false b (r_ec rl); err_if_false b (r_el rl)])]
  end.

Definition dp_rule_rows (sig : list (string * string)) (d : dset) (o : dp_output) (rl : dprule) : res (list (list val * list val)) :=
  bind (mapM (fun r => bind (rule_outcome sig d rl r) (fun b => Ok (dp_row o rl r b))) (d_rows d))
       (fun l => Ok (concat l)).

Definition d_check_datapoint (d : dset) (sig : list (string * string)) (rules : list dprule) (o : dp_output) : res dset :=
  bind (mapM (dp_rule_rows sig d o) rules)
       (fun l => Ok (mkD (d_ids d ++ ["ruleid"]) (dp_ms (d_ms d) o) (concat l))).

(* ================================================================= hierarchical rulesets *)
Inductive hexpr :=
| HItem (c : string)
| HAdd (a b : hexpr)
| HSub (a b : hexpr)
| HNeg (a : hexpr)
| HPos (a : hexpr).

Record hrule := mkH { h_name : string; h_left : string; h_cmp : binop; h_right : hexpr; h_ec : val; h_el : val }.

Inductive hmode := NonNull | NonZero | PartialNull | PartialZero | AlwaysNull | AlwaysZero.
Inductive hinput := IRule | IRulePriority | IDataset.
Inductive houtput := HComputed | HAll.

Definition zero_mode (m : hmode) : bool :=
  match m with NonZero | PartialZero | AlwaysZero => true | _ => false end.

Fixpoint hitems (e : hexpr) : list string :=
  match e with
  | HItem c => [c]
  | HAdd a b | HSub a b => hitems a ++ hitems b
  | HNeg a | HPos a => hitems a
  end.

(* state of one group (fixed values of the other identifiers): code item -> measure value; an item without datapoint is absent *)
Definition hstate := list (string * val).

(* a missing item counts as null (…_null modes, non_null) or as zero (…_zero modes) *)
Definition item_val (m : hmode) (st : hstate) (c : string) : val :=
  match elook c st with
  | Some v => v
  | None => if zero_mode m then VInt 0 else VNull
  end.

(* total value-level arithmetic / comparison on numeric measures (ill-typed applications are excluded by typing) *)
Definition ar (op : binop) (a b : val) : val := match arith op a b with Ok v => v | Err _ => VNull end.
Definition cmpv (op : binop) (a b : val) : val := match compare_op op a b with Ok v => v | Err _ => VNull end.
Definition negv (a : val) : val := match unop_val Neg a with Ok v => v | Err _ => VNull end.

Fixpoint heval (m : hmode) (st : hstate) (e : hexpr) : val :=
  match e with
  | HItem c => item_val m st c
  | HAdd a b => ar Add (heval m st a) (heval m st b)
  | HSub a b => ar Sub (heval m st a) (heval m st b)
  | HNeg a => negv (heval m st a)
  | HPos a => heval m st a
  end.

Definition present (st : hstate) (c : string) : bool := match elook c st with Some _ => true | None => false end.
Definition present_nn (st : hstate) (c : string) : bool :=
  match elook c st with Some v => negb (is_null v) | None => false end.
Definition is_zero (v : val) : bool :=
  match v with VInt z => Z.eqb z 0 | VNum q => q_is_zero q | _ => false end.

(* does the rule produce a result datapoint in this group?  (validation: items = left and right items) *)
Definition chk_applicable (m : hmode) (st : hstate) (rl : hrule) : bool :=
  let items := h_left rl :: hitems (h_right rl) in
  match m with
  | NonNull => forallb (present_nn st) items
  | NonZero => negb (is_zero (item_val m st (h_left rl)) && is_zero (heval m st (h_right rl)))
  | PartialNull | PartialZero => existsb (present_nn st) items
  | AlwaysNull | AlwaysZero => existsb (present st) items
  end.

Inductive chk_output := CInvalid | CAll | CAllMeasures.

Definition chk_ms (me : string) (o : chk_output) : list string :=
  match o with
  | CInvalid => [me; "imbalance"; "errorcode"; "errorlevel"]
  | CAll => ["bool_var"; "imbalance"; "errorcode"; "errorlevel"]
  | CAllMeasures => [me; "bool_var"; "imbalance"; "errorcode"; "errorlevel"]
  end.

Definition chk_bool (m : hmode) (st : hstate) (rl : hrule) : val :=
  cmpv (h_cmp rl) (item_val m st (h_left rl)) (heval m st (h_right rl)).
Definition chk_imbalance (m : hmode) (st : hstate) (rl : hrule) : val :=
  ar Sub (item_val m st (h_left rl)) (heval m st (h_right rl)).

Definition chk_row (m : hmode) (o : chk_output) (g : list val) (st : hstate) (rl : hrule) : list (list val * list val) :=
  if negb (chk_applicable m st rl) then [] else
  let l := item_val m st (h_left rl) in
  let b := chk_bool m st rl in
  let imb := chk_imbalance m st rl in
  let k := g ++ [VStr (h_left rl); VStr (h_name rl)] in
  match o with
  | CInvalid => if is_false b then [(k, [l; imb; h_ec rl; h_el rl])] else []
  | CAll => [(k, [b; imb; err_if_false b (h_ec rl); err_if_false b (h_el rl)])]
  | CAllMeasures => [(k, [l; b; imb; err_if_false b (h_ec rl); err_if_false b (h_el rl)])]
  end.

(* ---- pivot: a datapoint is (values of the other identifiers, code item, measure value); code-item identifier LAST *)
Definition hpoint := (list val * string * val)%type.

Definition hsplit (r : list val * list val) : option hpoint :=
  match rev (fst r), snd r with
  | VStr c :: g, [v] => Some (rev g, c, v)
  | _, _ => None
  end.

Definition hpoints (d : dset) : res (list hpoint) :=
  mapM (fun r => match hsplit r with Some p => Ok p | None => Err "1-1-10-1" end) (d_rows d).

Fixpoint group_keys (pts : list hpoint) : list (list val) :=
  match pts with
  | [] => []
  | (g, _, _) :: t => let rest := group_keys t in if existsb (key_eqb g) rest then rest else g :: rest
  end.

Definition group_state (g : list val) (pts : list hpoint) : hstate :=
  map (fun p => (snd (fst p), snd p)) (filter (fun p => key_eqb g (fst (fst p))) pts).

Definition last_s (l : list string) : string := List.last l "".

Definition d_check_hierarchy (d : dset) (rules : list hrule) (m : hmode) (o : chk_output) : res dset :=
  match d_ms d with
  | [me] =>
      bind (hpoints d) (fun pts =>
        Ok (mkD (d_ids d ++ ["ruleid"]) (chk_ms me o)
              (flat_map (fun rl => flat_map (fun g => chk_row m o g (group_state g pts) rl) (group_keys pts)) rules)))
  | _ => Err "1-1-10-1"
  end.

(* ---- hierarchy: the `=` rules evaluated in dependency order, each on the state left by the previous ones *)
Definition is_eq_rule (rl : hrule) : bool := match h_cmp rl with Eq => true | _ => false end.

(* dependency order: repeatedly take the first remaining rule none of whose right-side items is the left side of another
   remaining rule; `fuel` = number of rules.  With a cyclic rule graph the remaining rules are left out (the engine
   rejects such rulesets) *)
Definition ready (rest : list hrule) (rl : hrule) : bool :=
  forallb (fun c => negb (existsb (fun r2 => String.eqb c (h_left r2) && negb (String.eqb (h_name r2) (h_name rl))) rest)) (hitems (h_right rl)).

Fixpoint take_first {A} (f : A -> bool) (l : list A) : option (A * list A) :=
  match l with
  | [] => None
  | x :: t => if f x then Some (x, t) else
              match take_first f t with Some (y, t') => Some (y, x :: t') | None => None end
  end.

Fixpoint hr_sort (fuel : nat) (rest : list hrule) : list hrule :=
  match fuel with
  | O => []
  | S k => match take_first (ready rest) rest with
           | Some (rl, rest') => rl :: hr_sort k rest'
           | None => []
           end
  end.

Definition hier_applicable (m : hmode) (st : hstate) (rl : hrule) : bool :=
  let items := hitems (h_right rl) in
  existsb (present st) items &&
  match m with
  | NonNull => forallb (present_nn st) items
  | NonZero => negb (forallb (fun c => is_zero (item_val m st c)) items)
  | PartialNull | PartialZero => existsb (present_nn st) items
  | AlwaysNull | AlwaysZero => true
  end.

(* which computed values become result datapoints *)
Definition hier_emit (m : hmode) (v : val) : bool :=
  match m with
  | NonNull => negb (is_null v)
  | NonZero => negb (is_zero v)
  | _ => true
  end.

Fixpoint set_item (c : string) (v : val) (st : hstate) : hstate :=
  match st with
  | [] => [(c, v)]
  | (k, x) :: t => if String.eqb c k then (k, v) :: t else (k, x) :: set_item c v t
  end.

(* the computed value becomes visible to the following rules: always (rule), only when it is not null (rule_priority:
   otherwise the value of the operand stays; an absent item becomes present with a null value) *)
Definition hier_update (im : hinput) (st : hstate) (c : string) (v : val) : hstate :=
  match im with
  | IRulePriority => if is_null v then (if present st c then st else set_item c VNull st) else set_item c v st
  | _ => set_item c v st
  end.

(* one group: returns the final state and the computed (item, value) pairs that are emitted.
   `chain` = false: every rule reads the values of the operand only (input mode `dataset` of the manual) *)
Fixpoint hier_group (m : hmode) (im : hinput) (chain : bool) (st0 st : hstate) (rules : list hrule) : hstate * list (string * val) :=
  match rules with
  | [] => (st, [])
  | rl :: t =>
      let src := if chain then st else st0 in
      if hier_applicable m src rl then
        let v := heval m src (h_right rl) in
        let r := hier_group m im chain st0 (hier_update im st (h_left rl) v) t in
        (fst r, if hier_emit m v then (h_left rl, v) :: snd r else snd r)
      else hier_group m im chain st0 st t
  end.

Definition hier_computed (m : hmode) (im : hinput) (chain : bool) (pts : list hpoint) (rules : list hrule) : list (list val * list val) :=
  flat_map (fun g => map (fun cv => (g ++ [VStr (fst cv)], [snd cv]))
                         (snd (hier_group m im chain (group_state g pts) (group_state g pts) rules)))
           (group_keys pts).

Definition d_hierarchy_gen (impl : bool) (d : dset) (rules : list hrule) (m : hmode) (im : hinput) (o : houtput) : res dset :=
  match d_ms d with
  | [_] =>
      bind (hpoints d) (fun pts =>
        let eqs := filter is_eq_rule rules in
        let sorted := hr_sort (List.length eqs) eqs in
        let chain := match im with IDataset => impl | _ => true end in
        let comp := hier_computed m im chain pts sorted in
        Ok (mkD (d_ids d) (d_ms d)
              (match o with
               | HComputed => comp
               | HAll => filter (fun r => negb (has_key (fst r) comp)) (d_rows d) ++ comp
               end)))
  | _ => Err "1-1-10-1"
  end.

Definition d_hierarchy := d_hierarchy_gen false.
(* the engine: input mode `dataset` is evaluated exactly like `rule` *)
Definition d_hierarchy_impl := d_hierarchy_gen true.
