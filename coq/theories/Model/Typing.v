(* Typing judgement of the component-expression language (Model/Expr.v `cexpr`), DEFINED through the promotion functions of
   Model/Promote.v instantiated with the tables regenerated from the code (Gen/Types.v: implicit-promotion table, subclass pairs,
   operator registry with type_to_check / return_type).  `ctype true` is the rule the code applies (hand transcription of the
   operator classes' validate methods for the non-generic operators: If, Nvl, Between, In, Round/Trunc, Substr); `ctype false` is the
   specification where they differ (If.validate swaps the operands of the promotion when only the then-branch is a literal).
   Definitions only. *)
From Coq Require Import ZArith QArith String List Bool.
Import ListNotations.
From VTL Require Import Base.Val Model.Types Model.Promote Model.Scalar Model.Expr Gen.Types.
Open Scope string_scope.

Definition subclass_code (a b : ty) : bool := existsb (fun p => ty_eqb (fst p) a && ty_eqb (snd p) b) subclass_pairs.

(* the implicit table without Boolean -> String (used for the progress theorem: the value functions of Model/Scalar.v do not
   coerce booleans to strings except in `||`) *)
Definition implicit_strict (t : ty) : list ty :=
  match t with TBoolean => [TBoolean] | _ => implicit_code t end.

Section Typing.
  Variable implicit : ty -> list ty.
  Variable impl : bool.       (* true: the code's rule; false: the specification *)

  Definition bpromo := binary_promotion implicit subclass_code.
  Definition upromo := unary_promotion implicit subclass_code.
  Definition bcheck := check_binary implicit.
  Definition accepts (l r : ty) : bool := match bpromo l r None (Some TBoolean) with Some _ => true | None => false end.

  Definition op_sig (name : string) : option (option ty * option ty) :=
    option_map (fun o => (o_tc o, o_rt o)) (find (fun o => String.eqb (o_name o) name) registry).

  Definition binop_name (op : binop) : string :=
    match op with
    | Add => "Numeric.BinPlus" | Sub => "Numeric.BinMinus" | Mul => "Numeric.Mult" | Div => "Numeric.Div"
    | Mod => "Numeric.Modulo" | Power => "Numeric.Power"
    | Eq => "Comparison.Equal" | Neq => "Comparison.NotEqual" | Gt => "Comparison.Greater" | Ge => "Comparison.GreaterEqual"
    | Lt => "Comparison.Less" | Le => "Comparison.LessEqual"
    | And => "Boolean.And" | Or => "Boolean.Or" | Xor => "Boolean.Xor"
    | Concat => "String.Concatenate"
    end.

  Definition unop_name (op : unop) : string :=
    match op with
    | Neg => "Numeric.UnMinus" | Pos => "Numeric.UnPlus" | Not => "Boolean.Not" | Abs => "Numeric.AbsoluteValue"
    | Ceil => "Numeric.Ceil" | Floor => "Numeric.Floor" | IsNull => "Comparison.IsNull"
    | Len => "String.Length" | Trim => "String.Trim" | Ltrim => "String.Ltrim" | Rtrim => "String.Rtrim"
    | Upper => "String.Upper" | Lower => "String.Lower"
    end.

  Definition ty_of_val (v : val) : ty :=
    match v with VNull => TNull | VInt _ => TInteger | VNum _ => TNumber | VStr _ => TString | VBool _ => TBoolean end.

  (* a literal collection `{v1, v2, …}`: non-empty, all literals of one type *)
  Definition lits_ty (l : list val) : option ty :=
    match l with
    | [] => None
    | v :: t => if forallb (fun x => ty_eqb (ty_of_val x) (ty_of_val v)) t then Some (ty_of_val v) else None
    end.

  Definition tenv := list (string * ty).
  Fixpoint tlook (n : string) (G : tenv) : option ty :=
    match G with [] => None | (k, t) :: r => if String.eqb n k then Some t else tlook n r end.

  Definition is_lit (c : cexpr) : bool := match c with CLit _ => true | _ => false end.

  Definition obind {A B} (o : option A) (f : A -> option B) : option B := match o with Some a => f a | None => None end.

  Fixpoint ctype (G : tenv) (c : cexpr) : option ty :=
    match c with
    | CCol n => tlook n G
    | CLit v => Some (ty_of_val v)
    | CBin op a b =>
        obind (ctype G a) (fun l => obind (ctype G b) (fun r => obind (op_sig (binop_name op)) (fun s => bpromo l r (fst s) (snd s))))
    | CUn op a =>
        obind (ctype G a) (fun o => obind (op_sig (unop_name op)) (fun s => upromo o (fst s) (snd s)))
    | CIf c t e =>
        obind (ctype G c) (fun tc => obind (ctype G t) (fun tt => obind (ctype G e) (fun te =>
          if ty_eqb tc TBoolean then
            (* If.validate: a scalar then-branch with a non-scalar else-branch swaps the operands of the promotion *)
            if impl && is_lit t && negb (is_lit e) then bpromo te tt None None else bpromo tt te None None
          else None)))
    | CNvl a b =>
        obind (ctype G a) (fun l => obind (ctype G b) (fun r =>
          bpromo l r None None))
    | CBetween a lo hi =>
        obind (ctype G a) (fun ta => obind (ctype G lo) (fun tl => obind (ctype G hi) (fun th =>
          (* Between.validate: type_validation(operand, from) and (operand, to) with type_to_check None, return_type Boolean *)
          if accepts ta tl && accepts ta th then Some TBoolean else None)))
    | CIn a l | CNotIn a l =>
        obind (ctype G a) (fun ta => obind (lits_ty l) (fun ts => bpromo ta ts None (Some TBoolean)))
    | CRound a n | CTrunc a n =>
        obind (ctype G a) (fun o => upromo o (Some TNumber) (Some (match n with None => TInteger | Some _ => TNumber end)))
    | CSubstr a _ _ =>
        obind (ctype G a) (fun o => upromo o (Some TString) (Some TString))
    end.
End Typing.

(* the rule nvl had before the repair (the LEFT operand's type); kept as a regression witness *)
Definition nvl_type_before_fix (l r : ty) : option ty :=
  match binary_promotion implicit_code subclass_code l r None None with Some _ => Some l | None => None end.

Definition ctype_code := ctype implicit_code true.
Definition ctype_spec := ctype implicit_code false.
Definition ctype_strict := ctype implicit_strict false.

(* which values inhabit which type: null inhabits every type; an Integer value inhabits Number and a Boolean value inhabits
   String (implicit promotions keep the representation) *)
Definition has_ty_s (strict : bool) (v : val) (t : ty) : bool :=
  match v, t with
  | VNull, _ => true
  | VInt _, (TInteger | TNumber) => true
  | VNum _, TNumber => true
  | VStr _, TString => true
  | VBool _, TBoolean => true
  | VBool _, TString => negb strict
  | _, _ => false
  end.
Definition has_ty := has_ty_s false.
Definition implicit_of (strict : bool) : ty -> list ty := if strict then implicit_strict else implicit_code.

Fixpoint env_typed_s (strict : bool) (G : tenv) (e : env) : Prop :=
  match G with
  | [] => True
  | (n, t) :: r => (exists v, elook n e = Some v /\ has_ty_s strict v t = true) /\ env_typed_s strict r e
  end.
Definition env_typed := env_typed_s false.

(* expressions outside the value model of Model/Scalar.v (mod and power on non-integers) *)
Fixpoint supported (c : cexpr) : bool :=
  match c with
  | CCol _ | CLit _ => true
  | CBin op a b => (match op with Mod | Power => false | _ => true end) && supported a && supported b
  | CUn _ a => supported a
  | CIf a b d => supported a && supported b && supported d
  | CNvl a b => supported a && supported b
  | CBetween a b d => supported a && supported b && supported d
  | CIn a _ | CNotIn a _ | CRound a _ | CTrunc a _ | CSubstr a _ _ => supported a
  end.

(* typing of the dataset produced by calc: the measure list after calc with the type of every component *)
Definition calc_types (impl : bool) (G : tenv) (defs : list (string * cexpr)) : option (list (string * ty)) :=
  fold_right (fun d acc => obind acc (fun l => obind (ctype implicit_code impl G (snd d)) (fun t => Some ((fst d, t) :: l)))) (Some []) defs.
