(* C27 — SDMX structures map to VTL structures.  Executable definitions only (no proofs).
   to_vtl_json of files/sdmx_handler.py as a map over the components of a pysdmx structure.  The two mapping tables are
   arguments (instantiated in Props/C27.v with the dicts dumped from the code).
   Two variants: `_spec` (a data type the engine cannot map is rejected with an input-validation error) and `_impl`
   (faithful: the dicts are indexed directly, so an unmapped key escapes as a raw KeyError). *)
From Coq Require Import String List Bool.
Import ListNotations.
Open Scope string_scope.

Inductive srole := Dimension | Measure | Attribute.            (* pysdmx.model.Role *)

Record scomp := mkS { sc_id : string; sc_role : srole; sc_dtype : string }.      (* pysdmx Component: id, role, dtype value *)
Record vcomp := mkV { vc_name : string; vc_role : string; vc_type : string; vc_nullable : bool }.   (* VTL JSON component *)

Inductive outcome :=
  | Converted (cs : list vcomp)
  | InputValidation                       (* vtlengine InputValidationException *)
  | RawKeyErr (k : string)              (* raw Python KeyError escaping *)
  | OtherFailure (what : string).         (* anything else observed by the translator (never produced by the model) *)

Definition role_name (r : srole) : string :=
  match r with Dimension => "DIMENSION" | Measure => "MEASURE" | Attribute => "ATTRIBUTE" end.
Definition all_roles : list srole := [Dimension; Measure; Attribute].
Definition is_dim (r : srole) : bool := match r with Dimension => true | _ => false end.
Definition is_meas (r : srole) : bool := match r with Measure => true | _ => false end.
Definition is_attr (r : srole) : bool := match r with Attribute => true | _ => false end.

Fixpoint lookup (k : string) (m : list (string * string)) : option string :=
  match m with [] => None | (k', v) :: t => if String.eqb k k' then Some v else lookup k t end.

(* `_components` = structure.components.dimensions ++ .measures ++ .attributes (each a filter on the role) *)
Definition grouped (cs : list scomp) : list scomp :=
  filter (fun c => is_dim (sc_role c)) cs ++ filter (fun c => is_meas (sc_role c)) cs ++ filter (fun c => is_attr (sc_role c)) cs.

Section Convert.
  Variable dmap : list (string * string).      (* VTL_DTYPES_MAPPING *)
  Variable rmap : list (string * string).      (* VTL_ROLE_MAPPING, keyed by the Role member name *)
  Variable on_unmapped : string -> outcome.    (* what an unmapped key leads to *)

  (* one component: type first, then nullability, then role — the order of the three statements in the loop *)
  Definition conv1 (c : scomp) : outcome + vcomp :=
    match lookup (sc_dtype c) dmap with
    | None => inl (on_unmapped (sc_dtype c))
    | Some t =>
        match lookup (role_name (sc_role c)) rmap with
        | None => inl (on_unmapped (role_name (sc_role c)))
        | Some r => inr (mkV (sc_id c) r t (negb (is_dim (sc_role c))))
        end
    end.

  Fixpoint conv_list (cs : list scomp) : outcome + list vcomp :=
    match cs with
    | [] => inr []
    | c :: t =>
        match conv1 c with
        | inl o => inl o
        | inr v => match conv_list t with inl o => inl o | inr vs => inr (v :: vs) end
        end
    end.

  Definition to_vtl_json (cs : list scomp) : outcome :=
    match conv_list (grouped cs) with inl o => o | inr vs => Converted vs end.
End Convert.

Definition to_vtl_json_impl dmap rmap := to_vtl_json dmap rmap (fun k => RawKeyErr k).
Definition to_vtl_json_spec dmap rmap := to_vtl_json dmap rmap (fun _ => InputValidation).

(* --- comparison helpers for the regenerated tables *)
Definition srole_eqb (a b : srole) : bool :=
  match a, b with Dimension, Dimension | Measure, Measure | Attribute, Attribute => true | _, _ => false end.
Definition vcomp_eqb (a b : vcomp) : bool :=
  String.eqb (vc_name a) (vc_name b) && String.eqb (vc_role a) (vc_role b) && String.eqb (vc_type a) (vc_type b) &&
  Bool.eqb (vc_nullable a) (vc_nullable b).
Fixpoint list_eqb {A} (eqb : A -> A -> bool) (a b : list A) : bool :=
  match a, b with [] , [] => true | x :: s, y :: t => eqb x y && list_eqb eqb s t | _, _ => false end.
Definition outcome_eqb (a b : outcome) : bool :=
  match a, b with
  | Converted x, Converted y => list_eqb vcomp_eqb x y
  | InputValidation, InputValidation => true
  | RawKeyErr x, RawKeyErr y => String.eqb x y
  | OtherFailure x, OtherFailure y => String.eqb x y
  | _, _ => false
  end.
Definition ooutcome_eqb (a b : option outcome) : bool :=
  match a, b with Some x, Some y => outcome_eqb x y | None, None => true | _, _ => false end.
Definition ostring_eqb (a b : option string) : bool :=
  match a, b with Some x, Some y => String.eqb x y | None, None => true | _, _ => false end.

Fixpoint assoc_single (k : string * srole) (l : list ((string * srole) * outcome)) : option outcome :=
  match l with
  | [] => None
  | ((d, r), v) :: t => if String.eqb (fst k) d && srole_eqb (snd k) r then Some v else assoc_single k t
  end.

Fixpoint lookup_role (k : string) (m : list (string * (string * bool))) : option (string * bool) :=
  match m with [] => None | (k', v) :: t => if String.eqb k k' then Some v else lookup_role k t end.

Definition mem_string (x : string) (l : list string) : bool := existsb (String.eqb x) l.
