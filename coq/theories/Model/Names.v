(* C29: names are compared exactly by VTL (and by the specification functions of Model/Expr.v); the engine stores datasets in
   a catalog whose name lookup ignores letter case.  Definitions only. *)
From Coq Require Import String Ascii List Bool.
Import ListNotations.
From VTL Require Import Base.Val Model.Scalar.

Definition lower_s (s : string) : string := map_s low_c s.
Definition same_upto_case (a b : string) : bool := String.eqb (lower_s a) (lower_s b).

(* a case-insensitive catalog: creating a table whose column names collide up to case fails *)
Fixpoint has_ci_dup (names : list string) : bool :=
  match names with
  | [] => false
  | n :: t => existsb (same_upto_case n) t || has_ci_dup t
  end.
Inductive catalog_result := Created | CatalogError.
Definition create_table_ci (cols : list string) : catalog_result := if has_ci_dup cols then CatalogError else Created.
(* the specification: exact names; only exact duplicates collide *)
Fixpoint has_dup (names : list string) : bool :=
  match names with
  | [] => false
  | n :: t => existsb (String.eqb n) t || has_dup t
  end.
Definition create_table_exact (cols : list string) : catalog_result := if has_dup cols then CatalogError else Created.
