(* Static structure prediction (the model of the semantic pass for the subset of Model/Expr.v): names of the identifier
   and non-identifier components of the result of an expression, computed from the structures of the inputs only.
   And the data-level well-formedness predicate `conforms`.  Definitions only. *)
From Coq Require Import ZArith String List Bool.
Import ListNotations.
From VTL Require Import Base.Val Model.Table Model.Scalar Model.Expr.
Open Scope string_scope.
Open Scope list_scope.

Definition sig := (list string * list string)%type.      (* identifier names, other component names *)
Definition senv := list (string * sig).
Fixpoint slook (n : string) (e : senv) : option sig :=
  match e with [] => None | (k, v) :: t => if String.eqb n k then Some v else slook n t end.

Fixpoint names_of (e : senv) (x : dexpr) : res sig :=
  match x with
  | DVar n => match slook n e with Some s => Ok s | None => Err "1-2-2" end
  | DBin _ a b =>
      bind (names_of e a) (fun sa => bind (names_of e b) (fun sb =>
        if negb (subset_s (snd sa) (snd sb) && subset_s (snd sb) (snd sa)) then Err "1-1-14-1"
        else if subset_s (fst sb) (fst sa) then Ok (fst sa, snd sa)
        else if subset_s (fst sa) (fst sb) then Ok (fst sb, snd sa)
        else Err "1-1-14-5"))
  | DSet _ a b =>
      (* set operators: both operands must have the same identifier names and the same other component names (as sets);
         the result has the structure — names AND order — of the first operand *)
      bind (names_of e a) (fun sa => bind (names_of e b) (fun sb =>
        if negb (same_names (fst sa) (fst sb) && same_names (snd sa) (snd sb) && nodup_s (fst sb)) then Err ERR_SET_STRUCT
        else Ok sa))
  | DMap a _ | DFilter a _ => names_of e a
  | DCalc a defs => bind (names_of e a) (fun s =>
        if existsb (fun df => mem_s (fst df) (fst s)) defs then Err "1-1-6-13" else Ok (fst s, calc_names (snd s) defs))
  | DKeep a l => bind (names_of e a) (fun s => Ok (fst s, filter (fun n => mem_s n l) (snd s)))
  | DDrop a l => bind (names_of e a) (fun s => Ok (fst s, filter (fun n => negb (mem_s n l)) (snd s)))
  | DRename a l => bind (names_of e a) (fun s => Ok (map (ren l) (fst s), map (ren l) (snd s)))
  | DSub a l => bind (names_of e a) (fun s => Ok (filter (fun n => negb (mem_s n (map fst l))) (fst s), snd s))
  end.

Definition sig_of (d : dset) : sig := (d_ids d, d_ms d).
Definition senv_of (e : denv) : senv := map (fun p => (fst p, sig_of (snd p))) e.

(* data-level conformance to a predicted signature: one value per predicted component in every datapoint, identifiers
   never null, one datapoint per identifier key (hence at most one datapoint when there are no identifiers) *)
Definition conforms (d : dset) (s : sig) : bool :=
  forallb (fun r => Nat.eqb (List.length (fst r)) (List.length (fst s)) && Nat.eqb (List.length (snd r)) (List.length (snd s))) (d_rows d)
  && no_null_key (d_rows d) && uniq_keys (d_rows d).
