(* Value-level semantics of the VTL scalar operators of the modelled subset: arithmetic, comparison, three-valued
   boolean logic, strings (ASCII), membership, conditionals, numeric functions with exact results.
   Integers are Z, Numbers exact rationals.  `Err "2-1-15-6"` is the VTL division-by-zero runtime error;
   `Err "type"` marks an ill-typed application (excluded by well-typedness).  Definitions only. *)
From Coq Require Import ZArith QArith Qround Qreduction Qabs String Ascii List Bool.
Import ListNotations.
From VTL Require Import Base.Val.
Open Scope Z_scope.

Inductive binop :=
| Add | Sub | Mul | Div | Mod
| Eq | Neq | Gt | Ge | Lt | Le
| And | Or | Xor
| Concat
| Power.

Inductive unop :=
| Neg | Pos | Not | Abs | Ceil | Floor | IsNull
| Len | Trim | Ltrim | Rtrim | Upper | Lower.

Definition ERR_DIV0 : string := "2-1-15-6".
Definition ERR_TYPE : string := "type".

(* ---- numbers *)
Definition qn (q : Q) : val := VNum (Qred q).
Definition to_q (v : val) : option Q :=
  match v with VInt z => Some (inject_Z z) | VNum q => Some q | _ => None end.

Definition q_is_zero (q : Q) : bool := Z.eqb (Qnum q) 0.

(* round half away from zero to n >= 0 decimals; trunc toward zero *)
Definition pow10 (n : Z) : Q := inject_Z (10 ^ (Z.max 0 n)).
Definition q_round (q : Q) (n : Z) : Q :=
  let s := (q * pow10 n)%Q in
  let h := (1 # 2)%Q in
  let r := if Qle_bool 0 s then Qfloor (s + h)%Q else (- Qfloor ((- s) + h)%Q)%Z in
  (inject_Z r / pow10 n)%Q.
Definition q_trunc (q : Q) (n : Z) : Q :=
  let s := (q * pow10 n)%Q in
  let r := if Qle_bool 0 s then Qfloor s else (- Qfloor (- s)%Q)%Z in
  (inject_Z r / pow10 n)%Q.

Definition arith (op : binop) (a b : val) : res val :=
  match a, b with
  | VNull, (VNull | VInt _ | VNum _) | (VInt _ | VNum _), VNull =>
      (* null propagates; a zero divisor is still an error when it is the known operand *)
      match op, b with
      | Div, VInt 0 => Err ERR_DIV0
      | Div, VNum q => if q_is_zero q then Err ERR_DIV0 else Ok VNull
      | _, _ => Ok VNull
      end
  | VInt x, VInt y =>
      match op with
      | Add => Ok (VInt (x + y)) | Sub => Ok (VInt (x - y)) | Mul => Ok (VInt (x * y))
      | Div => if Z.eqb y 0 then Err ERR_DIV0 else Ok (qn (inject_Z x / inject_Z y))
      | Mod => Ok (VInt (Z.rem x y))      (* as computed by the engine on non-negative operands; see DESIGN C01 *)
      | Power => if Z.leb 0 y then Ok (qn (inject_Z (x ^ y))) else Err ERR_TYPE
      | _ => Err ERR_TYPE
      end
  | _, _ =>
      match to_q a, to_q b with
      | Some x, Some y =>
          match op with
          | Add => Ok (qn (x + y)) | Sub => Ok (qn (x - y)) | Mul => Ok (qn (x * y))
          | Div => if q_is_zero y then Err ERR_DIV0 else Ok (qn (x / y))
          | _ => Err ERR_TYPE
          end
      | _, _ => Err ERR_TYPE
      end
  end.

(* ---- comparison (null propagates) *)
Fixpoint str_ltb (a b : string) : bool :=
  match a, b with
  | EmptyString, EmptyString => false
  | EmptyString, String _ _ => true
  | String _ _, EmptyString => false
  | String x a', String y b' =>
      let nx := nat_of_ascii x in let ny := nat_of_ascii y in
      if Nat.ltb nx ny then true else if Nat.ltb ny nx then false else str_ltb a' b'
  end.

Definition cmp_lt (a b : val) : option bool :=
  match a, b with
  | VStr x, VStr y => Some (str_ltb x y)
  | VBool x, VBool y => Some (negb x && y)
  | _, _ => match to_q a, to_q b with
            | Some x, Some y => Some (negb (Qle_bool y x))
            | _, _ => None
            end
  end.
Definition cmp_eq (a b : val) : option bool :=
  match a, b with
  | VStr x, VStr y => Some (String.eqb x y)
  | VBool x, VBool y => Some (Bool.eqb x y)
  | _, _ => match to_q a, to_q b with
            | Some x, Some y => Some (Qeq_bool x y)
            | _, _ => None
            end
  end.

Definition compare_op (op : binop) (a b : val) : res val :=
  if is_null a || is_null b then Ok VNull else
  let ob :=
    match op with
    | Eq => cmp_eq a b
    | Neq => option_map negb (cmp_eq a b)
    | Lt => cmp_lt a b
    | Gt => cmp_lt b a
    | Le => option_map negb (cmp_lt b a)
    | Ge => option_map negb (cmp_lt a b)
    | _ => None
    end in
  match ob with Some r => Ok (VBool r) | None => Err ERR_TYPE end.

(* ---- three-valued (Kleene) logic: None = null *)
Definition tv (v : val) : option (option bool) :=
  match v with VNull => Some None | VBool b => Some (Some b) | _ => None end.
Definition of_tv (o : option bool) : val := match o with Some b => VBool b | None => VNull end.

Definition k_and (a b : option bool) : option bool :=
  match a, b with
  | Some false, _ | _, Some false => Some false
  | Some true, Some true => Some true
  | _, _ => None
  end.
Definition k_or (a b : option bool) : option bool :=
  match a, b with
  | Some true, _ | _, Some true => Some true
  | Some false, Some false => Some false
  | _, _ => None
  end.
Definition k_not (a : option bool) : option bool := option_map negb a.
Definition k_xor (a b : option bool) : option bool :=
  match a, b with Some x, Some y => Some (xorb x y) | _, _ => None end.

Definition bool_op (op : binop) (a b : val) : res val :=
  match tv a, tv b with
  | Some x, Some y =>
      match op with
      | And => Ok (of_tv (k_and x y)) | Or => Ok (of_tv (k_or x y)) | Xor => Ok (of_tv (k_xor x y))
      | _ => Err ERR_TYPE
      end
  | _, _ => Err ERR_TYPE
  end.

(* ---- strings (bytes; the correspondence keeps to ASCII) *)
Definition bool_str (b : bool) : string := if b then "True"%string else "False"%string.
Definition concat_op (a b : val) : res val :=
  let s v := match v with VStr x => Some x | VBool x => Some (bool_str x) | _ => None end in
  if is_null a || is_null b then Ok VNull else
  match s a, s b with Some x, Some y => Ok (VStr (x ++ y)) | _, _ => Err ERR_TYPE end.

Definition is_space (c : ascii) : bool := Ascii.eqb c " "%char.
Fixpoint ltrim_s (s : string) : string :=
  match s with String c t => if is_space c then ltrim_s t else s | EmptyString => EmptyString end.
Fixpoint rev_s (s acc : string) : string := match s with String c t => rev_s t (String c acc) | EmptyString => acc end.
Definition rtrim_s (s : string) : string := rev_s (ltrim_s (rev_s s EmptyString)) EmptyString.
Definition up_c (c : ascii) : ascii :=
  let n := nat_of_ascii c in if (Nat.leb 97 n && Nat.leb n 122)%bool then ascii_of_nat (n - 32) else c.
Definition low_c (c : ascii) : ascii :=
  let n := nat_of_ascii c in if (Nat.leb 65 n && Nat.leb n 90)%bool then ascii_of_nat (n + 32) else c.
Fixpoint map_s (f : ascii -> ascii) (s : string) : string :=
  match s with String c t => String (f c) (map_s f t) | EmptyString => EmptyString end.

Definition binop_val (op : binop) (a b : val) : res val :=
  match op with
  | Add | Sub | Mul | Div | Mod | Power => arith op a b
  | Eq | Neq | Gt | Ge | Lt | Le => compare_op op a b
  | And | Or | Xor => bool_op op a b
  | Concat => concat_op a b
  end.

Definition unop_val (op : unop) (a : val) : res val :=
  match op, a with
  | IsNull, _ => Ok (VBool (is_null a))
  | Not, _ => match tv a with Some x => Ok (of_tv (k_not x)) | None => Err ERR_TYPE end
  | _, VNull => Ok VNull
  | Neg, VInt x => Ok (VInt (- x)) | Neg, VNum q => Ok (qn (- q))
  | Pos, VInt _ | Pos, VNum _ => Ok a
  | Abs, VInt x => Ok (VInt (Z.abs x)) | Abs, VNum q => Ok (qn (Qabs q))
  | Ceil, VInt x => Ok (VInt x) | Ceil, VNum q => Ok (VInt (Qceiling q))
  | Floor, VInt x => Ok (VInt x) | Floor, VNum q => Ok (VInt (Qfloor q))
  | Len, VStr s => Ok (VInt (Z.of_nat (String.length s)))
  | Trim, VStr s => Ok (VStr (rtrim_s (ltrim_s s)))
  | Ltrim, VStr s => Ok (VStr (ltrim_s s))
  | Rtrim, VStr s => Ok (VStr (rtrim_s s))
  | Upper, VStr s => Ok (VStr (map_s up_c s))
  | Lower, VStr s => Ok (VStr (map_s low_c s))
  | _, _ => Err ERR_TYPE
  end.

(* ---- parameterised / conditional operators *)
Definition round_val (a : val) (n : Z) : res val :=       (* round(x, n): Number; round(x): Integer *)
  match a with
  | VNull => Ok VNull
  | VInt x => Ok (qn (q_round (inject_Z x) n))
  | VNum q => Ok (qn (q_round q n))
  | _ => Err ERR_TYPE
  end.
Definition trunc_val (a : val) (n : Z) : res val :=
  match a with
  | VNull => Ok VNull
  | VInt x => Ok (qn (q_trunc (inject_Z x) n))
  | VNum q => Ok (qn (q_trunc q n))
  | _ => Err ERR_TYPE
  end.

Definition nvl_val (a b : val) : val := if is_null a then b else a.

(* between: null if ANY operand is null *)
Definition between_val (a lo hi : val) : res val :=
  if is_null a || is_null lo || is_null hi then Ok VNull else
  match cmp_lt a lo, cmp_lt hi a with
  | Some x, Some y => Ok (VBool (negb x && negb y))
  | _, _ => Err ERR_TYPE
  end.

(* in / not_in against a set of non-null literals: null operand gives null *)
Definition in_val (a : val) (l : list val) : res val :=
  if is_null a then Ok VNull else
  Ok (VBool (existsb (fun x => match cmp_eq a x with Some true => true | _ => false end) l)).
Definition not_in_val (a : val) (l : list val) : res val :=
  match in_val a l with Ok (VBool b) => Ok (VBool (negb b)) | r => r end.

(* substr(s, start, len) 1-based; start/len None = omitted *)
Fixpoint drop_s (n : nat) (s : string) : string :=
  match n, s with O, _ => s | S k, String _ t => drop_s k t | S _, EmptyString => EmptyString end.
Fixpoint take_s (n : nat) (s : string) : string :=
  match n, s with O, _ => EmptyString | S k, String c t => String c (take_s k t) | S _, EmptyString => EmptyString end.
Definition substr_val (a : val) (start len : option Z) : res val :=
  match a with
  | VNull => Ok VNull
  | VStr s =>
      let st := match start with Some z => Z.to_nat (z - 1) | None => O end in
      let r := drop_s st s in
      Ok (VStr (match len with Some l => take_s (Z.to_nat l) r | None => r end))
  | _ => Err ERR_TYPE
  end.

(* if-then-else at value level: a null condition selects the else branch *)
Definition if_val (c t e : val) : res val :=
  match c with
  | VBool true => Ok t
  | VBool false | VNull => Ok e
  | _ => Err ERR_TYPE
  end.
