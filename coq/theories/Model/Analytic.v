(* Analytic (window) functions of the VTL subset (C06): partitions, ordering inside a partition, frames, and the functions
   sum avg count min max median var_pop var_samp stddev_pop stddev_samp first_value last_value lag lead rank ratio_to_report,
   at dataset level (applied to every measure) and inside a calc clause (one component).
   A dataset is Model/Expr.v's `dset` (identifier names, other component names, rows = (identifier values, other values)).
   Ordering: lexicographic over the `order by` list, each key ascending or descending, built on Scalar.cmp_lt; nulls are placed
   LAST in both directions (as observed on DuckDB 1.5.5, default_null_order = NULLS LAST) and are peers of each other.
   stddev_* are specified through their square (the model returns the variance; the harness squares the engine's value).
   Definitions only. *)
From Coq Require Import ZArith QArith Qround Qreduction String List Bool PeanoNat.
Import ListNotations.
From VTL Require Import Base.Val Model.Table Model.Scalar Model.Expr.
Open Scope string_scope.
Open Scope list_scope.
Open Scope nat_scope.

Notation arow := (list val * list val)%type (only parsing).

(* ---------------------------------------------------------------- invocation *)
Inductive afun :=
| FSum | FAvg | FCount | FMin | FMax | FMedian
| FVarPop | FVarSamp
| FStddevPop | FStddevSamp            (* value = the SQUARE of the standard deviation *)
| FFirst | FLast
| FLag (n : nat) (dflt : val) | FLead (n : nat) (dflt : val)
| FRank | FRatio.

Inductive bound := UnbPrec | Prec (n : nat) | Cur | Foll (n : nat) | UnbFoll.
Inductive wmode := Rows | Range.
Record window := mkW { w_mode : wmode; w_lo : bound; w_hi : bound }.

(* partition by <identifiers>; order by <(component, descending?)>; optional window clause *)
Record aspec := mkA { a_part : list string; a_ord : list (string * bool); a_win : option window }.

(* the engine's AST constructor supplies this window when the clause is omitted *)
Definition default_window : window := mkW Rows UnbPrec Cur.
Definition eff_window (sp : aspec) : window := match a_win sp with Some w => w | None => default_window end.

(* ---------------------------------------------------------------- columns of a datapoint *)
Definition colv (d : dset) (r : arow) (n : string) : val :=
  match elook n (row_env d r) with Some v => v | None => VNull end.
Definition pkey (d : dset) (sp : aspec) (r : arow) : list val := map (colv d r) (a_part sp).
Definition okey (d : dset) (sp : aspec) (r : arow) : list val := map (colv d r) (map fst (a_ord sp)).

Definition same_part (d : dset) (sp : aspec) (r x : arow) : bool := key_eqb (pkey d sp x) (pkey d sp r).
Definition part_of (d : dset) (sp : aspec) (rows : list arow) (r : arow) : list arow := filter (same_part d sp r) rows.

(* ---------------------------------------------------------------- ordering *)
Definition nn_lt (a b : val) : bool := match cmp_lt a b with Some true => true | _ => false end.
Definition nn_eq (a b : val) : bool := match cmp_eq a b with Some true => true | _ => false end.

(* a strictly before b in direction desc; nulls last in both directions *)
Definition v_lt (desc : bool) (a b : val) : bool :=
  match a, b with
  | VNull, _ => false
  | _, VNull => true
  | _, _ => if desc then nn_lt b a else nn_lt a b
  end.
Definition v_eq (a b : val) : bool :=
  match a, b with
  | VNull, VNull => true
  | VNull, _ | _, VNull => false
  | _, _ => nn_eq a b
  end.

Fixpoint lex_lt (ds : list bool) (a b : list val) : bool :=
  match ds, a, b with
  | d :: ds', x :: a', y :: b' => if v_lt d x y then true else if v_eq x y then lex_lt ds' a' b' else false
  | _, _, _ => false
  end.

Definition row_lt (d : dset) (sp : aspec) (x y : arow) : bool :=
  lex_lt (map snd (a_ord sp)) (okey d sp x) (okey d sp y).

(* stable insertion sort *)
Fixpoint insert {A} (lt : A -> A -> bool) (x : A) (l : list A) : list A :=
  match l with
  | [] => [x]
  | y :: t => if lt y x then y :: insert lt x t else x :: y :: t
  end.
Definition isort {A} (lt : A -> A -> bool) (l : list A) : list A := fold_right (insert lt) [] l.

Definition sorted_part (d : dset) (sp : aspec) (rows : list arow) (r : arow) : list arow :=
  isort (row_lt d sp) (part_of d sp rows r).

(* position of the datapoint with identifier key k *)
Fixpoint pos_of (k : list val) (l : list arow) : nat :=
  match l with
  | [] => O
  | x :: t => if key_eqb k (fst x) then O else S (pos_of k t)
  end.

(* the order is total on a list: any two of its elements (at different positions) are strictly ordered one way or the other *)
Fixpoint total_on {A} (lt : A -> A -> bool) (l : list A) : bool :=
  match l with
  | [] => true
  | x :: t => forallb (fun y => lt x y || lt y x) t && total_on lt t
  end.
(* decidable hypothesis of the property: the order by list is total inside every partition *)
Definition total_order (d : dset) (sp : aspec) : bool :=
  forallb (fun r => total_on (row_lt d sp) (part_of d sp (d_rows d) r)) (d_rows d).

(* ---------------------------------------------------------------- frames *)
(* i = position of the current datapoint, j = position of a candidate, both in the sorted partition *)
Definition lo_ok (b : bound) (i j : nat) : bool :=
  match b with
  | UnbPrec => true
  | Prec n => i <=? j + n
  | Cur => i <=? j
  | Foll n => i + n <=? j
  | UnbFoll => false
  end.
Definition hi_ok (b : bound) (i j : nat) : bool :=
  match b with
  | UnbPrec => false
  | Prec n => j + n <=? i
  | Cur => j <=? i
  | Foll n => j <=? i + n
  | UnbFoll => true
  end.
Definition in_frame (lo hi : bound) (i j : nat) : bool := lo_ok lo i j && hi_ok hi i j.

(* keeps the elements whose position (counted from k) satisfies p, in order *)
Fixpoint ifilter {A} (p : nat -> bool) (k : nat) (l : list A) : list A :=
  match l with
  | [] => []
  | x :: t => if p k then x :: ifilter p (S k) t else ifilter p (S k) t
  end.
Definition frame_rows {A} (lo hi : bound) (i : nat) (S : list A) : list A := ifilter (in_frame lo hi i) O S.

(* range frames over one Integer/Number order key: dist = signed distance from the current datapoint's key to the candidate's,
   positive in the direction of the ordering *)
Definition qle (a b : Q) : bool := Qle_bool a b.
Definition range_lo_ok (b : bound) (dist : Q) : bool :=
  match b with
  | UnbPrec => true
  | Prec n => qle (- inject_Z (Z.of_nat n))%Q dist
  | Cur => qle 0%Q dist
  | Foll n => qle (inject_Z (Z.of_nat n)) dist
  | UnbFoll => false
  end.
Definition range_hi_ok (b : bound) (dist : Q) : bool :=
  match b with
  | UnbPrec => false
  | Prec n => qle dist (- inject_Z (Z.of_nat n))%Q
  | Cur => qle dist 0%Q
  | Foll n => qle dist (inject_Z (Z.of_nat n))
  | UnbFoll => true
  end.
Definition in_range (desc : bool) (lo hi : bound) (kr kx : val) : bool :=
  match to_q kr, to_q kx with
  | Some a, Some b =>
      let dist := if desc then (a - b)%Q else (b - a)%Q in
      range_lo_ok lo dist && range_hi_ok hi dist
  | _, _ => is_null kr && is_null kx
  end.
Definition frame_range (d : dset) (sp : aspec) (lo hi : bound) (r : arow) (S : list arow) : list arow :=
  match a_ord sp with
  | (c, desc) :: _ => filter (fun x => in_range desc lo hi (colv d r c) (colv d x c)) S
  | [] => S
  end.

(* the datapoints inside the frame of datapoint r, in partition order *)
Definition win_rows (d : dset) (sp : aspec) (rows : list arow) (r : arow) : list arow :=
  let S := sorted_part d sp rows r in
  let w := eff_window sp in
  match w_mode w with
  | Rows => frame_rows (w_lo w) (w_hi w) (pos_of (fst r) S) S
  | Range => frame_range d sp (w_lo w) (w_hi w) r S
  end.

(* ---------------------------------------------------------------- aggregate functions over the values of a frame *)
Definition nonnull (l : list val) : list val := filter (fun v => negb (is_null v)) l.
Definition qs_of (l : list val) : list Q := flat_map (fun v => match to_q v with Some q => [q] | None => [] end) l.
Definition all_int (l : list val) : bool := forallb (fun v => match v with VInt _ => true | _ => false end) l.
Definition qsum (l : list Q) : Q := fold_right Qplus 0%Q l.
Definition qlen (l : list Q) : Q := inject_Z (Z.of_nat (length l)).
Definition q_lt (a b : Q) : bool := negb (Qle_bool b a).

Definition agg_sum (l : list val) : val :=
  match nonnull l with
  | [] => VNull
  | nn => let s := qsum (qs_of nn) in if all_int nn then VInt (Qfloor s) else qn s
  end.
Definition agg_avg (l : list val) : val :=
  match qs_of (nonnull l) with [] => VNull | q => qn (qsum q / qlen q)%Q end.
Definition agg_count (l : list val) : val := VInt (Z.of_nat (length (nonnull l))).
Definition agg_min (l : list val) : val :=
  match nonnull l with [] => VNull | h :: t => fold_left (fun m v => if nn_lt v m then v else m) t h end.
Definition agg_max (l : list val) : val :=
  match nonnull l with [] => VNull | h :: t => fold_left (fun m v => if nn_lt m v then v else m) t h end.
Definition agg_median (l : list val) : val :=
  match isort q_lt (qs_of (nonnull l)) with
  | [] => VNull
  | s => let n := length s in
         if Nat.odd n then qn (nth (n / 2) s 0%Q)
         else qn ((nth (n / 2 - 1) s 0%Q + nth (n / 2) s 0%Q) / 2)%Q
  end.
Definition sq_dev (q : list Q) : Q :=
  let m := (qsum q / qlen q)%Q in qsum (map (fun x => (x - m) * (x - m))%Q q).
Definition agg_var_pop (l : list val) : val :=
  match qs_of (nonnull l) with [] => VNull | q => qn (sq_dev q / qlen q)%Q end.
Definition agg_var_samp (l : list val) : val :=
  match qs_of (nonnull l) with [] | [_] => VNull | q => qn (sq_dev q / (qlen q - 1))%Q end.
Definition agg_first (l : list val) : val := match l with [] => VNull | h :: _ => h end.
Definition agg_last (l : list val) : val := last l VNull.

Definition agg (f : afun) (l : list val) : val :=
  match f with
  | FSum => agg_sum l | FAvg => agg_avg l | FCount => agg_count l
  | FMin => agg_min l | FMax => agg_max l | FMedian => agg_median l
  | FVarPop | FStddevPop => agg_var_pop l
  | FVarSamp | FStddevSamp => agg_var_samp l
  | FFirst => agg_first l | FLast => agg_last l
  | _ => VNull
  end.

(* the functions evaluated over a frame (the others look at the whole sorted partition) *)
Definition windowed (f : afun) : bool :=
  match f with FLag _ _ | FLead _ _ | FRank | FRatio => false | _ => true end.

(* the functions whose value depends on the ORDER inside the partition (rank counts, ratio_to_report sums: they do not) *)
Definition needs_order (f : afun) : bool := match f with FRank | FRatio => false | _ => true end.

Definition ERR_RATIO0 : string := "2-1-3-1".

(* ---------------------------------------------------------------- the value attached to one datapoint *)
(* g extracts the operand component of a datapoint *)
Definition afun_val (d : dset) (sp : aspec) (rows : list arow) (f : afun) (g : arow -> val) (r : arow) : res val :=
  match f with
  | FRank =>
      Ok (VInt (1 + Z.of_nat (length (filter (fun x => row_lt d sp x r) (part_of d sp rows r))))%Z)
  | FLag n dv =>
      let S := sorted_part d sp rows r in
      let i := pos_of (fst r) S in
      Ok (if n <=? i then match nth_error S (i - n) with Some x => g x | None => dv end else dv)
  | FLead n dv =>
      let S := sorted_part d sp rows r in
      let i := pos_of (fst r) S in
      Ok (match nth_error S (i + n) with Some x => g x | None => dv end)
  | FRatio =>
      match agg_sum (map g (part_of d sp rows r)) with
      | VNull => Ok VNull
      | s => match to_q s with
             | Some q => if q_is_zero q then Err ERR_RATIO0
                         else match to_q (g r) with Some x => Ok (qn (x / q)%Q) | None => Ok VNull end
             | None => Err ERR_TYPE
             end
      end
  | _ => Ok (agg f (map g (win_rows d sp rows r)))
  end.

(* ---------------------------------------------------------------- dataset level: applied to every measure *)
Definition meas (j : nat) (x : arow) : val := nth j (snd x) VNull.

Definition analytic_row (d : dset) (sp : aspec) (f : afun) (r : arow) : res arow :=
  bind (mapM (fun j => afun_val d sp (d_rows d) f (meas j) r) (seq 0 (length (d_ms d))))
       (fun vs => Ok (fst r, vs)).

Definition d_analytic (f : afun) (sp : aspec) (d : dset) : res dset :=
  bind (mapM (analytic_row d sp f) (d_rows d)) (fun rows => Ok (mkD (d_ids d) (d_ms d) rows)).

(* ---------------------------------------------------------------- calc clause: DS[calc name := f(operand over (...))] *)
Definition calc_analytic_row (d : dset) (name : string) (f : afun) (sp : aspec) (operand : string) (r : arow) : res arow :=
  bind (afun_val d sp (d_rows d) f (fun x => colv d x operand) r)
       (fun v => Ok (fst r, snd (calc_put (d_ms d) (snd r) name v))).

Definition calc_ms (d : dset) (name : string) : list string := if mem_s name (d_ms d) then d_ms d else d_ms d ++ [name].

Definition d_calc_analytic (d : dset) (name : string) (f : afun) (sp : aspec) (operand : string) : res dset :=
  if mem_s name (d_ids d) then Err "1-1-6-13" else
  bind (mapM (calc_analytic_row d name f sp operand) (d_rows d))
       (fun rows => Ok (mkD (d_ids d) (calc_ms d name) rows)).

(* ---------------------------------------------------------------- operand type check (semantic analysis) *)
(* sum avg median var* stddev* ratio_to_report accept Integer/Number operands only; any other declared type is the semantic error
   1-1-1-1 (invalid implicit cast to Number).  Declared types enter the model only here: `numeric` says, per measure (resp. for the
   calc operand), whether the component is declared Integer or Number. *)
Definition numeric_only (f : afun) : bool :=
  match f with FSum | FAvg | FMedian | FVarPop | FVarSamp | FStddevPop | FStddevSamp | FRatio => true | _ => false end.
Definition ERR_IMPLICIT_CAST : string := "1-1-1-1".

Definition d_analytic_t (numeric : list bool) (f : afun) (sp : aspec) (d : dset) : res dset :=
  if numeric_only f && negb (forallb (fun b => b) numeric) then Err ERR_IMPLICIT_CAST else d_analytic f sp d.
Definition d_calc_analytic_t (operand_numeric : bool) (d : dset) (name : string) (f : afun) (sp : aspec) (operand : string) : res dset :=
  if numeric_only f && negb operand_numeric then Err ERR_IMPLICIT_CAST else d_calc_analytic d name f sp operand.
