(* Model of the error catalogue, of Python's str.format on a catalogue message, and of the construction of a
   coded VTL exception (SemanticError / RunTimeError / DataLoadError / InputValidationException(code=...)):
   look the code up, format the message with the keyword arguments.  Definitions only. *)
From Coq Require Import String List Bool NArith.
Import ListNotations.
Open Scope string_scope.

Inductive codeset := Codes (l : list string) | Dynamic.

Record site := mkSite {
  s_file : string; s_line : N; s_cls : string;
  s_codes : codeset;            (* every literal the code expression can evaluate to, or Dynamic *)
  s_kwargs : list string;       (* names of the keyword arguments supplied to format() *)
  s_splat : bool                (* a ** splat is present: the supplied names are not statically known *)
}.

(* A message template: literal text and replacement fields (the base name before any . or [ ). *)
Inductive seg := Lit (s : string) | Field (name : string).

Definition fields_of (m : list seg) : list string :=
  flat_map (fun s => match s with Lit _ => [] | Field n => [n] end) m.

Fixpoint lookup {A} (k : string) (l : list (string * A)) : option A :=
  match l with
  | [] => None
  | (k', v) :: t => if String.eqb k k' then Some v else lookup k t
  end.

Definition mem (k : string) (l : list string) : bool := existsb (String.eqb k) l.

(* str.format with keyword arguments kw: None models KeyError on a field that kw does not supply. *)
Fixpoint format (m : list seg) (kw : list (string * string)) : option string :=
  match m with
  | [] => Some ""
  | Lit s :: t => option_map (append s) (format t kw)
  | Field n :: t =>
      match lookup n kw with
      | None => None
      | Some v => option_map (append v) (format t kw)
      end
  end.

Inductive outcome := Built (msg : string) | KeyErrorCode | KeyErrorField.

(* what Cls(code, kwargs) does: centralised_messages[code]["message"].format(kwargs) *)
Definition construct (cat : list (string * list seg)) (code : string) (kw : list (string * string)) : outcome :=
  match lookup code cat with
  | None => KeyErrorCode
  | Some m => match format m kw with None => KeyErrorField | Some s => Built s end
  end.

Definition codes_of (s : site) : list string := match s_codes s with Codes l => l | Dynamic => [] end.

(* the decidable per-site check evaluated on the regenerated tables *)
Definition site_ok (cat : list (string * list seg)) (s : site) : bool :=
  negb (s_splat s) &&
  match s_codes s with
  | Dynamic => false
  | Codes l =>
      negb (match l with [] => true | _ => false end) &&
      forallb (fun c => match lookup c cat with
                        | None => false
                        | Some m => forallb (fun f => mem f (s_kwargs s)) (fields_of m)
                        end) l
  end.
