(* C09 — the cast operator (without mask).  Definitions only.

   cast_val src dst v   the value conversion rule of docs/data_types.rst ("Explicit Casting", "Implicit Casting" key rules)
                        for the MODELLED pairs; `Err ERR_UNMODELLED` elsewhere.
   cast_op allows s d v the operator: a pair the table forbids is rejected with the semantic error 1-1-5-4 whatever the value
                        (also for null: the rejection happens before any data is looked at); an allowed pair applies cast_val,
                        whose only failure on a well-typed value is the runtime error 2-1-5-1.
   cast_rename          the dataset-level measure renaming rule.

   *partial*: modelled exactly are the 16 pairs over {Integer (Z), Number (Q), String, Boolean} and the purely textual time
   pairs Date<->String, Time->String, Duration<->String, and Time->Time_Period (calendar-exact over Base/Calendar and
   Model/Period; Date/Time/Duration values are their canonical strings:
   "YYYY-MM-DD", "YYYY-MM-DD/YYYY-MM-DD", one of A S Q M W D).  Every other pair involving Time, Date, Time_Period, Duration
   (period arithmetic, interval matching, output formats, Date values with a time part) is covered by the correspondence
   against the engine only, not by this model.  Number->String is modelled for rationals with a finite decimal expansion and
   1e-4 <= |q| < 1e16 (positional notation, at least one fractional digit, as Python's str(float) and DuckDB's
   CAST(DOUBLE AS VARCHAR) print them); outside that range the model answers ERR_UNMODELLED.
   Strings are byte strings; whitespace = the space character. *)
From Coq Require Import ZArith QArith Qreduction String Ascii List Bool DecimalString.
Import ListNotations.
From VTL Require Import Base.Val Base.Calendar Model.Types Model.Period.
Open Scope Z_scope.

Definition ERR_SEM : string := "1-1-5-4".          (* SemanticError raised by Cast.check_without_mask *)
Definition ERR_RT : string := "2-1-5-1".           (* RunTimeError "Impossible to cast ..." *)
Definition ERR_TYPE : string := "type".            (* ill-typed application of the model (value not of the source type) *)
Definition ERR_UNMODELLED : string := "unmodelled".

Inductive ekind := KSemantic | KRuntime | KModel.
Definition err_kind (c : string) : ekind :=
  if String.eqb c ERR_SEM then KSemantic else if String.eqb c ERR_RT then KRuntime else KModel.

(* ------------------------------------------------------------------------------------------------ strings *)
Definition sp (c : ascii) : bool := Ascii.eqb c " ".
Fixpoint ltrim (s : string) : string :=
  match s with String c t => if sp c then ltrim t else s | EmptyString => EmptyString end.
Fixpoint rtrim (s : string) : string :=
  match s with
  | EmptyString => EmptyString
  | String c t => match rtrim t with
                  | EmptyString => if sp c then EmptyString else String c EmptyString
                  | t' => String c t'
                  end
  end.
Definition trim (s : string) : string := rtrim (ltrim s).

Definition lower_c (c : ascii) : ascii :=
  let n := nat_of_ascii c in if (Nat.leb 65 n && Nat.leb n 90)%bool then ascii_of_nat (n + 32) else c.
Definition upper_c (c : ascii) : ascii :=
  let n := nat_of_ascii c in if (Nat.leb 97 n && Nat.leb n 122)%bool then ascii_of_nat (n - 32) else c.
Fixpoint map_str (f : ascii -> ascii) (s : string) : string :=
  match s with String c t => String (f c) (map_str f t) | EmptyString => EmptyString end.

Definition bool_str (b : bool) : string := if b then "True"%string else "False"%string.

(* ------------------------------------------------------------------------------------------------ integers <-> strings *)
Definition z_str (z : Z) : string := NilZero.string_of_int (Z.to_int z).

(* accepted: optional surrounding spaces, optional sign + or -, one or more decimal digits *)
Definition parse_int (s : string) : option Z :=
  match trim s with
  | EmptyString => None
  | String c r =>
      if Ascii.eqb c "+"
      then match r with
           | EmptyString => None
           | String c' _ => if Ascii.eqb c' "-" then None else option_map Z.of_int (NilZero.int_of_string r)
           end
      else option_map Z.of_int (NilZero.int_of_string (String c r))
  end.

(* ------------------------------------------------------------------------------------------------ decimals <-> strings *)
Fixpoint split_dot (s : string) : string * option string :=
  match s with
  | EmptyString => (EmptyString, None)
  | String c t => if Ascii.eqb c "." then (EmptyString, Some t)
                  else let '(a, b) := split_dot t in (String c a, b)
  end.
Definition digits_val (s : string) : option Z := option_map Z.of_uint (NilEmpty.uint_of_string s).   (* "" is 0 *)
Definition is_empty (s : string) : bool := match s with EmptyString => true | _ => false end.
Definition pow10 (k : nat) : Z := 10 ^ Z.of_nat k.

(* accepted: optional surrounding spaces, optional sign, digits [. digits*]  or  . digits+   (no exponent, no nan/inf) *)
Definition parse_dec (s : string) : option Q :=
  let t := trim s in
  let '(neg, body) :=
    match t with
    | String c r => if Ascii.eqb c "-" then (true, r) else if Ascii.eqb c "+" then (false, r) else (false, t)
    | EmptyString => (false, t)
    end in
  let '(ip, fp) := split_dot body in
  let f := match fp with Some f => f | None => EmptyString end in
  if is_empty ip && is_empty f then None else
  match digits_val ip, digits_val f with
  | Some a, Some b =>
      let k := String.length f in
      let m := a * pow10 k + b in
      Some (Qred (Qmake (if neg then - m else m) (Z.to_pos (pow10 k))))
  | _, _ => None
  end.

Fixpoint dec_places (den : Z) (k fuel : nat) : option nat :=
  match fuel with
  | O => None
  | S f => if (pow10 k mod den =? 0) then Some k else dec_places den (S k) f
  end.
Fixpoint zeros (n : nat) : string := match n with O => EmptyString | S k => String "0" (zeros k) end.
Definition pad0 (n : nat) (s : string) : string := (zeros (n - String.length s) ++ s)%string.

(* positional decimal text of a rational with a finite expansion: "-3.5", "1.0", "10000000000.0", "0.125" *)
Definition q_str (q : Q) : option string :=
  let q := Qred q in
  let n := Qnum q in
  let d := Zpos (Qden q) in
  match dec_places d 1 20 with
  | None => None
  | Some k =>
      let a := Z.abs n in
      if (n =? 0) || ((d <=? a * 10000) && (a <? d * 10 ^ 16)) then
        let m := a * pow10 k / d in
        let sign : string := if n <? 0 then "-"%string else EmptyString in
        let ip : string := z_str (m / pow10 k) in
        let fp : string := pad0 k (z_str (m mod pow10 k)) in
        Some (sign ++ ip ++ "." ++ fp)%string
      else None
  end.

(* ------------------------------------------------------------------------------------------------ textual time values *)
Definition digit_of (c : ascii) : option Z :=
  let n := Z.of_nat (nat_of_ascii c) in if (48 <=? n) && (n <=? 57) then Some (n - 48) else None.
Fixpoint num_of (s : string) (acc : Z) : option Z :=
  match s with
  | EmptyString => Some acc
  | String c t => match digit_of c with Some d => num_of t (acc * 10 + d) | None => None end
  end.
(* "YYYY-MM-DD" with a calendar-valid date *)
Definition valid_date_str (s : string) : bool :=
  match s with
  | String y1 (String y2 (String y3 (String y4 (String h1 (String m1 (String m2 (String h2 (String d1 (String d2 EmptyString))))))))) =>
      Ascii.eqb h1 "-" && Ascii.eqb h2 "-" &&
      match num_of (String y1 (String y2 (String y3 (String y4 EmptyString)))) 0,
            num_of (String m1 (String m2 EmptyString)) 0, num_of (String d1 (String d2 EmptyString)) 0 with
      | Some y, Some m, Some d => valid_date y m d
      | _, _, _ => false
      end
  | _ => false
  end.

Definition short_durations : list string := ["A"; "S"; "Q"; "M"; "W"; "D"]%string.
Definition iso_durations : list (string * string) :=
  [("P1Y", "A"); ("P6M", "S"); ("P3M", "Q"); ("P1M", "M"); ("P1W", "W"); ("P7D", "W"); ("P1D", "D")]%string.
Fixpoint lookup_s (k : string) (l : list (string * string)) : option string :=
  match l with [] => None | (a, b) :: t => if String.eqb k a then Some b else lookup_s k t end.
(* ISO-8601 code (P1Y ...) or short code, case-insensitive, surrounding spaces ignored *)
Definition parse_duration (s : string) : option string :=
  let u := map_str upper_c (trim s) in
  match lookup_s u iso_durations with
  | Some c => Some c
  | None => if existsb (String.eqb u) short_durations then Some u else None
  end.

(* ------------------------------------------------------------------------------------------------ Time -> Time_Period
   calendar-exact, over Base/Calendar day numbers and the periods of Model/Period.v: the period whose first and last day are
   exactly the two dates of the interval (a one-day interval is the daily period; a week is labelled with its ISO week-year). *)
Definition fits (a b : Z) (p : period) : bool := (start_date p =? a) && (end_date p =? b).
Definition interval_period (a b : Z) : option period :=
  find (fits a b) (map (fun i => period_of_date i a) [ID; IA; IS; IQ; IM; IW]).

(* "YYYY-MM-DD" (calendar-valid) -> day number *)
Definition date_days (s : string) : option Z :=
  if valid_date_str s then
    match num_of (substring 0 4 s) 0, num_of (substring 5 2 s) 0, num_of (substring 8 2 s) 0 with
    | Some y, Some m, Some d => Some (days_from_civil y m d)
    | _, _, _ => None
    end
  else None.
(* "YYYY-MM-DD/YYYY-MM-DD" with start <= end *)
Definition parse_interval (s : string) : option (Z * Z) :=
  if (String.length s =? 21)%nat && String.eqb (substring 10 1 s) "/" then
    match date_days (substring 0 10 s), date_days (substring 11 10 s) with
    | Some a, Some b => if a <=? b then Some (a, b) else None
    | _, _ => None
    end
  else None.
Definition ind_letter (i : ind) : string :=
  match i with IA => "" | IS => "S" | IQ => "Q" | IM => "M" | IW => "W" | ID => "D" end%string.
(* the default (vtl) output format: 2020, 2020S1, 2020Q3, 2020M2, 2020W15, 2020D100 *)
Definition period_vtl (p : period) : string :=
  match p_ind p with
  | IA => z_str (p_year p)
  | i => (z_str (p_year p) ++ ind_letter i ++ z_str (p_num p))%string
  end.
Definition interval_to_period_str (s : string) : option string :=
  match parse_interval s with
  | Some (a, b) => option_map period_vtl (interval_period a b)
  | None => None
  end.

(* ------------------------------------------------------------------------------------------------ the conversion rules *)
Definition modelled (s d : ty) : bool :=
  match s, d with
  | (TString | TNumber | TInteger | TBoolean), (TString | TNumber | TInteger | TBoolean) => true
  | TDate, TString | TString, TDate | TDate, TDate => true
  | TTime, TString | TTime, TTime | TTime, TPeriod => true
  | TDuration, TString | TString, TDuration | TDuration, TDuration => true
  | _, _ => false
  end.

(* the value is of the source type (null belongs to every type) *)
Definition has_type (t : ty) (v : val) : bool :=
  match v, t with
  | VNull, _ => true
  | VInt _, TInteger | VNum _, TNumber | VBool _, TBoolean => true
  | VStr _, TString | VStr _, TTime | VStr _, TPeriod => true
  | VStr s, TDate => valid_date_str s
  | VStr s, TDuration => existsb (String.eqb s) short_durations
  | _, _ => false
  end.

Definition of_opt (o : option val) : res val := match o with Some v => Ok v | None => Err ERR_RT end.

Definition cast_val (src dst : ty) (v : val) : res val :=
  if negb (modelled src dst) then Err ERR_UNMODELLED else
  match v with
  | VNull => Ok VNull
  | _ =>
    if negb (has_type src v) then Err ERR_TYPE else
    match src, dst, v with
    (* Integer *)
    | TInteger, TInteger, VInt z => Ok (VInt z)
    | TInteger, TNumber, VInt z => Ok (VNum (inject_Z z))
    | TInteger, TString, VInt z => Ok (VStr (z_str z))
    | TInteger, TBoolean, VInt z => Ok (VBool (negb (z =? 0)))           (* 0 becomes false, any other value true *)
    (* Number *)
    | TNumber, TNumber, VNum q => Ok (VNum q)
    | TNumber, TInteger, VNum q => Ok (VInt (Z.quot (Qnum q) (Zpos (Qden q))))   (* truncation toward zero *)
    | TNumber, TString, VNum q => match q_str q with Some s => Ok (VStr s) | None => Err ERR_UNMODELLED end
    | TNumber, TBoolean, VNum q => Ok (VBool (negb (Qnum q =? 0)))
    (* Boolean *)
    | TBoolean, TBoolean, VBool b => Ok (VBool b)
    | TBoolean, TInteger, VBool b => Ok (VInt (if b then 1 else 0))
    | TBoolean, TNumber, VBool b => Ok (VNum (inject_Z (if b then 1 else 0)))
    | TBoolean, TString, VBool b => Ok (VStr (bool_str b))              (* true becomes "True", false becomes "False" *)
    (* String *)
    | TString, TString, VStr s => Ok (VStr s)
    | TString, TInteger, VStr s => of_opt (option_map VInt (parse_int s))   (* must be a valid integer string (rejects "3.5") *)
    | TString, TNumber, VStr s => of_opt (option_map VNum (parse_dec s))
    | TString, TBoolean, VStr s => Ok (VBool (String.eqb (map_str lower_c (trim s)) "true"))
    (* textual time pairs *)
    | TDate, TString, VStr s | TDate, TDate, VStr s => Ok (VStr s)
    | TString, TDate, VStr s => if valid_date_str s then Ok (VStr s) else Err ERR_RT
    | TTime, TString, VStr s | TTime, TTime, VStr s => Ok (VStr s)
    | TTime, TPeriod, VStr s => of_opt (option_map VStr (interval_to_period_str s))   (* code's reading; the doc table has no such cell *)
    | TDuration, TString, VStr s | TDuration, TDuration, VStr s => Ok (VStr s)
    | TString, TDuration, VStr s => of_opt (option_map VStr (parse_duration s))
    | _, _, _ => Err ERR_TYPE
    end
  end.

(* the operator: the table decides first, whatever the value *)
Definition cast_op (allows : ty -> ty -> bool) (src dst : ty) (v : val) : res val :=
  if allows src dst then cast_val src dst v else Err ERR_SEM.

(* "allowed" = in the explicit (without mask) table or implicitly promotable (Cast.check_without_mask) *)
Definition allows_of (explicit implicit : ty -> list ty) (s d : ty) : bool :=
  memty d (explicit s) || memty d (implicit s).

(* dataset level: the single measure is renamed to the generic name of the target type unless the source type
   implicitly promotes to the target *)
Definition cast_rename (implicit : ty -> list ty) (comp_name : ty -> string) (src dst : ty) (name : string) : string :=
  if memty dst (implicit src) then name else comp_name dst.

Definition oz_eqb (a b : option Z) : bool :=
  match a, b with Some x, Some y => Z.eqb x y | None, None => true | _, _ => false end.
Definition ostr_eqb (a b : option string) : bool :=
  match a, b with Some x, Some y => String.eqb x y | None, None => true | _, _ => false end.

(* composition of two casts (round trips) *)
Definition cast2 (a b c : ty) (v : val) : res val := bind (cast_val a b v) (cast_val b c).

(* pairs whose conversion never fails *)
Definition total_pair (s d : ty) : bool :=
  modelled s d &&
  negb (ty_eqb s TString && (ty_eqb d TInteger || ty_eqb d TNumber || ty_eqb d TDate || ty_eqb d TDuration)) &&
  negb (ty_eqb s TNumber && ty_eqb d TString) &&
  negb (ty_eqb s TTime && ty_eqb d TPeriod).

(* keys of the regenerated pair tables *)
Definition key2_eqb (a b : ty * ty) : bool := ty_eqb (fst a) (fst b) && ty_eqb (snd a) (snd b).
Definition mem_pair (p : ty * ty) (l : list (ty * ty)) : bool := existsb (key2_eqb p) l.


(* ------------------------------------------------------------------------------------------------ regression witnesses
   What the ENGINE answered before the repairs of its cast operator (commits "fix: cast ..." in /repo): source type, target
   type, value, old answer.  cast_val never was a model of that behaviour; the list only documents the old defects and is
   proved (Props/C09.v) to differ from the rule on every entry.  The same inputs are replayed on the engine from corpus/C09. *)
Definition res_val_eqb (a b : res val) : bool :=
  match a, b with
  | Ok x, Ok y => val_eqb x y
  | Err c, Err c' => String.eqb c c'
  | _, _ => false
  end.
Definition cast_before_fix : list (ty * ty * val * res val) :=
  [ (TBoolean, TString, VBool true, Ok (VStr "true"));                       (* value:Boolean->String *)
    (TInteger, TInteger, VInt 9007199254740993, Ok (VInt 9007199254740992)); (* value:Integer->Integer *)
    (TString, TInteger, VStr "3.5", Ok (VInt 3));                            (* accept:String->Integer *)
    (TString, TInteger, VStr "9007199254740993", Ok (VInt 9007199254740992));(* roundtrip:Integer->String->Integer *)
    (TNumber, TString, VNum (7 # 2), Ok (VStr "3.5000000000"));              (* value:Number->String, component level *)
    (TString, TDuration, VStr "P1Y", Ok (VStr "P1Y"));                       (* value:String->Duration, component level *)
    (TString, TDuration, VStr "abc", Ok (VStr "abc"));                       (* accept:String->Duration *)
    (TString, TDate, VStr "inf", Ok (VStr "infinity")) ]%string.             (* accept:String->Date *)
