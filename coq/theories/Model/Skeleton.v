(* Skeleton — the resource / global-state skeleton of vtlengine.run(), written by hand from
     src/vtlengine/duckdb_transpiler/Config/config.py   (configured_connection, create_configured_connection,
                                                        configure_duckdb_connection, set_decimal_config)
     src/vtlengine/duckdb_transpiler/io/_execution.py   (execute_queries, load/cleanup_scheduled_datasets, fetch_result)
     src/vtlengine/Interpreter/__init__.py              (visit_Start: dataset_output, registry)
   as terms of Model/Effects.v.  Definitions only.
   Two families of terms:
     *_impl       : FAITHFUL to the CURRENT code (session directory, connection and configuration inside the try whose
                    finally closes / removes them; set_decimal_config validates locals taken from the environment or the
                    documented defaults and publishes the globals afterwards; visit_Start clears dataset_output in a finally).
                    These are the terms the theorems of Props/C16.v are about and the engine is compared with on every run.
     *_before_fix : the code as it was before the repair commits (acquisition before the `try`, globals defaulting to
                    their previous value, dataset_output cleared only on the success path).  Kept ONLY as the object of
                    the `C16_before_fix_*` regression-witness theorems: if the engine ever behaves like these again, the
                    correspondence fails and the leak / history dependence is reported as a violation.
   Every Step is one guarded `_verif.event(...)` of the engine (same order), except LSem/LValidate which stand for
   the semantic analysis of one statement / a loader error and are reached through real inputs, not through the hook. *)
From Coq Require Import List Bool Arith ZArith.
Import ListNotations.
From VTL Require Import Model.Effects.
Local Open Scope Z_scope.

(* resources of one run *)
Definition RDir : res := 0%nat.      (* <VTL_TEMP_DIRECTORY>/duckdb_tmp_<uuid> *)
Definition RConn : res := 1%nat.     (* the DuckDB connection *)
Definition RDbFile : res := 2%nat.   (* <session dir>/session.duckdb when VTL_USE_IN_MEMORY_DB=0 *)
Definition RView : res := 3%nat.     (* the _temp_<name> view registered while a DataFrame is inserted *)

(* process globals *)
Definition GWidth : glob := 0%nat.   (* Config.config.DECIMAL_WIDTH *)
Definition GScale : glob := 1%nat.   (* Config.config.DECIMAL_SCALE *)
Definition GDsOut : glob := 2%nat.   (* vtlengine.Exceptions.dataset_output: 0 = None, i = output of statement i *)
Definition GRegistry : glob := 3%nat. (* ViralPropagation._current_registry: 0 = never set, 1 = this run's registry *)
Definition LWidth : glob := 4%nat.   (* local `width` of set_decimal_config (always written before it is read) *)
Definition LScale : glob := 5%nat.   (* local `scale` of set_decimal_config *)

(* step labels = event kinds of vtlengine._verif *)
Definition LMkdir : label := 0%nat.      (* conn:mkdir_session *)
Definition LConnect : label := 1%nat.    (* conn:connect *)
Definition LSettings : label := 2%nat.   (* configure:settings *)
Definition LUdf : label := 3%nat.        (* configure:udf *)
Definition LDecimal : label := 4%nat.    (* configure:decimal *)
Definition LSetTemp : label := 5%nat.    (* conn:set_session_temp *)
Definition LInitMacros : label := 6%nat. (* init_macros *)
Definition LLoad : label := 7%nat.       (* load(ds, k) *)
Definition LExec : label := 8%nat.       (* exec(result, k) *)
Definition LRelease : label := 9%nat.    (* release(ds, k) *)
Definition LFetch : label := 10%nat.     (* fetch(name) *)
Definition LSaveScalars : label := 11%nat. (* save_scalars *)
Definition LSem : label := 12%nat.       (* semantic analysis of one statement (no engine event) *)
Definition LValidate : label := 13%nat.  (* a loader / validator that may raise a coded error (no engine event) *)

Definition DEFAULT_WIDTH := 28.
Definition DEFAULT_SCALE := 10.
Definition between (lo hi : Z) (v : Z) : bool := (lo <=? v) && (v <=? hi).

Fixpoint seqs (ps : list prog) : prog :=
  match ps with
  | [] => Skip
  | p :: rest => Seq p (seqs rest)
  end.

(* ---- Interpreter.visit_Start --------------------------------------------------------------------------------- *)
(* for statement i: dataset_output := name_i ; analyse (may raise a SemanticError whose message reads
   dataset_output) ; dataset_output := None *)
Fixpoint sem_stmts (i : nat) (n : nat) : prog :=
  match n with
  | O => Skip
  | S n' => Seq (Write GDsOut (Z.of_nat (S i)))
           (Seq (Step LSem [GDsOut; GRegistry])
           (Seq (Write GDsOut 0) (sem_stmts (S i) n')))
  end.

(* _visit_start_impl *)
Definition semantic_body (n : nat) : prog := Seq (Write GRegistry 1) (sem_stmts 0 n).
Definition restored : list (glob * Z) := [(GDsOut, 0)].
(* visit_Start: try: _visit_start_impl(node) finally: dataset_output = None *)
Definition semantic_impl (n : nat) : prog := TryFinally (semantic_body n) (resetp restored).

(* ---- set_decimal_config -------------------------------------------------------------------------------------- *)
Definition opt_write (g : glob) (e : option Z) : prog := match e with Some v => Write g v | None => Skip end.

(* before the fix: `int(os.getenv(VAR, DECIMAL_WIDTH))` kept the previous global when the variable was unset; the scale
   was checked against 6..15; the width only against its minimum (the upper-bound test compared DECIMAL_SCALE with 38). *)
Definition decimal_before_fix (envW envS : option Z) : prog :=
  seqs [opt_write GWidth envW; opt_write GScale envS;
        Check GScale (between 6 15) [GDsOut];
        Check GWidth (fun w => 6 <=? w) [GDsOut]].

(* current code: locals from the environment or the documented defaults, both validated, globals published afterwards *)
Definition dflt (e : option Z) (d : Z) : Z := match e with Some v => v | None => d end.
Definition decimal_impl (envW envS : option Z) : prog :=
  seqs [Write LWidth (dflt envW DEFAULT_WIDTH); Write LScale (dflt envS DEFAULT_SCALE);
        Check LScale (between 6 15) [GDsOut];
        Check LWidth (between 6 38) [GDsOut];
        Write GWidth (dflt envW DEFAULT_WIDTH); Write GScale (dflt envS DEFAULT_SCALE)].

(* ---- execute_queries ----------------------------------------------------------------------------------------- *)
Inductive load_kind := LoadDf | LoadCsv.
Record stmt := mkStmt {
  loads : list load_kind;     (* inputs the DAG schedule inserts before this statement *)
  cleanup : list bool         (* release events after it: true = the released dataset is fetched (fetch event) *)
}.

(* a load reads the decimal type for its CREATE TABLE; DuckDB rejects a width above 38 there;
   a DataFrame load registers a temporary view inside try/finally *)
Definition load_prog (kd : load_kind) : prog :=
  seqs [Step LLoad [GDsOut]; Read GWidth; Read GScale; Check GWidth (fun w => w <=? 38) [];
        match kd with
        | LoadDf => TryFinally (Acquire RView) (Release RView)
        | LoadCsv => Skip
        end].

Definition cleanup_prog (f : bool) : prog :=
  if f then Seq (Step LRelease [GDsOut]) (Step LFetch [GDsOut]) else Step LRelease [GDsOut].

Definition stmt_prog (s : stmt) : prog :=
  seqs [seqs (map load_prog (loads s)); Step LExec [GDsOut]; seqs (map cleanup_prog (cleanup s))].

Definition exec_queries (ss : list stmt) (nfinal : nat) (save : bool) : prog :=
  seqs [Step LInitMacros [GDsOut]; seqs (map stmt_prog ss);
        seqs (repeat (Step LFetch [GDsOut]) nfinal);
        if save then Step LSaveScalars [] else Skip].

(* ---- configured_connection ----------------------------------------------------------------------------------- *)
Definition acquire_db (fb : bool) : prog := if fb then Seq (Acquire RConn) (Acquire RDbFile) else Acquire RConn.

(* finally: try: conn.close() finally: shutil.rmtree(session_dir) *)
Definition conn_finally : prog := TryFinally (Release RConn) (Seq (Release RDbFile) (Release RDir)).

(* before the fix: mkdir, connect, configure and SET temp_directory all happened BEFORE the try *)
Definition conn_pre (fb : bool) : prog :=
  seqs [Step LMkdir []; Acquire RDir; Step LConnect []; acquire_db fb;
        Step LSettings []; Step LUdf []; Step LDecimal []].

Definition conn_before_fix (fb : bool) (dec body : prog) : prog :=
  Seq (conn_pre fb) (Seq dec (Seq (Step LSetTemp []) (TryFinally body conn_finally))).

(* current code: the same steps in the same order, every acquisition inside the try whose finally releases it
   (create_configured_connection additionally closes the connection itself when configure fails: same live set) *)
Definition conn_impl (fb : bool) (dec body : prog) : prog :=
  Seq (Step LMkdir [])
      (TryFinally
         (seqs [Acquire RDir; Step LConnect []; acquire_db fb; Step LSettings []; Step LUdf []; Step LDecimal [];
                dec; Step LSetTemp []; body])
         conn_finally).

(* ---- run() --------------------------------------------------------------------------------------------------- *)
Definition run_before_fix (n : nat) (fb : bool) (envW envS : option Z) (body : prog) : prog :=
  Seq (semantic_body n) (conn_before_fix fb (decimal_before_fix envW envS) body).

Definition run_impl (n : nat) (fb : bool) (envW envS : option Z) (body : prog) : prog :=
  Seq (semantic_impl n) (conn_impl fb (decimal_impl envW envS) body).

(* validate_dataset / any loader: may raise a DataLoadError whose message reads dataset_output; writes nothing *)
Definition validate_prog : prog := Step LValidate [GDsOut].

(* ---- predictions used by the theorems and by the correspondence ---------------------------------------------- *)
Definition leakset (fb : bool) : list res := if fb then [RDbFile; RConn; RDir] else [RConn; RDir].

(* leak of the before-fix connection skeleton when the fault hits its k-th event *)
Definition predicted_leak (fb : bool) (k : nat) : list res :=
  match k with
  | 0%nat => []
  | 1%nat => [RDir]
  | 2%nat | 3%nat | 4%nat | 5%nat => leakset fb
  | _ => []
  end.

Definition valid_cfg (envW envS : option Z) : bool :=
  between 6 15 (dflt envS DEFAULT_SCALE) && between 6 38 (dflt envW DEFAULT_WIDTH).

Definition valid_cfg_before_fix (envW envS : option Z) (G : glob -> Z) : bool :=
  between 6 15 (dflt envS (G GScale)) && (6 <=? dflt envW (G GWidth)).

Definition G0 : glob -> Z := fun g =>
  if Nat.eqb g GWidth then DEFAULT_WIDTH else if Nat.eqb g GScale then DEFAULT_SCALE else 0.

(* the API calls of the current skeleton: a run of any shape / environment setting, or a loader that may raise *)
Inductive api_call : prog -> Prop :=
| AC_run : forall n fb envW envS ss nfinal save, api_call (run_impl n fb envW envS (exec_queries ss nfinal save))
| AC_validate : api_call validate_prog.

Definition body1 : prog := exec_queries [mkStmt [LoadDf] [true]] 0 false.

(* what the harness evaluates for one observed fault position: (outcome, live resources, step trace oldest first) *)
Definition observe_run (k : option nat) (p : prog) (G : glob -> Z) : outcome * list res * list label :=
  let r := exec k p (init G) in (fst r, live (snd r), rev (trace (snd r))).
