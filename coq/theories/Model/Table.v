(* Datasets as keyed tables: a row is (identifier values, values of the other components); component names are kept
   beside the rows.  All relational operators of the model are list functions over these.  Definitions only. *)
From Coq Require Import ZArith String List Bool.
Import ListNotations.
From VTL Require Import Base.Val.

Notation key := (list val) (only parsing).
Notation row := (list val * list val)%type (only parsing).

Record ds := mkDs { ds_ids : list string; ds_ms : list string; ds_rows : list row }.

Definition has_key (k : key) (rows : list row) : bool := existsb (fun r => key_eqb k (fst r)) rows.
Definition find_key (k : key) (rows : list row) : option row := find (fun r => key_eqb k (fst r)) rows.

(* well-formed rows: no two rows share their identifier key *)
Fixpoint uniq_keys (rows : list row) : bool :=
  match rows with
  | [] => true
  | r :: t => negb (has_key (fst r) t) && uniq_keys t
  end.

Definition no_null_key (rows : list row) : bool := forallb (fun r => forallb (fun v => negb (is_null v)) (fst r)) rows.
Definition arity_ok (ni nm : nat) (rows : list row) : bool :=
  forallb (fun r => Nat.eqb (length (fst r)) ni && Nat.eqb (length (snd r)) nm) rows.

Definition wf_ds (d : ds) : bool :=
  uniq_keys (ds_rows d) && no_null_key (ds_rows d) && arity_ok (length (ds_ids d)) (length (ds_ms d)) (ds_rows d).
