(* C17 — API calls as programs over process-global state, and their interleavings.  Definitions only.

   A call is a list of steps over shared globals.  `Write g f` stores a value computed from what the call has observed so
   far (so increments such as VirtualCounter.dataset_count += 1 are expressible), `Read g` observes the global (the
   observations are the only thing a call's result can depend on besides its own arguments), `Local` is private work,
   `Acq l` / `Rel l` take and release a process-wide lock (threading.Lock semantics: a taken lock blocks).
   Any number of threads (tid = nat), any schedule (list of thread picks; a pick of a finished or blocked thread is a no-op). *)
From Coq Require Import List Arith ZArith Bool.
Import ListNotations.

Definition tid := nat.
Definition lock := nat.
Definition gvar := nat.
Definition val := Z.
Definition obs := list (gvar * val).          (* most recent first *)

Inductive step :=
| Write (g : gvar) (f : obs -> val)
| Read (g : gvar)
| Local
| Acq (l : lock)
| Rel (l : lock).

Definition prog := list step.

Definition upd {A} (f : nat -> A) (k : nat) (v : A) : nat -> A := fun j => if Nat.eqb j k then v else f j.

Record thread := mkThread { t_done : list step (* executed, in order *); t_todo : prog; t_obs : obs }.
Record config := mkConfig { c_store : gvar -> val; c_locks : lock -> option tid; c_thr : tid -> thread }.

Definition advance (th : thread) (s : step) (rest : prog) (o : obs) : thread := mkThread (t_done th ++ [s]) rest o.

(* one step of thread i, if it has one and it is enabled *)
Definition step_thread (i : tid) (c : config) : option config :=
  let th := c_thr c i in
  match t_todo th with
  | [] => None
  | s :: rest =>
      match s with
      | Write g f => Some (mkConfig (upd (c_store c) g (f (t_obs th))) (c_locks c) (upd (c_thr c) i (advance th s rest (t_obs th))))
      | Read g => Some (mkConfig (c_store c) (c_locks c) (upd (c_thr c) i (advance th s rest ((g, c_store c g) :: t_obs th))))
      | Local => Some (mkConfig (c_store c) (c_locks c) (upd (c_thr c) i (advance th s rest (t_obs th))))
      | Acq l => match c_locks c l with
                 | None => Some (mkConfig (c_store c) (upd (c_locks c) l (Some i)) (upd (c_thr c) i (advance th s rest (t_obs th))))
                 | Some _ => None
                 end
      | Rel l => Some (mkConfig (c_store c) (upd (c_locks c) l None) (upd (c_thr c) i (advance th s rest (t_obs th))))
      end
  end.

Fixpoint run (sched : list tid) (c : config) : config :=
  match sched with
  | [] => c
  | i :: r => match step_thread i c with Some c' => run r c' | None => run r c end
  end.

Definition init (st0 : gvar -> val) (progs : tid -> prog) : config :=
  mkConfig st0 (fun _ => None) (fun i => mkThread [] (progs i) []).

(* ---------------------------------------------------------------- what a call sees when nothing interferes *)
(* the call's private view: the store as it would be if only this call wrote to it, and its observations *)
Record view := mkView { v_store : gvar -> val; v_obs : obs }.

Definition view_step (v : view) (s : step) : view :=
  match s with
  | Write g f => mkView (upd (v_store v) g (f (v_obs v))) (v_obs v)
  | Read g => mkView (v_store v) ((g, v_store v g) :: v_obs v)
  | _ => v
  end.

Definition view_of (st0 : gvar -> val) (p : list step) : view := fold_left view_step p (mkView st0 []).

(* the solo result of a call = its observations when executed alone from store st0 *)
Definition solo_result (st0 : gvar -> val) (p : prog) : obs := v_obs (view_of st0 p).

(* ---------------------------------------------------------------- the confinement discipline *)
Inductive prot := Owned (i : tid) | Locked (l : lock).

Definition mem (x : nat) (l : list nat) : bool := existsb (Nat.eqb x) l.
Definition remove_nat (x : nat) (l : list nat) : list nat := filter (fun y => negb (Nat.eqb y x)) l.

Section Discipline.
  Variable disc : gvar -> prot.     (* how each global is protected: owned by one thread, or guarded by a lock *)
  Variable W : gvar -> bool.        (* the WATCHED globals: the ones whose reads the statement is about (all of them, or a subset) *)

  (* the observations of watched globals *)
  Definition wobs (o : obs) : obs := filter (fun p => W (fst p)) o.
  (* a value written to a watched global may depend on watched observations only *)
  Definition write_ok (s : step) : Prop :=
    match s with Write g f => W g = true -> forall o o', wobs o = wobs o' -> f o = f o' | _ => True end.

  Definition locked_by (l : lock) (g : gvar) : bool := match disc g with Locked l' => Nat.eqb l' l | Owned _ => false end.

  (* static state while walking a program: the locks held and the globals whose current value is this call's own write
     and cannot have been overwritten by anybody else since *)
  Record ast := mkAst { a_held : list lock; a_fresh : list gvar }.

  Definition may_access (i : tid) (a : ast) (g : gvar) : bool :=
    match disc g with Owned j => Nat.eqb j i | Locked l => mem l (a_held a) end.

  Definition ast_step (a : ast) (s : step) : ast :=
    match s with
    | Write g _ => mkAst (a_held a) (g :: a_fresh a)
    | Read _ | Local => a
    | Acq l => mkAst (l :: a_held a) (a_fresh a)
    | Rel l => mkAst (remove_nat l (a_held a)) (filter (fun g => negb (locked_by l g)) (a_fresh a))
    end.

  Definition ast_of (p : list step) : ast := fold_left ast_step p (mkAst [] []).

  (* every access to a WATCHED global respects the discipline, and every Read of one returns a value written by the same call with no foreign write
     possible in between (the global is owned by the thread, or the lock guarding it has been held since the write) *)
  Fixpoint ok_from (i : tid) (a : ast) (p : prog) : bool :=
    match p with
    | [] => true
    | s :: r =>
        (match s with
         | Write g _ => negb (W g) || may_access i a g
         | Read g => negb (W g) || (may_access i a g && mem g (a_fresh a))
         | Local => true
         | Acq l => negb (mem l (a_held a))
         | Rel l => mem l (a_held a)
         end) && ok_from i (ast_step a s) r
    end.

  Definition confined (i : tid) (p : prog) : bool := ok_from i (mkAst [] []) p.

  (* residue-tolerant variant: a global OWNED by the thread may also be read before the call has written it — nobody else can
     write it, the value is whatever the thread's own earlier calls left there (part of the initial state st0) *)
  Definition owned_by (i : tid) (g : gvar) : bool := match disc g with Owned j => Nat.eqb j i | Locked _ => false end.

  Fixpoint ok_from_res (i : tid) (a : ast) (p : prog) : bool :=
    match p with
    | [] => true
    | s :: r =>
        (match s with
         | Write g _ => negb (W g) || may_access i a g
         | Read g => negb (W g) || (may_access i a g && (mem g (a_fresh a) || owned_by i g))
         | Local => true
         | Acq l => negb (mem l (a_held a))
         | Rel l => mem l (a_held a)
         end) && ok_from_res i (ast_step a s) r
    end.

  Definition confined_res (i : tid) (p : prog) : bool := ok_from_res i (mkAst [] []) p.
End Discipline.

(* ---------------------------------------------------------------- the engine's globals and the call skeletons *)
Definition GParse : gvar := 0.          (* parse tree of the last parse() (C++ g_state / the stand-in's _last) *)
Definition GRegistry : gvar := 1.       (* ViralPropagation._current_registry *)
Definition GVcDs : gvar := 2.           (* VirtualCounter.dataset_count *)
Definition GVcDc : gvar := 3.           (* VirtualCounter.component_count *)
Definition GTPConfig : gvar := 4.       (* TimePeriodConfig._representation *)
Definition GDsOut : gvar := 5.          (* Exceptions.dataset_output *)
Definition PL : lock := 0.              (* parser_lock *)

Definition const (v : val) : obs -> val := fun _ => v.
(* the value last read from g, plus one (count = <value just read> + 1) *)
Fixpoint incr (g : gvar) (o : obs) : val :=
  match o with
  | (g', v) :: r => if Nat.eqb g' g then (v + 1)%Z else incr g r
  | [] => 0%Z
  end.

(* The yield tags of /repo (vtlengine._verif.yield_point), as the steps they stand for.  `tok` identifies the call. *)
Inductive tag :=
| TParse | TRegSet | TRegGet | TVcReset | TVcDs | TVcDc | TTpSet | TTpGet | TDsOutSet | TDsOutClear
| TRaise.   (* construction of a SemanticError / RunTimeError: reads dataset_output (no yield point: placed by the harness) *)

Definition steps_of_tag (gmap : gvar -> gvar) (tok : val) (t : tag) : prog :=
  match t with
  | TParse => [Acq PL; Write GParse (const tok); Read GParse; Rel PL]
  | TRegSet => [Write (gmap GRegistry) (const tok)]
  | TRegGet => [Read (gmap GRegistry)]
  | TVcReset => [Write (gmap GVcDs) (const 0%Z); Write (gmap GVcDc) (const 0%Z)]
  | TVcDs => [Read (gmap GVcDs); Write (gmap GVcDs) (incr (gmap GVcDs))]
  | TVcDc => [Read (gmap GVcDc); Write (gmap GVcDc) (incr (gmap GVcDc))]
  | TTpSet => [Write (gmap GTPConfig) (const tok)]
  | TTpGet => [Read (gmap GTPConfig)]
  | TDsOutSet => [Write (gmap GDsOut) (const tok)]
  | TDsOutClear => [Write (gmap GDsOut) (const 0%Z)]
  | TRaise => [Read (gmap GDsOut)]
  end.

Definition prog_of_trace (gmap : gvar -> gvar) (tok : val) (tr : list tag) : prog := flat_map (steps_of_tag gmap tok) tr.

Definition W_all : gvar -> bool := fun _ => true.
(* the parse state and every per-thread global *)
Definition W_reg : gvar -> bool := fun g => Nat.eqb g GParse || Nat.leb 100 g.

(* BEFORE THE FIXES (engine before commits 55a366b, d6f8f69 and 522fbc4): every global process-wide *)
Definition gmap_before_fix : gvar -> gvar := fun g => g.
(* FAITHFUL (current code): the viral-propagation registry and Exceptions.dataset_output are ContextVars and the VirtualCounter
   counters live in a threading.local = one cell per thread (100 + 10*i + g); TimePeriodConfig is still process-wide (and never
   read on the paths of the four API calls) *)
Definition gmap_impl (i : tid) : gvar -> gvar :=
  fun g => if Nat.eqb g GRegistry || Nat.eqb g GDsOut || Nat.eqb g GVcDs || Nat.eqb g GVcDc then 100 + 10 * i + g else g.
(* SPEC (the proposed repair): registry, counters, representation and dataset_output are per-thread (thread-local /
   contextvars); thread i's copy of global g is 100 + 10*i + g.  The parse state stays shared under parser_lock. *)
Definition gmap_spec (i : tid) : gvar -> gvar := fun g => if Nat.eqb g GParse then g else 100 + 10 * i + g.

Definition disc_spec : gvar -> prot :=
  fun g => if Nat.ltb g 100 then Locked PL else Owned ((g - 100) / 10).
(* the discipline the current code follows for the watched globals W_reg: parse state under parser_lock, registry cells per thread *)
Definition disc_impl : gvar -> prot := disc_spec.

(* the shape of the traces of the four API calls (what the recorded traces are checked against) *)
Definition is_sem_item (t : tag) : bool :=
  match t with TRegGet | TVcReset | TVcDs | TVcDc | TDsOutSet | TDsOutClear | TTpGet | TRaise => true | _ => false end.

(* create_ast / prettify: parse only *)
Definition is_parse_trace (tr : list tag) : bool := match tr with [TParse] | [TParse; TParse] => true | _ => false end.
(* semantic_analysis: parse, ONE registry:set, then only semantic items (registry reads come after the set) *)
Definition is_semantic_trace (tr : list tag) : bool :=
  match tr with
  | TParse :: TRegSet :: rest => forallb is_sem_item rest
  | [TParse] => true              (* failed before the interpreter started (syntax / structure error) *)
  | _ => false
  end.
(* run: as semantic_analysis, then transpile (registry reads only), then tpconfig:set once or twice; a call that raised
   stops anywhere along that shape *)
Fixpoint drop_while {A} (f : A -> bool) (l : list A) : list A :=
  match l with [] => [] | x :: r => if f x then drop_while f r else l end.
Definition is_run_trace (tr : list tag) : bool :=
  match tr with
  | TParse :: TRegSet :: rest =>
      match drop_while is_sem_item rest with
      | [] | [TTpSet] | [TTpSet; TTpSet] | [TTpSet; TRaise] | [TTpSet; TTpSet; TRaise] => true
      | _ => false
      end
  | [TParse] => true
  | _ => false
  end.

(* a canonical faithful run() skeleton with n statements and k transpile-time registry reads (used by the theorems) *)
Definition stmt_tags : list tag := [TDsOutSet; TVcDs; TVcReset; TRegGet; TDsOutClear].
Fixpoint rep {A} (n : nat) (l : list A) : list A := match n with O => [] | S k => l ++ rep k l end.
(* the TDsOutClear after the statements is visit_Start's `finally: dataset_output = None` *)
Definition run_tags (n k : nat) : list tag :=
  [TParse; TRegSet] ++ rep n stmt_tags ++ [TDsOutClear] ++ rep k [TRegGet] ++ [TTpSet; TTpSet].
Definition parse_tags : list tag := [TParse].

(* ---------------------------------------------------------------- race search (used to force the witness on the engine) *)
(* position of the first Read of g that comes after a Write of g in the same program *)
Fixpoint first_read_after_write (g : gvar) (seen_write : bool) (k : nat) (p : prog) : option nat :=
  match p with
  | [] => None
  | Write g' _ :: r => first_read_after_write g (seen_write || Nat.eqb g' g) (S k) r
  | Read g' :: r => if seen_write && Nat.eqb g' g then Some k else first_read_after_write g seen_write (S k) r
  | _ :: r => first_read_after_write g seen_write (S k) r
  end.
Fixpoint first_write (g : gvar) (k : nat) (p : prog) : option nat :=
  match p with
  | [] => None
  | Write g' _ :: r => if Nat.eqb g' g then Some k else first_write g (S k) r
  | _ :: r => first_write g (S k) r
  end.

(* thread a executes up to (not including) its read, thread b executes up to and including its write, a finishes, b finishes *)
Definition race_schedule (g : gvar) (a b : tid) (pa pb : prog) : option (list tid) :=
  match first_read_after_write g false 0 pa, first_write g 0 pb with
  | Some k, Some j => Some (repeat a k ++ repeat b (S j) ++ repeat a (length pa - k) ++ repeat b (length pb - S j))
  | _, _ => None
  end.

Definition two (pa pb : prog) : tid -> prog := fun i => match i with 0 => pa | 1 => pb | _ => [] end.
Definition zero_store : gvar -> val := fun _ => 0%Z.
Definition obs_of (sched : list tid) (progs : tid -> prog) (i : tid) : obs := t_obs (c_thr (run sched (init zero_store progs)) i).
Definition finished (sched : list tid) (progs : tid -> prog) (i : tid) : bool :=
  match t_todo (c_thr (run sched (init zero_store progs)) i) with [] => true | _ => false end.

Fixpoint obs_eqb (a b : obs) : bool :=
  match a, b with
  | [], [] => true
  | (g, v) :: r, (g', v') :: r' => Nat.eqb g g' && Z.eqb v v' && obs_eqb r r'
  | _, _ => false
  end.
