(* VTL join operators (C04): inner_join / left_join / full_join / cross_join over a list of operands (alias, dataset),
   with or without `using`, result structure (join columns once, other components kept, homonymous ones qualified
   `alias#name`), missing side padded with null, the trailing clause body and the final unqualification.
   Everything is a list function over Model/Expr's datasets (nested loops, find_key).  Definitions only. *)
From Coq Require Import ZArith QArith String List Bool Ascii.
Import ListNotations.
From VTL Require Import Base.Val Model.Table Model.Scalar Model.Expr.
Open Scope string_scope.
Open Scope list_scope.

Inductive jkind := JInner | JLeft | JFull | JCross.

(* an operand of a join: its alias (the dataset name when no `as` is written) and the dataset *)
Definition operand := (string * dset)%type.
Notation orow := (list val * list val)%type (only parsing).
Notation combo := (list (option (list val * list val))) (only parsing).   (* one datapoint, or none, per operand *)

(* what the structure of a join result depends on: alias, identifier names, names of the other components *)
Definition header := (string * (list string * list string))%type.
Definition h_alias (h : header) : string := fst h.
Definition h_ids (h : header) : list string := fst (snd h).
Definition h_ms (h : header) : list string := snd (snd h).
Definition h_comps (h : header) : list string := h_ids h ++ h_ms h.
Definition has_comp (h : header) (n : string) : bool := mem_s n (h_comps h).
(* value of component n in datapoint r of an operand with header h *)
Definition h_val (h : header) (r : orow) (n : string) : val :=
  match elook n (combine (h_ids h) (fst r) ++ combine (h_ms h) (snd r)) with Some v => v | None => VNull end.

Definition o_hdr (o : operand) : header := (fst o, (d_ids (snd o), d_ms (snd o))).
Definition o_rows (o : operand) : list orow := d_rows (snd o).

(* ---------------------------------------------------------------- names *)
Fixpoint dedup (l : list string) : list string :=
  match l with [] => [] | x :: t => x :: filter (fun y => negb (String.eqb y x)) (dedup t) end.
Fixpoint count_s (n : string) (l : list string) : nat :=
  match l with [] => O | h :: t => (if String.eqb n h then 1 else 0) + count_s n t end.
Fixpoint has_dup (l : list string) : bool :=
  match l with [] => false | x :: t => mem_s x t || has_dup t end.

Definition qual (a n : string) : string := a ++ "#" ++ n.
(* the part after the first '#', if any *)
Fixpoint after_hash (s : string) : option string :=
  match s with
  | EmptyString => None
  | String c t => if Ascii.eqb c "#"%char then Some t else after_hash t
  end.
Definition unqual (s : string) : string := match after_hash s with Some t => t | None => s end.

(* ---------------------------------------------------------------- result structure *)
(* join columns: emitted once, never qualified.  Every identifier of every operand, plus the `using` components *)
Definition all_ids (hs : list header) : list string := flat_map h_ids hs.
Definition jcols (k : jkind) (us : option (list string)) (hs : list header) : list string :=
  match k with
  | JCross => []
  | _ => dedup ((match us with Some u => u | None => [] end) ++ all_ids hs)
  end.
(* a join column is an identifier of the result iff it is an identifier in every operand that carries it *)
Definition key_is_id (hs : list header) (n : string) : bool :=
  forallb (fun h => negb (has_comp h n) || mem_s n (h_ids h)) hs.

Definition nonjoin (J : list string) (h : header) : list string := filter (fun n => negb (mem_s n J)) (h_comps h).
Definition is_dup (J : list string) (hs : list header) (n : string) : bool :=
  Nat.leb 2 (count_s n (flat_map (nonjoin J) hs)).
Definition out_name (J : list string) (hs : list header) (h : header) (n : string) : string :=
  if is_dup J hs n then qual (h_alias h) n else n.

(* where the value of a result component comes from *)
Inductive src := SKey (n : string) | SOp (i : nat) (n : string).
Record col := mkCol { c_name : string; c_src : src; c_id : bool }.

Definition key_cols (J : list string) (hs : list header) : list col :=
  map (fun n => mkCol n (SKey n) (key_is_id hs n)) J.
Fixpoint op_cols_from (J : list string) (all : list header) (i : nat) (hs : list header) : list col :=
  match hs with
  | [] => []
  | h :: t => map (fun n => mkCol (out_name J all h n) (SOp i n) (mem_s n (h_ids h))) (nonjoin J h)
              ++ op_cols_from J all (S i) t
  end.
Definition cols (J : list string) (hs : list header) : list col := key_cols J hs ++ op_cols_from J hs 0 hs.
Definition id_cols (cs : list col) : list col := filter c_id cs.
Definition ms_cols (cs : list col) : list col := filter (fun c => negb (c_id c)) cs.

(* ---------------------------------------------------------------- one result datapoint from one combination *)
(* a join column takes its value from the first operand that carries it and is present in the combination
   (inner/left: the operands agree on it; full: the keys are coalesced) *)
Fixpoint key_val (hs : list header) (cb : combo) (n : string) : val :=
  match hs, cb with
  | h :: hs', Some r :: cb' => if has_comp h n then h_val h r n else key_val hs' cb' n
  | _ :: hs', None :: cb' => key_val hs' cb' n
  | _, _ => VNull
  end.
(* any other component takes the value of its own operand's datapoint, null when that side is missing *)
Definition src_val (hs : list header) (cb : combo) (s : src) : val :=
  match s with
  | SKey n => key_val hs cb n
  | SOp i n => match nth_error hs i, nth_error cb i with
               | Some h, Some (Some r) => h_val h r n
               | _, _ => VNull
               end
  end.
Definition render (hs : list header) (cs : list col) (cb : combo) : orow :=
  (map (fun c => src_val hs cb (c_src c)) (id_cols cs), map (fun c => src_val hs cb (c_src c)) (ms_cols cs)).

(* ---------------------------------------------------------------- which combinations exist *)
Fixpoint product {A} (ls : list (list A)) : list (list A) :=
  match ls with
  | [] => [[]]
  | l :: t => flat_map (fun x => map (cons x) (product t)) l
  end.

(* SQL equality of join keys: a null never matches *)
Definition sql_eqb (a b : val) : bool := negb (is_null a) && val_eqb a b.

(* keys on which an operand (header h) is matched against the operands before it *)
Definition match_keys (us : option (list string)) (before : list header) (h : header) : list string :=
  match us with
  | Some u => filter (has_comp h) u
  | None => filter (fun n => existsb (fun p => mem_s n (h_ids p)) before) (h_ids h)
  end.
(* left-hand value of a key: that of the first preceding operand carrying the component (null if that side is missing) *)
Fixpoint on_val (before : list header) (pre : combo) (n : string) : val :=
  match before, pre with
  | h :: bt, x :: pt => if has_comp h n then match x with Some r => h_val h r n | None => VNull end else on_val bt pt n
  | _, _ => VNull
  end.
Definition on_ok (us : option (list string)) (before : list header) (pre : combo) (h : header) (r : orow) : bool :=
  forallb (fun k => sql_eqb (on_val before pre k) (h_val h r k)) (match_keys us before h).

(* inner join: the combinations of one datapoint per operand that agree on the join keys *)
Fixpoint agree_from (us : option (list string)) (before : list header) (pre : combo) (hs : list header) (cb : combo) : bool :=
  match hs, cb with
  | [], [] => true
  | h :: hs', Some r :: cb' => on_ok us before pre h r && agree_from us (before ++ [h]) (pre ++ [Some r]) hs' cb'
  | _, _ => false
  end.
Definition agree (us : option (list string)) (hs : list header) (cb : combo) : bool :=
  match hs, cb with
  | [], [] => true
  | h :: hs', Some r :: cb' => agree_from us [h] [Some r] hs' cb'
  | _, _ => false
  end.
Definition all_some (rowss : list (list orow)) : list (list (option orow)) := map (map Some) rowss.
Definition inner_combos (us : option (list string)) (hs : list header) (rowss : list (list orow)) : list combo :=
  filter (agree us hs) (product (all_some rowss)).
(* cross join: every combination *)
Definition cross_combos (rowss : list (list orow)) : list combo := product (all_some rowss).

(* left join: every datapoint of the first operand, with each of its partners in every other operand, or with a
   missing side where it has none *)
Definition partners (us : option (list string)) (ha : header) (ra : orow) (h : header) (rows : list orow) : list (option orow) :=
  match filter (on_ok us [ha] [Some ra] h) rows with
  | [] => [None]
  | l => map Some l
  end.
Definition left_combos (us : option (list string)) (hs : list header) (rowss : list (list orow)) : list combo :=
  match hs, rowss with
  | ha :: hrest, rows_a :: rrest =>
      flat_map (fun ra => map (cons (Some ra))
                              (product (map (fun p => partners us ha ra (fst p) (snd p)) (combine hrest rrest)))) rows_a
  | _, _ => []
  end.

(* full join (all operands have the same identifiers): one combination per identifier key present in some operand *)
Fixpoint dedup_keys (ks : list (list val)) : list (list val) :=
  match ks with [] => [] | k :: t => k :: filter (fun k' => negb (key_eqb k' k)) (dedup_keys t) end.
Definition all_keys (rowss : list (list orow)) : list (list val) := dedup_keys (flat_map (map fst) rowss).
Definition full_combos (rowss : list (list orow)) : list combo :=
  map (fun k => map (find_key k) rowss) (all_keys rowss).

(* the left-deep formulation the engine used before its repair (fix 94e8b5c): FULL JOINs whose ON clause compares each new
   operand with the FIRST operand's identifiers only — with three operands a key missing in the first one is not matched
   between the 2nd and 3rd.  Kept (impl := true) to recognise a regression; never used to excuse a disagreement *)
Fixpoint full_impl_from (before : list header) (acc : list combo) (rest : list (header * list orow)) : list combo :=
  match rest with
  | [] => acc
  | (h, rows) :: rest' =>
      let matched := flat_map (fun pre => map (fun r => pre ++ [Some r]) (filter (on_ok None before pre h) rows)) acc in
      let left_only := map (fun pre => pre ++ [None])
                           (filter (fun pre => negb (existsb (on_ok None before pre h) rows)) acc) in
      let right_only := map (fun r => map (fun _ => None) before ++ [Some r])
                            (filter (fun r => negb (existsb (fun pre => on_ok None before pre h r) acc)) rows) in
      full_impl_from (before ++ [h]) (matched ++ left_only ++ right_only) rest'
  end.
Definition full_combos_impl (hs : list header) (rowss : list (list orow)) : list combo :=
  match hs, rowss with
  | ha :: hrest, rows_a :: rrest => full_impl_from [ha] (map (fun r => [Some r]) rows_a) (combine hrest rrest)
  | _, _ => []
  end.

Definition combos (k : jkind) (us : option (list string)) (hs : list header) (rowss : list (list orow)) : list combo :=
  match k with
  | JInner => inner_combos us hs rowss
  | JLeft => left_combos us hs rowss
  | JFull => full_combos rowss
  | JCross => cross_combos rowss
  end.
Definition combos_impl (k : jkind) (us : option (list string)) (hs : list header) (rowss : list (list orow)) : list combo :=
  match k with JFull => full_combos_impl hs rowss | _ => combos k us hs rowss end.

(* ---------------------------------------------------------------- legal identifier configurations (semantic rules) *)
Fixpoint ref_max (best : header) (hs : list header) : header :=
  match hs with
  | [] => best
  | h :: t => ref_max (if Nat.ltb (length (h_ids best)) (length (h_ids h)) then h else best) t
  end.
Definition ref_operand (k : jkind) (hs : list header) : option header :=
  match hs with
  | [] => None
  | a :: t => Some (match k with JInner | JFull => ref_max a t | _ => a end)
  end.
Fixpoint list_eqb_s (a b : list string) : bool :=
  match a, b with
  | [], [] => true
  | x :: a', y :: b' => String.eqb x y && list_eqb_s a' b'
  | _, _ => false
  end.
Definition first_err (l : list (bool * string)) : res unit :=
  match find (fun p => fst p) l with Some p => Err (snd p) | None => Ok tt end.

Definition join_check (k : jkind) (us : option (list string)) (hs : list header) : res unit :=
  match ref_operand k hs with
  | None => Err "1-1-13-10"
  | Some ref =>
    let others := filter (fun h => negb (String.eqb (h_alias h) (h_alias ref))) hs in
    match k, us with
    | JCross, Some _ | JFull, Some _ => Err "1-1-13-8"
    | JCross, None => Ok tt
    | JFull, None =>
        first_err [ (existsb (fun h => negb (Nat.eqb (length (h_ids h)) (length (h_ids ref)))) others, "1-1-13-13");
                    (existsb (fun h => negb (list_eqb_s (h_ids h) (h_ids ref))) others, "1-1-13-12") ]
    | _, None =>
        first_err [ (existsb (fun h => negb (subset_s (h_ids h) (h_ids ref))) others, "1-1-13-11") ]
    | _, Some u =>
        first_err [ (existsb (fun h => negb (subset_s (h_ids h) u)) others, "1-1-13-4");
                    (negb (subset_s u (h_comps ref)), "1-1-13-6");
                    (existsb (fun h => subset_s u (h_ids h)) hs && existsb (fun h => negb (subset_s u (h_comps h))) others, "1-1-1-10") ]
    end
  end.

(* ---------------------------------------------------------------- the join *)
Definition join_with (cbs : list combo) (k : jkind) (us : option (list string)) (hs : list header) : dset :=
  let cs := cols (jcols k us hs) hs in
  mkD (map c_name (id_cols cs)) (map c_name (ms_cols cs)) (map (render hs cs) cbs).

Definition d_join (k : jkind) (us : option (list string)) (ops : list operand) : res dset :=
  let hs := map o_hdr ops in
  bind (join_check k us hs) (fun _ => Ok (join_with (combos k us hs (map o_rows ops)) k us hs)).
Definition d_join_impl (k : jkind) (us : option (list string)) (ops : list operand) : res dset :=
  let hs := map o_hdr ops in
  bind (join_check k us hs) (fun _ => Ok (join_with (combos_impl k us hs (map o_rows ops)) k us hs)).

(* ---------------------------------------------------------------- trailing body and final unqualification *)
Inductive jclause :=
| JFilter (c : cexpr)
| JCalc (defs : list (string * cexpr))
| JKeep (l : list string)
| JDrop (l : list string)
| JRename (l : list (string * string)).

(* a reference `alias#comp` (or a bare name) is resolved against the components of the dataset the clause is applied to:
   itself when present; else, for a qualified reference, its unqualified name when present; else, for a bare name, the
   only qualified component carrying that name *)
Definition resolve (names : list string) (q : string) : string :=
  if mem_s q names then q else
  match after_hash q with
  | Some n => if mem_s n names then n else q
  | None => match filter (fun m => match after_hash m with Some t => String.eqb t q | None => false end) names with
            | [m] => m
            | _ => q
            end
  end.

Fixpoint cmap (f : string -> string) (c : cexpr) : cexpr :=
  match c with
  | CCol n => CCol (f n)
  | CLit v => CLit v
  | CBin op a b => CBin op (cmap f a) (cmap f b)
  | CUn op a => CUn op (cmap f a)
  | CIf c t e => CIf (cmap f c) (cmap f t) (cmap f e)
  | CNvl a b => CNvl (cmap f a) (cmap f b)
  | CBetween a lo hi => CBetween (cmap f a) (cmap f lo) (cmap f hi)
  | CIn a l => CIn (cmap f a) l
  | CNotIn a l => CNotIn (cmap f a) l
  | CRound a n => CRound (cmap f a) n
  | CTrunc a n => CTrunc (cmap f a) n
  | CSubstr a st len => CSubstr (cmap f a) st len
  end.

Definition apply_clause (d : dset) (c : jclause) : res dset :=
  let rs := resolve (d_ids d ++ d_ms d) in
  match c with
  | JFilter e => d_filter d (cmap rs e)
  | JCalc defs => d_calc d (map (fun df => (fst df, cmap rs (snd df))) defs)
  | JKeep l => Ok (d_keep d (map rs l))
  | JDrop l => Ok (d_drop d (map rs l))
  | JRename l => Ok (d_rename d (map (fun p => (rs (fst p), snd p)) l))
  end.
Fixpoint apply_body (d : dset) (body : list jclause) : res dset :=
  match body with
  | [] => Ok d
  | c :: t => bind (apply_clause d c) (fun d' => apply_body d' t)
  end.

(* at the end of the join expression the remaining `alias#comp` names lose their prefix; a clash is an error *)
Definition d_unqualify (d : dset) : res dset :=
  let ids := map unqual (d_ids d) in
  let ms := map unqual (d_ms d) in
  if has_dup (ids ++ ms) then Err "1-1-13-9" else Ok (mkD ids ms (d_rows d)).

Definition d_join_stmt (impl : bool) (k : jkind) (us : option (list string)) (ops : list operand) (body : list jclause) : res dset :=
  bind ((if impl then d_join_impl else d_join) k us ops)
       (fun d => bind (apply_body d body) d_unqualify).

(* ---------------------------------------------------------------- scripts: join statements and Model/Expr statements *)
Inductive jstmt :=
| SJoin (k : jkind) (us : option (list string)) (ops : list (string * string)) (body : list jclause)   (* (alias, dataset name) *)
| SExpr (x : dexpr).

Definition jeval (impl : bool) (e : denv) (s : jstmt) : res dset :=
  match s with
  | SExpr x => deval e x
  | SJoin k us ops body =>
      bind (mapM (fun p => match dlook (snd p) e with Some d => Ok (fst p, d) | None => Err "1-2-2" end) ops)
           (fun l => d_join_stmt impl k us l body)
  end.
Fixpoint run_jstmts (impl : bool) (e : denv) (ss : list (string * jstmt)) : res denv :=
  match ss with
  | [] => Ok e
  | (n, s) :: t => bind (jeval impl e s) (fun d => run_jstmts impl ((n, d) :: e) t)
  end.
Definition run_jscript (impl : bool) (e : denv) (ss : list (string * jstmt)) (result : string) : res dset :=
  bind (run_jstmts impl e ss) (fun e' => match dlook result e' with Some d => Ok d | None => Err "1-2-2" end).
