(* C30 — numeric precision settings.  Executable definitions only (no proofs).
   set_decimal_config of duckdb_transpiler/Config/config.py as a pure function of the two environment variables
   (None = unset) and the module globals DECIMAL_WIDTH / DECIMAL_SCALE; DECIMAL(w,s) values as Z scaled by 10^s.
   `_spec` = docs/environment_variables.rst = the code since its repair (the regenerated function table and the correspondence
   are checked against it); `_prefix` = the code before the repair, kept only for regression witnesses. *)
From Coq Require Import ZArith List Bool.
Import ListNotations.
Open Scope Z_scope.

Record consts := mkConsts {
  c_min_w : Z; c_max_w : Z; c_def_w : Z;
  c_min_s : Z; c_max_s : Z; c_def_s : Z;
  c_disable : Z }.

(* a documented range: lo..hi accepted, `disable` accepted and meaning `disable_means`, default when not defined *)
Record docrange := mkDoc { d_lo : Z; d_hi : Z; d_disable : Z; d_disable_means : Z; d_default : Z }.

Record globals := mkG { g_w : Z; g_s : Z }.

Inductive cfgvar := VarWidth | VarScale.

(* In both cases the last argument is the state of the module globals AFTER the call;
   Rejected = RunTimeError 0-4-1-1 naming variable v and reporting the value `bad`. *)
Inductive cfg_result :=
  | Accepted (g : globals)
  | Rejected (v : cfgvar) (bad : Z) (g : globals).

Definition defaults (k : consts) : globals := mkG (c_def_w k) (c_def_s k).
Definition eff (disable maxv v : Z) : Z := if v =? disable then maxv else v.
Definition from_env (e : option Z) (dflt : Z) : Z := match e with Some v => v | None => dflt end.

(* --- documented behaviour = the code since the repair of set_decimal_config:
     width = int(os.getenv(VAR, DEFAULT_DECIMAL_WIDTH)), scale likewise   -- an unset variable is its documented default
     -1 -> MAX;  scale range check;  width range check (both bounds on the width);  width < scale rejected as well
     (DECIMAL(w,s) needs s <= w; same error, naming the width);
     the module globals are assigned only after validation (a rejected call leaves them as they were) *)
Definition set_decimal_config_spec (k : consts) (ew es : option Z) (g : globals) : cfg_result :=
  let w1 := eff (c_disable k) (c_max_w k) (from_env ew (c_def_w k)) in
  let s1 := eff (c_disable k) (c_max_s k) (from_env es (c_def_s k)) in
  if (s1 <? c_min_s k) || (s1 >? c_max_s k) then Rejected VarScale s1 g
  else if (w1 <? c_min_w k) || (w1 >? c_max_w k) then Rejected VarWidth w1 g
  else if w1 <? s1 then Rejected VarWidth w1 g
  else Accepted (mkG w1 s1).

(* --- the code BEFORE that repair (kept for the regression witnesses only; not tied to the current tree):
     DECIMAL_WIDTH = int(os.getenv(VAR, DECIMAL_WIDTH))     -- default = the CURRENT global, assigned before validation
     -1 -> MAX;  scale range check;  then `DECIMAL_WIDTH < MIN_DECIMAL_WIDTH or DECIMAL_SCALE > MAX_DECIMAL_WIDTH` *)
Definition set_decimal_config_prefix (k : consts) (ew es : option Z) (g : globals) : cfg_result :=
  let w1 := eff (c_disable k) (c_max_w k) (from_env ew (g_w g)) in
  let s1 := eff (c_disable k) (c_max_s k) (from_env es (g_s g)) in
  let g' := mkG w1 s1 in
  if (s1 <? c_min_s k) || (s1 >? c_max_s k) then Rejected VarScale s1 g'
  else if (w1 <? c_min_w k) || (s1 >? c_max_w k) then Rejected VarWidth w1 g'
  else Accepted g'.

Definition accepted (r : cfg_result) : bool := match r with Accepted _ => true | Rejected _ _ _ => false end.
Definition state_after (r : cfg_result) : globals := match r with Accepted g => g | Rejected _ _ g => g end.

(* a value of an environment variable is in its documented range *)
Definition in_doc (d : docrange) (v : Z) : Prop := v = d_disable d \/ (d_lo d <= v <= d_hi d).
Definition in_docb (d : docrange) (v : Z) : bool := (v =? d_disable d) || ((d_lo d <=? v) && (v <=? d_hi d)).

(* --- what run() does with the configuration once a Number column is loaded: the column type is the string
       DECIMAL(w,s) handed to DuckDB, which (observed, DuckDB 1.5) demands 1 <= w <= 38 and 0 <= s <= w and otherwise
       raises a BinderException that the engine does not translate *)
Definition duckdb_max_width : Z := 38.
Definition decimal_type_ok (w s : Z) : bool := (1 <=? w) && (w <=? duckdb_max_width) && (0 <=? s) && (s <=? w).

Inductive run_outcome :=
  | CfgRejected (v : cfgvar)          (* documented configuration error 0-4-1-1 *)
  | RawBinder                      (* raw duckdb.BinderException escapes run() *)
  | CfgOk (w s : Z).               (* Number columns are DECIMAL(w,s) *)

Definition run_config (f : option Z -> option Z -> globals -> cfg_result) (ew es : option Z) (g : globals)
  : run_outcome * globals :=
  match f ew es g with
  | Rejected v _ g' => (CfgRejected v, g')
  | Accepted g' => (if decimal_type_ok (g_w g') (g_s g') then CfgOk (g_w g') (g_s g') else RawBinder, g')
  end.

(* a sequence of run() calls in one process, the globals threaded through *)
Fixpoint run_sequence (f : option Z -> option Z -> globals -> cfg_result) (g : globals)
         (settings : list (option Z * option Z)) : list run_outcome :=
  match settings with
  | [] => []
  | (ew, es) :: t => let '(o, g') := run_config f ew es g in o :: run_sequence f g' t
  end.

(* the module globals after each of those runs *)
Fixpoint run_sequence_states (f : option Z -> option Z -> globals -> cfg_result) (g : globals)
         (settings : list (option Z * option Z)) : list (Z * Z) :=
  match settings with
  | [] => []
  | (ew, es) :: t => let g' := snd (run_config f ew es g) in (g_w g', g_s g') :: run_sequence_states f g' t
  end.

(* --- the regenerated function table (Gen/Config.v) and its encoding: (kind, reported value, width after, scale after) *)
Definition enc_result (r : cfg_result) : Z * Z * Z * Z :=
  match r with
  | Accepted g => (0, 0, g_w g, g_s g)
  | Rejected VarScale bad g => (1, bad, g_w g, g_s g)
  | Rejected VarWidth bad g => (2, bad, g_w g, g_s g)
  end.

(* how a dumped row states the globals after the call: explicitly, or "as before the call" *)
Inductive post := PNew (w s : Z) | PSame.
Definition dec_row (g : globals) (row : Z * Z * post) : Z * Z * Z * Z :=
  let '(k, bad, p) := row in match p with PNew w s => (k, bad, w, s) | PSame => (k, bad, g_w g, g_s g) end.

Definition oz_eqb (a b : option Z) : bool :=
  match a, b with Some x, Some y => x =? y | None, None => true | _, _ => false end.
Definition g_eqb (a b : globals) : bool := (g_w a =? g_w b) && (g_s a =? g_s b).
Definition r4_eqb (a b : Z * Z * Z * Z) : bool :=
  let '(a1, a2, a3, a4) := a in let '(b1, b2, b3, b4) := b in (a1 =? b1) && (a2 =? b2) && (a3 =? b3) && (a4 =? b4).
Definition or4_eqb (a b : option (Z * Z * Z * Z)) : bool :=
  match a, b with Some x, Some y => r4_eqb x y | None, None => true | _, _ => false end.

Fixpoint assoc_by {K V} (eqb : K -> K -> bool) (k : K) (l : list (K * V)) : option V :=
  match l with [] => None | (k', v) :: t => if eqb k k' then Some v else assoc_by eqb k t end.

(* decompression of the dumped table: a row with both variables set is stored once when ONE row (with the globals stated
   explicitly or "as before") describes the real function's answer under every prior — the translator checks that against
   every prior before writing it; all other rows are stored per prior *)
Definition code_table (tab_both : list ((Z * Z) * (Z * Z * post)))
           (tab_unset : list (globals * list ((option Z * option Z) * (Z * Z * post))))
           (g : globals) (ew es : option Z) : option (Z * Z * Z * Z) :=
  let row :=
    match ew, es with
    | Some w, Some s =>
        match assoc_by (fun a b => (fst a =? fst b) && (snd a =? snd b)) (w, s) tab_both with
        | Some r => Some r
        | None => match assoc_by g_eqb g tab_unset with
                  | Some rows => assoc_by (fun a b => oz_eqb (fst a) (fst b) && oz_eqb (snd a) (snd b)) (ew, es) rows
                  | None => None
                  end
        end
    | _, _ => match assoc_by g_eqb g tab_unset with
              | Some rows => assoc_by (fun a b => oz_eqb (fst a) (fst b) && oz_eqb (snd a) (snd b)) (ew, es) rows
              | None => None
              end
    end in
  match row with Some r => Some (dec_row g r) | None => None end.

(* --- DECIMAL(w,s) values: the integer v stands for v / 10^s.  An input literal is m / 10^e (e >= 0). *)
Definition round_half_away (a d : Z) : Z := Z.sgn a * ((2 * Z.abs a + d) / (2 * d)).   (* a / d, d > 0 *)

Definition to_scale (s m e : Z) : Z :=
  if e <=? s then m * 10 ^ (s - e) else round_half_away m (10 ^ (e - s)).

Definition fits (w v : Z) : bool := Z.abs v <? 10 ^ w.

(* loading a Number: round to the scale, then reject (DataLoadError 0-3-1-6) what does not fit w digits *)
Definition load (w s m e : Z) : option Z :=
  let v := to_scale s m e in if fits w v then Some v else None.

Definition dec_add (a b : Z) : Z := a + b.
Definition dec_sub (a b : Z) : Z := a - b.

(* DuckDB (observed on every width 6..38 by the correspondence; BindDecimalAddSubtract) types DECIMAL(w,s) +/- DECIMAL(w,s)
   as DECIMAL(w+1,s), except that it neither widens past the int64 boundary (w = 18) nor past the maximal width (w = 38):
   there the result keeps width w and the operation is overflow-checked *)
Definition duckdb_int64_width : Z := 18.
Definition result_width (w : Z) : Z :=
  if (w =? duckdb_int64_width) || (w =? duckdb_max_width) then w else w + 1.

Inductive case_outcome :=
  | OConfig (o : run_outcome)      (* the run stops at the configuration (CfgRejected / RawBinder) *)
  | OLoadReject                    (* an input does not fit DECIMAL(w,s): DataLoadError *)
  | OOverflow                      (* the exact result does not fit the result type: raw duckdb.OutOfRangeException *)
  | OValue (s v : Z).              (* result v / 10^s *)

Definition binop_case (sub : bool) (o : run_outcome) (m1 e1 m2 e2 : Z) : case_outcome :=
  match o with
  | CfgOk w s =>
      match load w s m1 e1, load w s m2 e2 with
      | Some a, Some b =>
          let r := if sub then dec_sub a b else dec_add a b in
          if fits (result_width w) r then OValue s r else OOverflow
      | _, _ => OLoadReject
      end
  | _ => OConfig o
  end.

(* --- input literals.  Plain m e = m / 10^e (e >= 0).  Sci M d x = (M / 10^d) * 10^x: TEXT in exponent notation with
       mantissa M / 10^d (d decimals), as written in a CSV file or in a string column of a DataFrame ("6.5e-05" = Sci 65 1 (-5)).
       FSci M d x = the same value held by a floating-point column of a DataFrame: DuckDB renders doubles below 1e-4 in
       exponent notation on their way through CAST(CAST(col AS VARCHAR) AS DECIMAL(w,s)). *)
Inductive lit := Plain (m e : Z) | Sci (M d x : Z) | FSci (M d x : Z).

Fixpoint ndigits_pos (fuel : nat) (n : Z) : Z :=
  match fuel with O => 0 | S f => if n <=? 0 then 0 else 1 + ndigits_pos f (n / 10) end.
Definition ndigits (n : Z) : Z := ndigits_pos (S (Z.to_nat (Z.log2 (Z.abs n + 1)))) (Z.abs n).
Definition leading_digit (n : Z) : Z := Z.abs n / 10 ^ (ndigits n - 1).

(* M * 10^y rounded to scale s, y any integer *)
Definition to_scale_pow (s M y : Z) : Z := if y <=? 0 then to_scale s M (- y) else to_scale s (M * 10 ^ y) 0.

(* documented: the exact value rounded to the scale, rejected when it does not fit *)
Definition load_lit_spec (w s : Z) (l : lit) : option Z :=
  let v := match l with
           | Plain m e => to_scale s m e
           | Sci M d x | FSci M d x => to_scale_pow s M (x - d)
           end in
  if fits w v then Some v else None.

(* faithful (observed on DuckDB 1.5, VARCHAR -> DECIMAL with an exponent):
   - the mantissa alone must fit: more integer digits than w - s => conversion error, whatever the exponent;
   - when k = -(x - d + s) > 0 digits of the mantissa have to be dropped the cast divides by 10 k times but stops as soon as
     the quotient is 0, rounding on the last digit it removed: with k greater than the number of mantissa digits the LEADING
     digit decides, so 5e-30 becomes one unit of the last kept decimal.
   (mantissas with more decimals than the scale are outside this model) *)
Definition to_scale_sci_impl (s M y : Z) : Z :=
  let k := - (y + s) in
  if k <=? 0 then M * 10 ^ (- k)
  else if k <=? ndigits M then round_half_away M (10 ^ k)
  else if 5 <=? leading_digit M then Z.sgn M else 0.

Definition load_sci_text (w s M d x : Z) : option Z :=
  if w - s <? ndigits M - d then None
  else let v := to_scale_sci_impl s M (x - d) in if fits w v then Some v else None.

(* the engine: exponent-notation TEXT goes through DuckDB's cast as it is; since the repair of the DataFrame loader (603b519)
   the rendering of a floating-point column is spelled out as a plain decimal first, i.e. loaded as documented *)
Definition load_lit_impl (w s : Z) (l : lit) : option Z :=
  match l with
  | Plain m e => load w s m e
  | Sci M d x => load_sci_text w s M d x
  | FSci _ _ _ => load_lit_spec w s l
  end.

(* the engine before that repair (regression witnesses only): a float took the same path as text *)
Definition load_lit_before_fix (w s : Z) (l : lit) : option Z :=
  match l with
  | Plain m e => load w s m e
  | Sci M d x | FSci M d x => load_sci_text w s M d x
  end.

Definition binop_vals (sub : bool) (w s : Z) (la lb : option Z) : case_outcome :=
  match la, lb with
  | Some a, Some b =>
      let r := if sub then dec_sub a b else dec_add a b in
      if fits (result_width w) r then OValue s r else OOverflow
  | _, _ => OLoadReject
  end.

Definition binop_case_lit (ld : Z -> Z -> lit -> option Z) (sub : bool) (o : run_outcome) (l1 l2 : lit) : case_outcome :=
  match o with
  | CfgOk w s => binop_vals sub w s (ld w s l1) (ld w s l2)
  | _ => OConfig o
  end.
