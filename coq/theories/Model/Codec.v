(* Model/Codec.v — codecs used by C14 (output folder), C24 (prettify literals / identifiers) and C25 (generate_sdmx).
   Definitions only (no proofs).  Strings are byte strings: [bytes = list ascii]; the harness passes UTF-8 bytes.

   (a) DuckDB 1.5.5 `COPY … TO … WITH (HEADER true, DELIMITER ',')` writer, as observed on the real DuckDB (every single code
       point 1..0x2FF alone / leading / trailing / inner): a field is quoted iff it is the empty string or contains one of
       , DQUOTE CR LF #  (# = the reader's comment character); quotes are doubled; NULL is the empty unquoted field; rows end in LF.
       [decode_csv] is a strict RFC-4180 reader (LF or CRLF row ends) that keeps null <> empty string.
   (b) Python csv.writer (excel dialect, as used by save_scalars_duckdb): a field is quoted iff it contains , DQUOTE CR or LF; the
       empty string is written unquoted; rows end in CRLF; rows are sorted by name; None is written as the empty string.
   (c) ASTString._handle_literal (render_literal; the float branch before /repo commit 70d45d5 is kept as
       render_float_before_fix) and the grammar's constant syntax (parse_literal).
   (d) ASTString._format_reserved_word and the IDENTIFIER token.
   (e) ast_to_sdmx / pysdmx generate_vtl_script as list transformations. *)
From Coq Require Import Decimal DecimalZ String Ascii ZArith NArith Lia Bool List.
Import ListNotations.
Local Open Scope char_scope.

Definition bytes := list ascii.
Definition B (s : string) : bytes := list_ascii_of_string s.

Definition c_comma : ascii := ",".
Definition c_dq : ascii := """".
Definition c_cr : ascii := "013".
Definition c_lf : ascii := "010".
Definition c_hash : ascii := "#".

Fixpoint bytes_eqb (a b : bytes) : bool :=
  match a, b with
  | [], [] => true
  | x :: a', y :: b' => Ascii.eqb x y && bytes_eqb a' b'
  | _, _ => false
  end.

(* ------------------------------------------------------------------------------------------------------------------ *)
(** * (a) CSV as written by DuckDB, and the reader *)

Definition cell := option bytes.          (* None = NULL; Some [] = empty string *)
Definition row := list cell.
Definition table := list row.             (* header row first; the header's cells are Some name *)

Definition special_duck (c : ascii) : bool :=
  Ascii.eqb c c_comma || Ascii.eqb c c_dq || Ascii.eqb c c_cr || Ascii.eqb c c_lf || Ascii.eqb c c_hash.
Definition special_py (c : ascii) : bool :=
  Ascii.eqb c c_comma || Ascii.eqb c c_dq || Ascii.eqb c c_cr || Ascii.eqb c c_lf.

Definition needs_quote_duck (s : bytes) : bool :=
  match s with [] => true | _ => existsb special_duck s end.
Definition needs_quote_py (s : bytes) : bool := existsb special_py s.

Fixpoint escape (s : bytes) : bytes :=
  match s with
  | [] => []
  | c :: r => if Ascii.eqb c c_dq then c_dq :: c_dq :: escape r else c :: escape r
  end.
Definition quote (s : bytes) : bytes := c_dq :: escape s ++ [c_dq].

Definition enc_cell (c : cell) : bytes :=
  match c with
  | None => []
  | Some s => if needs_quote_duck s then quote s else s
  end.

Fixpoint join_cells (l : list bytes) : bytes :=
  match l with
  | [] => []
  | [x] => x
  | x :: r => x ++ c_comma :: join_cells r
  end.

Definition enc_row (r : row) : bytes := join_cells (map enc_cell r) ++ [c_lf].
Definition encode_csv (t : table) : bytes := concat (map enc_row t).

Inductive dstate := DStart | DUnq | DQ | DQQ | DCR.

(* fld: current field, reversed; rw: cells of the current row, reversed; acc: finished rows, reversed *)
Fixpoint dec (s : bytes) (st : dstate) (fld : bytes) (rw : row) (acc : table) : option table :=
  match s with
  | [] =>
      match st, rw with
      | DStart, [] => Some (rev acc)
      | _, _ => None                      (* input ends inside a row: every row must be terminated *)
      end
  | c :: r =>
      match st with
      | DStart =>
          if Ascii.eqb c c_comma then dec r DStart [] (None :: rw) acc
          else if Ascii.eqb c c_lf then dec r DStart [] [] (rev (None :: rw) :: acc)
          else if Ascii.eqb c c_cr then dec r DCR [] (None :: rw) acc
          else if Ascii.eqb c c_dq then dec r DQ [] rw acc
          else dec r DUnq [c] rw acc
      | DUnq =>
          if Ascii.eqb c c_comma then dec r DStart [] (Some (rev fld) :: rw) acc
          else if Ascii.eqb c c_lf then dec r DStart [] [] (rev (Some (rev fld) :: rw) :: acc)
          else if Ascii.eqb c c_cr then dec r DCR [] (Some (rev fld) :: rw) acc
          else if Ascii.eqb c c_dq then None
          else dec r DUnq (c :: fld) rw acc
      | DQ =>
          if Ascii.eqb c c_dq then dec r DQQ fld rw acc else dec r DQ (c :: fld) rw acc
      | DQQ =>
          if Ascii.eqb c c_dq then dec r DQ (c_dq :: fld) rw acc
          else if Ascii.eqb c c_comma then dec r DStart [] (Some (rev fld) :: rw) acc
          else if Ascii.eqb c c_lf then dec r DStart [] [] (rev (Some (rev fld) :: rw) :: acc)
          else if Ascii.eqb c c_cr then dec r DCR [] (Some (rev fld) :: rw) acc
          else None
      | DCR =>
          if Ascii.eqb c c_lf then dec r DStart [] [] (rev rw :: acc) else None
      end
  end.

Definition decode_csv (s : bytes) : option table := dec s DStart [] [] [].

(* a table is writable/readable when every row has at least one cell (DuckDB relations have >= 1 column) *)
Definition wf_table (t : table) : Prop := Forall (fun r : row => r <> []) t.
Definition rectangular (t : table) : Prop :=
  match t with [] => True | h :: rs => Forall (fun r : row => length r = length h) rs end.

(* ------------------------------------------------------------------------------------------------------------------ *)
(** * (b) `_scalars.csv` as written by save_scalars_duckdb (Python csv.writer) *)

Definition enc_field_py (s : bytes) : bytes := if needs_quote_py s then quote s else s.
(* csv.writer: a row consisting of one empty field is written as two double quotes *)
Definition enc_row_py (r : list bytes) : bytes :=
  match r with
  | [[]] => [c_dq; c_dq; c_cr; c_lf]
  | _ => join_cells (map enc_field_py r) ++ [c_cr; c_lf]
  end.

Fixpoint bytes_leb (a b : bytes) : bool :=        (* Python's str order = code point order = UTF-8 byte order *)
  match a, b with
  | [], _ => true
  | _ :: _, [] => false
  | x :: a', y :: b' =>
      if (N_of_ascii x <? N_of_ascii y)%N then true
      else if (N_of_ascii y <? N_of_ascii x)%N then false
      else bytes_leb a' b'
  end.

Definition scalar := (bytes * option bytes)%type.     (* name, str(value) or None *)

Fixpoint insert_scalar (x : scalar) (l : list scalar) : list scalar :=
  match l with
  | [] => [x]
  | y :: r => if bytes_leb (fst x) (fst y) then x :: y :: r else y :: insert_scalar x r
  end.
Fixpoint sort_scalars (l : list scalar) : list scalar :=
  match l with [] => [] | x :: r => insert_scalar x (sort_scalars r) end.

Definition scalar_value_text (v : option bytes) : bytes := match v with None => [] | Some s => s end.
Definition scalar_row (x : scalar) : list bytes := [fst x; scalar_value_text (snd x)].

Definition scalars_file (l : list scalar) : bytes :=
  concat (map enc_row_py ([B "name"; B "value"] :: map scalar_row (sort_scalars l))).

Definition blank_none (s : bytes) : cell := match s with [] => None | _ => Some s end.
(* what a reader of the file can recover *)
Definition scalars_table (l : list scalar) : table :=
  [Some (B "name"); Some (B "value")]
  :: map (fun x : scalar => [blank_none (fst x); blank_none (scalar_value_text (snd x))]) (sort_scalars l).
(* what the run returned, as a table (null <> empty string) *)
Definition scalars_exact_table (l : list scalar) : table :=
  [Some (B "name"); Some (B "value")] :: map (fun x : scalar => [Some (fst x); snd x]) (sort_scalars l).

(* ------------------------------------------------------------------------------------------------------------------ *)
(** * (c) literals *)

Definition is_digit (c : ascii) : bool := ((48 <=? N_of_ascii c) && (N_of_ascii c <=? 57))%N.
Definition c_0 : ascii := "0".

Fixpoint uint_digits (u : uint) : bytes :=
  match u with
  | Nil => []
  | D0 u => "0" :: uint_digits u | D1 u => "1" :: uint_digits u | D2 u => "2" :: uint_digits u
  | D3 u => "3" :: uint_digits u | D4 u => "4" :: uint_digits u | D5 u => "5" :: uint_digits u
  | D6 u => "6" :: uint_digits u | D7 u => "7" :: uint_digits u | D8 u => "8" :: uint_digits u
  | D9 u => "9" :: uint_digits u
  end.

Definition digit_cons (c : ascii) (u : uint) : option uint :=
  if Ascii.eqb c "0" then Some (D0 u) else if Ascii.eqb c "1" then Some (D1 u)
  else if Ascii.eqb c "2" then Some (D2 u) else if Ascii.eqb c "3" then Some (D3 u)
  else if Ascii.eqb c "4" then Some (D4 u) else if Ascii.eqb c "5" then Some (D5 u)
  else if Ascii.eqb c "6" then Some (D6 u) else if Ascii.eqb c "7" then Some (D7 u)
  else if Ascii.eqb c "8" then Some (D8 u) else if Ascii.eqb c "9" then Some (D9 u)
  else None.

Fixpoint digits_uint (s : bytes) : option uint :=
  match s with
  | [] => Some Nil
  | c :: r => match digits_uint r with None => None | Some u => digit_cons c u end
  end.

Definition nz (s : bytes) : bytes := match s with [] => [c_0] | _ => s end.

(* Python str(int) *)
Definition render_Z (z : Z) : bytes :=
  match Z.to_int z with
  | Pos u => nz (uint_digits u)
  | Neg u => "-" :: nz (uint_digits u)
  end.

Fixpoint strip_lz (s : bytes) : bytes :=
  match s with
  | c :: r => if Ascii.eqb c c_0 then strip_lz r else s
  | [] => []
  end.
Definition strip_tz (s : bytes) : bytes := rev (strip_lz (rev s)).
Fixpoint count_lz (s : bytes) : nat :=
  match s with
  | c :: r => if Ascii.eqb c c_0 then S (count_lz r) else O
  | [] => O
  end.

(* A Number literal / a Python float: a finite decimal in canonical form  (-1)^dneg * dint.dfrac,
   dint without leading zeros ([] = 0), dfrac without trailing zeros ([] = integral). *)
Record decn := { dneg : bool; dint : bytes; dfrac : bytes }.

Definition mk_dec (neg : bool) (ip fp : bytes) : decn :=
  {| dneg := neg; dint := strip_lz ip; dfrac := strip_tz fp |}.

Definition last_nonzero (s : bytes) : bool :=
  match rev s with [] => true | c :: _ => negb (Ascii.eqb c c_0) end.
Definition head_nonzero (s : bytes) : bool :=
  match s with [] => true | c :: _ => negb (Ascii.eqb c c_0) end.
Definition dec_canon (d : decn) : bool :=
  forallb is_digit (dint d) && forallb is_digit (dfrac d) && head_nonzero (dint d) && last_nonzero (dfrac d).

Inductive lit :=
| LNull
| LBool (b : bool)
| LInt (z : Z)
| LStr (s : bytes)
| LNum (d : decn).

(* significant digits and decimal exponent X: value = s1.s2s3… * 10^X *)
Definition dec_sig (d : decn) : bytes := strip_tz (strip_lz (dint d ++ dfrac d)).
Definition dec_exp (d : decn) : Z :=
  match dint d with
  | [] => (- Z.of_nat (count_lz (dfrac d)) - 1)%Z
  | ip => (Z.of_nat (length ip) - 1)%Z
  end.
Definition dec_is_zero (d : decn) : bool := match dec_sig d with [] => true | _ => false end.

Definition sign_of (d : decn) : bytes := if dneg d then ["-"] else [].
Definition pad2 (s : bytes) : bytes := match s with [c] => [c_0; c] | _ => s end.
Definition exp_text (x : Z) : bytes :=
  (if (x <? 0)%Z then "-" else "+") :: pad2 (render_Z (Z.abs x)).

(* CPython float_repr_style 'short': repr(float) for a float whose shortest round-trip decimal is d
   (true of every decimal with <= 15 significant digits: DBL_DIG): scientific iff X < -4 or X >= 16. *)
Definition py_repr (d : decn) : bytes :=
  sign_of d ++
  (if dec_is_zero d then B "0.0"
   else
     let x := dec_exp d in
     if ((x <? -4) || (16 <=? x))%Z then
       (match dec_sig d with
        | [] => []
        | [c] => [c]
        | c :: r => c :: "." :: r
        end) ++ "e" :: exp_text x
     else nz (dint d) ++ "." :: nz (dfrac d)).

(* s.split(dot)[1] : None = IndexError *)
Fixpoint until_dot (s : bytes) : bytes :=
  match s with
  | [] => []
  | c :: r => if Ascii.eqb c "." then [] else c :: until_dot r
  end.
Fixpoint after_dot (s : bytes) : option bytes :=
  match s with
  | [] => None
  | c :: r => if Ascii.eqb c "." then Some (until_dot r) else after_dot r
  end.

Definition succ_digit (c : ascii) : ascii := ascii_of_N (N_of_ascii c + 1).
Fixpoint incr_rev (r : bytes) : bytes :=
  match r with
  | [] => ["1"]
  | c :: r' => if Ascii.eqb c "9" then c_0 :: incr_rev r' else succ_digit c :: r'
  end.
Definition incr_digits (s : bytes) : bytes := rev (incr_rev (rev s)).

Definition digit_odd (c : ascii) : bool := N.odd (N_of_ascii c).
Definition last_odd (s : bytes) : bool := match rev s with [] => false | c :: _ => digit_odd c end.

(* correctly rounded cut of the float's exact binary value: [bias] = sign of (float - its decimal d); it only matters
   when the cut-off tail of d is exactly 5 (an exact decimal tie), where the binary value decides (Eq: round-half-even). *)
Definition round_up (kept tail : bytes) (bias : comparison) : bool :=
  match tail with
  | [] => false
  | c :: r =>
      if (N_of_ascii "5" <? N_of_ascii c)%N then true
      else if (N_of_ascii c <? N_of_ascii "5")%N then false
      else if existsb (fun x => negb (Ascii.eqb x c_0)) r then true
      else match bias with Gt => true | Lt => false | Eq => last_odd kept end
  end.

Definition zeros (n : nat) : bytes := repeat c_0 n.

(* Python format spec f *)
Definition fmt_f (bias : comparison) (d : decn) : bytes :=
  let fr := dfrac d in
  let f6 := firstn 6 (fr ++ zeros 6) in
  let tail := skipn 6 fr in
  let body := dint d ++ f6 in
  let body' := if round_up body tail bias then incr_digits body else body in
  let n := (length body' - 6)%nat in
  sign_of d ++ nz (firstn n body') ++ "." :: skipn n body'.

(* Python format spec g (precision 6, no '#': trailing zeros and a trailing point removed) *)
Definition fmt_g (bias : comparison) (d : decn) : bytes :=
  sign_of d ++
  (if dec_is_zero d then [c_0]
   else
     let sg := dec_sig d in
     let body := firstn 6 (sg ++ zeros 6) in
     let tail := skipn 6 sg in
     let body' := if round_up body tail bias then incr_digits body else body in
     let '(b6, x) := if (6 <? length body')%nat then (firstn 6 body', (dec_exp d + 1)%Z) else (body', dec_exp d) in
     if ((x <? -4) || (6 <=? x))%Z then
       (match b6 with
        | [] => []
        | c :: r => match strip_tz r with [] => [c] | r' => c :: "." :: r' end
        end) ++ "e" :: exp_text x
     else if (0 <=? x)%Z then
       let k := S (Z.to_nat x) in
       firstn k b6 ++ (match strip_tz (skipn k b6) with [] => [] | fp => "." :: fp end)
     else
       c_0 :: "." :: strip_tz (zeros (Z.to_nat (- x - 1)) ++ b6)).

Definition rstrip0 (s : bytes) : bytes := strip_tz s.          (* str.rstrip of zeros *)

Definition has_dq (s : bytes) : bool := existsb (Ascii.eqb c_dq) s.

Section RenderBeforeFix.
  (* oracle: for the float denoted by d, the sign of (binary value - d); irrelevant away from exact decimal ties *)
  Variable bias : decn -> comparison.

  (* ASTString._handle_literal for a float AS IT WAS BEFORE /repo commit 70d45d5 (kept for the *_before_fix witnesses):
     decimal = str(v).split(dot)[1]; more than 4 characters -> format f, rstrip zeros; else format g.  None = IndexError *)
  Definition render_float_before_fix (d : decn) : option bytes :=
    match after_dot (py_repr d) with
    | None => None
    | Some dp =>
        if (4 <? length dp)%nat then Some (rstrip0 (fmt_f (bias d) d)) else Some (fmt_g (bias d) d)
    end.
End RenderBeforeFix.

Definition has_e (s : bytes) : bool := existsb (fun c => Ascii.eqb c "e" || Ascii.eqb c "E") s.
Definition has_dot (s : bytes) : bool := existsb (Ascii.eqb ".") s.
(* format(Decimal(repr), 'f'): positional notation of the same digits *)
Definition decimal_f (d : decn) : bytes :=
  sign_of d ++ nz (dint d) ++ match dfrac d with [] => [] | f => "." :: f end.

(* ASTString._handle_literal for a float, current code (faithful transcription):
     text = repr(value); if it has an exponent: text = format(Decimal(text), 'f'); if it has no dot: text += '.0' *)
Definition render_float_impl (d : decn) : bytes :=
  let t := py_repr d in
  let t' := if has_e t then decimal_f d else t in
  if has_dot t' then t' else t' ++ B ".0".

(* ASTString.visit_Constant + _handle_literal (current code) *)
Definition render_literal (l : lit) : bytes :=
  match l with
  | LNull => B "null"
  | LBool true => B "true"
  | LBool false => B "false"
  | LInt z => render_Z z
  | LStr s => if has_dq s then s else c_dq :: s ++ [c_dq]
  | LNum d => render_float_impl d
  end.

(* what the renderer should do for a float (spec): print the decimal itself *)
Definition render_float_spec (d : decn) : bytes := sign_of d ++ nz (dint d) ++ "." :: nz (dfrac d).
Definition render_literal_spec (l : lit) : bytes :=
  match l with
  | LNum d => render_float_spec d
  | _ => render_literal l
  end.

Fixpoint span_digits (s : bytes) : bytes * bytes :=
  match s with
  | c :: r => if is_digit c then let '(a, b) := span_digits r in (c :: a, b) else ([], s)
  | [] => ([], [])
  end.

Definition nonempty (s : bytes) : bool := match s with [] => false | _ => true end.

(* grammar: constant : (MINUS|PLUS)? INTEGER_CONSTANT | (MINUS|PLUS)? NUMBER_CONSTANT | BOOLEAN_CONSTANT | STRING_CONSTANT
   | NULL_CONSTANT;  INTEGER_CONSTANT : [0-9]+;  NUMBER_CONSTANT : INTEGER_CONSTANT '.' INTEGER_CONSTANT;
   STRING_CONSTANT : DQUOTE (~DQUOTE)* DQUOTE;  values as built by Terminals.visitConstant (int(), float(), text[1:-1]) *)
Definition parse_number (neg : bool) (body : bytes) : option lit :=
  let '(ip, rest) := span_digits body in
  match ip, rest with
  | [], _ => None
  | _, [] =>
      match digits_uint ip with
      | Some u => Some (LInt (Z.of_int (if neg then Neg u else Pos u)))
      | None => None
      end
  | _, c :: fp =>
      if Ascii.eqb c "." && nonempty fp && forallb is_digit fp then Some (LNum (mk_dec neg ip fp)) else None
  end.

Definition parse_literal (s : bytes) : option lit :=
  if bytes_eqb s (B "null") then Some LNull
  else if bytes_eqb s (B "true") then Some (LBool true)
  else if bytes_eqb s (B "false") then Some (LBool false)
  else
    match s with
    | [] => None
    | c :: r =>
        if Ascii.eqb c c_dq then
          match rev r with
          | q :: m => if Ascii.eqb q c_dq && negb (has_dq m) then Some (LStr (rev m)) else None
          | [] => None
          end
        else if Ascii.eqb c "-" then parse_number true r
        else if Ascii.eqb c "+" then parse_number false r
        else parse_number false s
    end.

(* BEFORE THE FIX: closed form of the sub-domain on which the old float renderer round-tripped (proved sufficient in CodecP) *)
Definition repr_fixed (d : decn) : bool := ((-4 <=? dec_exp d) && (dec_exp d <? 16))%Z.
Definition float_roundtrip_domain (d : decn) : bool :=
  dec_canon d &&
  ((repr_fixed d &&
    (((1 <=? length (dfrac d)) && (length (dfrac d) <=? 4) && (length (dec_sig d) <=? 6))
     || (length (dfrac d) =? 5) || (length (dfrac d) =? 6)))%nat
   || ((dec_exp d =? -5)%Z && (length (dec_sig d) =? 2)%nat)).

Definition lit_eqb_num (a : option lit) (d : decn) : bool :=
  match a with
  | Some (LNum e) => Bool.eqb (dneg e) (dneg d) && bytes_eqb (dint e) (dint d) && bytes_eqb (dfrac e) (dfrac d)
  | _ => false
  end.
Definition float_roundtrips_before_fix (bias : comparison) (d : decn) : bool :=
  match render_float_before_fix (fun _ => bias) d with
  | Some s => lit_eqb_num (parse_literal s) d
  | None => false
  end.
Definition float_roundtrips (d : decn) : bool := lit_eqb_num (parse_literal (render_float_impl d)) d.

(* ------------------------------------------------------------------------------------------------------------------ *)
(** * (d) reserved words and identifiers *)

Definition c_sq : ascii := "'".
Definition is_letter (c : ascii) : bool :=
  let n := N_of_ascii c in (((65 <=? n) && (n <=? 90)) || ((97 <=? n) && (n <=? 122)))%N.
Definition is_idchar (c : ascii) : bool :=
  is_letter c || is_digit c || Ascii.eqb c "_" || Ascii.eqb c ".".
(* IDENTIFIER, first alternative: optionally a digit and id-chars, then a letter, then id-chars (id-char = letter, digit, _ or .) *)
Definition is_plain_ident (s : bytes) : bool :=
  match s with
  | [] => false
  | c :: r => forallb is_idchar s && (is_letter c || (is_digit c && existsb is_letter r))
  end.

Fixpoint mem_bytes (x : bytes) (l : list bytes) : bool :=
  match l with [] => false | y :: r => bytes_eqb x y || mem_bytes x r end.

Definition has_sq (s : bytes) : bool := existsb (Ascii.eqb c_sq) s.
Definition squote (s : bytes) : bytes := c_sq :: s ++ [c_sq].

Definition is_bool_kw (s : bytes) : bool := bytes_eqb s (B "true") || bytes_eqb s (B "false").
(* a value that still carries the quotes it was written with (join alias): len > 1, first = last = quote *)
Definition already_quoted (s : bytes) : bool :=
  match s, rev s with
  | c :: _ :: _, q :: _ => Ascii.eqb c c_sq && Ascii.eqb q c_sq
  | _, _ => false
  end.

Section Ident.
  Variable reserved : list bytes.          (* RESERVED_WORDS: the grammar's literal names, quotes removed *)

  (* ASTString._format_reserved_word BEFORE /repo d900c32: only reserved words were quoted (kept for the witnesses) *)
  Definition render_ident_before_fix (n : bytes) : bytes := if mem_bytes n reserved then squote n else n.
  (* ASTString._format_reserved_word, current code (faithful): reserved word -> quoted; already quoted -> unchanged;
     true/false or not a plain IDENTIFIER -> quoted; else bare *)
  Definition render_ident_impl (n : bytes) : bytes :=
    if mem_bytes n reserved then squote n
    else if already_quoted n then n
    else if is_bool_kw n || negb (is_plain_ident n) then squote n
    else n.
  (* spec: every name that the lexer would not read back as that IDENTIFIER needs its quotes *)
  Definition render_ident (n : bytes) : bytes :=
    if mem_bytes n reserved || is_bool_kw n || negb (is_plain_ident n) then squote n else n.

  (* lexer + Terminals._remove_scaped_characters: quoted x -> x ; a bare word is an IDENTIFIER unless it is a keyword
     (a literal name of the grammar, or true / false) *)
  Definition parse_ident (s : bytes) : option bytes :=
    match s with
    | [] => None
    | c :: r =>
        if Ascii.eqb c c_sq then
          match rev r with
          | q :: m => if Ascii.eqb q c_sq && negb (has_sq m) then Some (rev m) else None
          | [] => None
          end
        else if is_plain_ident s && negb (mem_bytes s reserved) && negb (is_bool_kw s) then Some s else None
    end.
End Ident.

(* ------------------------------------------------------------------------------------------------------------------ *)
(** * (e) generate_sdmx: script -> TransformationScheme -> script *)

Inductive rs_kind := RDatapoint | RHierarchical.

Inductive stmt :=
| SAssign (name : bytes) (persistent : bool) (expr : bytes)
| SRuleset (k : rs_kind) (name : bytes) (text : bytes)
| SOperator (name : bytes) (text : bytes)
| SViral (name : bytes) (text : bytes).

Definition script := list stmt.            (* children of the AST returned by create_ast (after DAGAnalyzer.sort_ast); an
                                              assignment's name is the result name as the printer renders it (quoted when it
                                              needs quotes) — what ast_to_sdmx stores since /repo 65c4527 *)

Record transformation := { t_id : nat; t_result : bytes; t_persistent : bool; t_expr : bytes }.
Record ruleset_item := { r_id : nat; r_kind : rs_kind; r_name : bytes; r_text : bytes }.
Record udo_item := { u_id : nat; u_name : bytes; u_text : bytes }.
Record viral_item := { v_name : bytes; v_text : bytes }.

Record scheme := {
  sc_items : list transformation;
  sc_rulesets : list ruleset_item;
  sc_udos : list udo_item;
  sc_virals : list viral_item }.

Fixpoint transformations_from (n : nat) (s : script) : list transformation :=
  match s with
  | [] => []
  | SAssign nm p e :: r => {| t_id := n; t_result := nm; t_persistent := p; t_expr := e |} :: transformations_from (S n) r
  | _ :: r => transformations_from n r
  end.
Fixpoint rulesets_from (n : nat) (s : script) : list ruleset_item :=
  match s with
  | [] => []
  | SRuleset k nm t :: r => {| r_id := n; r_kind := k; r_name := nm; r_text := t |} :: rulesets_from (S n) r
  | _ :: r => rulesets_from n r
  end.
Fixpoint udos_from (n : nat) (s : script) : list udo_item :=
  match s with
  | [] => []
  | SOperator nm t :: r => {| u_id := n; u_name := nm; u_text := t |} :: udos_from (S n) r
  | _ :: r => udos_from n r
  end.
Fixpoint virals_of (s : script) : list viral_item :=
  match s with
  | [] => []
  | SViral nm t :: r => {| v_name := nm; v_text := t |} :: virals_of r
  | _ :: r => virals_of r
  end.

(* spec: nothing of the script is lost *)
Definition scheme_of_script (s : script) : scheme :=
  {| sc_items := transformations_from 1 s; sc_rulesets := rulesets_from 1 s; sc_udos := udos_from 1 s;
     sc_virals := virals_of s |}.
(* faithful to ast_to_sdmx: the loop has branches for PersistentAssignment, Assignment, DPRuleset/HRuleset and Operator only *)
Definition scheme_of_script_impl (s : script) : scheme :=
  {| sc_items := transformations_from 1 s; sc_rulesets := rulesets_from 1 s; sc_udos := udos_from 1 s;
     sc_virals := [] |}.

(* pysdmx generate_vtl_script (+ viral definitions first, as sort_ast orders them): rulesets, operators, transformations *)
Definition script_of_scheme (c : scheme) : script :=
  map (fun v => SViral (v_name v) (v_text v)) (sc_virals c)
  ++ map (fun r => SRuleset (r_kind r) (r_name r) (r_text r)) (sc_rulesets c)
  ++ map (fun u => SOperator (u_name u) (u_text u)) (sc_udos c)
  ++ map (fun t => SAssign (t_result t) (t_persistent t) (t_expr t)) (sc_items c).

Fixpoint assignments (s : script) : list (bytes * bool * bytes) :=
  match s with
  | [] => []
  | SAssign nm p e :: r => (nm, p, e) :: assignments r
  | _ :: r => assignments r
  end.

Definition is_viral (x : stmt) : bool := match x with SViral _ _ => true | _ => false end.
Definition is_ruleset (x : stmt) : bool := match x with SRuleset _ _ _ => true | _ => false end.
Definition is_operator (x : stmt) : bool := match x with SOperator _ _ => true | _ => false end.
Definition is_assign (x : stmt) : bool := match x with SAssign _ _ _ => true | _ => false end.
(* the order sort_ast gives: viral definitions, rulesets, operators, assignments *)
Definition sorted_script (s : script) : Prop :=
  s = filter is_viral s ++ filter is_ruleset s ++ filter is_operator s ++ filter is_assign s.

(* ------------------------------------------------------------------------------------------------------------------ *)
(** * interface for the harness (bytes as numbers, so that CR/LF/quotes/UTF-8 never pass through Coq's lexer/printer) *)

Definition of_N (l : list N) : bytes := map ascii_of_N l.
Definition to_N (s : bytes) : list N := map N_of_ascii s.

Definition decode_csv_N (l : list N) : option (list (list (option (list N)))) :=
  match decode_csv (of_N l) with
  | None => None
  | Some t => Some (map (map (fun c : cell => match c with None => None | Some s => Some (to_N s) end)) t)
  end.
Definition encode_csv_N (t : list (list (option (list N)))) : list N :=
  to_N (encode_csv (map (map (fun c => match c with None => None | Some s => Some (of_N s) end)) t)).
Definition scalars_file_N (l : list (list N * option (list N))) : list N :=
  to_N (scalars_file (map (fun x => (of_N (fst x), match snd x with None => None | Some s => Some (of_N s) end)) l)).
