(* Model/Regex.v — regular expressions over bytes and a Brzozowski-derivative matcher (definitions only; the
   correctness proof against the denotational semantics is Proofs/RegexP.v).
   The regex ASTs of the engine's pattern STRINGS are regenerated into Gen/Regex.v on every run by
   harness/translate/regex.py (subset: literals, classes, \d, ., ?, *, +, {m,n}, |, groups, ^ $ around every top-level
   alternative).  `matches r s` decides the FULL match of s (anchors are stripped by the translator, which checks that
   every top-level alternative carries them). *)
From Coq Require Import Ascii String List Bool Arith.
Import ListNotations.

Definition str := list ascii.
Definition s_ (s : string) : str := list_ascii_of_string s.

Inductive re :=
| REmp                                           (* matches nothing *)
| REps                                           (* the empty string *)
| RChr (c : ascii)
| RCls (neg : bool) (ranges : list (ascii * ascii))   (* [a-z0-9] / [^…]; a single char c is the range (c,c) *)
| RCat (a b : re)
| RAlt (a b : re)
| RStar (a : re).

Definition in_range (c : ascii) (r : ascii * ascii) : bool :=
  (nat_of_ascii (fst r) <=? nat_of_ascii c) && (nat_of_ascii c <=? nat_of_ascii (snd r)).
Definition cls_mem (neg : bool) (rs : list (ascii * ascii)) (c : ascii) : bool :=
  xorb neg (existsb (in_range c) rs).

(* derived forms used by the translator *)
Definition ropt (r : re) : re := RAlt REps r.
Definition rplus (r : re) : re := RCat r (RStar r).
Fixpoint rpow (n : nat) (r : re) : re := match n with O => REps | S k => RCat r (rpow k r) end.
(* between 0 and k further copies *)
Fixpoint rupto (k : nat) (r : re) : re := match k with O => REps | S j => RAlt REps (RCat r (rupto j r)) end.
Definition rrep (m n : nat) (r : re) : re := RCat (rpow m r) (rupto (n - m) r).     (* r{m,n} *)
Definition rrep_inf (m : nat) (r : re) : re := RCat (rpow m r) (RStar r).           (* r{m,} *)
Definition rdigit : re := RCls false [("0"%char, "9"%char)].
Fixpoint rlit (s : str) : re := match s with [] => REps | c :: t => RCat (RChr c) (rlit t) end.
Fixpoint ralts (l : list re) : re := match l with [] => REmp | [r] => r | r :: t => RAlt r (ralts t) end.
Fixpoint rcats (l : list re) : re := match l with [] => REps | [r] => r | r :: t => RCat r (rcats t) end.

Fixpoint nullable (r : re) : bool :=
  match r with
  | REmp => false | REps => true | RChr _ => false | RCls _ _ => false
  | RCat a b => nullable a && nullable b
  | RAlt a b => nullable a || nullable b
  | RStar _ => true
  end.

(* smart constructors: keep derivatives small *)
Definition mkcat (a b : re) : re :=
  match a, b with
  | REmp, _ => REmp
  | _, REmp => REmp
  | REps, _ => b
  | _, _ => RCat a b
  end.
Definition mkalt (a b : re) : re :=
  match a, b with
  | REmp, _ => b
  | _, REmp => a
  | _, _ => RAlt a b
  end.

Fixpoint deriv (c : ascii) (r : re) : re :=
  match r with
  | REmp => REmp
  | REps => REmp
  | RChr d => if Ascii.eqb c d then REps else REmp
  | RCls neg rs => if cls_mem neg rs c then REps else REmp
  | RCat a b => if nullable a then mkalt (mkcat (deriv c a) b) (deriv c b) else mkcat (deriv c a) b
  | RAlt a b => mkalt (deriv c a) (deriv c b)
  | RStar a => mkcat (deriv c a) (RStar a)
  end.

Fixpoint matches (r : re) (s : str) : bool :=
  match s with
  | [] => nullable r
  | c :: t => matches (deriv c r) t
  end.

Definition matches_s (r : re) (s : string) : bool := matches r (s_ s).
