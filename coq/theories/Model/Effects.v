(* Effects — a tiny step language for resource / process-global behaviour (definitions only; proofs in Proofs/EffectsP.v).

   prog ::= Skip | Acquire r | Release r | Write g v | Read g | Check g ok rd | Step l rd | Seq p q | TryFinally body fin

   State: the set of live resources, the process globals, the observations made (values of globals that were read,
   e.g. by an error message), a counter of failable steps executed so far, and the trace of step labels.
   Fault injection: `exec (Some k) p s` makes the k-th failable step that is EXECUTED raise (exactly the semantics of
   vtlengine._verif.reset(fault_at=k): events are numbered in execution order, the armed fault fires once).
   `Check g ok rd` is a value-dependent failure (a validation of a global, e.g. set_decimal_config's range check);
   `rd` lists the globals an error raised at that point reads while building its message (dataset_output). *)
From Coq Require Import List Bool Arith ZArith.
Import ListNotations.

Definition res := nat.      (* resource names *)
Definition glob := nat.     (* process-global variable names *)
Definition label := nat.    (* step labels (event kinds) *)

Inductive outcome := Ok | Fail.

Inductive prog :=
| Skip
| Acquire (r : res)
| Release (r : res)
| Write (g : glob) (v : Z)
| Read (g : glob)
| Check (g : glob) (ok : Z -> bool) (rd : list glob)
| Step (l : label) (rd : list glob)
| Seq (p q : prog)
| TryFinally (body fin : prog).

Record st := mkSt {
  live : list res;             (* resources currently held *)
  glb : glob -> Z;             (* process globals *)
  obs : list (glob * Z);       (* observations, most recent first *)
  cnt : nat;                   (* failable steps executed so far *)
  trace : list label           (* labels of the steps executed, most recent first *)
}.

Definition mem (x : nat) (l : list nat) : bool := existsb (Nat.eqb x) l.
Definition add (r : res) (l : list res) : list res := if mem r l then l else r :: l.
Definition remove (r : res) (l : list res) : list res := filter (fun x => negb (Nat.eqb r x)) l.
Definition upd (G : glob -> Z) (g : glob) (v : Z) : glob -> Z := fun x => if Nat.eqb x g then v else G x.

Definition set_live (l : list res) (s : st) : st := mkSt l (glb s) (obs s) (cnt s) (trace s).
Definition set_glb (G : glob -> Z) (s : st) : st := mkSt (live s) G (obs s) (cnt s) (trace s).
Definition add_obs (o : list (glob * Z)) (s : st) : st := mkSt (live s) (glb s) (o ++ obs s) (cnt s) (trace s).
Definition tick (l : label) (s : st) : st := mkSt (live s) (glb s) (obs s) (S (cnt s)) (l :: trace s).
Definition observe (s : st) (rd : list glob) : list (glob * Z) := map (fun g => (g, glb s g)) rd.
Definition hits (k : option nat) (n : nat) : bool := match k with Some k => Nat.eqb k n | None => false end.

Fixpoint exec (k : option nat) (p : prog) (s : st) : outcome * st :=
  match p with
  | Skip => (Ok, s)
  | Acquire r => (Ok, set_live (add r (live s)) s)
  | Release r => (Ok, set_live (remove r (live s)) s)
  | Write g v => (Ok, set_glb (upd (glb s) g v) s)
  | Read g => (Ok, add_obs [(g, glb s g)] s)
  | Check g ok rd => if ok (glb s g) then (Ok, s) else (Fail, add_obs (observe s rd) s)
  | Step l rd => if hits k (cnt s) then (Fail, add_obs (observe s rd) (tick l s)) else (Ok, tick l s)
  | Seq p q => match exec k p s with
               | (Ok, s1) => exec k q s1
               | (Fail, s1) => (Fail, s1)
               end
  | TryFinally b f => match exec k b s with
                      | (o, s1) => match exec k f s1 with
                                   | (Ok, s2) => (o, s2)
                                   | (Fail, s2) => (Fail, s2)     (* an error in the finally block replaces the outcome *)
                                   end
                      end
  end.

(* number of failable steps of a program (all of them are executed by a run that ends Ok) *)
Fixpoint nsteps (p : prog) : nat :=
  match p with
  | Step _ _ => 1
  | Seq p q => nsteps p + nsteps q
  | TryFinally b f => nsteps b + nsteps f
  | _ => 0
  end.

Fixpoint check_free (p : prog) : bool :=
  match p with
  | Check _ _ _ => false
  | Seq p q => check_free p && check_free q
  | TryFinally b f => check_free b && check_free f
  | _ => true
  end.

(* ---- bracketing discipline -------------------------------------------------------------------------------- *)
(* a finally block that cannot fail and acquires nothing: no Step, no Check, no Acquire *)
Fixpoint fin_ok (f : prog) : bool :=
  match f with
  | Acquire _ | Check _ _ _ | Step _ _ => false
  | Seq p q => fin_ok p && fin_ok q
  | TryFinally b g => fin_ok b && fin_ok g
  | _ => true
  end.

Fixpoint released (f : prog) : list res :=
  match f with
  | Release r => [r]
  | Seq p q => released p ++ released q
  | TryFinally b g => released b ++ released g
  | _ => []
  end.

(* wb A p: every Acquire r of p is inside a TryFinally whose (infallible) finally releases r, or r is in A
   (the resources some enclosing finally takes care of). `wb [] p` = "every Acquire is inside the Try whose
   Finally releases it". *)
Fixpoint wb (A : list res) (p : prog) : bool :=
  match p with
  | Acquire r => mem r A
  | Seq p q => wb A p && wb A q
  | TryFinally b f => fin_ok f && wb (released f ++ A) b
  | _ => true
  end.

Definition bracketed (p : prog) : bool := wb [] p.

(* ---- globals: self-initialisation and restoration --------------------------------------------------------- *)
(* globals certainly written when p ends Ok *)
Fixpoint dw (p : prog) : list glob :=
  match p with
  | Write g _ => [g]
  | Seq p q => dw q ++ dw p
  | TryFinally b f => dw f ++ dw b
  | _ => []
  end.

Definition subset (a b : list nat) : bool := forallb (fun x => mem x b) a.

(* si W p: every global p reads (Read, Check, the message reads of a failing Step/Check) is in W or was certainly
   written earlier by p itself.  The finally block may run after a partial body, so only W is certain there. *)
Fixpoint si (W : list glob) (p : prog) : bool :=
  match p with
  | Read g => mem g W
  | Check g _ rd => mem g W && subset rd W
  | Step _ rd => subset rd W
  | Seq p q => si W p && si (dw p ++ W) q
  | TryFinally b f => si W b && si W f
  | _ => true
  end.

(* p never writes a global of R *)
Fixpoint write_free (R : list glob) (p : prog) : bool :=
  match p with
  | Write g _ => negb (mem g R)
  | Seq p q => write_free R p && write_free R q
  | TryFinally b f => write_free R b && write_free R f
  | _ => true
  end.

(* the finally block that puts every restored global back to its baseline value *)
Fixpoint resetp (R : list (glob * Z)) : prog :=
  match R with
  | [] => Skip
  | (g, v) :: R' => Seq (Write g v) (resetp R')
  end.

Definition inv (R : list (glob * Z)) (s : st) : Prop := forall g v, In (g, v) R -> glb s g = v.

(* ---- sequences of runs in one process ---------------------------------------------------------------------- *)
(* a new API call starts its own event numbering / observations; live resources and globals carry over *)
Definition next_run (s : st) : st := mkSt (live s) (glb s) [] 0 [].

Fixpoint run_seq (runs : list (prog * option nat)) (s : st) : st :=
  match runs with
  | [] => s
  | (p, k) :: rest => run_seq rest (next_run (snd (exec k p s)))
  end.

(* what a caller can see of one run: did it raise, and which global values did it read *)
Definition behaviour (k : option nat) (p : prog) (s : st) : outcome * list (glob * Z) :=
  let r := exec k p (next_run s) in (fst r, obs (snd r)).

Definition init (G : glob -> Z) : st := mkSt [] G [] 0 [].
