(* C32 — model of the two DuckDB-error mappers of the engine and of the run() pipeline as a program over stages.
   Definitions only (no proofs).

   map_query  = duckdb_transpiler/io/_execution.py::_map_query_error   (decision list, same order as the code)
   map_load   = duckdb_transpiler/io/_validation.py::map_duckdb_error  (decision list with a default: total)
   Both are tied to the real functions by Gen/ErrLits.v `map_table` (Props/C32.v C32_model_is_code).

   The pipeline: run() after semantic analysis = transpile; [connection] init macros; for each statement: load the datasets
   scheduled for it (create table / insert / normalise periods / validate), execute the statement, release+fetch results;
   final fetches; close; post-format.  A stage is a primitive step that may raise; `Try m p` is
   `try: p  except duckdb.Error as e: raise m(e)`; `Finally p f` is `try: p finally: f`. *)
From Coq Require Import String Ascii List Bool Arith.
Import ListNotations.
Open Scope string_scope.

(* ---------------------------------------------------------------- strings: ASCII lower-casing and substring test *)
Definition lower_ascii (c : ascii) : ascii :=
  let n := nat_of_ascii c in
  if Nat.leb 65 n && Nat.leb n 90 then ascii_of_nat (n + 32) else c.

Fixpoint lower (s : string) : string :=
  match s with
  | EmptyString => EmptyString
  | String c t => String (lower_ascii c) (lower t)
  end.

(* Python's `p in s` *)
Fixpoint contains (p s : string) : bool :=
  if prefix p s then true
  else match s with
       | EmptyString => false
       | String _ t => contains p t
       end.

(* ---------------------------------------------------------------- results of a mapper *)
Inductive kind := KSemantic | KRuntime | KDataLoad | KInputValidation | KSyntax | KOtherVTL.

Inductive mres :=
| Mapped (k : kind) (code : string)   (* a VTL exception of that class carrying that code is returned *)
| Unmapped                           (* the original duckdb error is returned / re-raised *)
| MapperCrash (exn : string).        (* the mapper itself raised (never observed; kept so that the dump is total) *)

Definition kind_eqb (a b : kind) : bool :=
  match a, b with
  | KSemantic, KSemantic | KRuntime, KRuntime | KDataLoad, KDataLoad | KInputValidation, KInputValidation
  | KSyntax, KSyntax | KOtherVTL, KOtherVTL => true
  | _, _ => false
  end.

Definition mres_eqb (a b : mres) : bool :=
  match a, b with
  | Mapped k c, Mapped k' c' => kind_eqb k k' && String.eqb c c'
  | Unmapped, Unmapped => true
  | MapperCrash x, MapperCrash y => String.eqb x y
  | _, _ => false
  end.

(* a rule fires when every clause has at least one pattern occurring in the lower-cased message *)
Record rule := mkRule { r_cnf : list (list string); r_kind : kind; r_code : string }.

Definition clause_holds (low : string) (alts : list string) : bool := existsb (fun p => contains p low) alts.
Definition rule_fires (low : string) (r : rule) : bool := forallb (clause_holds low) (r_cnf r).

Fixpoint first_rule (low : string) (rs : list rule) : option rule :=
  match rs with
  | [] => None
  | r :: t => if rule_fires low r then Some r else first_rule low t
  end.

(* _map_query_error: the `if` chain in source order; the last rule is the unconditional fallback (RunTimeError 2-1-1-1) *)
Definition query_rules : list rule := [
  mkRule [["vtl error 2-1-19-20"]] KRuntime "2-1-19-20";
  mkRule [["vtl error 2-1-19-19"]] KRuntime "2-1-19-19";
  mkRule [["vtl error 2-1-19-16"]] KRuntime "2-1-19-16";
  mkRule [["vtl error 2-1-19-21"]] KRuntime "2-1-19-21";
  mkRule [["vtl error 2-1-19-1"]] KRuntime "2-1-19-1";
  mkRule [["cannot cast non-daily timeperiod to date"]] KRuntime "2-1-5-1";
  (* the cast repairs (commits 750a26e, dc2f309, 7d49903, deb711d): rejections raised by vtl_string_to_integer,
     vtl_string_to_duration and the String -> Date / String -> Time_Period cast templates *)
  mkRule [["cannot cast string to integer"]] KRuntime "2-1-5-1";
  mkRule [["cannot cast string to duration"]] KRuntime "2-1-5-1";
  mkRule [["cannot cast string to date: "]] KRuntime "2-1-19-8";
  mkRule [["cannot cast string to time_period"]] KRuntime "2-1-5-1";
  mkRule [["cannot cast timeinterval to date"]] KRuntime "2-1-5-1";
  mkRule [["cannot determine period for interval"]] KRuntime "2-1-5-1";
  mkRule [["conversion"]; ["timestamp"; "date"]] KRuntime "2-1-19-8";
  mkRule [["vtl 2-1-15-6"]] KRuntime "2-1-15-6";
  mkRule [["vtl 1-1-18-11"]] KSemantic "1-1-18-11";
  mkRule [["division by zero"; "divide by zero"]] KRuntime "2-1-3-1";
  mkRule [["vtl error 2-1-3-1"]] KRuntime "2-1-3-1";
  mkRule [["logarithm of zero"; "logarithm of negative"]] KRuntime "2-1-15-8";
  mkRule [["cannot take logarithm of a negative number"]] KRuntime "2-1-15-3";
  mkRule [] KRuntime "2-1-1-1"
].

Definition map_query (msg : string) : mres :=
  match first_rule (lower msg) query_rules with
  | Some r => Mapped (r_kind r) (r_code r)
  | None => Unmapped
  end.

(* REGRESSION WITNESS ONLY — _map_query_error BEFORE the fix (commit f47d60e): no rule for 2-1-19-21, no fallback: the
   original duckdb error was returned and re-raised *)
Definition query_rules_before_fix : list rule := [
  mkRule [["vtl error 2-1-19-20"]] KRuntime "2-1-19-20";
  mkRule [["vtl error 2-1-19-19"]] KRuntime "2-1-19-19";
  mkRule [["vtl error 2-1-19-16"]] KRuntime "2-1-19-16";
  mkRule [["vtl error 2-1-19-1"]] KRuntime "2-1-19-1";
  mkRule [["cannot cast non-daily timeperiod to date"]] KRuntime "2-1-5-1";
  mkRule [["cannot cast timeinterval to date"]] KRuntime "2-1-5-1";
  mkRule [["cannot determine period for interval"]] KRuntime "2-1-5-1";
  mkRule [["conversion"]; ["timestamp"; "date"]] KRuntime "2-1-19-8";
  mkRule [["vtl 2-1-15-6"]] KRuntime "2-1-15-6";
  mkRule [["vtl 1-1-18-11"]] KSemantic "1-1-18-11";
  mkRule [["division by zero"; "divide by zero"]] KRuntime "2-1-3-1";
  mkRule [["vtl error 2-1-3-1"]] KRuntime "2-1-3-1";
  mkRule [["logarithm of zero"; "logarithm of negative"]] KRuntime "2-1-15-8";
  mkRule [["cannot take logarithm of a negative number"]] KRuntime "2-1-15-3"
].

Definition map_query_before_fix (msg : string) : mres :=
  match first_rule (lower msg) query_rules_before_fix with
  | Some r => Mapped (r_kind r) (r_code r)
  | None => Unmapped
  end.

(* map_duckdb_error: the `if` chain in source order; the last rule is the unconditional default *)
Definition load_rules : list rule := [
  mkRule [["magic bytes"; "no magic bytes"]] KDataLoad "0-3-1-16";
  mkRule [["duplicate"; "primary key"]] KDataLoad "0-3-1-7";
  mkRule [["null"]; ["constraint"]] KDataLoad "0-3-1-3";
  mkRule [["timestamp field value out of range"]] KDataLoad "0-3-1-6";
  mkRule [["convert"; "conversion"; "cast"]] KDataLoad "0-3-1-6";
  mkRule [] KDataLoad "0-3-1-6"
].

Definition map_load (msg : string) : mres :=
  match first_rule (lower msg) load_rules with
  | Some r => Mapped (r_kind r) (r_code r)
  | None => Unmapped
  end.

(* ---------------------------------------------------------------- exceptions, mappers, stages *)
Inductive exn :=
| VTL (k : kind) (code : string)   (* a VTLEngineException subclass with a code *)
| RawDB (msg : string)             (* a duckdb.Error *)
| RawPy (name : string).           (* any other Python exception *)

Definition is_vtl (e : exn) : bool := match e with VTL _ _ => true | _ => false end.

Inductive mapper :=
| NoMap                 (* no handler: whatever is raised propagates *)
| MapQuery              (* except duckdb.Error as e: raise _map_query_error(e) from e   (always a VTL error) *)
| MapLoad               (* except duckdb.Error: raise map_duckdb_error(e) *)
| MapNormalize          (* except duckdb.Error: raise DataLoadError("0-3-1-6", ...) *)
| MapQueryBeforeFix.    (* REGRESSION WITNESS ONLY: m = old _map_query_error(e); raise m if m is not e else re-raise e *)

Definition mapper_eqb (a b : mapper) : bool :=
  match a, b with
  | NoMap, NoMap | MapQuery, MapQuery | MapLoad, MapLoad | MapNormalize, MapNormalize | MapQueryBeforeFix, MapQueryBeforeFix => true
  | _, _ => false
  end.

Definition apply_mapper (m : mapper) (e : exn) : exn :=
  match e with
  | RawDB msg =>
      match m with
      | NoMap => e
      | MapQuery => match map_query msg with Mapped k c => VTL k c | _ => e end
      | MapLoad => match map_load msg with Mapped k c => VTL k c | _ => e end
      | MapNormalize => VTL KDataLoad "0-3-1-6"
      | MapQueryBeforeFix => match map_query_before_fix msg with Mapped k c => VTL k c | _ => e end
      end
  | _ => e     (* `except duckdb.Error` does not catch VTL exceptions or other Python errors *)
  end.

Inductive stage :=
| STranspile      (* SQLTranspiler.transpile: Python only *)
| SInitMacros     (* initialize_time_types: conn.execute(macro library) *)
| SLoadCreate     (* CREATE TABLE for an input dataset *)
| SLoadInsert     (* INSERT ... SELECT casts FROM read_csv / read_parquet / registered DataFrame *)
| SLoadNormalize  (* UPDATE ... vtl_period_normalize *)
| SLoadValidate   (* duplicate / DWI / temporal regex checks *)
| SExec           (* CREATE TABLE result AS <transpiled query> *)
| SFetchRepr      (* apply_time_period_representation: UPDATE ... vtl_period_to_<format> *)
| SFetchSelect    (* schema probe + SELECT ... fetchdf *)
| SSave           (* COPY ... TO file *)
| SDrop           (* DROP TABLE IF EXISTS *)
| SPostFormat.    (* run(): format_date_iso8601 / format_time_period_external_representation (Python only) *)

Definition stage_eqb (a b : stage) : bool :=
  match a, b with
  | STranspile, STranspile | SInitMacros, SInitMacros | SLoadCreate, SLoadCreate | SLoadInsert, SLoadInsert
  | SLoadNormalize, SLoadNormalize | SLoadValidate, SLoadValidate | SExec, SExec | SFetchRepr, SFetchRepr
  | SFetchSelect, SFetchSelect | SSave, SSave | SDrop, SDrop | SPostFormat, SPostFormat => true
  | _, _ => false
  end.

Definition all_stages : list stage :=
  [STranspile; SInitMacros; SLoadCreate; SLoadInsert; SLoadNormalize; SLoadValidate; SExec; SFetchRepr; SFetchSelect;
   SSave; SDrop; SPostFormat].

(* FAITHFUL: what the code does today: statement execution and the whole of fetch_result (representation, select, save) go
   through _map_query_error; CREATE TABLE (_create_table), insert and normalise of the loader have their own handlers; the
   load validation queries, macro installation and the DROPs of cleanup_scheduled_datasets have none *)
Definition stage_mapper_impl (s : stage) : mapper :=
  match s with
  | SLoadCreate | SLoadInsert => MapLoad
  | SLoadNormalize => MapNormalize
  | SExec | SFetchRepr | SFetchSelect | SSave => MapQuery
  | _ => NoMap
  end.

(* REGRESSION WITNESS ONLY — the handlers BEFORE the fix: only the statement execution (partial mapper) and insert/normalise *)
Definition stage_mapper_before_fix (s : stage) : mapper :=
  match s with
  | SLoadInsert => MapLoad
  | SLoadNormalize => MapNormalize
  | SExec => MapQueryBeforeFix
  | _ => NoMap
  end.

(* SPEC: every stage that talks to DuckDB converts what DuckDB raises into a VTL error *)
Definition stage_mapper_spec (s : stage) : mapper :=
  match s with
  | STranspile | SPostFormat => NoMap
  | SLoadCreate | SLoadInsert | SLoadValidate => MapLoad
  | SLoadNormalize => MapNormalize
  | SInitMacros | SExec | SFetchRepr | SFetchSelect | SSave | SDrop => MapQuery
  end.

(* ---------------------------------------------------------------- the step language *)
Inductive prog :=
| Skip
| Prim (s : stage)
| Seq (p q : prog)
| Try (m : mapper) (p : prog)
| Finally (p f : prog).

Inductive outcome := Done | Raise (e : exn).

Section Exec.
  Variable R : stage -> exn -> Prop.     (* what a stage can raise *)

  Inductive exec : prog -> outcome -> Prop :=
  | ExSkip : exec Skip Done
  | ExPrimOk s : exec (Prim s) Done
  | ExPrimRaise s e : R s e -> exec (Prim s) (Raise e)
  | ExSeqOk p q o : exec p Done -> exec q o -> exec (Seq p q) o
  | ExSeqRaise p q e : exec p (Raise e) -> exec (Seq p q) (Raise e)
  | ExTryOk m p : exec p Done -> exec (Try m p) Done
  | ExTryRaise m p e : exec p (Raise e) -> exec (Try m p) (Raise (apply_mapper m e))
  | ExFinOk p f o : exec p Done -> exec f o -> exec (Finally p f) o
  | ExFinRaise p f e : exec p (Raise e) -> exec f Done -> exec (Finally p f) (Raise e)
  | ExFinRaise2 p f e e' : exec p (Raise e) -> exec f (Raise e') -> exec (Finally p f) (Raise e').

  (* every primitive step, seen through the handlers around it (innermost first), raises only VTL errors *)
  Fixpoint closed (ctx : exn -> exn) (p : prog) : Prop :=
    match p with
    | Skip => True
    | Prim s => forall e, R s e -> is_vtl (ctx e) = true
    | Seq p q => closed ctx p /\ closed ctx q
    | Try m p => closed (fun e => ctx (apply_mapper m e)) p
    | Finally p f => closed ctx p /\ closed ctx f
    end.
End Exec.

(* ---------------------------------------------------------------- run() as a program, for any number of statements *)
Section Pipeline.
  Variable M : stage -> mapper.

  Definition stg (s : stage) : prog := Try (M s) (Prim s).

  Fixpoint times (n : nat) (p : prog) : prog :=
    match n with O => Skip | S k => Seq p (times k p) end.

  Definition load_one : prog :=
    Seq (stg SLoadCreate) (Seq (stg SLoadInsert) (Seq (stg SLoadNormalize) (stg SLoadValidate))).

  Definition fetch_one : prog :=
    Seq (stg SFetchRepr) (Seq (stg SFetchSelect) (Seq (stg SSave) (stg SDrop))).

  (* a statement: how many input datasets are loaded just before it, how many results are released/fetched after it *)
  Record stmt := mkStmt { n_loads : nat; n_fetch : nat; n_drop : nat }.

  Definition stmt_prog (s : stmt) : prog :=
    Seq (times (n_loads s) load_one) (Seq (stg SExec) (Seq (times (n_fetch s) fetch_one) (times (n_drop s) (stg SDrop)))).

  Fixpoint stmts_prog (l : list stmt) : prog :=
    match l with [] => Skip | s :: t => Seq (stmt_prog s) (stmts_prog t) end.

  (* final: number of results fetched after the loop *)
  Definition run_prog (l : list stmt) (final : nat) : prog :=
    Seq (stg STranspile)
        (Seq (Finally (Seq (stg SInitMacros) (Seq (stmts_prog l) (times final fetch_one))) Skip)
             (stg SPostFormat)).
End Pipeline.

(* raisable sets given by a finite table (stage, DuckDB message) *)
Definition R_of (tab : list (stage * string)) (s : stage) (e : exn) : Prop :=
  exists msg, In (s, msg) tab /\ e = RawDB msg.

Definition entry_ok (M : stage -> mapper) (x : stage * string) : bool :=
  is_vtl (apply_mapper (M (fst x)) (RawDB (snd x))).
