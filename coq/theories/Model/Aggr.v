(* Aggregations of the VTL subset (C03): the ten aggregate operators over the values of one group, grouping by
   identifiers (group by / group except / no grouping), the having clause, the standalone dataset form
   `op(DS group by … having …)` and the clause form `DS[aggr Me := op(comp), … group by … having …]`.

   Numbers are exact rationals.  stddev_pop / stddev_samp are specified THROUGH THEIR SQUARE: the model value of
   AStddevPop / AStddevSamp is the variance (the correspondence squares the engine's value before comparing), so that
   every model value stays rational.  They are therefore not available inside having conditions.
   `group all` (time_agg) needs time identifiers, which Base/Val.v does not model: it is outside this file.
   Definitions only. *)
From Coq Require Import ZArith QArith Qreduction String List Bool.
Import ListNotations.
From VTL Require Import Base.Val Model.Table Model.Scalar Model.Expr.
Open Scope string_scope.
Open Scope list_scope.

Inductive aggop :=
| ASum | AAvg | ACount | AMin | AMax | AMedian | AVarPop | AVarSamp | AStddevPop | AStddevSamp.

(* ---------------- the aggregate of a list of values (the values of one component in one group) *)

(* null values are ignored by every operator *)
Definition non_null (l : list val) : list val := filter (fun v => negb (is_null v)) l.

Fixpoint as_ints (l : list val) : option (list Z) :=
  match l with
  | [] => Some []
  | VInt z :: t => option_map (cons z) (as_ints t)
  | _ :: _ => None
  end.

(* numeric view: Integers and Numbers as reduced rationals *)
Fixpoint as_nums (l : list val) : option (list Q) :=
  match l with
  | [] => Some []
  | v :: t => match to_q v, as_nums t with
              | Some q, Some qs => Some (Qred q :: qs)
              | _, _ => None
              end
  end.

Definition zsum (l : list Z) : Z := fold_right Z.add 0%Z l.
(* sums are reduced at every step (same rational, small representation) *)
Definition qadd (a b : Q) : Q := Qred (a + b).
Definition qsum (l : list Q) : Q := fold_right qadd 0%Q l.
Definition qlen (l : list Q) : Q := inject_Z (Z.of_nat (length l)).
Definition qmean (l : list Q) : Q := Qred (qsum l / qlen l).
(* sum of squared deviations from the mean *)
Definition qdev2 (l : list Q) : Q := let m := qmean l in qsum (map (fun x => Qred ((x - m) * (x - m))) l).

(* median: insertion sort, middle element, or the mean of the two middle elements when the count is even *)
Fixpoint qinsert (x : Q) (l : list Q) : list Q :=
  match l with
  | [] => [x]
  | h :: t => if Qle_bool x h then x :: l else h :: qinsert x t
  end.
Definition qsort (l : list Q) : list Q := fold_right qinsert [] l.
Definition qmedian (l : list Q) : Q :=
  let s := qsort l in
  let n := length s in
  if Nat.even n then ((nth (Nat.div2 n - 1) s 0%Q + nth (Nat.div2 n) s 0%Q) / (2 # 1))%Q
  else nth (Nat.div2 n) s 0%Q.

(* min / max keep the type of their operand; all non-null values must be of one kind *)
Definition same_kind (a b : val) : bool :=
  match a, b with
  | VInt _, VInt _ | VNum _, VNum _ | VStr _, VStr _ | VBool _, VBool _ => true
  | _, _ => false
  end.
Definition homog (l : list val) : bool := match l with [] => true | h :: t => forallb (same_kind h) t end.
Definition canon_val (v : val) : val := match v with VNum q => VNum (Qred q) | _ => v end.
Definition val_lt (a b : val) : bool := match cmp_lt a b with Some true => true | _ => false end.
Definition val_gt (a b : val) : bool := val_lt b a.
(* the first value not preceded (w.r.t. lt) by any other one *)
Definition extremum (lt : val -> val -> bool) (l : list val) : val :=
  match l with
  | [] => VNull
  | h :: t => fold_left (fun acc x => if lt x acc then x else acc) t h
  end.

Definition num_agg (f : list Q -> option Q) (l : list val) : res val :=
  match as_nums l with
  | None => Err ERR_TYPE
  | Some [] => Ok VNull
  | Some qs => Ok (match f qs with Some q => qn q | None => VNull end)
  end.

Definition var_pop_q (qs : list Q) : option Q := Some (qdev2 qs / qlen qs)%Q.
Definition var_samp_q (qs : list Q) : option Q :=
  match qs with
  | [_] => None                                  (* the sample variance of a single value is null *)
  | _ => Some (qdev2 qs / (qlen qs - 1))%Q
  end.

Definition agg_vals (op : aggop) (l : list val) : res val :=
  let nn := non_null l in
  match op with
  | ACount => Ok (match nn with [] => VNull | _ => VInt (Z.of_nat (length nn)) end)   (* NULLIF(COUNT(x), 0) *)
  | ASum => match as_ints nn with
            | Some [] => Ok VNull
            | Some zs => Ok (VInt (zsum zs))                   (* the sum of Integers is an Integer *)
            | None => num_agg (fun qs => Some (qsum qs)) nn
            end
  | AAvg => num_agg (fun qs => Some (qmean qs)) nn
  | AMedian => num_agg (fun qs => Some (qmedian qs)) nn
  | AVarPop | AStddevPop => num_agg var_pop_q nn               (* stddev: the SQUARE of the result *)
  | AVarSamp | AStddevSamp => num_agg var_samp_q nn
  | AMin => if homog nn then Ok (extremum val_lt (map canon_val nn)) else Err ERR_TYPE
  | AMax => if homog nn then Ok (extremum val_gt (map canon_val nn)) else Err ERR_TYPE
  end.

(* ---------------- grouping *)
Notation arow := (list val * list val)%type (only parsing).

(* distinct keys in order of first occurrence *)
Fixpoint nub (l : list (list val)) : list (list val) :=
  match l with
  | [] => []
  | k :: t => k :: filter (fun x => negb (key_eqb k x)) (nub t)
  end.

Definition group_rows (proj : arow -> list val) (k : list val) (rows : list arow) : list arow :=
  filter (fun r => key_eqb k (proj r)) rows.

(* the groups of a list of datapoints: (group key, datapoints of the group in input order), in order of first occurrence *)
Definition group_by (proj : arow -> list val) (rows : list arow) : list (list val * list arow) :=
  map (fun k => (k, group_rows proj k rows)) (nub (map proj rows)).

Inductive grouping := GBy (l : list string) | GExcept (l : list string) | GNone.

Definition group_keep (g : grouping) (n : string) : bool :=
  match g with GBy l => mem_s n l | GExcept l => negb (mem_s n l) | GNone => false end.
Definition group_ids (ids : list string) (g : grouping) : list string := filter (group_keep g) ids.
Definition proj_of (d : dset) (g : grouping) (r : arow) : list val := select_by (d_ids d) (group_keep g) (fst r).

(* grouping components must be identifiers of the operand (the first offending name decides the error) *)
Fixpoint check_names (ids ms : list string) (l : list string) : res unit :=
  match l with
  | [] => Ok tt
  | n :: t => if mem_s n ids then check_names ids ms t
              else if mem_s n ms then Err "1-1-2-2" else Err "1-1-1-10"
  end.
Definition check_grouping (d : dset) (g : grouping) : res unit :=
  match g with
  | GNone => Ok tt
  | GBy l | GExcept l => check_names (d_ids d) (d_ms d) l
  end.

(* ---------------- aggregates of one group, having *)
Definition nullif0 (n : nat) : val := match n with O => VNull | _ => VInt (Z.of_nat n) end.

(* the values of a component expression over the datapoints of a group *)
Definition comp_vals (d : dset) (c : cexpr) (grp : list arow) : res (list val) :=
  mapM (fun r => ceval (row_env d r) c) grp.

(* count() inside a clause / a having condition: datapoints with SOME non-null measure (every datapoint when the
   operand has no measures), NULLIF(…, 0) *)
Definition count_any (d : dset) (grp : list arow) : val :=
  match d_ms d with
  | [] => nullif0 (length grp)
  | _ => nullif0 (length (filter (fun r => existsb (fun v => negb (is_null v)) (snd r)) grp))
  end.

(* dataset-level count(DS …): datapoints whose measures are ALL non-null *)
Definition count_all (grp : list arow) : nat :=
  length (filter (fun r => forallb (fun v => negb (is_null v)) (snd r)) grp).

Definition is_stddev (op : aggop) : bool := match op with AStddevPop | AStddevSamp => true | _ => false end.

Inductive hexpr :=
| HAgg (op : aggop) (c : cexpr)          (* op(component expression) over the group *)
| HCount                                  (* count() *)
| HLit (v : val)
| HBin (op : binop) (a b : hexpr)         (* comparison / boolean / arithmetic on group values *)
| HUn (op : unop) (a : hexpr).            (* not, isnull, … on a group value *)

Fixpoint heval (d : dset) (grp : list arow) (h : hexpr) : res val :=
  match h with
  | HAgg op c => if is_stddev op then Err "stddev-in-having" else bind (comp_vals d c grp) (agg_vals op)
  | HCount => Ok (count_any d grp)
  | HLit v => Ok v
  | HBin op a b => bind (heval d grp a) (fun x => bind (heval d grp b) (fun y => binop_val op x y))
  | HUn op a => bind (heval d grp a) (unop_val op)
  end.

(* a group is kept iff its having condition is TRUE (false and null drop it) *)
Definition having_ok (d : dset) (hav : option hexpr) (grp : list arow) : res bool :=
  match hav with
  | None => Ok true
  | Some h => bind (heval d grp h) (fun v => Ok (is_true v))
  end.

(* ---------------- the aggregation skeleton *)
Definition cat_somes {A} (l : list (option A)) : list A :=
  flat_map (fun o => match o with Some x => [x] | None => [] end) l.

(* group keys; with no grouping identifier left and no datapoint, `whole` decides between "no group" and "one (empty) group" *)
Definition group_keys (proj : arow -> list val) (rows : list arow) (gids : list string) (whole : bool) : list (list val) :=
  match rows, gids with
  | [], [] => if whole then [[]] else []
  | _, _ => nub (map proj rows)
  end.

Definition aggregate (d : dset) (g : grouping) (whole : bool) (hav : option hexpr)
           (out_ms : list string) (meas : list arow -> res (list val)) : res dset :=
  bind (check_grouping d g) (fun _ =>
  match g, hav with
  | GNone, Some _ => Err "1-2-13"                  (* having needs a grouping clause *)
  | _, _ =>
    let proj := proj_of d g in
    bind (mapM (fun k =>
            let grp := group_rows proj k (d_rows d) in
            bind (having_ok d hav grp) (fun keep =>
              if keep then bind (meas grp) (fun ms => Ok (Some (k, ms))) else Ok None))
          (group_keys proj (d_rows d) (group_ids (d_ids d) g) whole))
         (fun l => Ok (mkD (group_ids (d_ids d) g) out_ms (cat_somes l)))
  end).

(* the j-th measure of every datapoint of a group *)
Definition column (j : nat) (grp : list arow) : list val := map (fun r => nth j (snd r) VNull) grp.
Definition columns (n : nat) (grp : list arow) : list (list val) := map (fun j => column j grp) (seq 0 n).

Definition is_nil {A} (l : list A) : bool := match l with [] => true | _ => false end.

(* standalone form  op(DS group …  having …): EVERY measure is aggregated; count gives the single measure int_var =
   number of datapoints of the group whose measures are all non-null, NULLIF(…,0) only when grouping identifiers remain.
   With identifiers in the operand and none left, an empty operand gives NO datapoint (HAVING COUNT( * ) > 0).
   Every operator but count/min/max needs a measure (1-1-1-8); min/max need a measure or a remaining identifier. *)
Definition d_aggr (op : aggop) (d : dset) (g : grouping) (hav : option hexpr) : res dset :=
  match op with
  | ACount =>
      aggregate d g (is_nil (d_ids d)) hav ["int_var"]
        (fun grp => Ok [if is_nil (group_ids (d_ids d) g) then VInt (Z.of_nat (count_all grp)) else nullif0 (count_all grp)])
  | _ =>
      if is_nil (d_ms d) && negb (match op with AMin | AMax => true | _ => false end) then Err "1-1-1-8" else
      (* min / max accept an operand without measures (the result is the set of groups), but not when no grouping
         identifier is left either: the result would have no component at all *)
      if is_nil (d_ms d) && is_nil (group_ids (d_ids d) g) then bind (check_grouping d g) (fun _ => Err "1-1-1-8") else
      aggregate d g (is_nil (d_ids d)) hav (d_ms d)
        (fun grp => mapM (agg_vals op) (columns (length (d_ms d)) grp))
  end.

(* clause form  DS[aggr n1 := op1(c1), n2 := count(), … group … having …]: the result has the grouping identifiers and
   exactly the named measures (names assumed pairwise distinct); with no grouping identifier left there is always
   exactly ONE datapoint, even for an empty operand *)
Inductive aitem := IAgg (op : aggop) (c : cexpr) | ICount.

Definition item_val (d : dset) (grp : list arow) (it : aitem) : res val :=
  match it with
  | IAgg op c => bind (comp_vals d c grp) (agg_vals op)
  | ICount => Ok (count_any d grp)
  end.

Definition d_aggr_clause (d : dset) (items : list (string * aitem)) (g : grouping) (hav : option hexpr) : res dset :=
  aggregate d g true hav (map fst items) (fun grp => mapM (fun it => item_val d grp (snd it)) items).

(* ---------------- statements: one aggregation (or any Model/Expr dataset expression) per statement *)
Inductive aexpr :=
| AD (e : dexpr)
| AAgg (op : aggop) (src : dexpr) (g : grouping) (hav : option hexpr)
| AClause (src : dexpr) (items : list (string * aitem)) (g : grouping) (hav : option hexpr).

Definition aeval (e : denv) (x : aexpr) : res dset :=
  match x with
  | AD a => deval e a
  | AAgg op src g hav => bind (deval e src) (fun d => d_aggr op d g hav)
  | AClause src items g hav => bind (deval e src) (fun d => d_aggr_clause d items g hav)
  end.

Fixpoint run_astmts (e : denv) (ss : list (string * aexpr)) : res denv :=
  match ss with
  | [] => Ok e
  | (n, x) :: t => bind (aeval e x) (fun d => run_astmts ((n, d) :: e) t)
  end.
Definition run_ascript (e : denv) (ss : list (string * aexpr)) (result : string) : res dset :=
  bind (run_astmts e ss) (fun e' => match dlook result e' with Some d => Ok d | None => Err "1-2-2" end).
