(* Hand-written Gallina transcription of vtlengine.DataTypes.{binary,unary}_implicit_promotion and their check_*
   counterparts, parameterised by the implicit-promotion table and the subclass relation (both regenerated from the
   code).  None = the function raises SemanticError.  Definitions only. *)
From Coq Require Import List Bool.
Import ListNotations.
From VTL Require Import Model.Types.

Section Promote.
  Variable implicit : ty -> list ty.
  Variable subclass : ty -> ty -> bool.     (* issubclass a b *)

  Definition binary_promotion (l r : ty) (tc rt : option ty) : option ty :=
    let li := implicit l in
    let ri := implicit r in
    match tc with
    | Some t =>
        if memty t (inter li ri) then
          match rt with
          | Some x => Some x
          | None =>
              if memty l ri then
                (if subclass l r then Some r else if subclass r l then Some l else Some l)
              else if memty r li then Some r
              else Some t
          end
        else None
    | None =>
        match rt, (memty l ri || memty r li) with
        | Some x, true => Some x
        | _, _ =>
            if memty l ri then (if subclass l r then Some r else Some l)
            else if memty r li then Some r
            else
              let common := inter li ri in
              match common with
              | [] => None
              | _ =>
                  match rt with
                  | Some x => Some x
                  | None =>
                      match filter (fun x => negb (ty_eqb x TNull)) common with
                      | [x] => Some x
                      | _ => None
                      end
                  end
              end
        end
    end.

  Definition check_binary (l r : ty) (tc rt : option ty) : bool :=
    let li := implicit l in
    let ri := implicit r in
    match tc with
    | Some t => memty t (inter li ri)
    | None => memty l ri || memty r li || negb (match inter li ri with [] => true | _ => false end)
    end.

  Definition unary_promotion (o : ty) (tc rt : option ty) : option ty :=
    let oi := implicit o in
    match tc with
    | Some t =>
        if negb (memty t oi) then None
        else match rt with
             | Some x => Some x
             | None => if negb (subclass o t) && negb (subclass t o) then Some t else Some o
             end
    | None => match rt with Some x => Some x | None => Some o end
    end.

  Definition check_unary (o : ty) (tc rt : option ty) : bool :=
    match tc with
    | Some t => memty t (implicit o)
    | None => true
    end.
End Promote.

(* Documented acceptance rule (docs/data_types.rst, "Implicit Casting"): the operands are accepted when the implicit table
   gives them a common type; an operator that requires a type admits exactly the pairs whose common types include it. *)
Definition doc_accepts_binary (doc : ty -> list ty) (l r : ty) (tc : option ty) : bool :=
  match tc with
  | Some t => memty t (inter (doc l) (doc r))
  | None => negb (match inter (doc l) (doc r) with [] => true | _ => false end)
  end.

Definition doc_accepts_unary (doc : ty -> list ty) (o : ty) (tc : option ty) : bool :=
  match tc with
  | Some t => memty t (doc o)
  | None => true
  end.

(* Documented result type: the operator's declared result type if it has one; otherwise a type both operands
   implicitly promote to (and, for one operand, a type the operand promotes to). *)
Definition doc_result_ok_binary (doc : ty -> list ty) (l r : ty) (rt : option ty) (res : ty) : bool :=
  match rt with
  | Some x => ty_eqb res x
  | None => memty res (inter (doc l) (doc r))
  end.

Definition doc_result_ok_unary (doc : ty -> list ty) (o : ty) (rt : option ty) (res : ty) : bool :=
  match rt with
  | Some x => ty_eqb res x
  | None => memty res (doc o)
  end.
