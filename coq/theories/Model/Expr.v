(* Component-level expressions (evaluated on one datapoint), clause operators, dataset-level element-wise
   operators and the set operators of the VTL subset (C01, C02, C05).  A dataset is its identifier names, the names of its other components and its
   rows (identifier values, other values).  Definitions only. *)
From Coq Require Import ZArith QArith Qround String List Bool.
Import ListNotations.
From VTL Require Import Base.Val Model.Table Model.Scalar Model.SetOps.
Open Scope string_scope.
Open Scope list_scope.

Record dset := mkD { d_ids : list string; d_ms : list string; d_rows : list (list val * list val) }.

Inductive cexpr :=
| CCol (n : string)
| CLit (v : val)
| CBin (op : binop) (a b : cexpr)
| CUn (op : unop) (a : cexpr)
| CIf (c t e : cexpr)
| CNvl (a b : cexpr)
| CBetween (a lo hi : cexpr)
| CIn (a : cexpr) (l : list val)
| CNotIn (a : cexpr) (l : list val)
| CRound (a : cexpr) (n : option Z)
| CTrunc (a : cexpr) (n : option Z)
| CSubstr (a : cexpr) (st len : option Z).

Definition env := list (string * val).
Fixpoint elook (n : string) (e : env) : option val :=
  match e with [] => None | (k, v) :: t => if String.eqb n k then Some v else elook n t end.

Definition to_int (v : val) : val :=
  match v with VNum q => VInt (Qfloor q) | _ => v end.

Fixpoint ceval (e : env) (c : cexpr) : res val :=
  match c with
  | CCol n => match elook n e with Some v => Ok v | None => Err "1-1-1-10" end
  | CLit v => Ok v
  | CBin op a b => bind (ceval e a) (fun x => bind (ceval e b) (fun y => binop_val op x y))
  | CUn op a => bind (ceval e a) (unop_val op)
  | CIf c t f => bind (ceval e c) (fun x => bind (ceval e t) (fun y => bind (ceval e f) (fun z => if_val x y z)))
  | CNvl a b => bind (ceval e a) (fun x => bind (ceval e b) (fun y => Ok (nvl_val x y)))
  | CBetween a lo hi =>
      bind (ceval e a) (fun x => bind (ceval e lo) (fun y => bind (ceval e hi) (fun z => between_val x y z)))
  | CIn a l => bind (ceval e a) (fun x => in_val x l)
  | CNotIn a l => bind (ceval e a) (fun x => not_in_val x l)
  | CRound a n => bind (ceval e a) (fun x =>
      match n with Some k => round_val x k | None => bind (round_val x 0) (fun r => Ok (to_int r)) end)
  | CTrunc a n => bind (ceval e a) (fun x =>
      match n with Some k => trunc_val x k | None => bind (trunc_val x 0) (fun r => Ok (to_int r)) end)
  | CSubstr a st len => bind (ceval e a) (fun x => substr_val x st len)
  end.

Definition row_env (d : dset) (r : list val * list val) : env :=
  combine (d_ids d) (fst r) ++ combine (d_ms d) (snd r).

Definition mem_s (n : string) (l : list string) : bool := existsb (String.eqb n) l.

(* ---------------- clause operators (C02) *)

(* filter: keeps exactly the datapoints whose condition is TRUE (false and null drop them) *)
Definition is_true (v : val) : bool := match v with VBool true => true | _ => false end.
Definition d_filter (d : dset) (c : cexpr) : res dset :=
  bind (mapM (fun r => bind (ceval (row_env d r) c) (fun v => Ok (r, v))) (d_rows d))
       (fun l => Ok (mkD (d_ids d) (d_ms d) (map fst (filter (fun p => is_true (snd p)) l)))).

(* calc: every expression is evaluated on the INPUT datapoint; named components are overwritten or appended *)
Fixpoint set_nth {A} (n : nat) (x : A) (l : list A) : list A :=
  match n, l with
  | O, _ :: t => x :: t
  | S k, h :: t => h :: set_nth k x t
  | _, [] => []
  end.
Fixpoint index_of (n : string) (l : list string) : option nat :=
  match l with
  | [] => None
  | h :: t => if String.eqb n h then Some O else option_map S (index_of n t)
  end.

Definition calc_names (ms : list string) (defs : list (string * cexpr)) : list string :=
  fold_left (fun acc d => if mem_s (fst d) acc then acc else acc ++ [fst d]) defs ms.

Definition calc_put (ms : list string) (vals : list val) (n : string) (v : val) : list string * list val :=
  match index_of n ms with
  | Some i => (ms, set_nth i v vals)
  | None => (ms ++ [n], vals ++ [v])
  end.

Definition calc_row (d : dset) (defs : list (string * cexpr)) (r : list val * list val) : res (list val * list val) :=
  bind (mapM (fun df => bind (ceval (row_env d r) (snd df)) (fun v => Ok (fst df, v))) defs)
       (fun nv => Ok (fst r, snd (fold_left (fun acc p => calc_put (fst acc) (snd acc) (fst p) (snd p)) nv (d_ms d, snd r)))).

Definition d_calc (d : dset) (defs : list (string * cexpr)) : res dset :=
  if existsb (fun df => mem_s (fst df) (d_ids d)) defs then Err "1-1-6-13" else
  bind (mapM (calc_row d defs) (d_rows d)) (fun rows => Ok (mkD (d_ids d) (calc_names (d_ms d) defs) rows)).

(* keep / drop: only the listed (non-identifier) components are affected; identifiers always stay *)
Definition select_by (names : list string) (keepf : string -> bool) (vals : list val) : list val :=
  map snd (filter (fun p => keepf (fst p)) (combine names vals)).
Definition d_project (d : dset) (keepf : string -> bool) : dset :=
  mkD (d_ids d) (filter keepf (d_ms d)) (map (fun r => (fst r, select_by (d_ms d) keepf (snd r))) (d_rows d)).
Definition d_keep (d : dset) (l : list string) : dset := d_project d (fun n => mem_s n l).
Definition d_drop (d : dset) (l : list string) : dset := d_project d (fun n => negb (mem_s n l)).

(* rename: names only *)
Fixpoint ren (l : list (string * string)) (n : string) : string :=
  match l with [] => n | (o, nw) :: t => if String.eqb n o then nw else ren t n end.
Definition d_rename (d : dset) (l : list (string * string)) : dset :=
  mkD (map (ren l) (d_ids d)) (map (ren l) (d_ms d)) (d_rows d).

(* sub: keeps the datapoints whose fixed identifiers have the given values, and removes those identifiers *)
Definition sub_match (ids : list string) (fixed : list (string * val)) (k : list val) : bool :=
  forallb (fun p => match elook (fst p) (combine ids k) with
                    | Some v => val_eqb v (snd p) | None => false end) fixed.
Definition d_sub (d : dset) (fixed : list (string * val)) : dset :=
  let keepf n := negb (mem_s n (map fst fixed)) in
  mkD (filter keepf (d_ids d)) (d_ms d)
      (map (fun r => (select_by (d_ids d) keepf (fst r), snd r))
           (filter (fun r => sub_match (d_ids d) fixed (fst r)) (d_rows d))).

(* ---------------- dataset-level element-wise operators (C01) *)

(* one operand dataset: the body (a component expression over the hole "$") is applied to every measure *)
Definition HOLE : string := "$".
Definition d_map (d : dset) (body : cexpr) : res dset :=
  bind (mapM (fun r => bind (mapM (fun v => ceval [(HOLE, v)] body) (snd r)) (fun ms => Ok (fst r, ms))) (d_rows d))
       (fun rows => Ok (mkD (d_ids d) (d_ms d) rows)).

(* two operand datasets: matched on their common identifiers (those of the operand with fewer identifiers, which
   must be a subset of the other's); the operator is applied per measure, measures paired by name *)
Definition proj_key (from : list string) (k : list val) (to : list string) : option (list val) :=
  let e := combine from k in
  fold_right (fun n acc => match elook n e, acc with Some v, Some l => Some (v :: l) | _, _ => None end) (Some []) to.

Definition pair_measures (op : binop) (lm : list string) (lv : list val) (rm : list string) (rv : list val) : res (list val) :=
  mapM (fun p => match elook (fst p) (combine rm rv) with
                 | Some y => binop_val op (snd p) y
                 | None => Err "1-1-14-1" end) (combine lm lv).

Definition subset_s (a b : list string) : bool := forallb (fun n => mem_s n b) a.

Definition d_binop (op : binop) (a b : dset) : res dset :=
  if negb (subset_s (d_ms a) (d_ms b) && subset_s (d_ms b) (d_ms a)) then Err "1-1-14-1" else
  if subset_s (d_ids b) (d_ids a) then
    (* a has all identifiers: drive by a's rows *)
    bind (mapM (fun r =>
            match proj_key (d_ids a) (fst r) (d_ids b) with
            | None => Err "1-1-1-10"
            | Some k => match find_key k (d_rows b) with
                        | None => Ok None
                        | Some rb => bind (pair_measures op (d_ms a) (snd r) (d_ms b) (snd rb))
                                          (fun ms => Ok (Some (fst r, ms)))
                        end
            end) (d_rows a))
         (fun l => Ok (mkD (d_ids a) (d_ms a) (flat_map (fun o => match o with Some r => [r] | None => [] end) l)))
  else if subset_s (d_ids a) (d_ids b) then
    bind (mapM (fun r =>
            match proj_key (d_ids b) (fst r) (d_ids a) with
            | None => Err "1-1-1-10"
            | Some k => match find_key k (d_rows a) with
                        | None => Ok None
                        | Some ra => bind (pair_measures op (d_ms a) (snd ra) (d_ms b) (snd r))
                                          (fun ms => Ok (Some (fst r, ms)))
                        end
            end) (d_rows b))
         (fun l => Ok (mkD (d_ids b) (d_ms a) (flat_map (fun o => match o with Some r => [r] | None => [] end) l)))
  else Err "1-1-14-5".

(* ---------------- set operators inside the core language (C05) *)
(* union / intersect / setdiff / symdiff of two datasets.  n-ary union(A,B,C) / intersect(A,B,C) are the left-nested binary
   forms (Proofs/SetOpsP.v: union_left_nested, intersect_left_nested).  Semantics: structural compatibility (the same
   identifier names and the same other component names, as sets; the engine's semantic analysis answers 1-1-17-1 otherwise),
   then the datapoints of the SECOND operand are written in the column order of the FIRST (alignment BY NAME), then the
   function of Model/SetOps.v on the rows. *)
Inductive setop := OUnion | OIntersect | OSetdiff | OSymdiff.

Definition ERR_SET_STRUCT : string := "1-1-17-1".

Definition same_names (a b : list string) : bool := subset_s a b && subset_s b a.
Fixpoint nodup_s (l : list string) : bool :=
  match l with [] => true | h :: t => negb (mem_s h t) && nodup_s t end.

(* a structure that repeats an identifier name is not a dataset structure: rejected like any other mismatch *)
Definition set_compat (a b : dset) : bool :=
  same_names (d_ids a) (d_ids b) && same_names (d_ms a) (d_ms b) && nodup_s (d_ids b).

(* one datapoint of the operand with columns (ib, mb) rewritten in the column order (ia, ma); a datapoint that does not
   have one value per component of its own structure is not a datapoint of that dataset *)
Definition align_row (ib mb ia ma : list string) (r : list val * list val) : res (list val * list val) :=
  if Nat.eqb (List.length (fst r)) (List.length ib) && Nat.eqb (List.length (snd r)) (List.length mb) then
    match proj_key ib (fst r) ia, proj_key mb (snd r) ma with
    | Some k, Some m => Ok (k, m)
    | _, _ => Err "1-1-1-10"
    end
  else Err "1-1-1-10".

Definition set_rows (op : setop) (a b : list (list val * list val)) : list (list val * list val) :=
  match op with
  | OUnion => union [a; b]
  | OIntersect => intersect [a; b]
  | OSetdiff => setdiff a b
  | OSymdiff => symdiff a b
  end.

Definition d_setop (op : setop) (a b : dset) : res dset :=
  if negb (set_compat a b) then Err ERR_SET_STRUCT else
  bind (mapM (align_row (d_ids b) (d_ms b) (d_ids a) (d_ms a)) (d_rows b))
       (fun rb => Ok (mkD (d_ids a) (d_ms a) (set_rows op (d_rows a) rb))).

(* ---------------- dataset expressions and statements *)
Inductive dexpr :=
| DVar (n : string)
| DBin (op : binop) (a b : dexpr)
| DSet (op : setop) (a b : dexpr)
| DMap (a : dexpr) (body : cexpr)              (* unary / dataset∘scalar / parameterised operators *)
| DFilter (a : dexpr) (c : cexpr)
| DCalc (a : dexpr) (defs : list (string * cexpr))
| DKeep (a : dexpr) (l : list string)
| DDrop (a : dexpr) (l : list string)
| DRename (a : dexpr) (l : list (string * string))
| DSub (a : dexpr) (l : list (string * val)).

Definition denv := list (string * dset).
Fixpoint dlook (n : string) (e : denv) : option dset :=
  match e with [] => None | (k, v) :: t => if String.eqb n k then Some v else dlook n t end.

Fixpoint deval (e : denv) (x : dexpr) : res dset :=
  match x with
  | DVar n => match dlook n e with Some d => Ok d | None => Err "1-2-2" end
  | DBin op a b => bind (deval e a) (fun da => bind (deval e b) (fun db => d_binop op da db))
  | DSet op a b => bind (deval e a) (fun da => bind (deval e b) (fun db => d_setop op da db))
  | DMap a body => bind (deval e a) (fun d => d_map d body)
  | DFilter a c => bind (deval e a) (fun d => d_filter d c)
  | DCalc a defs => bind (deval e a) (fun d => d_calc d defs)
  | DKeep a l => bind (deval e a) (fun d => Ok (d_keep d l))
  | DDrop a l => bind (deval e a) (fun d => Ok (d_drop d l))
  | DRename a l => bind (deval e a) (fun d => Ok (d_rename d l))
  | DSub a l => bind (deval e a) (fun d => Ok (d_sub d l))
  end.

(* a script: assignments evaluated in order, each result visible to the following statements *)
Fixpoint run_stmts (e : denv) (ss : list (string * dexpr)) : res denv :=
  match ss with
  | [] => Ok e
  | (n, x) :: t => bind (deval e x) (fun d => run_stmts ((n, d) :: e) t)
  end.
Definition run_script (e : denv) (ss : list (string * dexpr)) (result : string) : res dset :=
  bind (run_stmts e ss) (fun e' => match dlook result e' with Some d => Ok d | None => Err "1-2-2" end).

(* ---------------- one-hole contexts of the core language (compositionality statements of C05 / C01 / C02) *)
Inductive dctx :=
| KHole
| KBinL (op : binop) (k : dctx) (b : dexpr)
| KBinR (op : binop) (a : dexpr) (k : dctx)
| KSetL (op : setop) (k : dctx) (b : dexpr)
| KSetR (op : setop) (a : dexpr) (k : dctx)
| KMap (k : dctx) (body : cexpr)
| KFilter (k : dctx) (c : cexpr)
| KCalc (k : dctx) (defs : list (string * cexpr))
| KKeep (k : dctx) (l : list string)
| KDrop (k : dctx) (l : list string)
| KRename (k : dctx) (l : list (string * string))
| KSub (k : dctx) (l : list (string * val)).

Fixpoint plug (k : dctx) (x : dexpr) : dexpr :=
  match k with
  | KHole => x
  | KBinL op k b => DBin op (plug k x) b
  | KBinR op a k => DBin op a (plug k x)
  | KSetL op k b => DSet op (plug k x) b
  | KSetR op a k => DSet op a (plug k x)
  | KMap k body => DMap (plug k x) body
  | KFilter k c => DFilter (plug k x) c
  | KCalc k defs => DCalc (plug k x) defs
  | KKeep k l => DKeep (plug k x) l
  | KDrop k l => DDrop (plug k x) l
  | KRename k l => DRename (plug k x) l
  | KSub k l => DSub (plug k x) l
  end.

(* dataset names read by an expression / by the expressions of a context *)
Fixpoint dvars (x : dexpr) : list string :=
  match x with
  | DVar n => [n]
  | DBin _ a b | DSet _ a b => dvars a ++ dvars b
  | DMap a _ | DFilter a _ | DCalc a _ | DKeep a _ | DDrop a _ | DRename a _ | DSub a _ => dvars a
  end.
Fixpoint kvars (k : dctx) : list string :=
  match k with
  | KHole => []
  | KBinL _ k b | KSetL _ k b => kvars k ++ dvars b
  | KBinR _ a k | KSetR _ a k => dvars a ++ kvars k
  | KMap k _ | KFilter k _ | KCalc k _ | KKeep k _ | KDrop k _ | KRename k _ | KSub k _ => kvars k
  end.

(* n-ary text forms: union(A, B, C, …) and intersect(A, B, C, …) as left-nested binary nodes *)
Definition dset_nary (op : setop) (a : dexpr) (rest : list dexpr) : dexpr := fold_left (DSet op) rest a.
