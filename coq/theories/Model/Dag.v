(* Model of vtlengine.AST.DAG.DAGAnalyzer (statement dependency graph, ordering, cycle and redefinition checks).
   Definitions only; the lemmas are in Proofs/DagP.v, the property statements in Props/C12.v.

   A top-level statement `name := expr` / `name <- expr` is abstracted to (output name, names read, persistent flag).
   Names are natural numbers (the harness numbers the dataset/scalar names of a script).
   Statement keys are 1-based positions in the script, as in DAGAnalyzer.dependencies.

   What is transcribed from the code (and compared with it field by field on every run, tie T-dag):
     promote_impl     visit_Start's unknown-variable promotion (component-looking names that another statement assigns become inputs)
     last_def         load_edges' ref_to_keys (last statement assigning a name)
     edges_of         load_edges (producer key, consumer key) in the code's order
     redefinition_detected   check_overwriting
     outcome_impl     the error create_dag ends with (duplicate assignment first, then cycles of the last-definition graph);
                      outcome_before_fix = the code before the repair (cycle check BEFORE the overwrite check), kept as a witness
   What is NOT transcribed: networkx' topological_sort.  Every order it returns is validated with is_topo_order. *)
From Coq Require Import List Bool Arith PeanoNat Relations.
Import ListNotations.

Definition name := nat.

Record stmt := Stmt { s_out : name; s_deps : list name; s_pers : bool }.

Definition memb (x : name) (l : list name) : bool := existsb (Nat.eqb x) l.
Definition outs (l : list stmt) : list name := map s_out l.
Definition reads (l : list stmt) : list name := flat_map s_deps l.

(* ---------------------------------------------------------------- abstract semantics of a script *)
Section Sem.
  Variable value : Type.
  Definition env := name -> value.
  (* the value a statement computes from the current environment *)
  Variable sem : stmt -> env -> value.

  Definition upd (e : env) (x : name) (v : value) : env := fun y => if Nat.eqb y x then v else e y.
  Definition step (e : env) (s : stmt) : env := upd e (s_out s) (sem s e).
  (* statements executed one after the other in list order, as execute_queries does with the sorted AST *)
  Definition exec (l : list stmt) (e : env) : env := fold_left step l e.
End Sem.

(* ---------------------------------------------------------------- topological orders *)
(* every statement reads only names that neither it nor a later statement assigns *)
Fixpoint topo_sorted (l : list stmt) : Prop :=
  match l with
  | [] => True
  | s :: r => (forall d, In d (s_deps s) -> ~ In d (outs (s :: r))) /\ topo_sorted r
  end.

Fixpoint topo_sortedb (l : list stmt) : bool :=
  match l with
  | [] => true
  | s :: r => forallb (fun d => negb (memb d (outs (s :: r)))) (s_deps s) && topo_sortedb r
  end.

(* statements picked by 1-based keys (DAGAnalyzer.sort_elements: [statements[x - 1] for x in sorting]) *)
Definition pick_key (ss : list stmt) (i : nat) : list stmt :=
  match nth_error ss (i - 1) with Some s => [s] | None => [] end.
Definition select (ss : list stmt) (ord : list nat) : list stmt := flat_map (pick_key ss) ord.

Definition is_perm_of_keys (ord : list nat) (n : nat) : bool :=
  (length ord =? n) && forallb (fun i => existsb (Nat.eqb i) ord) (seq 1 n).

(* the checker applied to every order networkx produced *)
Definition is_topo_order (ord : list nat) (ss : list stmt) : bool :=
  is_perm_of_keys ord (length ss) && topo_sortedb (select ss ord).

(* ---------------------------------------------------------------- cycles *)
(* the statement assigning a reads b *)
Definition reads_rel (ss : list stmt) (a b : name) : Prop :=
  exists s, In s ss /\ s_out s = a /\ In b (s_deps s).
Definition cyclic (ss : list stmt) : Prop := exists n, clos_trans name (reads_rel ss) n n.

(* model sorter / cycle detector (Kahn): repeatedly take the first statement none of whose reads is still to be assigned *)
Definition ready (R : list stmt) (s : stmt) : bool := forallb (fun d => negb (memb d (outs R))) (s_deps s).

Fixpoint extract (p : stmt -> bool) (l : list stmt) : option (stmt * list stmt) :=
  match l with
  | [] => None
  | s :: r => if p s then Some (s, r)
              else match extract p r with Some (x, r') => Some (x, s :: r') | None => None end
  end.

Fixpoint ksort (fuel : nat) (R : list stmt) : option (list stmt) :=
  match R with
  | [] => Some []
  | _ :: _ =>
      match fuel with
      | 0 => None
      | S f => match extract (ready R) R with
               | None => None
               | Some (s, R') => match ksort f R' with Some o => Some (s :: o) | None => None end
               end
      end
  end.

Definition model_sort (ss : list stmt) : option (list stmt) := ksort (length ss) ss.
Definition cycle_detected (ss : list stmt) : bool := match model_sort ss with None => true | Some _ => false end.

(* ---------------------------------------------------------------- redefinition (check_overwriting) *)
Fixpoint has_dup (l : list name) : bool :=
  match l with [] => false | x :: r => memb x r || has_dup r end.
Definition redefinition_detected (ss : list stmt) : bool := has_dup (outs ss).

(* ---------------------------------------------------------------- the code's graph (load_edges) *)
(* key (counted from k) of the last occurrence of x *)
Fixpoint index_last (x : name) (l : list name) (k : nat) : option nat :=
  match l with
  | [] => None
  | y :: r => match index_last x r (S k) with
              | Some j => Some j
              | None => if Nat.eqb x y then Some k else None
              end
  end.
Definition last_def (ss : list stmt) (x : name) : option nat := index_last x (outs ss) 1.

Definition producers (all : list stmt) (s : stmt) : list nat :=
  flat_map (fun d => match last_def all d with Some j => [j] | None => [] end) (s_deps s).

Fixpoint edges_from (all : list stmt) (k : nat) (l : list stmt) : list (nat * nat) :=
  match l with
  | [] => []
  | s :: r => map (fun j => (j, k)) (producers all s) ++ edges_from all (S k) r
  end.
Definition edges_of (ss : list stmt) : list (nat * nat) := edges_from ss 1 ss.

(* the graph networkx is given, as a statement list over keys: statement k "assigns k" and reads the keys of its producers *)
Fixpoint impl_from (all : list stmt) (k : nat) (l : list stmt) : list stmt :=
  match l with
  | [] => []
  | s :: r => Stmt k (producers all s) (s_pers s) :: impl_from all (S k) r
  end.
Definition impl_view (ss : list stmt) : list stmt := impl_from ss 1 ss.

Inductive outcome := Accepted | CycleRejected | RedefinitionRejected.
Definition outcome_eqb (a b : outcome) : bool :=
  match a, b with Accepted, Accepted | CycleRejected, CycleRejected | RedefinitionRejected, RedefinitionRejected => true | _, _ => false end.

(* what the property asks for: a duplicate is the redefinition error, a cycle the cycle error, in every order *)
Definition outcome_spec (ss : list stmt) : outcome :=
  if redefinition_detected ss then RedefinitionRejected else if cycle_detected ss then CycleRejected else Accepted.
(* what create_dag does: a name assigned twice is rejected first, then cycles of the last-definition graph *)
Definition outcome_impl (ss : list stmt) : outcome :=
  if redefinition_detected ss then RedefinitionRejected else if cycle_detected (impl_view ss) then CycleRejected else Accepted.
(* what create_dag did before the repair: cycles of the last-definition graph first, overwriting afterwards *)
Definition outcome_before_fix (ss : list stmt) : outcome :=
  if cycle_detected (impl_view ss) then CycleRejected else if redefinition_detected ss then RedefinitionRejected else Accepted.

(* ---------------------------------------------------------------- unknown-variable promotion (visit_Start) *)
(* raw statement as collected by the visitor: names read as datasets, names met inside clauses that may be components *)
Record rstmt := RStmt { r_out : name; r_inputs : list name; r_pers : bool; r_unk : list name }.

(* the code looks the unknown name up in `dependency.outputs` and `dependency.persistent` (before the repair: outputs only) *)
Definition assigned_nonpers (rs : list rstmt) : list name := map r_out (filter (fun r => negb (r_pers r)) rs).
Definition assigned_any (rs : list rstmt) : list name := map r_out rs.

Definition promote_with (known : list name) (r : rstmt) : stmt :=
  Stmt (r_out r) (r_inputs r ++ filter (fun v => memb v known) (r_unk r)) (r_pers r).
Definition unk_left (known : list name) (r : rstmt) : list name := filter (fun v => negb (memb v known)) (r_unk r).

Definition promote_impl (rs : list rstmt) : list stmt := map (promote_with (assigned_any rs)) rs.
Definition promote_spec (rs : list rstmt) : list stmt := map (promote_with (assigned_any rs)) rs.
Definition unk_left_impl (rs : list rstmt) : list (list name) := map (unk_left (assigned_any rs)) rs.
Definition promote_before_fix (rs : list rstmt) : list stmt := map (promote_with (assigned_nonpers rs)) rs.
