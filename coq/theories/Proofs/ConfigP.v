(* Lemmas for C30 (Model/Config.v).  Everything is over ALL integers (lia / nia), generic in the constants record
   under the side conditions `wf_consts` that Props/C30.v discharges for the regenerated constants. *)
From Coq Require Import ZArith List Bool Lia QArith Qabs.
Import ListNotations.
From VTL Require Import Model.Config.
Open Scope Z_scope.

(* ------------------------------------------------------------------ set_decimal_config *)
Definition wf_consts (k : consts) : Prop :=
  c_min_w k <= c_max_w k /\ c_min_s k <= c_max_s k /\ c_max_s k <= c_max_w k.

Definition in_range (lo hi disable v : Z) : Prop := v = disable \/ lo <= v <= hi.

Lemma eff_range lo hi disable v : lo <= hi ->
  (lo <= eff disable hi v <= hi) <-> in_range lo hi disable v.
Proof. unfold eff, in_range. intros. destruct (v =? disable) eqn:E; lia. Qed.

Lemma eff_idem disable maxv v : eff disable maxv (eff disable maxv v) = eff disable maxv v.
Proof. unfold eff. destruct (v =? disable) eqn:E; [destruct (maxv =? disable) eqn:F|rewrite E]; reflexivity. Qed.

Lemma decimal_type_ok_iff w s :
  decimal_type_ok w s = true <-> 1 <= w <= duckdb_max_width /\ 0 <= s <= w.
Proof. unfold decimal_type_ok. rewrite !andb_true_iff, !Z.leb_le. lia. Qed.

Lemma spec_accept_iff k ew es g : wf_consts k ->
  accepted (set_decimal_config_spec k ew es g) = true <->
  in_range (c_min_w k) (c_max_w k) (c_disable k) (from_env ew (c_def_w k)) /\
  in_range (c_min_s k) (c_max_s k) (c_disable k) (from_env es (c_def_s k)) /\
  eff (c_disable k) (c_max_s k) (from_env es (c_def_s k)) <= eff (c_disable k) (c_max_w k) (from_env ew (c_def_w k)).
Proof.
  intros (Hw & Hs & Hsw). rewrite <- (eff_range _ _ _ _ Hw), <- (eff_range _ _ _ _ Hs).
  unfold set_decimal_config_spec.
  set (w1 := eff _ _ (from_env ew _)). set (s1 := eff _ _ (from_env es _)).
  destruct ((s1 <? c_min_s k) || (s1 >? c_max_s k)) eqn:E1; [simpl; split; [discriminate | lia]|].
  destruct ((w1 <? c_min_w k) || (w1 >? c_max_w k)) eqn:E2; [simpl; split; [discriminate | lia]|].
  destruct (w1 <? s1) eqn:E3; simpl; split; try discriminate; try reflexivity; lia.
Qed.

(* an accepted call publishes the effective configuration, a rejected one leaves the globals alone *)
Lemma spec_state k ew es g :
  state_after (set_decimal_config_spec k ew es g) =
  if accepted (set_decimal_config_spec k ew es g)
  then mkG (eff (c_disable k) (c_max_w k) (from_env ew (c_def_w k))) (eff (c_disable k) (c_max_s k) (from_env es (c_def_s k)))
  else g.
Proof.
  unfold set_decimal_config_spec. destruct (_ || _); [reflexivity|]. destruct (_ || _); [reflexivity|].
  destruct (_ <? _); reflexivity.
Qed.

(* the verdict (accepted with which configuration / rejected for which variable with which value) ignores the globals *)
Definition verdict (r : cfg_result) : option globals * option (cfgvar * Z) :=
  match r with Accepted g => (Some g, None) | Rejected v bad _ => (None, Some (v, bad)) end.

Lemma spec_history_independent k ew es g1 g2 :
  verdict (set_decimal_config_spec k ew es g1) = verdict (set_decimal_config_spec k ew es g2).
Proof.
  unfold set_decimal_config_spec. destruct (_ || _); [reflexivity|]. destruct (_ || _); [reflexivity|].
  destruct (_ <? _); reflexivity.
Qed.

(* an accepted configuration is always a well-formed DuckDB DECIMAL type: nothing raw can come out of it *)
Lemma spec_accepted_type_ok k ew es g g' : wf_consts k -> 1 <= c_min_w k -> c_max_w k <= duckdb_max_width -> 0 <= c_min_s k ->
  set_decimal_config_spec k ew es g = Accepted g' -> decimal_type_ok (g_w g') (g_s g') = true.
Proof.
  intros (Hw & Hs & Hsw) H1 H38 H0. unfold set_decimal_config_spec.
  set (w1 := eff _ _ (from_env ew _)). set (s1 := eff _ _ (from_env es _)).
  destruct ((s1 <? c_min_s k) || (s1 >? c_max_s k)) eqn:E1; [discriminate|].
  destruct ((w1 <? c_min_w k) || (w1 >? c_max_w k)) eqn:E2; [discriminate|].
  destruct (w1 <? s1) eqn:E3; [discriminate|]. intros H. injection H as <-. simpl.
  apply decimal_type_ok_iff. lia.
Qed.

(* the spec: an unset variable is its documented default *)
Lemma spec_unset_is_default k ew es g :
  set_decimal_config_spec k ew es g =
  set_decimal_config_spec k (Some (from_env ew (c_def_w k))) (Some (from_env es (c_def_s k))) g.
Proof. destruct ew, es; reflexivity. Qed.

(* ---- the code before the repair (regression witnesses) *)
(* what it accepted: the width had no upper bound (its test compared the scale with MAX_DECIMAL_WIDTH) *)
Lemma prefix_accept_iff k ew es g : wf_consts k ->
  accepted (set_decimal_config_prefix k ew es g) = true <->
  (let w := from_env ew (g_w g) in w = c_disable k \/ c_min_w k <= w) /\
  in_range (c_min_s k) (c_max_s k) (c_disable k) (from_env es (g_s g)).
Proof.
  intros (Hw & Hs & Hsw). rewrite <- (eff_range _ _ _ _ Hs). cbv zeta.
  unfold set_decimal_config_prefix.
  set (w0 := from_env ew _). set (s1 := eff _ _ (from_env es _)).
  assert (Ew : c_min_w k <= eff (c_disable k) (c_max_w k) w0 <-> (w0 = c_disable k \/ c_min_w k <= w0))
    by (unfold eff; destruct (w0 =? c_disable k) eqn:E; lia).
  rewrite <- Ew. set (w1 := eff _ _ w0).
  destruct ((s1 <? c_min_s k) || (s1 >? c_max_s k)) eqn:E1; [simpl; split; [discriminate | lia]|].
  destruct ((w1 <? c_min_w k) || (s1 >? c_max_w k)) eqn:E2; simpl; split; try discriminate; try reflexivity; lia.
Qed.

(* its stickiness, exactly: a call with both variables unset repeated the outcome of the previous call, whatever that was *)
Lemma prefix_unset_repeats_previous k ew es g :
  set_decimal_config_prefix k None None (state_after (set_decimal_config_prefix k ew es g)) =
  set_decimal_config_prefix k ew es g.
Proof.
  remember (set_decimal_config_prefix k ew es g) as r eqn:Hr. unfold set_decimal_config_prefix in Hr.
  set (w1 := eff _ _ (from_env ew _)) in Hr. set (s1 := eff _ _ (from_env es _)) in Hr.
  assert (R : set_decimal_config_prefix k None None (mkG w1 s1) =
              (if (s1 <? c_min_s k) || (s1 >? c_max_s k) then Rejected VarScale s1 (mkG w1 s1)
               else if (w1 <? c_min_w k) || (s1 >? c_max_w k) then Rejected VarWidth w1 (mkG w1 s1)
               else Accepted (mkG w1 s1))).
  { unfold set_decimal_config_prefix. simpl from_env. simpl g_w. simpl g_s. unfold w1, s1. rewrite !eff_idem. reflexivity. }
  destruct ((s1 <? c_min_s k) || (s1 >? c_max_s k)); [subst r; exact R|].
  destruct ((w1 <? c_min_w k) || (s1 >? c_max_w k)); subst r; exact R.
Qed.

(* ------------------------------------------------------------------ run level *)
Lemma run_config_cfgerror_iff f ew es g v :
  fst (run_config f ew es g) = CfgRejected v <-> exists bad g', f ew es g = Rejected v bad g'.
Proof.
  unfold run_config. destruct (f ew es g) as [g'|v' bad' g']; simpl.
  - destruct (decimal_type_ok _ _); split; try discriminate; intros (? & ? & ?); discriminate.
  - split; [intros H; injection H as ->; eauto | intros (b & g'' & H); injection H as -> _ _; reflexivity].
Qed.

Lemma run_config_raw_iff f ew es g :
  fst (run_config f ew es g) = RawBinder <->
  exists g', f ew es g = Accepted g' /\ decimal_type_ok (g_w g') (g_s g') = false.
Proof.
  unfold run_config. destruct (f ew es g) as [g'|v' bad' g']; simpl.
  - destruct (decimal_type_ok (g_w g') (g_s g')) eqn:E; simpl; split.
    + discriminate.
    + intros (g'' & H & H2). injection H as <-. congruence.
    + intros _. exists g'. auto.
    + intros _. reflexivity.
  - split; [discriminate | intros (? & ? & _); discriminate].
Qed.


(* ------------------------------------------------------------------ rounding on load *)
Lemma pow10_pos n : 0 <= n -> 0 < 10 ^ n.
Proof. intros. apply Z.pow_pos_nonneg; lia. Qed.

Lemma rha_nonneg a d : 0 <= a -> 0 < d ->
  let q := round_half_away a d in 0 <= q /\ 2 * d * q <= 2 * a + d < 2 * d * q + 2 * d.
Proof.
  intros Ha Hd. cbv zeta. unfold round_half_away.
  rewrite (Z.abs_eq a Ha).
  pose proof (Z.div_mod (2 * a + d) (2 * d) ltac:(lia)) as DM.
  pose proof (Z.mod_pos_bound (2 * a + d) (2 * d) ltac:(lia)) as MB.
  assert (0 <= (2 * a + d) / (2 * d)) by (apply Z.div_pos; lia).
  destruct (Z.eq_dec a 0) as [->|Hn].
  - simpl Z.sgn. rewrite Z.mul_0_l. assert ((2 * 0 + d) / (2 * d) = 0) as Q0 by (apply Z.div_small; lia). lia.
  - rewrite (Z.sgn_pos a ltac:(lia)). rewrite Z.mul_1_l. lia.
Qed.

Lemma rha_opp a d : round_half_away (- a) d = - round_half_away a d.
Proof. unfold round_half_away. rewrite Z.sgn_opp, Z.abs_opp. lia. Qed.

(* nearest: the rounded value is within half a unit; exactly half-way goes away from zero *)
Lemma rha_nearest a d : 0 < d ->
  let q := round_half_away a d in
  2 * Z.abs (q * d - a) <= d /\ (2 * Z.abs (q * d - a) = d -> Z.abs a < Z.abs (q * d)).
Proof.
  intros Hd. cbv zeta. destruct (Z_le_gt_dec 0 a) as [Ha|Ha].
  - destruct (rha_nonneg a d Ha Hd) as (Hq & H1 & H2). set (q := round_half_away a d) in *.
    assert (0 <= q * d) by nia. split; [lia|]. intros E. rewrite (Z.abs_eq a Ha), (Z.abs_eq (q * d)) by lia. lia.
  - assert (Hb : 0 <= - a) by lia.
    destruct (rha_nonneg (- a) d Hb Hd) as (Hq & H1 & H2). rewrite rha_opp in *.
    set (q := round_half_away a d) in *.
    assert (q * d <= 0) by nia. split; [lia|]. intros E. lia.
Qed.

Lemma rha_abs a d : 0 < d -> Z.abs (round_half_away a d) = (2 * Z.abs a + d) / (2 * d).
Proof.
  intros Hd. unfold round_half_away.
  assert (0 <= (2 * Z.abs a + d) / (2 * d)) by (apply Z.div_pos; lia).
  rewrite Z.abs_mul, (Z.abs_eq ((2 * Z.abs a + d) / (2 * d))) by assumption.
  destruct (Z.eq_dec a 0) as [->|Hn].
  - change (Z.sgn 0) with 0. change (Z.abs 0) with 0. rewrite Z.mul_0_l. symmetry. apply Z.div_small. lia.
  - destruct (Z.sgn_spec a) as [[? E]|[[? E]|[? E]]]; rewrite E; simpl Z.abs; lia.
Qed.

Lemma to_scale_nearest s m e : 0 <= s -> 0 <= e ->
  let v := to_scale s m e in
  2 * Z.abs (v * 10 ^ e - m * 10 ^ s) <= 10 ^ e /\
  (2 * Z.abs (v * 10 ^ e - m * 10 ^ s) = 10 ^ e -> Z.abs (m * 10 ^ s) < Z.abs (v * 10 ^ e)).
Proof.
  intros Hs He. cbv zeta. unfold to_scale. destruct (e <=? s) eqn:E.
  - apply Z.leb_le in E.
    assert (P : 10 ^ s = 10 ^ (s - e) * 10 ^ e) by (rewrite <- Z.pow_add_r by lia; f_equal; lia).
    pose proof (pow10_pos e He). rewrite P.
    replace (m * 10 ^ (s - e) * 10 ^ e - m * (10 ^ (s - e) * 10 ^ e)) with 0 by ring.
    simpl Z.abs. split; lia.
  - apply Z.leb_gt in E.
    assert (P : 10 ^ e = 10 ^ (e - s) * 10 ^ s) by (rewrite <- Z.pow_add_r by lia; f_equal; lia).
    pose proof (pow10_pos s Hs) as Ps. pose proof (pow10_pos (e - s) ltac:(lia)) as Pd.
    destruct (rha_nearest m (10 ^ (e - s)) Pd) as (N1 & N2).
    set (q := round_half_away m (10 ^ (e - s))) in *. set (D := 10 ^ (e - s)) in *. set (S := 10 ^ s) in *.
    rewrite P.
    replace (q * (D * S) - m * S) with ((q * D - m) * S) by ring.
    rewrite Z.abs_mul, (Z.abs_eq S) by lia. split; [nia|].
    intros H. assert (2 * Z.abs (q * D - m) = D) by nia.
    specialize (N2 H0). rewrite Z.abs_mul, (Z.abs_eq S) by lia.
    replace (q * (D * S)) with ((q * D) * S) by ring. rewrite Z.abs_mul, (Z.abs_eq S) by lia. nia.
Qed.

Lemma to_scale_exact s m e : 0 <= e <= s -> to_scale s m e * 10 ^ e = m * 10 ^ s.
Proof.
  intros [He Hes]. unfold to_scale. rewrite (proj2 (Z.leb_le e s) Hes).
  rewrite <- Z.mul_assoc, <- Z.pow_add_r by lia. do 2 f_equal. lia.
Qed.

(* rejected exactly when |x| >= 10^(w-s) - 10^(-s)/2, x = m / 10^e *)
Lemma load_reject_iff w s m e : 0 <= w -> 0 <= s -> 0 <= e ->
  load w s m e = None <-> (2 * 10 ^ w - 1) * 10 ^ e <= 2 * Z.abs m * 10 ^ s.
Proof.
  intros Hw Hs He. unfold load, fits.
  set (N := 10 ^ w). assert (HN : 0 < N) by (apply pow10_pos; lia).
  assert (K : Z.abs (to_scale s m e) <? N = false <-> (2 * N - 1) * 10 ^ e <= 2 * Z.abs m * 10 ^ s).
  { rewrite Z.ltb_ge. unfold to_scale. destruct (e <=? s) eqn:E.
    - apply Z.leb_le in E.
      assert (P : 10 ^ s = 10 ^ (s - e) * 10 ^ e) by (rewrite <- Z.pow_add_r by lia; f_equal; lia).
      pose proof (pow10_pos e He) as Pe. pose proof (pow10_pos (s - e) ltac:(lia)) as Pd.
      rewrite Z.abs_mul, (Z.abs_eq (10 ^ (s - e))) by lia. rewrite P.
      set (D := 10 ^ (s - e)) in *. set (T := 10 ^ e) in *. set (A := Z.abs m).
      assert (0 <= A) by apply Z.abs_nonneg. split; intros H0; nia.
    - apply Z.leb_gt in E.
      assert (P : 10 ^ e = 10 ^ (e - s) * 10 ^ s) by (rewrite <- Z.pow_add_r by lia; f_equal; lia).
      pose proof (pow10_pos s Hs) as Ps. pose proof (pow10_pos (e - s) ltac:(lia)) as Pd.
      rewrite rha_abs by assumption. rewrite P.
      set (D := 10 ^ (e - s)) in *. set (T := 10 ^ s) in *. set (A := Z.abs m).
      assert (0 <= A) by apply Z.abs_nonneg.
      assert (Q : N <= (2 * A + D) / (2 * D) <-> 2 * D * N <= 2 * A + D).
      { split; intros H0.
        - pose proof (Z.mul_div_le (2 * A + D) (2 * D) ltac:(lia)). nia.
        - apply Z.div_le_lower_bound; lia. }
      rewrite Q. split; intros H0; nia. }
  destruct (Z.abs (to_scale s m e) <? N) eqn:F.
  - split; [discriminate|]. intros H0. apply K in H0. discriminate.
  - split; [intros _; apply K; reflexivity | reflexivity].
Qed.

Lemma load_some w s m e v : load w s m e = Some v -> v = to_scale s m e /\ Z.abs v < 10 ^ w.
Proof.
  unfold load, fits. destruct (Z.abs (to_scale s m e) <? 10 ^ w) eqn:F; [|discriminate].
  intros H. injection H as <-. apply Z.ltb_lt in F. auto.
Qed.

(* ------------------------------------------------------------------ sums and differences at scale s are exact *)
Definition dec_val (s v : Z) : Q := inject_Z v / inject_Z (10 ^ s).

Lemma dec_val_add s a b : 0 <= s -> (dec_val s (dec_add a b) == dec_val s a + dec_val s b)%Q.
Proof.
  intros Hs. unfold dec_val, dec_add. rewrite inject_Z_plus. field.
  intros H. pose proof (pow10_pos s Hs). apply (Qlt_irrefl 0). rewrite <- H at 2.
  rewrite <- (Zlt_Qlt 0). assumption.
Qed.

Lemma dec_val_sub s a b : 0 <= s -> (dec_val s (dec_sub a b) == dec_val s a - dec_val s b)%Q.
Proof.
  intros Hs. unfold dec_val, dec_sub. unfold Z.sub. rewrite inject_Z_plus, inject_Z_opp. field.
  intros H. pose proof (pow10_pos s Hs). apply (Qlt_irrefl 0). rewrite <- H at 2.
  rewrite <- (Zlt_Qlt 0). assumption.
Qed.

Lemma sum_fits_next_width w a b : 0 <= w -> Z.abs a < 10 ^ w -> Z.abs b < 10 ^ w ->
  Z.abs (a + b) < 10 ^ (w + 1) /\ Z.abs (a - b) < 10 ^ (w + 1).
Proof.
  intros Hw Ha Hb. rewrite Z.pow_add_r by lia. change (10 ^ 1) with 10. lia.
Qed.

Lemma binop_value_inv sub w s m1 e1 m2 e2 s' r :
  binop_case sub (CfgOk w s) m1 e1 m2 e2 = OValue s' r ->
  s' = s /\ exists a b, load w s m1 e1 = Some a /\ load w s m2 e2 = Some b /\
                         r = (if sub then dec_sub a b else dec_add a b).
Proof.
  unfold binop_case. destruct (load w s m1 e1) as [a|]; [|discriminate].
  destruct (load w s m2 e2) as [b|]; [|discriminate].
  destruct (fits _ _); [|discriminate]. intros H. injection H as <- <-. split; [reflexivity|]. exists a, b. auto.
Qed.

Lemma binop_no_overflow sub w s m1 e1 m2 e2 :
  0 <= w -> w <> duckdb_int64_width -> w <> duckdb_max_width -> binop_case sub (CfgOk w s) m1 e1 m2 e2 <> OOverflow.
Proof.
  intros Hw H18 H38. unfold binop_case.
  destruct (load w s m1 e1) as [a|] eqn:L1; [|discriminate].
  destruct (load w s m2 e2) as [b|] eqn:L2; [|discriminate].
  apply load_some in L1, L2. destruct L1 as (_ & A), L2 as (_ & B).
  destruct (sum_fits_next_width w a b ltac:(lia) A B) as (S1 & S2).
  assert (R : result_width w = w + 1).
  { unfold result_width. rewrite (proj2 (Z.eqb_neq _ _) H18), (proj2 (Z.eqb_neq _ _) H38). reflexivity. }
  unfold fits. rewrite R. destruct sub; unfold dec_add, dec_sub.
  - rewrite (proj2 (Z.ltb_lt _ _) S2). discriminate.
  - rewrite (proj2 (Z.ltb_lt _ _) S1). discriminate.
Qed.

(* ------------------------------------------------------------------ lifting the table sweep *)
Lemma oz_eqb_eq a b : oz_eqb a b = true <-> a = b.
Proof.
  destruct a, b; simpl; try (split; discriminate); try tauto.
  rewrite Z.eqb_eq. split; [intros ->; reflexivity | intros H; injection H; auto].
Qed.

Lemma or4_eqb_eq a b : or4_eqb a b = true <-> a = b.
Proof.
  destruct a as [[[[a1 a2] a3] a4]|], b as [[[[b1 b2] b3] b4]|]; simpl; try (split; discriminate); try tauto.
  rewrite !andb_true_iff, !Z.eqb_eq. split; [intros [[[-> ->] ->] ->]; reflexivity | intros H; injection H; auto].
Qed.

Definition sweep_cfg (priors : list globals) (axis : list (option Z)) (P : globals -> option Z -> option Z -> bool) : bool :=
  forallb (fun g => forallb (fun ew => forallb (fun es => P g ew es) axis) axis) priors.

Lemma sweep_cfg_sound priors axis P : sweep_cfg priors axis P = true ->
  forall g ew es, In g priors -> In ew axis -> In es axis -> P g ew es = true.
Proof.
  unfold sweep_cfg. intros H g ew es Hg Hw Hs.
  rewrite forallb_forall in H. specialize (H g Hg).
  rewrite forallb_forall in H. specialize (H ew Hw).
  rewrite forallb_forall in H. exact (H es Hs).
Qed.

(* ------------------------------------------------------------------ literals *)
Lemma binop_case_lit_plain ld sub o m1 e1 m2 e2 :
  (forall w s m e, ld w s (Plain m e) = load w s m e) ->
  binop_case_lit ld sub o (Plain m1 e1) (Plain m2 e2) = binop_case sub o m1 e1 m2 e2.
Proof.
  intros H. unfold binop_case_lit, binop_case, binop_vals. destruct o; try reflexivity.
  rewrite !H. reflexivity.
Qed.

Lemma sci_impl_eq_spec_when_digits_remain s M y :
  0 <= s -> - (y + s) <= ndigits M -> to_scale_sci_impl s M y = to_scale_pow s M y.
Proof.
  intros Hs Hk. unfold to_scale_sci_impl, to_scale_pow, to_scale.
  destruct (- (y + s) <=? 0) eqn:K0.
  - apply Z.leb_le in K0. destruct (y <=? 0) eqn:X0.
    + apply Z.leb_le in X0. rewrite (proj2 (Z.leb_le (- y) s)) by lia. f_equal. f_equal. lia.
    + apply Z.leb_gt in X0. rewrite (proj2 (Z.leb_le 0 s)) by lia.
      rewrite <- Z.mul_assoc, <- Z.pow_add_r by lia. f_equal. f_equal. lia.
  - apply Z.leb_gt in K0. rewrite (proj2 (Z.leb_le _ _) Hk).
    assert (y <= 0) by lia. rewrite (proj2 (Z.leb_le y 0)) by lia.
    rewrite (proj2 (Z.leb_gt (- y) s)) by lia. f_equal. f_equal. lia.
Qed.

Lemma load_lit_impl_eq_spec w s M d x :
  0 <= s -> - (x - d + s) <= ndigits M -> ndigits M - d <= w - s ->
  load_lit_impl w s (Sci M d x) = load_lit_spec w s (Sci M d x).
Proof.
  intros Hs Hk Hm. unfold load_lit_impl, load_sci_text, load_lit_spec.
  rewrite (proj2 (Z.ltb_ge _ _) Hm). rewrite sci_impl_eq_spec_when_digits_remain by assumption. reflexivity.
Qed.
