(* Proofs/CalendarP.v — lemmas about Base/Calendar.v, for ALL integers (years / day numbers in Z).
   Method: facts that are linear once the divisions are named go through `lia` with the euclidean-division hook; facts about
   one 400-year era (146 097 days, a multiple of 7) are proved by a vm_compute sweep of that era and LIFTED to all of Z by
   the periodicity lemmas below (the lifts are lemmas: era_lift_days, era_lift_years). *)
From Coq Require Import ZArith Lia ZifyBool Bool List.
Import ListNotations.
From VTL Require Import Base.Calendar.
Open Scope Z_scope.
Ltac Zify.zify_post_hook ::= Z.to_euclidean_division_equations.

(* ------------------------------------------------------------------ ranges *)
Lemma all_fuel_sound P : forall fuel lo, all_fuel fuel lo P = true ->
  forall z, lo <= z < lo + Z.of_nat fuel -> P z = true.
Proof.
  induction fuel as [|f IH]; intros lo H z Hz.
  - simpl in Hz. lia.
  - simpl in H. destruct (P lo) eqn:E; [|discriminate].
    destruct (Z.eq_dec z lo) as [->|Hne]; [exact E|].
    apply (IH (lo + 1) H). lia.
Qed.

Lemma all_range_sound P lo n : all_range lo n P = true -> forall z, lo <= z < lo + n -> P z = true.
Proof.
  unfold all_range. intros H z Hz. apply (all_fuel_sound P _ _ H). lia.
Qed.

Lemma zrange_fuel_In : forall fuel lo z, In z (zrange_fuel fuel lo) <-> lo <= z < lo + Z.of_nat fuel.
Proof.
  induction fuel as [|f IH]; intros lo z.
  - simpl. lia.
  - cbn [zrange_fuel In]. rewrite IH. lia.
Qed.

Lemma zrange_In lo n z : 0 <= n -> (In z (zrange lo n) <-> lo <= z < lo + n).
Proof. intros Hn. unfold zrange. rewrite zrange_fuel_In. lia. Qed.

(* ------------------------------------------------------------------ leap years *)
Lemma is_leap_periodic y k : is_leap (y + 400 * k) = is_leap y.
Proof.
  unfold is_leap.
  replace ((y + 400 * k) mod 4) with (y mod 4) by lia.
  replace ((y + 400 * k) mod 100) with (y mod 100) by lia.
  replace ((y + 400 * k) mod 400) with (y mod 400) by lia.
  reflexivity.
Qed.

Lemma days_in_year_cases y : days_in_year y = 365 \/ days_in_year y = 366.
Proof. unfold days_in_year. destruct (is_leap y); auto. Qed.

Lemma days_in_year_366_iff_leap y : days_in_year y = 366 <-> is_leap y = true.
Proof. unfold days_in_year. destruct (is_leap y); split; intros; try reflexivity; try discriminate; lia. Qed.

Lemma days_in_month_periodic y k m : days_in_month (y + 400 * k) m = days_in_month y m.
Proof. unfold days_in_month. rewrite is_leap_periodic. reflexivity. Qed.

Lemma days_in_month_bounds y m : 28 <= days_in_month y m <= 31.
Proof.
  unfold days_in_month.
  destruct (m =? 2); [destruct (is_leap y); lia|].
  destruct ((m =? 4) || (m =? 6) || (m =? 9) || (m =? 11)); lia.
Qed.

(* ------------------------------------------------------------------ 400-year periodicity *)
Lemma days_from_civil_periodic y m d k :
  days_from_civil (y + 400 * k) m d = days_from_civil y m d + 146097 * k.
Proof.
  unfold days_from_civil.
  destruct (m <=? 2).
  - replace ((y + 400 * k - 1) / 400) with ((y - 1) / 400 + k) by lia. lia.
  - replace ((y + 400 * k) / 400) with (y / 400 + k) by lia. lia.
Qed.

Lemma civil_from_days_periodic z k :
  civil_from_days (z + 146097 * k) =
  let '(y, m, d) := civil_from_days z in (y + 400 * k, m, d).
Proof.
  unfold civil_from_days.
  replace ((z + 146097 * k + 719468) / 146097) with ((z + 719468) / 146097 + k) by lia.
  replace (z + 146097 * k + 719468 - ((z + 719468) / 146097 + k) * 146097)
    with (z + 719468 - (z + 719468) / 146097 * 146097) by lia.
  set (doe := z + 719468 - (z + 719468) / 146097 * 146097).
  set (yoe := (doe - doe / 1460 + doe / 36524 - doe / 146096) / 365).
  cbv zeta.
  destruct ((if (5 * (doe - (365 * yoe + yoe / 4 - yoe / 100)) + 2) / 153 <? 10
             then (5 * (doe - (365 * yoe + yoe / 4 - yoe / 100)) + 2) / 153 + 3
             else (5 * (doe - (365 * yoe + yoe / 4 - yoe / 100)) + 2) / 153 - 9) <=? 2);
    f_equal; f_equal; lia.
Qed.

Lemma year_of_periodic z k : year_of (z + 146097 * k) = year_of z + 400 * k.
Proof. unfold year_of. rewrite civil_from_days_periodic. destruct (civil_from_days z) as [[y m] d]. reflexivity. Qed.
Lemma month_of_periodic z k : month_of (z + 146097 * k) = month_of z.
Proof. unfold month_of. rewrite civil_from_days_periodic. destruct (civil_from_days z) as [[y m] d]. reflexivity. Qed.
Lemma day_of_periodic z k : day_of (z + 146097 * k) = day_of z.
Proof. unfold day_of. rewrite civil_from_days_periodic. destruct (civil_from_days z) as [[y m] d]. reflexivity. Qed.

Lemma jan1_periodic y k : jan1 (y + 400 * k) = jan1 y + 146097 * k.
Proof. apply days_from_civil_periodic. Qed.

Lemma mod7_periodic z k : (z + 146097 * k) mod 7 = z mod 7.
Proof. lia. Qed.

Lemma monday_of_periodic z k : monday_of (z + 146097 * k) = monday_of z + 146097 * k.
Proof. unfold monday_of. replace (z + 146097 * k + 3) with (z + 3 + 146097 * k) by lia. rewrite mod7_periodic. lia. Qed.

Lemma iso_dow_periodic z k : iso_dow (z + 146097 * k) = iso_dow z.
Proof. unfold iso_dow. replace (z + 146097 * k + 3) with (z + 3 + 146097 * k) by lia. rewrite mod7_periodic. reflexivity. Qed.

Lemma thursday_of_periodic z k : thursday_of (z + 146097 * k) = thursday_of z + 146097 * k.
Proof. unfold thursday_of. rewrite monday_of_periodic. lia. Qed.

Lemma week1_monday_periodic y k : week1_monday (y + 400 * k) = week1_monday y + 146097 * k.
Proof. unfold week1_monday. rewrite days_from_civil_periodic, monday_of_periodic. reflexivity. Qed.

Lemma iso_year_of_periodic z k : iso_year_of (z + 146097 * k) = iso_year_of z + 400 * k.
Proof. unfold iso_year_of. rewrite thursday_of_periodic, year_of_periodic. reflexivity. Qed.

Lemma iso_week_of_periodic z k : iso_week_of (z + 146097 * k) = iso_week_of z.
Proof.
  unfold iso_week_of. rewrite thursday_of_periodic, iso_year_of_periodic, jan1_periodic.
  f_equal. f_equal. lia.
Qed.

Lemma weeks_in_year_periodic y k : weeks_in_year (y + 400 * k) = weeks_in_year y.
Proof. unfold weeks_in_year. rewrite days_from_civil_periodic, iso_week_of_periodic. reflexivity. Qed.

Lemma doy_of_periodic z k : doy_of (z + 146097 * k) = doy_of z.
Proof. unfold doy_of. rewrite year_of_periodic, jan1_periodic. lia. Qed.

(* ------------------------------------------------------------------ the lifts: one era decides all of Z *)
(* a predicate on day numbers that is invariant under shifting by whole eras holds everywhere if it holds on one era *)
Lemma era_lift_days (P : Z -> bool) :
  (forall z k, P (z + 146097 * k) = P z) ->
  all_range (-719468) 146097 P = true ->
  forall z, P z = true.
Proof.
  intros Hper Hsweep z.
  set (k := (z + 719468) / 146097).
  set (r := z - 146097 * k).
  assert (Hr : -719468 <= r < -719468 + 146097) by (unfold r, k; lia).
  replace z with (r + 146097 * k) by (unfold r; lia).
  rewrite Hper. exact (all_range_sound P _ _ Hsweep r Hr).
Qed.

(* a predicate on years invariant under +400 holds for every year if it holds for 400 consecutive years *)
Lemma era_lift_years (P : Z -> bool) :
  (forall y k, P (y + 400 * k) = P y) ->
  all_range 2000 400 P = true ->
  forall y, P y = true.
Proof.
  intros Hper Hsweep y.
  set (k := (y - 2000) / 400).
  set (r := y - 400 * k).
  assert (Hr : 2000 <= r < 2000 + 400) by (unfold r, k; lia).
  replace y with (r + 400 * k) by (unfold r; lia).
  rewrite Hper. exact (all_range_sound P _ _ Hsweep r Hr).
Qed.

(* ------------------------------------------------------------------ round trips *)
Definition rt_days (z : Z) : bool :=
  let '(y, m, d) := civil_from_days z in valid_date y m d && (days_from_civil y m d =? z).

Lemma rt_days_periodic z k : rt_days (z + 146097 * k) = rt_days z.
Proof.
  unfold rt_days. rewrite civil_from_days_periodic. destruct (civil_from_days z) as [[y m] d].
  unfold valid_date. rewrite days_in_month_periodic, days_from_civil_periodic.
  f_equal. apply Bool.eq_true_iff_eq. rewrite !Z.eqb_eq. lia.
Qed.

Lemma rt_days_all : forall z, rt_days z = true.
Proof. apply era_lift_days; [exact rt_days_periodic | vm_compute; reflexivity]. Qed.

(* days -> civil -> days, for every integer day number; and the civil date produced is a valid date *)
Theorem civil_from_days_valid z : let '(y, m, d) := civil_from_days z in valid_date y m d = true.
Proof.
  pose proof (rt_days_all z) as H. unfold rt_days in H. destruct (civil_from_days z) as [[y m] d].
  apply andb_true_iff in H. tauto.
Qed.

Theorem days_civil_roundtrip z : let '(y, m, d) := civil_from_days z in days_from_civil y m d = z.
Proof.
  pose proof (rt_days_all z) as H. unfold rt_days in H. destruct (civil_from_days z) as [[y m] d].
  apply andb_true_iff in H. destruct H as [_ H]. apply Z.eqb_eq in H. exact H.
Qed.

(* closed form of 1 January (all years) *)
Lemma jan1_closed y : jan1 y = 365 * (y - 1) + (y - 1) / 4 - (y - 1) / 100 + (y - 1) / 400 - 719162.
Proof.
  unfold jan1, days_from_civil.
  change (1 <=? 2) with true. cbv iota. cbv zeta.
  change ((1 + 9) mod 12) with 10. change ((153 * 10 + 2) / 5) with 306.
  set (Y := y - 1).
  assert (H4 : Y / 4 = 100 * (Y / 400) + (Y - Y / 400 * 400) / 4) by lia.
  assert (H100 : Y / 100 = 4 * (Y / 400) + (Y - Y / 400 * 400) / 100) by lia.
  lia.
Qed.

Lemma jan1_succ y : jan1 (y + 1) = jan1 y + days_in_year y.
Proof.
  rewrite !jan1_closed. unfold days_in_year, is_leap.
  replace (y + 1 - 1) with y by lia.
  destruct ((y mod 4 =? 0) && negb (y mod 100 =? 0) || (y mod 400 =? 0)) eqn:E; lia.
Qed.

Lemma jan1_lt y1 y2 : y1 < y2 -> jan1 y1 + 365 * (y2 - y1) <= jan1 y2.
Proof. intros H. rewrite !jan1_closed. lia. Qed.

Lemma jan1_mono y1 y2 : y1 < y2 -> jan1 y1 < jan1 y2.
Proof. intros H. pose proof (jan1_lt y1 y2 H). lia. Qed.

(* offset of the first day of month m inside its year (m in 1..12) *)
Definition month_offset (lp : bool) (m : Z) : Z :=
  nth (Z.to_nat (m - 1)) [0; 31; 59; 90; 120; 151; 181; 212; 243; 273; 304; 334] 0
  + (if lp && (3 <=? m) then 1 else 0).

Lemma dfc_closed_hi y m d : 3 <= m <= 12 ->
  days_from_civil y m d = 365 * y + y / 4 - y / 100 + y / 400 + (153 * (m - 3) + 2) / 5 + d - 1 - 719468.
Proof.
  intros Hm. unfold days_from_civil.
  replace (m <=? 2) with false by lia. cbv zeta.
  replace ((m + 9) mod 12) with (m - 3) by lia.
  assert (H4 : y / 4 = 100 * (y / 400) + (y - y / 400 * 400) / 4) by lia.
  assert (H100 : y / 100 = 4 * (y / 400) + (y - y / 400 * 400) / 100) by lia.
  lia.
Qed.
Lemma dfc_closed_lo y m d : 1 <= m <= 2 ->
  days_from_civil y m d = 365 * (y-1) + (y-1) / 4 - (y-1) / 100 + (y-1) / 400 + (153 * (m + 9) + 2) / 5 + d - 1 - 719468.
Proof.
  intros Hm. unfold days_from_civil.
  replace (m <=? 2) with true by lia. cbv zeta.
  replace ((m + 9) mod 12) with (m + 9) by lia.
  set (Y := y - 1).
  assert (H4 : Y / 4 = 100 * (Y / 400) + (Y - Y / 400 * 400) / 4) by lia.
  assert (H100 : Y / 100 = 4 * (Y / 400) + (Y - Y / 400 * 400) / 100) by lia.
  lia.
Qed.
Lemma leap_step y : y / 4 - y / 100 + y / 400 = (y - 1) / 4 - (y - 1) / 100 + (y - 1) / 400 + (if is_leap y then 1 else 0).
Proof.
  unfold is_leap. destruct ((y mod 4 =? 0) && negb (y mod 100 =? 0) || (y mod 400 =? 0)) eqn:E; lia.
Qed.
Ltac eval_month_offset :=
  repeat match goal with |- context [month_offset ?b ?k] =>
    let v := eval vm_compute in (month_offset b k) in change (month_offset b k) with v end.
Lemma days_from_civil_month y m d : 1 <= m <= 12 ->
  days_from_civil y m d = jan1 y + month_offset (is_leap y) m + d - 1.
Proof.
  intros Hm. unfold jan1. rewrite (dfc_closed_lo y 1 1) by lia.
  destruct (Z_le_gt_dec m 2) as [Hlo | Hhi].
  - rewrite dfc_closed_lo by lia. assert (Hc : m = 1 \/ m = 2) by lia.
    destruct (is_leap y); destruct Hc as [-> | ->]; eval_month_offset; lia.
  - rewrite dfc_closed_hi by lia. pose proof (leap_step y) as L.
    assert (Hc : m = 3 \/ m = 4 \/ m = 5 \/ m = 6 \/ m = 7 \/ m = 8 \/ m = 9 \/ m = 10 \/ m = 11 \/ m = 12) by lia.
    destruct (is_leap y); repeat (destruct Hc as [-> | Hc]; [eval_month_offset; lia|]); subst m; eval_month_offset; lia.
Qed.

Lemma month_offset_1 lp : month_offset lp 1 = 0.
Proof. destruct lp; reflexivity. Qed.
Lemma month_offset_12 lp : month_offset lp 12 = if lp then 335 else 334.
Proof. destruct lp; reflexivity. Qed.

Lemma month_offset_next lp y m : lp = is_leap y -> 1 <= m <= 11 ->
  month_offset lp (m + 1) = month_offset lp m + days_in_month y m.
Proof.
  intros -> Hm.
  assert (Hc : m = 1 \/ m = 2 \/ m = 3 \/ m = 4 \/ m = 5 \/ m = 6 \/ m = 7 \/ m = 8 \/ m = 9 \/ m = 10 \/ m = 11) by lia.
  unfold days_in_month.
  destruct (is_leap y); repeat (destruct Hc as [-> | Hc]; [vm_compute; reflexivity|]); subst m; vm_compute; reflexivity.
Qed.

Lemma month_offset_dec lp y : lp = is_leap y -> month_offset lp 12 + days_in_month y 12 = days_in_year y.
Proof. intros ->. unfold days_in_month, days_in_year. destruct (is_leap y); vm_compute; reflexivity. Qed.

Lemma month_offset_bounds lp m d y : lp = is_leap y -> valid_date y m d = true ->
  1 <= month_offset lp m + d <= days_in_year y.
Proof.
  intros -> H. unfold valid_date in H.
  assert (Hm : 1 <= m <= 12 /\ 1 <= d <= days_in_month y m) by lia.
  destruct Hm as [Hm Hd]. clear H.
  assert (Hc : m = 1 \/ m = 2 \/ m = 3 \/ m = 4 \/ m = 5 \/ m = 6 \/ m = 7 \/ m = 8 \/ m = 9 \/ m = 10 \/ m = 11 \/ m = 12) by lia.
  revert Hd. unfold days_in_month, days_in_year.
  destruct (is_leap y);
    repeat (destruct Hc as [-> | Hc]; [eval_month_offset; cbn [Z.eqb Pos.eqb orb]; lia|]);
    subst m; eval_month_offset; cbn [Z.eqb Pos.eqb orb]; lia.
Qed.

(* a valid date lies inside its year *)
Lemma valid_date_in_year y m d : valid_date y m d = true ->
  jan1 y <= days_from_civil y m d < jan1 (y + 1).
Proof.
  intros H. pose proof (month_offset_bounds _ m d y eq_refl H) as B.
  assert (Hm : 1 <= m <= 12) by (unfold valid_date in H; lia).
  rewrite (days_from_civil_month y m d Hm), jan1_succ. lia.
Qed.

Lemma year_of_bounds z : jan1 (year_of z) <= z < jan1 (year_of z + 1).
Proof.
  pose proof (civil_from_days_valid z) as V. pose proof (days_civil_roundtrip z) as R.
  unfold year_of. destruct (civil_from_days z) as [[y m] d].
  pose proof (valid_date_in_year y m d V). lia.
Qed.

Lemma year_of_unique y z : jan1 y <= z < jan1 (y + 1) -> year_of z = y.
Proof.
  intros H. pose proof (year_of_bounds z) as B.
  destruct (Z.lt_trichotomy (year_of z) y) as [L | [E | G]]; [|exact E|].
  - assert (jan1 (year_of z + 1) <= jan1 y).
    { destruct (Z.eq_dec (year_of z + 1) y) as [->|]; [lia|]. apply Z.lt_le_incl, jan1_mono. lia. }
    lia.
  - assert (jan1 (y + 1) <= jan1 (year_of z)).
    { destruct (Z.eq_dec (y + 1) (year_of z)) as [->|]; [lia|]. apply Z.lt_le_incl, jan1_mono. lia. }
    lia.
Qed.

(* civil -> days -> civil, for every valid civil date of every year *)
Definition rt_civil_year (y : Z) : bool :=
  all_range 1 12 (fun m => all_range 1 (days_in_month y m) (fun d =>
    let '(y2, m2, d2) := civil_from_days (days_from_civil y m d) in (y2 =? y) && (m2 =? m) && (d2 =? d))).

Lemma all_fuel_ext P Q : (forall z, P z = Q z) -> forall fuel lo, all_fuel fuel lo P = all_fuel fuel lo Q.
Proof.
  intros E. induction fuel as [|f IH]; intros lo; [reflexivity|].
  simpl. rewrite E, IH. reflexivity.
Qed.

Lemma all_range_ext P Q lo n : (forall z, P z = Q z) -> all_range lo n P = all_range lo n Q.
Proof. intros E. unfold all_range. apply all_fuel_ext, E. Qed.

Lemma rt_civil_year_periodic y k : rt_civil_year (y + 400 * k) = rt_civil_year y.
Proof.
  unfold rt_civil_year. apply all_range_ext. intros m.
  rewrite days_in_month_periodic. apply all_range_ext. intros d.
  rewrite days_from_civil_periodic, civil_from_days_periodic.
  destruct (civil_from_days (days_from_civil y m d)) as [[y2 m2] d2].
  f_equal. f_equal. apply Bool.eq_true_iff_eq. rewrite !Z.eqb_eq. lia.
Qed.

Lemma rt_civil_year_all : forall y, rt_civil_year y = true.
Proof. apply era_lift_years; [exact rt_civil_year_periodic | vm_compute; reflexivity]. Qed.

Theorem civil_days_roundtrip y m d : valid_date y m d = true ->
  civil_from_days (days_from_civil y m d) = (y, m, d).
Proof.
  intros V. unfold valid_date in V.
  assert (Hm : 1 <= m < 1 + 12) by lia.
  assert (Hd : 1 <= d < 1 + days_in_month y m) by lia.
  pose proof (rt_civil_year_all y) as H. unfold rt_civil_year in H.
  pose proof (all_range_sound _ _ _ H m Hm) as H1. cbv beta in H1.
  pose proof (all_range_sound _ _ _ H1 d Hd) as H2. cbv beta in H2.
  destruct (civil_from_days (days_from_civil y m d)) as [[y2 m2] d2].
  apply andb_true_iff in H2. destruct H2 as [H2 H3]. apply andb_true_iff in H2. destruct H2 as [H2 H4].
  apply Z.eqb_eq in H2, H3, H4. subst. reflexivity.
Qed.

Lemma year_of_civil y m d : valid_date y m d = true -> year_of (days_from_civil y m d) = y.
Proof. intros V. unfold year_of. rewrite (civil_days_roundtrip _ _ _ V). reflexivity. Qed.
Lemma month_of_civil y m d : valid_date y m d = true -> month_of (days_from_civil y m d) = m.
Proof. intros V. unfold month_of. rewrite (civil_days_roundtrip _ _ _ V). reflexivity. Qed.
Lemma day_of_civil y m d : valid_date y m d = true -> day_of (days_from_civil y m d) = d.
Proof. intros V. unfold day_of. rewrite (civil_days_roundtrip _ _ _ V). reflexivity. Qed.

(* days_from_civil is strictly monotone in the day number along consecutive valid dates: injectivity on valid dates *)
Lemma days_from_civil_inj y1 m1 d1 y2 m2 d2 :
  valid_date y1 m1 d1 = true -> valid_date y2 m2 d2 = true ->
  days_from_civil y1 m1 d1 = days_from_civil y2 m2 d2 -> (y1, m1, d1) = (y2, m2, d2).
Proof.
  intros V1 V2 E. rewrite <- (civil_days_roundtrip _ _ _ V1), <- (civil_days_roundtrip _ _ _ V2), E. reflexivity.
Qed.

(* ------------------------------------------------------------------ day of year *)
Lemma doy_of_bounds z : 1 <= doy_of z <= days_in_year (year_of z).
Proof. unfold doy_of. pose proof (year_of_bounds z). rewrite jan1_succ in H. lia. Qed.

Lemma year_of_date_of_doy y n : 1 <= n <= days_in_year y -> year_of (date_of_doy y n) = y.
Proof. intros H. apply year_of_unique. rewrite jan1_succ. unfold date_of_doy. lia. Qed.

Lemma doy_of_date_of_doy y n : 1 <= n <= days_in_year y -> doy_of (date_of_doy y n) = n.
Proof. intros H. unfold doy_of. rewrite (year_of_date_of_doy y n H). unfold date_of_doy. lia. Qed.

Lemma date_of_doy_doy_of z : date_of_doy (year_of z) (doy_of z) = z.
Proof. unfold date_of_doy, doy_of. lia. Qed.

Lemma doy_of_civil y m d : valid_date y m d = true ->
  doy_of (days_from_civil y m d) = month_offset (is_leap y) m + d.
Proof.
  intros V. unfold doy_of. rewrite (year_of_civil _ _ _ V).
  assert (Hm : 1 <= m <= 12) by (unfold valid_date in V; lia).
  rewrite (days_from_civil_month y m d Hm). lia.
Qed.

(* ------------------------------------------------------------------ ISO weeks *)
Lemma iso_dow_range z : 1 <= iso_dow z <= 7.
Proof. unfold iso_dow. lia. Qed.

Lemma monday_of_spec z : monday_of z <= z < monday_of z + 7 /\ (monday_of z + 3) mod 7 = 0.
Proof. unfold monday_of. lia. Qed.

Lemma monday_of_unique z w : w <= z < w + 7 -> (w + 3) mod 7 = 0 -> monday_of z = w.
Proof. unfold monday_of. lia. Qed.

Lemma iso_dow_monday_of z : iso_dow (monday_of z) = 1.
Proof. unfold iso_dow, monday_of. lia. Qed.

Lemma iso_dow_offset z : z = monday_of z + (iso_dow z - 1).
Proof. unfold iso_dow, monday_of. lia. Qed.

(* week 1 starts on a Monday, between 29 Dec of the previous year and 4 Jan *)
Lemma week1_monday_bounds y : jan1 y - 3 <= week1_monday y <= jan1 y + 3 /\ (week1_monday y + 3) mod 7 = 0.
Proof.
  unfold week1_monday. rewrite (days_from_civil_month y 1 4) by lia.
  rewrite month_offset_1. unfold monday_of. lia.
Qed.

Lemma week1_monday_mono y1 y2 : y1 < y2 -> week1_monday y1 < week1_monday y2.
Proof.
  intros H. pose proof (week1_monday_bounds y1). pose proof (week1_monday_bounds y2).
  pose proof (jan1_lt y1 y2 H). lia.
Qed.

(* the ISO year of a day: the Monday of its week lies in [week1_monday iy, week1_monday (iy+1)) *)
Lemma iso_year_bounds z :
  week1_monday (iso_year_of z) <= monday_of z < week1_monday (iso_year_of z + 1).
Proof.
  unfold iso_year_of, thursday_of.
  pose proof (year_of_bounds (monday_of z + 3)) as B.
  set (y := year_of (monday_of z + 3)) in *.
  pose proof (week1_monday_bounds y) as W1. pose proof (week1_monday_bounds (y + 1)) as W2.
  pose proof (monday_of_spec z) as M.
  lia.
Qed.

Lemma iso_year_unique y z :
  week1_monday y <= monday_of z < week1_monday (y + 1) -> iso_year_of z = y.
Proof.
  intros H. pose proof (iso_year_bounds z) as B.
  destruct (Z.lt_trichotomy (iso_year_of z) y) as [L | [E | G]]; [|exact E|].
  - assert (week1_monday (iso_year_of z + 1) <= week1_monday y).
    { destruct (Z.eq_dec (iso_year_of z + 1) y) as [->|]; [lia|]. apply Z.lt_le_incl, week1_monday_mono. lia. }
    lia.
  - assert (week1_monday (y + 1) <= week1_monday (iso_year_of z)).
    { destruct (Z.eq_dec (y + 1) (iso_year_of z)) as [->|]; [lia|]. apply Z.lt_le_incl, week1_monday_mono. lia. }
    lia.
Qed.

(* the ISO week number counts whole weeks from the Monday of week 1 *)
Lemma iso_week_of_spec z : iso_week_of z = (monday_of z - week1_monday (iso_year_of z)) / 7 + 1.
Proof.
  pose proof (iso_year_bounds z) as B. unfold iso_week_of, thursday_of.
  pose proof (week1_monday_bounds (iso_year_of z)) as W1.
  pose proof (monday_of_spec z) as M.
  set (w1 := week1_monday (iso_year_of z)) in *. set (j := jan1 (iso_year_of z)) in *. set (mo := monday_of z) in *.
  lia.
Qed.

Lemma iso_week_start_of z : iso_week_start (iso_year_of z) (iso_week_of z) = monday_of z.
Proof.
  unfold iso_week_start. rewrite iso_week_of_spec.
  pose proof (iso_year_bounds z) as B. pose proof (week1_monday_bounds (iso_year_of z)) as W1.
  pose proof (monday_of_spec z) as M.
  set (w1 := week1_monday (iso_year_of z)) in *. set (mo := monday_of z) in *.
  lia.
Qed.

(* the number of ISO weeks of a year is the distance between consecutive week-1 Mondays *)
Lemma weeks_in_year_spec y : week1_monday (y + 1) = week1_monday y + 7 * weeks_in_year y.
Proof.
  unfold weeks_in_year.
  set (z := days_from_civil y 12 28).
  assert (Hz : z = jan1 (y + 1) - 4).
  { unfold z. rewrite (days_from_civil_month y 12 28) by lia. rewrite jan1_succ, month_offset_12.
    unfold days_in_year. destruct (is_leap y); lia. }
  assert (Hm : monday_of z + 7 = week1_monday (y + 1)).
  { unfold week1_monday. rewrite (days_from_civil_month (y + 1) 1 4) by lia.
    rewrite month_offset_1, Hz. unfold monday_of. lia. }
  assert (Hy : iso_year_of z = y).
  { apply iso_year_unique. pose proof (week1_monday_bounds y) as W1. pose proof (monday_of_spec z) as M.
    pose proof (jan1_succ y) as J. pose proof (days_in_year_cases y) as C. lia. }
  rewrite iso_week_of_spec, Hy.
  pose proof (week1_monday_bounds y) as W1. pose proof (monday_of_spec z) as M.
  set (w1 := week1_monday y) in *. set (mo := monday_of z) in *.
  lia.
Qed.

Theorem weeks_in_year_52_53 y : weeks_in_year y = 52 \/ weeks_in_year y = 53.
Proof.
  pose proof (weeks_in_year_spec y) as S. pose proof (week1_monday_bounds y) as W1.
  pose proof (week1_monday_bounds (y + 1)) as W2. pose proof (jan1_succ y) as J. pose proof (days_in_year_cases y) as C.
  lia.
Qed.

(* Thursday rule: a year has 53 weeks iff 1 January is a Thursday, or it is a leap year and 1 January is a Wednesday *)
Theorem weeks_in_year_53_iff y :
  weeks_in_year y = 53 <-> (iso_dow (jan1 y) = 4 \/ (is_leap y = true /\ iso_dow (jan1 y) = 3)).
Proof.
  pose proof (weeks_in_year_spec y) as S. pose proof (week1_monday_bounds y) as W1.
  pose proof (week1_monday_bounds (y + 1)) as W2. pose proof (jan1_succ y) as J.
  pose proof (weeks_in_year_52_53 y) as C.
  unfold days_in_year in J. unfold iso_dow.
  destruct (is_leap y); split; intros H; lia.
Qed.

Lemma iso_week_of_range z : 1 <= iso_week_of z <= weeks_in_year (iso_year_of z).
Proof.
  rewrite iso_week_of_spec. pose proof (iso_year_bounds z) as B.
  pose proof (weeks_in_year_spec (iso_year_of z)) as S. lia.
Qed.

Lemma iso_year_week_of_start y w : 1 <= w <= weeks_in_year y ->
  iso_year_of (iso_week_start y w) = y /\ iso_week_of (iso_week_start y w) = w.
Proof.
  intros H. pose proof (weeks_in_year_spec y) as S. pose proof (week1_monday_bounds y) as W1.
  assert (Hm : monday_of (iso_week_start y w) = iso_week_start y w).
  { apply monday_of_unique; unfold iso_week_start; lia. }
  assert (Hy : iso_year_of (iso_week_start y w) = y).
  { apply iso_year_unique. rewrite Hm. unfold iso_week_start. lia. }
  split; [exact Hy|]. rewrite iso_week_of_spec, Hy, Hm. unfold iso_week_start. lia.
Qed.

(* days of one ISO week share the week: any day z with start <= z < start+7 has the same (iso year, week) *)
Lemma iso_week_of_day_in_week y w z : 1 <= w <= weeks_in_year y ->
  iso_week_start y w <= z < iso_week_start y w + 7 -> iso_year_of z = y /\ iso_week_of z = w.
Proof.
  intros H Hz. pose proof (weeks_in_year_spec y) as S. pose proof (week1_monday_bounds y) as W1.
  assert (Hm : monday_of z = iso_week_start y w).
  { apply monday_of_unique; unfold iso_week_start in *; lia. }
  assert (Hy : iso_year_of z = y).
  { apply iso_year_unique. rewrite Hm. unfold iso_week_start. lia. }
  split; [exact Hy|]. rewrite iso_week_of_spec, Hy, Hm. unfold iso_week_start. lia.
Qed.
