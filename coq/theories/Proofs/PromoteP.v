From Coq Require Import List Bool.
Import ListNotations.
From VTL Require Import Model.Types Model.Promote.

Lemma all_ty_complete : forall t, In t all_ty.
Proof. destruct t; simpl; tauto. Qed.

Lemma all_oty_complete : forall t, In t all_oty.
Proof. destruct t as [t|]; [right; apply in_map; apply all_ty_complete | left; reflexivity]. Qed.

Lemma ty_eqb_eq a b : ty_eqb a b = true <-> a = b.
Proof. destruct a, b; simpl; split; intros H; try reflexivity; try discriminate. Qed.

Lemma oty_eqb_eq a b : oty_eqb a b = true <-> a = b.
Proof.
  destruct a as [a|], b as [b|]; simpl; try (split; [discriminate|discriminate]); try tauto.
  rewrite ty_eqb_eq. split; [intros ->; reflexivity | intros H; injection H; auto].
Qed.

Lemma memty_In x l : memty x l = true <-> In x l.
Proof.
  unfold memty. rewrite existsb_exists. split.
  - intros [y [Hy He]]. apply ty_eqb_eq in He. subst. exact Hy.
  - intros H. exists x. split; [exact H | apply ty_eqb_eq; reflexivity].
Qed.

(* lifting an exhaustive boolean sweep of the finite domain to a universally quantified statement *)
Definition sweep4 (P : ty -> ty -> option ty -> option ty -> bool) : bool :=
  forallb (fun l => forallb (fun r => forallb (fun tc => forallb (fun rt => P l r tc rt) all_oty) all_oty) all_ty) all_ty.

Lemma sweep4_sound P : sweep4 P = true -> forall l r tc rt, P l r tc rt = true.
Proof.
  unfold sweep4. intros H l r tc rt.
  rewrite forallb_forall in H. specialize (H l (all_ty_complete l)).
  rewrite forallb_forall in H. specialize (H r (all_ty_complete r)).
  rewrite forallb_forall in H. specialize (H tc (all_oty_complete tc)).
  rewrite forallb_forall in H. exact (H rt (all_oty_complete rt)).
Qed.

Definition sweep3 (P : ty -> option ty -> option ty -> bool) : bool :=
  forallb (fun o => forallb (fun tc => forallb (fun rt => P o tc rt) all_oty) all_oty) all_ty.

Lemma sweep3_sound P : sweep3 P = true -> forall o tc rt, P o tc rt = true.
Proof.
  unfold sweep3. intros H o tc rt.
  rewrite forallb_forall in H. specialize (H o (all_ty_complete o)).
  rewrite forallb_forall in H. specialize (H tc (all_oty_complete tc)).
  rewrite forallb_forall in H. exact (H rt (all_oty_complete rt)).
Qed.

Definition sweep2 (P : ty -> ty -> bool) : bool := forallb (fun l => forallb (fun r => P l r) all_ty) all_ty.
Lemma sweep2_sound P : sweep2 P = true -> forall l r, P l r = true.
Proof.
  unfold sweep2. intros H l r.
  rewrite forallb_forall in H. specialize (H l (all_ty_complete l)).
  rewrite forallb_forall in H. exact (H r (all_ty_complete r)).
Qed.

Definition sweep1 (P : ty -> bool) : bool := forallb P all_ty.
Lemma sweep1_sound P : sweep1 P = true -> forall t, P t = true.
Proof. unfold sweep1. intros H t. rewrite forallb_forall in H. exact (H t (all_ty_complete t)). Qed.

Definition is_some {A} (o : option A) : bool := match o with Some _ => true | None => false end.

(* association-list lookups for the regenerated function tables *)
Definition key4_eqb (a b : ty * ty * option ty * option ty) : bool :=
  let '(a1, a2, a3, a4) := a in let '(b1, b2, b3, b4) := b in
  ty_eqb a1 b1 && ty_eqb a2 b2 && oty_eqb a3 b3 && oty_eqb a4 b4.
Definition key3_eqb (a b : ty * option ty * option ty) : bool :=
  let '(a1, a3, a4) := a in let '(b1, b3, b4) := b in
  ty_eqb a1 b1 && oty_eqb a3 b3 && oty_eqb a4 b4.

Fixpoint assoc {K V} (eqb : K -> K -> bool) (k : K) (l : list (K * V)) : option V :=
  match l with
  | [] => None
  | (k', v) :: t => if eqb k k' then Some v else assoc eqb k t
  end.

Definition ooty_eqb (a b : option (option ty)) : bool :=
  match a, b with
  | Some x, Some y => oty_eqb x y
  | None, None => true
  | _, _ => false
  end.
Definition obool_eqb (a b : option bool) : bool :=
  match a, b with
  | Some x, Some y => Bool.eqb x y
  | None, None => true
  | _, _ => false
  end.

Lemma ooty_eqb_eq a b : ooty_eqb a b = true -> a = b.
Proof. destruct a, b; simpl; try discriminate; try reflexivity. intros H. apply oty_eqb_eq in H. congruence. Qed.
Lemma obool_eqb_eq a b : obool_eqb a b = true -> a = b.
Proof. destruct a, b; simpl; try discriminate; try reflexivity. intros H. apply Bool.eqb_prop in H. congruence. Qed.
