(* A small reflective decision procedure for propositional goals whose atoms are decidable: the goal is reified into a formula,
   the formula's truth table is evaluated by computation, and soundness is proved once (no axioms; `tauto` on the same goals
   takes minutes).  Used by Proofs/SchedP.v:  ptaut_solve [A0; A1; ...] with hypotheses  Ai \/ ~ Ai  in the context. *)
From Coq Require Import List Bool Arith PeanoNat.
Import ListNotations.

Inductive pform :=
| PA (i : nat) | PFalse | PTrue
| PAnd (f g : pform) | POr (f g : pform) | PNot (f : pform) | PImp (f g : pform) | PIff (f g : pform).

Fixpoint pden (env : nat -> Prop) (f : pform) : Prop :=
  match f with
  | PA i => env i | PFalse => False | PTrue => True
  | PAnd a b => pden env a /\ pden env b
  | POr a b => pden env a \/ pden env b
  | PNot a => ~ pden env a
  | PImp a b => pden env a -> pden env b
  | PIff a b => pden env a <-> pden env b
  end.

Fixpoint pev (env : nat -> bool) (f : pform) : bool :=
  match f with
  | PA i => env i | PFalse => false | PTrue => true
  | PAnd a b => pev env a && pev env b
  | POr a b => pev env a || pev env b
  | PNot a => negb (pev env a)
  | PImp a b => implb (pev env a) (pev env b)
  | PIff a b => Bool.eqb (pev env a) (pev env b)
  end.

Lemma pden_pev : forall (envP : nat -> Prop) (envB : nat -> bool),
  (forall i, envP i <-> envB i = true) -> forall f, pden envP f <-> pev envB f = true.
Proof.
  intros envP envB H. induction f as [i| | |a IHa b IHb|a IHa b IHb|a IHa|a IHa b IHb|a IHa b IHb]; cbn [pden pev].
  - apply H.
  - split; [intros [] | discriminate].
  - split; [reflexivity | intros _; exact I].
  - rewrite IHa, IHb, andb_true_iff. reflexivity.
  - rewrite IHa, IHb, orb_true_iff. reflexivity.
  - rewrite IHa. destruct (pev envB a); simpl.
    + split; intro K; [exfalso; apply K; reflexivity | discriminate].
    + split; intro K; [reflexivity | discriminate].
  - rewrite IHa, IHb. destruct (pev envB a), (pev envB b); simpl.
    + split; intro K; [reflexivity | intros _; reflexivity].
    + split; intro K; [exact (K eq_refl) | discriminate].
    + split; intro K; [reflexivity | discriminate].
    + split; intro K; [reflexivity | discriminate].
  - rewrite IHa, IHb. destruct (pev envB a), (pev envB b); simpl.
    + split; intro K; [reflexivity | split; intros _; reflexivity].
    + split; intro K; [exact (proj1 K eq_refl) | discriminate].
    + split; intro K; [exact (proj2 K eq_refl) | discriminate].
    + split; intro K; [reflexivity | split; discriminate].
Qed.

Fixpoint forall_lists (n : nat) (k : list bool -> bool) : bool :=
  match n with
  | 0 => k []
  | S m => forall_lists m (fun l => k (true :: l)) && forall_lists m (fun l => k (false :: l))
  end.

Lemma forall_lists_sound : forall n k, forall_lists n k = true -> forall l, length l = n -> k l = true.
Proof.
  induction n as [|n IH]; intros k H l Hl.
  - destruct l; [exact H | simpl in Hl; inversion Hl].
  - destruct l as [|b l]; [simpl in Hl; inversion Hl|]. simpl in Hl. injection Hl as Hl.
    cbn [forall_lists] in H. apply andb_true_iff in H. destruct H as [H1 H2].
    destruct b; [exact (IH _ H1 l Hl) | exact (IH _ H2 l Hl)].
Qed.

Lemma nth_equiv : forall (props : list Prop) (bools : list bool),
  Forall2 (fun P b => P <-> b = true) props bools -> forall i, nth i props False <-> nth i bools false = true.
Proof.
  intros props bools H. induction H as [|P b ps bs HPb _ IH]; intros i.
  - destruct i; simpl; (split; [intros [] | discriminate]).
  - destruct i; simpl; [exact HPb | apply IH].
Qed.

Lemma dec_bools : forall props : list Prop, Forall (fun P => P \/ ~ P) props ->
  exists bools, length bools = length props /\ Forall2 (fun P b => P <-> b = true) props bools.
Proof.
  induction props as [|P ps IH]; intros H.
  - exists []. split; [reflexivity | constructor].
  - inversion H as [|? ? HP Hps]; subst. destruct (IH Hps) as [bs [Hl HF]].
    destruct HP as [HP|HP].
    + exists (true :: bs). split; [simpl; congruence|]. constructor; [|exact HF]. split; [reflexivity | intros _; exact HP].
    + exists (false :: bs). split; [simpl; congruence|]. constructor; [|exact HF]. split; [intro K; exfalso; exact (HP K) | discriminate].
Qed.

Theorem ptaut : forall (props : list Prop) f,
  Forall (fun P => P \/ ~ P) props ->
  forall_lists (length props) (fun l => pev (fun i => nth i l false) f) = true ->
  pden (fun i => nth i props False) f.
Proof.
  intros props f Hdec Htab. destruct (dec_bools props Hdec) as [bools [Hl HF]].
  apply (proj2 (pden_pev _ (fun i => nth i bools false) (nth_equiv props bools HF) f)).
  exact (forall_lists_sound _ _ Htab bools Hl).
Qed.

(* ---- reification *)
Ltac ptaut_index P atoms :=
  match atoms with
  | P :: _ => constr:(0)
  | _ :: ?r => let i := ptaut_index P r in constr:(S i)
  end.

Ltac ptaut_reify atoms P :=
  match P with
  | True => constr:(PTrue)
  | False => constr:(PFalse)
  | ?A <-> ?B => let a := ptaut_reify atoms A in let b := ptaut_reify atoms B in constr:(PIff a b)
  | ?A /\ ?B => let a := ptaut_reify atoms A in let b := ptaut_reify atoms B in constr:(PAnd a b)
  | ?A \/ ?B => let a := ptaut_reify atoms A in let b := ptaut_reify atoms B in constr:(POr a b)
  | ~ ?A => let a := ptaut_reify atoms A in constr:(PNot a)
  | ?A -> ?B => let a := ptaut_reify atoms A in let b := ptaut_reify atoms B in constr:(PImp a b)
  | _ => let i := ptaut_index P atoms in constr:(PA i)
  end.

(* goal: a propositional combination of the atoms; context: a decidability hypothesis  A \/ ~ A  for each atom *)
Ltac ptaut_solve atoms :=
  match goal with
  | |- ?G =>
      let f := ptaut_reify atoms G in
      change (pden (fun i => nth i atoms False) f);
      apply ptaut; [repeat (apply Forall_cons; [assumption|]); apply Forall_nil | vm_compute; reflexivity]
  end.

Example ptaut_example : forall A B C : Prop, (A \/ ~ A) -> (B \/ ~ B) -> (C \/ ~ C) ->
  ((A -> B) -> (~ B \/ C) -> (A <-> A /\ C)) /\ (~ (A /\ B) <-> ~ A \/ ~ B).
Proof. intros A B C HA HB HC. ptaut_solve [A; B; C]. Qed.
