(* Small algebraic laws of the clause operators of Model/Expr.v (C02).  Proofs only. *)
From Coq Require Import ZArith String List Bool Permutation.
Import ListNotations.
From VTL Require Import Base.Val Model.Table Model.Scalar Model.Expr Proofs.SetLawsP.

(* keep l and drop l split the non-identifier components of the operand: each one is in exactly one of the two results *)
Lemma keep_drop_partition d l : Permutation (d_ms d) (d_ms (d_keep d l) ++ d_ms (d_drop d l)).
Proof. unfold d_keep, d_drop, d_project. simpl. apply (filter_partition_perm (fun n => mem_s n l)). Qed.

(* identifiers and the number of datapoints are untouched by keep and drop *)
Lemma keep_drop_ids_rows d l :
  d_ids (d_keep d l) = d_ids d /\ d_ids (d_drop d l) = d_ids d /\
  map fst (d_rows (d_keep d l)) = map fst (d_rows d) /\ map fst (d_rows (d_drop d l)) = map fst (d_rows d).
Proof.
  unfold d_keep, d_drop, d_project. simpl. rewrite !map_map. simpl.
  repeat split; reflexivity.
Qed.

Lemma map_ren_nil l : map (ren []) l = l.
Proof. induction l as [|x l IH]; cbn; [reflexivity | f_equal; exact IH]. Qed.

(* an empty rename is the identity *)
Lemma rename_nil d : d_rename d [] = d.
Proof. destruct d. unfold d_rename. simpl. rewrite !map_ren_nil. reflexivity. Qed.
