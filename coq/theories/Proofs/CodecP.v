(* Proofs/CodecP.v — lemmas about Model/Codec.v (C14, C24, C25).  Plain stdlib; inductions over unbounded byte strings,
   rows and tables; vm_compute only for witnesses. *)
From Coq Require Import Decimal DecimalZ String Ascii ZArith NArith Lia Bool List Permutation Sorted.
Import ListNotations.
From VTL Require Import Model.Codec.
Local Open Scope char_scope.

(* ================================================================================================================== *)
(** * CSV round trip *)

Lemma eqb_false_of_neq (a b : ascii) : a <> b -> Ascii.eqb a b = false.
Proof. intro H. destruct (Ascii.eqb_spec a b); congruence. Qed.

(* characters that may appear in an unquoted field *)
Definition plain_char (c : ascii) : bool :=
  negb (Ascii.eqb c c_comma) && negb (Ascii.eqb c c_dq) && negb (Ascii.eqb c c_cr) && negb (Ascii.eqb c c_lf).

Lemma plain_char_inv c : plain_char c = true ->
  Ascii.eqb c c_comma = false /\ Ascii.eqb c c_dq = false /\ Ascii.eqb c c_cr = false /\ Ascii.eqb c c_lf = false.
Proof.
  unfold plain_char. intro H.
  repeat (apply andb_prop in H; destruct H as [H ?]).
  repeat match goal with h : negb _ = true |- _ => apply negb_true_iff in h end. auto.
Qed.

Lemma not_special_duck_plain s : existsb special_duck s = false -> forallb plain_char s = true.
Proof.
  induction s as [|c s IH]; simpl; auto. intro H. apply orb_false_iff in H. destruct H as [Hc Hs].
  rewrite IH by assumption. rewrite andb_true_r.
  unfold special_duck in Hc. repeat (apply orb_false_iff in Hc; destruct Hc as [Hc ?]).
  unfold plain_char. rewrite Hc. repeat match goal with h : Ascii.eqb _ _ = false |- _ => rewrite h; clear h end. reflexivity.
Qed.

Lemma not_special_py_plain s : existsb special_py s = false -> forallb plain_char s = true.
Proof.
  induction s as [|c s IH]; simpl; auto. intro H. apply orb_false_iff in H. destruct H as [Hc Hs].
  rewrite IH by assumption. rewrite andb_true_r.
  unfold special_py in Hc. repeat (apply orb_false_iff in Hc; destruct Hc as [Hc ?]).
  unfold plain_char. rewrite Hc. repeat match goal with h : Ascii.eqb _ _ = false |- _ => rewrite h; clear h end. reflexivity.
Qed.

(* a run of plain characters inside an unquoted field *)
Lemma dec_unq_run : forall s rest fld rw acc, forallb plain_char s = true ->
  dec (s ++ rest) DUnq fld rw acc = dec rest DUnq (rev s ++ fld) rw acc.
Proof.
  induction s as [|c s IH]; intros rest fld rw acc H; simpl in *; auto.
  apply andb_prop in H. destruct H as [Hc Hs]. apply plain_char_inv in Hc. destruct Hc as (H1 & H2 & H3 & H4).
  rewrite H1, H2, H3, H4. rewrite IH by assumption. rewrite <- app_assoc. reflexivity.
Qed.

(* the body of a quoted field *)
Lemma dec_q_run : forall s rest fld rw acc,
  dec (escape s ++ rest) DQ fld rw acc = dec rest DQ (rev s ++ fld) rw acc.
Proof.
  induction s as [|c s IH]; intros rest fld rw acc; simpl; auto.
  destruct (Ascii.eqb_spec c c_dq) as [->|Hne].
  - simpl. rewrite IH. rewrite <- app_assoc. reflexivity.
  - simpl. rewrite (eqb_false_of_neq _ _ Hne). rewrite IH. rewrite <- app_assoc. reflexivity.
Qed.

Lemma dec_quoted_comma s rest rw acc :
  dec (quote s ++ c_comma :: rest) DStart [] rw acc = dec rest DStart [] (Some s :: rw) acc.
Proof.
  unfold quote. simpl. rewrite <- app_assoc. rewrite dec_q_run. simpl. rewrite app_nil_r, rev_involutive. reflexivity.
Qed.
Lemma dec_quoted_lf s rest rw acc :
  dec (quote s ++ c_lf :: rest) DStart [] rw acc = dec rest DStart [] [] (rev (Some s :: rw) :: acc).
Proof.
  unfold quote. simpl. rewrite <- app_assoc. rewrite dec_q_run. simpl. rewrite app_nil_r, rev_involutive. reflexivity.
Qed.
Lemma dec_quoted_crlf s rest rw acc :
  dec (quote s ++ c_cr :: c_lf :: rest) DStart [] rw acc = dec rest DStart [] [] (rev (Some s :: rw) :: acc).
Proof.
  unfold quote. simpl. rewrite <- app_assoc. rewrite dec_q_run. simpl. rewrite app_nil_r, rev_involutive. reflexivity.
Qed.

Lemma dec_plain_comma c s rest rw acc : forallb plain_char (c :: s) = true ->
  dec ((c :: s) ++ c_comma :: rest) DStart [] rw acc = dec rest DStart [] (Some (c :: s) :: rw) acc.
Proof.
  intro H. simpl in H. apply andb_prop in H. destruct H as [Hc Hs].
  apply plain_char_inv in Hc. destruct Hc as (H1 & H2 & H3 & H4).
  simpl. rewrite H1, H2, H3, H4. rewrite dec_unq_run by assumption. simpl.
  rewrite rev_app_distr, rev_involutive. reflexivity.
Qed.
Lemma dec_plain_lf c s rest rw acc : forallb plain_char (c :: s) = true ->
  dec ((c :: s) ++ c_lf :: rest) DStart [] rw acc = dec rest DStart [] [] (rev (Some (c :: s) :: rw) :: acc).
Proof.
  intro H. simpl in H. apply andb_prop in H. destruct H as [Hc Hs].
  apply plain_char_inv in Hc. destruct Hc as (H1 & H2 & H3 & H4).
  simpl. rewrite H1, H2, H3, H4. rewrite dec_unq_run by assumption. simpl.
  rewrite rev_app_distr, rev_involutive. reflexivity.
Qed.
Lemma dec_plain_crlf c s rest rw acc : forallb plain_char (c :: s) = true ->
  dec ((c :: s) ++ c_cr :: c_lf :: rest) DStart [] rw acc = dec rest DStart [] [] (rev (Some (c :: s) :: rw) :: acc).
Proof.
  intro H. simpl in H. apply andb_prop in H. destruct H as [Hc Hs].
  apply plain_char_inv in Hc. destruct Hc as (H1 & H2 & H3 & H4).
  simpl. rewrite H1, H2, H3, H4. rewrite dec_unq_run by assumption. simpl.
  rewrite rev_app_distr, rev_involutive. reflexivity.
Qed.

Lemma dec_cell_comma c rest rw acc :
  dec (enc_cell c ++ c_comma :: rest) DStart [] rw acc = dec rest DStart [] (c :: rw) acc.
Proof.
  destruct c as [s|]; simpl; [|reflexivity].
  destruct (needs_quote_duck s) eqn:Hq.
  - apply dec_quoted_comma.
  - destruct s as [|c s]; [discriminate|]. apply dec_plain_comma. apply not_special_duck_plain. exact Hq.
Qed.
Lemma dec_cell_lf c rest rw acc :
  dec (enc_cell c ++ c_lf :: rest) DStart [] rw acc = dec rest DStart [] [] (rev (c :: rw) :: acc).
Proof.
  destruct c as [s|]; simpl; [|reflexivity].
  destruct (needs_quote_duck s) eqn:Hq.
  - apply dec_quoted_lf.
  - destruct s as [|c s]; [discriminate|]. apply dec_plain_lf. apply not_special_duck_plain. exact Hq.
Qed.

Lemma dec_row : forall (r : row) rest rw acc, r <> [] ->
  dec (enc_row r ++ rest) DStart [] rw acc = dec rest DStart [] [] (rev (rev r ++ rw) :: acc).
Proof.
  unfold enc_row. induction r as [|c r IH]; intros rest rw acc Hne; [congruence|].
  destruct r as [|c' r'].
  - simpl. rewrite <- app_assoc. simpl. apply dec_cell_lf.
  - change (map enc_cell (c :: c' :: r')) with (enc_cell c :: map enc_cell (c' :: r')).
    change (join_cells (enc_cell c :: map enc_cell (c' :: r')))
      with (enc_cell c ++ c_comma :: join_cells (map enc_cell (c' :: r'))).
    rewrite <- !app_assoc. rewrite <- app_comm_cons. rewrite dec_cell_comma.
    rewrite app_assoc. rewrite IH by discriminate.
    simpl. rewrite <- !app_assoc. reflexivity.
Qed.

Lemma dec_table : forall (t : table) rest acc, wf_table t ->
  dec (encode_csv t ++ rest) DStart [] [] acc = dec rest DStart [] [] (rev t ++ acc).
Proof.
  unfold encode_csv. induction t as [|r t IH]; intros rest acc Hwf; simpl; auto.
  inversion Hwf; subst. rewrite <- app_assoc. rewrite dec_row by assumption.
  rewrite IH by assumption. rewrite app_nil_r, rev_involutive. rewrite <- app_assoc. reflexivity.
Qed.

(* MAIN (C14): every table of option-string cells — any number of rows and columns, every byte in the cells, null <> "" —
   is recovered exactly from the bytes DuckDB writes. *)
Theorem csv_roundtrip : forall t : table, wf_table t -> decode_csv (encode_csv t) = Some t.
Proof.
  intros t Hwf. unfold decode_csv. rewrite <- (app_nil_r (encode_csv t)). rewrite dec_table by assumption.
  simpl. rewrite app_nil_r, rev_involutive. reflexivity.
Qed.

(* the writer is injective on well-formed tables: two different results never share a file *)
Corollary encode_csv_injective : forall t1 t2, wf_table t1 -> wf_table t2 -> encode_csv t1 = encode_csv t2 -> t1 = t2.
Proof.
  intros t1 t2 H1 H2 He. apply csv_roundtrip in H1. apply csv_roundtrip in H2. rewrite He in H1. congruence.
Qed.

(* the wf hypothesis is needed: a row without cells is written as an empty line, which reads back as one NULL cell *)
Lemma csv_roundtrip_needs_wf : exists t, decode_csv (encode_csv t) <> Some t.
Proof. exists [[]]. vm_compute. discriminate. Qed.

(* ================================================================================================================== *)
(** * _scalars.csv *)

Lemma dec_field_py_comma s rest rw acc :
  dec (enc_field_py s ++ c_comma :: rest) DStart [] rw acc = dec rest DStart [] (blank_none s :: rw) acc.
Proof.
  unfold enc_field_py. destruct (needs_quote_py s) eqn:Hq.
  - rewrite dec_quoted_comma. destruct s; [discriminate|reflexivity].
  - destruct s as [|c s]; [reflexivity|]. apply dec_plain_comma. apply not_special_py_plain. exact Hq.
Qed.
Lemma dec_field_py_crlf s rest rw acc :
  dec (enc_field_py s ++ c_cr :: c_lf :: rest) DStart [] rw acc = dec rest DStart [] [] (rev (blank_none s :: rw) :: acc).
Proof.
  unfold enc_field_py. destruct (needs_quote_py s) eqn:Hq.
  - rewrite dec_quoted_crlf. destruct s; [discriminate|reflexivity].
  - destruct s as [|c s]; [reflexivity|]. apply dec_plain_crlf. apply not_special_py_plain. exact Hq.
Qed.

Lemma dec_row_py2 a b rest acc :
  dec (enc_row_py [a; b] ++ rest) DStart [] [] acc = dec rest DStart [] [] ([blank_none a; blank_none b] :: acc).
Proof.
  assert (E : enc_row_py [a; b] ++ rest = enc_field_py a ++ c_comma :: enc_field_py b ++ c_cr :: c_lf :: rest).
  { unfold enc_row_py. destruct a; cbn [map join_cells]; rewrite <- !app_assoc; reflexivity. }
  rewrite E. rewrite dec_field_py_comma. rewrite dec_field_py_crlf. reflexivity.
Qed.

Lemma dec_rows_py2 : forall (l : list scalar) rest acc,
  dec (concat (map enc_row_py (map scalar_row l)) ++ rest) DStart [] [] acc
  = dec rest DStart [] []
      (rev (map (fun x : scalar => [blank_none (fst x); blank_none (scalar_value_text (snd x))]) l) ++ acc).
Proof.
  induction l as [|x l IH]; intros rest acc; [reflexivity|].
  cbn [map concat]. unfold scalar_row at 1. rewrite <- app_assoc. rewrite dec_row_py2. rewrite IH.
  cbn [rev]. rewrite <- app_assoc. reflexivity.
Qed.

(* what can be read back from _scalars.csv: header, then one row per scalar in name order, where an empty text reads as NULL *)
Theorem scalars_file_decodes : forall l, decode_csv (scalars_file l) = Some (scalars_table l).
Proof.
  intro l. unfold decode_csv, scalars_file, scalars_table.
  cbn [map concat]. rewrite dec_row_py2.
  rewrite <- (app_nil_r (concat _)). rewrite dec_rows_py2. cbn [dec].
  rewrite rev_app_distr. rewrite rev_involutive. reflexivity.
Qed.

Definition scalar_distinguishable (x : scalar) : Prop := fst x <> [] /\ snd x <> Some [].

Lemma Forall_insert_scalar (P : scalar -> Prop) x l : P x -> Forall P l -> Forall P (insert_scalar x l).
Proof.
  intros Hx Hl. induction l as [|y l IH]; simpl; [constructor; auto|].
  inversion Hl; subst. destruct (bytes_leb (fst x) (fst y)); constructor; auto.
Qed.
Lemma Forall_sort_scalars (P : scalar -> Prop) l : Forall P l -> Forall P (sort_scalars l).
Proof.
  induction l as [|x l IH]; simpl; auto. intro H. inversion H; subst. apply Forall_insert_scalar; auto.
Qed.

(* scalar_file_exact (C14): when no returned scalar is the empty string (and names are not empty), the file holds exactly
   the returned values — names, texts and nulls — in name order. *)
Theorem scalar_file_exact : forall l, Forall scalar_distinguishable l ->
  decode_csv (scalars_file l) = Some (scalars_exact_table l).
Proof.
  intros l H. rewrite scalars_file_decodes. unfold scalars_table, scalars_exact_table. f_equal. f_equal.
  apply Forall_sort_scalars in H. induction H as [|x l' Hx Hl IH]; simpl; auto.
  rewrite IH. f_equal. destruct x as [n v]. destruct Hx as [Hn Hv]. simpl in *.
  destruct n as [|n0 n]; [congruence|]. destruct v as [[|c s]|]; cbn [blank_none scalar_value_text]; [exfalso; apply Hv; reflexivity|reflexivity|reflexivity].
Qed.

(* the full statement is false: a null scalar and an empty-string scalar give the same file *)
Theorem scalar_file_exact_refuted : exists l1 l2 : list scalar,
  l1 <> l2 /\ scalars_file l1 = scalars_file l2 /\ decode_csv (scalars_file l2) <> Some (scalars_exact_table l2).
Proof.
  exists [(B "x", None)], [(B "x", Some [])]. split; [discriminate|]. split; [reflexivity|]. vm_compute. discriminate.
Qed.

(* sort_scalars is a sort: a permutation of its input, ordered by name *)
Lemma insert_scalar_perm x l : Permutation (x :: l) (insert_scalar x l).
Proof.
  induction l as [|y l IH]; simpl; auto. destruct (bytes_leb (fst x) (fst y)); auto.
  eapply perm_trans; [apply perm_swap|]. constructor. exact IH.
Qed.
Theorem sort_scalars_perm l : Permutation l (sort_scalars l).
Proof.
  induction l as [|x l IH]; simpl; auto. eapply perm_trans; [|apply insert_scalar_perm]. constructor. exact IH.
Qed.

Lemma bytes_leb_total a : forall b, bytes_leb a b = false -> bytes_leb b a = true.
Proof.
  induction a as [|x a IH]; intros [|y b]; simpl; try discriminate; auto.
  destruct (N.ltb_spec (N_of_ascii x) (N_of_ascii y)); [discriminate|].
  destruct (N.ltb_spec (N_of_ascii y) (N_of_ascii x)); [reflexivity|]. intro. auto.
Qed.

Definition name_le (x y : scalar) : Prop := bytes_leb (fst x) (fst y) = true.
Lemma insert_scalar_sorted x l : Sorted name_le l -> Sorted name_le (insert_scalar x l).
Proof.
  induction l as [|y l IH]; simpl; intro H.
  - constructor; constructor.
  - destruct (bytes_leb (fst x) (fst y)) eqn:E.
    + constructor; auto.
    + inversion H; subst. constructor; [apply IH; assumption|].
      destruct l as [|z l]; simpl.
      * constructor. apply bytes_leb_total. exact E.
      * destruct (bytes_leb (fst x) (fst z)); constructor.
        -- apply bytes_leb_total. exact E.
        -- inversion H3; subst. assumption.
Qed.
Theorem sort_scalars_sorted l : Sorted name_le (sort_scalars l).
Proof. induction l; simpl; [constructor|]. apply insert_scalar_sorted. assumption. Qed.

(* ================================================================================================================== *)
(** * literals *)

Lemma digit_cons_digits u : digits_uint (uint_digits u) = Some u.
Proof. induction u; simpl; try reflexivity; rewrite IHu; reflexivity. Qed.

Lemma is_digit_uint_digits u : forallb is_digit (uint_digits u) = true.
Proof. induction u; simpl; auto. Qed.

Lemma span_digits_app a b : forallb is_digit a = true ->
  (match b with [] => True | c :: _ => is_digit c = false end) ->
  span_digits (a ++ b) = (a, b).
Proof.
  induction a as [|x a IH]; simpl; intros Ha Hb.
  - destruct b as [|c b]; simpl; auto. rewrite Hb. reflexivity.
  - apply andb_prop in Ha. destruct Ha as [Hx Ha]. rewrite Hx. rewrite IH; auto.
Qed.

Lemma bytes_eqb_refl a : bytes_eqb a a = true.
Proof. induction a; simpl; auto. rewrite Ascii.eqb_refl. assumption. Qed.
Lemma bytes_eqb_eq a : forall b, bytes_eqb a b = true -> a = b.
Proof.
  induction a as [|x a IH]; intros [|y b]; simpl; try discriminate; auto.
  intro H. apply andb_prop in H. destruct H as [H1 H2]. apply Ascii.eqb_eq in H1. f_equal; auto.
Qed.

(* a non-empty digit string is not one of the keywords and does not start with a quote or a sign *)
Lemma parse_literal_digits_start c s : is_digit c = true ->
  parse_literal (c :: s) = parse_number false (c :: s).
Proof.
  intro Hd. unfold parse_literal.
  assert (Hn : forall k, is_digit k = true -> N_of_ascii k <> 110%N /\ N_of_ascii k <> 116%N /\ N_of_ascii k <> 102%N
                           /\ N_of_ascii k <> 34%N /\ N_of_ascii k <> 45%N /\ N_of_ascii k <> 43%N).
  { intros k Hk. unfold is_digit in Hk. apply andb_prop in Hk. destruct Hk as [H1 H2].
    apply N.leb_le in H1. apply N.leb_le in H2. repeat split; lia. }
  destruct (Hn c Hd) as (Hn1 & Hn2 & Hn3 & Hn4 & Hn5 & Hn6).
  assert (E : forall k n, N_of_ascii c <> n -> N_of_ascii k = n -> Ascii.eqb c k = false).
  { intros k n H1 H2. apply eqb_false_of_neq. intro. subst. congruence. }
  cbn [B list_ascii_of_string bytes_eqb].
  rewrite (E "n" 110%N), (E "t" 116%N), (E "f" 102%N) by (assumption || reflexivity). cbn [andb].
  unfold c_dq. rewrite (E """" 34%N), (E "-" 45%N), (E "+" 43%N) by (assumption || reflexivity).
  reflexivity.
Qed.

Lemma nz_digits u : nz (uint_digits u) <> [] /\ forallb is_digit (nz (uint_digits u)) = true.
Proof.
  pose proof (is_digit_uint_digits u) as H.
  destruct (uint_digits u) eqn:E; simpl; split; try discriminate; auto.
Qed.

Lemma digits_uint_nz_value u : exists u', digits_uint (nz (uint_digits u)) = Some u' /\ Z.of_uint u' = Z.of_uint u.
Proof.
  destruct u; try (eexists; split; [apply (digit_cons_digits (_ u))|reflexivity]).
  exists (D0 Nil). split; reflexivity.
Qed.

Lemma parse_number_digits neg u :
  parse_number neg (nz (uint_digits u)) = Some (LInt (Z.of_int (if neg then Neg u else Pos u))).
Proof.
  unfold parse_number. destruct (nz_digits u) as [Hne Hd].
  rewrite <- (app_nil_r (nz (uint_digits u))). rewrite span_digits_app by auto.
  destruct (digits_uint_nz_value u) as (u' & Hu & Hv). rewrite Hu.
  destruct (nz (uint_digits u)) eqn:E; [congruence|].
  destruct neg; simpl; rewrite Hv; reflexivity.
Qed.

Lemma parse_render_int (i : int) :
  parse_literal (match i with Pos u => nz (uint_digits u) | Neg u => "-" :: nz (uint_digits u) end) = Some (LInt (Z.of_int i)).
Proof.
  destruct i as [u|u].
  - destruct (nz_digits u) as [Hne Hd]. destruct (nz (uint_digits u)) as [|c s] eqn:E; [congruence|].
    simpl in Hd. apply andb_prop in Hd. destruct Hd as [Hc _].
    rewrite parse_literal_digits_start by assumption. rewrite <- E. apply (parse_number_digits false).
  - unfold parse_literal. cbn [B list_ascii_of_string bytes_eqb Ascii.eqb Bool.eqb andb].
    change (Ascii.eqb "-" c_dq) with false. cbn [Ascii.eqb Bool.eqb andb].
    apply (parse_number_digits true).
Qed.

(* literal_roundtrip, integers: all of Z *)
Theorem literal_roundtrip_int : forall z, parse_literal (render_literal (LInt z)) = Some (LInt z).
Proof.
  intros z. simpl. unfold render_Z.
  pose proof (parse_render_int (Z.to_int z)) as H. rewrite DecimalZ.of_to in H. exact H.
Qed.

Theorem literal_roundtrip_bool : forall b, parse_literal (render_literal (LBool b)) = Some (LBool b).
Proof. intros [|]; reflexivity. Qed.

Theorem literal_roundtrip_null : parse_literal (render_literal LNull) = Some LNull.
Proof. reflexivity. Qed.

Lemma has_dq_rev s : has_dq (rev s) = has_dq s.
Proof.
  unfold has_dq. induction s as [|c s IH]; simpl; auto.
  rewrite existsb_app. simpl. rewrite IH. rewrite orb_false_r. apply orb_comm.
Qed.

(* a quoted string is none of the keywords (those do not start with a quote) *)
Theorem literal_roundtrip_string : forall s, has_dq s = false ->
  parse_literal (render_literal (LStr s)) = Some (LStr s).
Proof.
  intros s H. simpl. rewrite H. unfold parse_literal.
  cbn [B list_ascii_of_string bytes_eqb]. change (Ascii.eqb c_dq "n") with false. change (Ascii.eqb c_dq "t") with false.
  change (Ascii.eqb c_dq "f") with false. cbn [andb]. rewrite ?Ascii.eqb_refl.
  rewrite rev_app_distr. cbn [rev app]. rewrite Ascii.eqb_refl. rewrite has_dq_rev, H. cbn [negb andb].
  rewrite rev_involutive. reflexivity.
Qed.

(* a string constant holding a double quote cannot be written in VTL at all (STRING_CONSTANT has no escape); the renderer
   returns such a value bare, which is why the statement is restricted to strings without it *)
Lemma literal_roundtrip_string_needs_no_dq : exists s, parse_literal (render_literal (LStr s)) <> Some (LStr s).
Proof. exists (B "a""b"). vm_compute. discriminate. Qed.

(* ---- numbers -------------------------------------------------------------------------------------------------------- *)

Definition Dn (neg : bool) (i f : string) : decn := {| dneg := neg; dint := B i; dfrac := B f |}.

(* BEFORE THE FIX (/repo 70d45d5) the full statement was false for the coded renderer.  Witnesses (they failed on the engine too):
   0.0000001 (repr 1e-07: no dot -> IndexError), 10000000000000000000000.0 (repr 1e+22: IndexError),
   0.00001234 (%f keeps 6 decimals -> 0.000012), 12345.678 (%g keeps 6 digits -> 12345.7),
   1234567.5 (%g -> 1.23457e+06, not a VTL number), 1.0 (%g -> 1, an Integer literal), 0.00000015 (-> "0.") *)
Definition number_witnesses : list decn :=
  [Dn false "" "0000001"; Dn false "10000000000000000000000" ""; Dn false "" "00001234"; Dn false "12345" "678";
   Dn false "1234567" "5"; Dn false "1" ""; Dn false "" "00000015"].

Theorem literal_roundtrip_number_refuted_before_fix : forall bias,
  Forall (fun d => dec_canon d = true /\
                   option_map parse_literal (render_float_before_fix bias d) <> Some (Some (LNum d))) number_witnesses.
Proof.
  intro bias. unfold number_witnesses.
  repeat (constructor; [split; [reflexivity|]; unfold render_float_before_fix;
                        match goal with |- context [bias ?d] => generalize (bias d) end;
                        intro b; destruct b; vm_compute; discriminate|]).
  constructor.
Qed.

(* the old renderer raised on floats whose repr has no dot *)
Theorem render_float_raises_before_fix : forall bias, render_float_before_fix bias (Dn false "" "0000001") = None
                                        /\ render_float_before_fix bias (Dn false "10000000000000000000000" "") = None.
Proof. intro. split; reflexivity. Qed.

(* --- helper lemmas on digit strings *)
Lemma strip_lz_head_nonzero s : head_nonzero s = true -> strip_lz s = s.
Proof. destruct s as [|c s]; simpl; auto. intro H. apply negb_true_iff in H. rewrite H. reflexivity. Qed.

Lemma strip_tz_last_nonzero s : last_nonzero s = true -> strip_tz s = s.
Proof.
  unfold last_nonzero, strip_tz. intro H. rewrite strip_lz_head_nonzero; [apply rev_involutive|].
  unfold head_nonzero. exact H.
Qed.

Lemma strip_lz_zeros n s : strip_lz (zeros n ++ s) = strip_lz s.
Proof. induction n; simpl; auto. Qed.

Lemma rev_zeros n : rev (zeros n) = zeros n.
Proof.
  unfold zeros. induction n; simpl; auto. rewrite IHn. clear IHn.
  induction n; simpl; auto. f_equal. exact IHn.
Qed.

Lemma strip_tz_app_zeros s n : strip_tz (s ++ zeros n) = strip_tz s.
Proof. unfold strip_tz. rewrite rev_app_distr, rev_zeros, strip_lz_zeros. reflexivity. Qed.

Lemma last_nonzero_app a b : b <> [] -> last_nonzero (a ++ b) = last_nonzero b.
Proof.
  unfold last_nonzero. intro H. rewrite rev_app_distr. destruct (rev b) eqn:E; [|reflexivity].
  apply (f_equal (@rev ascii)) in E. rewrite rev_involutive in E. simpl in E. congruence.
Qed.

Lemma last_nonzero_cons c s : s <> [] -> last_nonzero (c :: s) = last_nonzero s.
Proof. intro H. apply (last_nonzero_app [c] s H). Qed.

Lemma firstn_app_zeros (s : bytes) k : (length s <= k)%nat -> firstn k (s ++ zeros k) = s ++ zeros (k - length s).
Proof.
  intro H. rewrite firstn_app. rewrite firstn_all2 by assumption. f_equal.
  unfold zeros. remember (k - length s)%nat as m. assert (m <= k)%nat by lia. clear - H0.
  revert k H0. induction m; intros k Hk; simpl; [reflexivity|].
  destruct k; [lia|]. simpl. f_equal. apply IHm. lia.
Qed.

Lemma skipn_all3 (s : bytes) k : (length s <= k)%nat -> skipn k s = [].
Proof. intro. apply skipn_all2. assumption. Qed.

Lemma forallb_digit_not_dot s : forallb is_digit s = true -> forallb (fun c => negb (Ascii.eqb c ".")) s = true.
Proof.
  induction s as [|c s IH]; simpl; auto. intro H. apply andb_prop in H. destruct H as [Hc Hs].
  rewrite IH by assumption. rewrite andb_true_r. destruct (Ascii.eqb_spec c "."); [subst; discriminate|reflexivity].
Qed.

Lemma until_dot_nodot s : forallb (fun c => negb (Ascii.eqb c ".")) s = true -> until_dot s = s.
Proof.
  induction s as [|c s IH]; simpl; auto. intro H. apply andb_prop in H. destruct H as [Hc Hs].
  apply negb_true_iff in Hc. rewrite Hc. f_equal. auto.
Qed.

Lemma after_dot_app a b : forallb (fun c => negb (Ascii.eqb c ".")) a = true ->
  after_dot (a ++ "." :: b) = Some (until_dot b).
Proof.
  induction a as [|c a IH]; simpl; auto. intro H. apply andb_prop in H. destruct H as [Hc Hs].
  apply negb_true_iff in Hc. rewrite Hc. auto.
Qed.

Lemma nz_digits_ok s : forallb is_digit s = true -> forallb is_digit (nz s) = true.
Proof. destruct s; simpl; auto. Qed.

Lemma sign_nodot d : forallb (fun c => negb (Ascii.eqb c ".")) (sign_of d) = true.
Proof. unfold sign_of. destruct (dneg d); reflexivity. Qed.

(* parsing the plain decimal text of a canonical number gives the number back *)
Lemma parse_plain_decimal d : dec_canon d = true -> dfrac d <> [] ->
  parse_literal (sign_of d ++ nz (dint d) ++ "." :: dfrac d) = Some (LNum d).
Proof.
  intros Hc Hf. unfold dec_canon in Hc. repeat (apply andb_prop in Hc; destruct Hc as [Hc ?]).
  rename Hc into Hdi, H1 into Hdf, H0 into Hhd, H into Hlast.
  assert (Hnum : parse_number (dneg d) (nz (dint d) ++ "." :: dfrac d) = Some (LNum d)).
  { unfold parse_number. rewrite span_digits_app; [|apply nz_digits_ok; assumption|reflexivity].
    destruct (nz (dint d)) eqn:En; [destruct (dint d); discriminate|]. rewrite <- En.
    rewrite Ascii.eqb_refl. rewrite Hdf. destruct (dfrac d) eqn:Ef; [congruence|]. simpl nonempty. cbn [andb].
    unfold mk_dec. rewrite <- Ef in *. rewrite strip_tz_last_nonzero by assumption.
    assert (strip_lz (nz (dint d)) = dint d) as ->.
    { destruct (dint d) eqn:Ei; [reflexivity|]. simpl nz. rewrite <- Ei in *. apply strip_lz_head_nonzero. assumption. }
    destruct d; reflexivity. }
  unfold sign_of. destruct (dneg d) eqn:Eneg.
  - simpl app. unfold parse_literal. cbn [B list_ascii_of_string bytes_eqb Ascii.eqb Bool.eqb andb].
    change (Ascii.eqb "-" c_dq) with false. cbn [Ascii.eqb Bool.eqb andb]. exact Hnum.
  - simpl app. destruct (nz (dint d)) as [|c s] eqn:En; [destruct (dint d); discriminate|].
    assert (Hcd : is_digit c = true).
    { pose proof (nz_digits_ok _ Hdi) as H. rewrite En in H. simpl in H. apply andb_prop in H. tauto. }
    rewrite <- app_comm_cons. rewrite parse_literal_digits_start by assumption. exact Hnum.
Qed.

Lemma count_lz_split s : s = zeros (count_lz s) ++ strip_lz s.
Proof.
  induction s as [|c s IH]; simpl; auto. destruct (Ascii.eqb_spec c c_0).
  - subst. simpl. f_equal. exact IH.
  - reflexivity.
Qed.

Lemma strip_lz_nonempty_of_last_nonzero s : s <> [] -> last_nonzero s = true -> strip_lz s <> [].
Proof.
  induction s as [|c s IH]; [congruence|]. intros _ Hl. simpl.
  destruct (Ascii.eqb_spec c c_0); [|discriminate].
  subst. destruct s as [|c' s']; [discriminate|]. apply IH; [discriminate|].
  rewrite last_nonzero_cons in Hl by discriminate. exact Hl.
Qed.

Lemma last_nonzero_strip_lz s : last_nonzero s = true -> last_nonzero (strip_lz s) = true.
Proof.
  induction s as [|c s IH]; simpl; auto. intro H. destruct (Ascii.eqb_spec c c_0); [|assumption].
  subst. destruct s as [|c' s']; [reflexivity|]. apply IH. rewrite last_nonzero_cons in H by discriminate. exact H.
Qed.

Lemma length_strip_lz s : length s = (count_lz s + length (strip_lz s))%nat.
Proof.
  rewrite (count_lz_split s) at 1. rewrite app_length. unfold zeros. rewrite repeat_length. reflexivity.
Qed.

Lemma length_zeros n : length (zeros n) = n.
Proof. apply repeat_length. Qed.

Lemma firstn_app_exact {A} (a b : list A) : firstn (length a) (a ++ b) = a.
Proof. rewrite firstn_app, Nat.sub_diag, firstn_all. simpl. apply app_nil_r. Qed.
Lemma skipn_app_exact {A} (a b : list A) : skipn (length a) (a ++ b) = b.
Proof. rewrite skipn_app, Nat.sub_diag, skipn_all. reflexivity. Qed.

(* %f prints the number itself when it has at most 6 decimals *)
Lemma fmt_f_exact bias d : dec_canon d = true -> dfrac d <> [] -> (length (dfrac d) <= 6)%nat ->
  rstrip0 (fmt_f bias d) = sign_of d ++ nz (dint d) ++ "." :: dfrac d.
Proof.
  intros Hc Hf Hlen. unfold dec_canon in Hc. repeat (apply andb_prop in Hc; destruct Hc as [Hc ?]).
  unfold fmt_f. rewrite firstn_app_zeros by assumption. rewrite skipn_all3 by assumption.
  cbn [round_up].
  assert (Hl : (length (dint d ++ dfrac d ++ zeros (6 - length (dfrac d))) - 6 = length (dint d))%nat).
  { rewrite !app_length, length_zeros. lia. }
  rewrite Hl. rewrite firstn_app_exact, skipn_app_exact.
  unfold rstrip0.
  replace (sign_of d ++ nz (dint d) ++ "." :: dfrac d ++ zeros (6 - length (dfrac d)))
    with ((sign_of d ++ nz (dint d) ++ "." :: dfrac d) ++ zeros (6 - length (dfrac d)))
    by (rewrite <- !app_assoc; reflexivity).
  rewrite strip_tz_app_zeros. apply strip_tz_last_nonzero.
  rewrite app_assoc. change ("." :: dfrac d) with (["."] ++ dfrac d). rewrite app_assoc.
  rewrite last_nonzero_app by assumption. assumption.
Qed.

(* %g prints the number itself when it is written in fixed notation with 1..4 decimals and at most 6 significant digits *)
Lemma fmt_g_exact bias d : dec_canon d = true -> dfrac d <> [] -> repr_fixed d = true ->
  (length (dec_sig d) <= 6)%nat ->
  fmt_g bias d = sign_of d ++ nz (dint d) ++ "." :: dfrac d.
Proof.
  intros Hc Hf Hfix Hsig. unfold dec_canon in Hc. repeat (apply andb_prop in Hc; destruct Hc as [Hc ?]).
  rename H into Hlast, H0 into Hhd.
  unfold fmt_g. f_equal.
  assert (Hsg : dec_sig d = strip_lz (dint d ++ dfrac d)).
  { unfold dec_sig. apply strip_tz_last_nonzero. apply last_nonzero_strip_lz.
    rewrite last_nonzero_app by assumption. assumption. }
  assert (Hnz : dec_sig d <> []).
  { rewrite Hsg. apply strip_lz_nonempty_of_last_nonzero.
    - destruct (dint d); simpl; [assumption|discriminate].
    - rewrite last_nonzero_app by assumption. assumption. }
  unfold dec_is_zero. destruct (dec_sig d) as [|s0 sr] eqn:Esig; [congruence|]. rewrite <- Esig in *.
  rewrite firstn_app_zeros by assumption. rewrite skipn_all3 by assumption. cbn [round_up].
  assert (Hlen6 : length (dec_sig d ++ zeros (6 - length (dec_sig d))) = 6%nat).
  { rewrite app_length, length_zeros. lia. }
  rewrite Hlen6. change (6 <? 6)%nat with false. cbv iota beta.
  unfold repr_fixed in Hfix. apply andb_prop in Hfix. destruct Hfix as [Hlo Hhi].
  apply Z.leb_le in Hlo. apply Z.ltb_lt in Hhi.
  destruct (dint d) as [|i0 ir] eqn:Ei.
  - (* 0.000ddd *)
    simpl app in Hsg. unfold dec_exp in *. rewrite Ei in *.
    assert (Hx : (- Z.of_nat (count_lz (dfrac d)) - 1 <? -4)%Z = false) by (apply Z.ltb_ge; lia).
    assert (Hx6 : (6 <=? - Z.of_nat (count_lz (dfrac d)) - 1)%Z = false) by (apply Z.leb_gt; lia).
    rewrite Hx, Hx6. cbn [orb].
    assert (Hx0 : (0 <=? - Z.of_nat (count_lz (dfrac d)) - 1)%Z = false) by (apply Z.leb_gt; lia).
    rewrite Hx0. simpl nz. cbn [app]. f_equal. f_equal.
    replace (Z.to_nat (- (- Z.of_nat (count_lz (dfrac d)) - 1) - 1)) with (count_lz (dfrac d)) by lia.
    rewrite app_assoc. rewrite strip_tz_app_zeros. rewrite Hsg. rewrite <- count_lz_split.
    apply strip_tz_last_nonzero. assumption.
  - (* ddd.ddd *)
    rewrite <- Ei in *. assert (Hsg' : dec_sig d = dint d ++ dfrac d).
    { rewrite Hsg. apply strip_lz_head_nonzero. rewrite Ei in *. simpl. simpl in Hhd. exact Hhd. }
    unfold dec_exp in *. rewrite Ei in *. rewrite <- Ei in *.
    assert (Hli : (length (dint d) + length (dfrac d) <= 6)%nat) by (rewrite Hsg', app_length in Hsig; lia).
    assert (Hfl : (1 <= length (dfrac d))%nat) by (destruct (dfrac d); simpl; [congruence|lia]).
    assert (Hil : (1 <= length (dint d))%nat) by (rewrite Ei; simpl; lia).
    assert (Hx : (Z.of_nat (length (dint d)) - 1 <? -4)%Z = false) by (apply Z.ltb_ge; lia).
    assert (Hx6 : (6 <=? Z.of_nat (length (dint d)) - 1)%Z = false) by (apply Z.leb_gt; lia).
    rewrite Hx, Hx6. cbn [orb].
    assert (Hx0 : (0 <=? Z.of_nat (length (dint d)) - 1)%Z = true) by (apply Z.leb_le; lia).
    rewrite Hx0.
    replace (S (Z.to_nat (Z.of_nat (length (dint d)) - 1))) with (length (dint d)) by lia.
    rewrite Hsg'. rewrite <- app_assoc. rewrite firstn_app_exact, skipn_app_exact.
    rewrite strip_tz_app_zeros. rewrite strip_tz_last_nonzero by assumption.
    destruct (dfrac d) eqn:Ef; [congruence|]. rewrite Ei. reflexivity.
Qed.

Lemma after_dot_repr_fixed d : dec_canon d = true -> dfrac d <> [] -> repr_fixed d = true ->
  after_dot (py_repr d) = Some (dfrac d).
Proof.
  intros Hc Hf Hfix. pose proof Hc as Hc'. unfold dec_canon in Hc. repeat (apply andb_prop in Hc; destruct Hc as [Hc ?]).
  unfold py_repr.
  assert (Hz : dec_is_zero d = false).
  { unfold dec_is_zero, dec_sig.
    assert (Hl : last_nonzero (strip_lz (dint d ++ dfrac d)) = true).
    { apply last_nonzero_strip_lz. rewrite last_nonzero_app by assumption. assumption. }
    rewrite strip_tz_last_nonzero by assumption.
    destruct (strip_lz (dint d ++ dfrac d)) eqn:E; [|reflexivity].
    exfalso. revert E. apply strip_lz_nonempty_of_last_nonzero.
    - destruct (dint d); simpl; [assumption|discriminate].
    - rewrite last_nonzero_app by assumption. assumption. }
  rewrite Hz. unfold repr_fixed in Hfix. apply andb_prop in Hfix. destruct Hfix as [Hlo Hhi].
  apply Z.leb_le in Hlo. apply Z.ltb_lt in Hhi.
  assert (Hs : ((dec_exp d <? -4) || (16 <=? dec_exp d))%Z = false).
  { apply orb_false_iff. split; [apply Z.ltb_ge|apply Z.leb_gt]; lia. }
  rewrite Hs. rewrite app_assoc. rewrite after_dot_app.
  - destruct (dfrac d) eqn:Ef; [congruence|]. simpl nz. rewrite <- Ef in *.
    f_equal. apply until_dot_nodot. apply forallb_digit_not_dot. assumption.
  - rewrite forallb_app. rewrite sign_nodot. apply forallb_digit_not_dot. apply nz_digits_ok. assumption.
Qed.

(* literal_roundtrip, numbers, the part that holds: fixed-notation repr and either 1..4 decimals with at most 6 significant
   digits, or exactly 5 or 6 decimals *)
Theorem literal_roundtrip_number_partial_before_fix : forall bias d,
  dec_canon d = true -> repr_fixed d = true ->
  (((1 <=? length (dfrac d)) && (length (dfrac d) <=? 4) && (length (dec_sig d) <=? 6))
   || (length (dfrac d) =? 5) || (length (dfrac d) =? 6))%nat = true ->
  option_map parse_literal (render_float_before_fix bias d) = Some (Some (LNum d)).
Proof.
  intros bias d Hc Hfix Hdom. unfold render_float_before_fix.
  assert (Hf : dfrac d <> []).
  { intro E. rewrite E in Hdom. discriminate. }
  rewrite after_dot_repr_fixed by assumption.
  destruct (4 <? length (dfrac d))%nat eqn:E4.
  - apply Nat.ltb_lt in E4. simpl. f_equal.
    rewrite fmt_f_exact; auto.
    + apply parse_plain_decimal; assumption.
    + apply orb_prop in Hdom. destruct Hdom as [Hdom|Hdom].
      * apply orb_prop in Hdom. destruct Hdom as [Hdom|Hdom].
        -- repeat (apply andb_prop in Hdom; destruct Hdom as [Hdom ?]). apply Nat.leb_le in H0. lia.
        -- apply Nat.eqb_eq in Hdom. lia.
      * apply Nat.eqb_eq in Hdom. lia.
  - apply Nat.ltb_ge in E4. simpl. f_equal.
    assert (Hsig : (length (dec_sig d) <= 6)%nat).
    { apply orb_prop in Hdom. destruct Hdom as [Hdom|Hdom].
      - apply orb_prop in Hdom. destruct Hdom as [Hdom|Hdom].
        + repeat (apply andb_prop in Hdom; destruct Hdom as [Hdom ?]). apply Nat.leb_le. assumption.
        + apply Nat.eqb_eq in Hdom. lia.
      - apply Nat.eqb_eq in Hdom. lia. }
    rewrite fmt_g_exact; auto. apply parse_plain_decimal; assumption.
Qed.

(* the one scientific-repr shape that survives: 0.0000ab (repr a.be-05: five characters after the dot -> %f, six decimals) *)
Lemma sci_case_shape d : dec_canon d = true -> dec_exp d = (-5)%Z -> length (dec_sig d) = 2%nat ->
  dint d = [] /\ exists a b, dfrac d = zeros 4 ++ [a; b] /\ dec_sig d = [a; b].
Proof.
  intros Hc Hx Hs. unfold dec_canon in Hc. repeat (apply andb_prop in Hc; destruct Hc as [Hc ?]).
  unfold dec_exp in Hx. destruct (dint d) as [|i0 ir] eqn:Ei.
  - split; [reflexivity|].
    assert (Hcl : count_lz (dfrac d) = 4%nat) by lia.
    assert (Hsg : dec_sig d = strip_lz (dfrac d)).
    { unfold dec_sig. rewrite Ei. simpl app. apply strip_tz_last_nonzero. apply last_nonzero_strip_lz. assumption. }
    rewrite Hsg in Hs. pose proof (count_lz_split (dfrac d)) as Hsp. rewrite Hcl in Hsp.
    destruct (strip_lz (dfrac d)) as [|a [|b [|c r]]] eqn:Est; try discriminate.
    exists a, b. split; [exact Hsp|]. rewrite Hsg. reflexivity.
  - simpl length in Hx. lia.
Qed.

Lemma is_digit_not_dot c : is_digit c = true -> Ascii.eqb c "." = false.
Proof. intro H. destruct (Ascii.eqb_spec c "."); [subst; discriminate|reflexivity]. Qed.

Theorem literal_roundtrip_number_partial_sci_before_fix : forall bias d,
  dec_canon d = true -> dec_exp d = (-5)%Z -> length (dec_sig d) = 2%nat ->
  option_map parse_literal (render_float_before_fix bias d) = Some (Some (LNum d)).
Proof.
  intros bias d Hc Hx Hs. destruct (sci_case_shape d Hc Hx Hs) as (Hi & a & b & Hf & Hsg).
  pose proof Hc as Hc'. unfold dec_canon in Hc'. repeat (apply andb_prop in Hc'; destruct Hc' as [Hc' ?]).
  assert (Hab : is_digit a = true /\ is_digit b = true).
  { rewrite Hf in H1. rewrite forallb_app in H1. apply andb_prop in H1. destruct H1 as [_ H1]. simpl in H1.
    apply andb_prop in H1. destruct H1 as [Ha H1]. apply andb_prop in H1. tauto. }
  destruct Hab as [Ha Hb].
  unfold render_float_before_fix.
  assert (Had : exists dp, after_dot (py_repr d) = Some dp /\ (4 <? length dp)%nat = true).
  { unfold py_repr, dec_is_zero. rewrite Hsg, Hx.
    change ((-5 <? -4)%Z || (16 <=? -5)%Z) with true. cbv iota.
    change (exp_text (-5)) with (B "-05").
    exists (b :: B "e-05"). split; [|reflexivity].
    assert (E : after_dot (a :: "." :: b :: "e" :: B "-05") = Some (b :: B "e-05")).
    { cbn [after_dot]. rewrite (is_digit_not_dot a Ha). rewrite Ascii.eqb_refl. cbn [until_dot B list_ascii_of_string].
      rewrite (is_digit_not_dot b Hb). reflexivity. }
    unfold sign_of. destruct (dneg d); [|exact E].
    cbn [app after_dot]. change (Ascii.eqb "-" ".") with false. cbv iota. exact E. }
  destruct Had as (dp & Hdp & Hlen). rewrite Hdp, Hlen. simpl. f_equal.
  assert (Hfne : dfrac d <> []) by (rewrite Hf; discriminate).
  rewrite fmt_f_exact; auto.
  - apply parse_plain_decimal; assumption.
  - rewrite Hf. simpl. lia.
Qed.

(* literal_roundtrip for numbers on the closed-form domain of Codec.float_roundtrip_domain *)
Theorem literal_roundtrip_number_domain_before_fix : forall bias d, float_roundtrip_domain d = true ->
  option_map parse_literal (render_float_before_fix bias d) = Some (Some (LNum d)).
Proof.
  intros bias d H. unfold float_roundtrip_domain in H. apply andb_prop in H. destruct H as [Hc H].
  apply orb_prop in H. destruct H as [H|H].
  - apply andb_prop in H. destruct H as [Hfix Hd]. apply literal_roundtrip_number_partial_before_fix; assumption.
  - apply andb_prop in H. destruct H as [Hx Hs]. apply Z.eqb_eq in Hx. apply Nat.eqb_eq in Hs.
    apply literal_roundtrip_number_partial_sci_before_fix; assumption.
Qed.

(* ---- the current renderer ------------------------------------------------------------------------------------------ *)

Lemma strip_tz_nonempty_of_head_nonzero s : s <> [] -> head_nonzero s = true -> strip_tz s <> [].
Proof.
  intros Hne Hh. unfold strip_tz. intro E. apply (f_equal (@rev ascii)) in E. rewrite rev_involutive in E. simpl in E.
  revert E. apply strip_lz_nonempty_of_last_nonzero.
  - intro E. apply (f_equal (@rev ascii)) in E. rewrite rev_involutive in E. simpl in E. congruence.
  - unfold last_nonzero. rewrite rev_involutive. exact Hh.
Qed.

(* a canonical decimal without significant digits is 0 *)
Lemma zero_canon d : dec_canon d = true -> dec_is_zero d = true -> dint d = [] /\ dfrac d = [].
Proof.
  intros Hc Hz. unfold dec_canon in Hc. repeat (apply andb_prop in Hc; destruct Hc as [Hc ?]).
  rename H into Hlast, H0 into Hhd.
  unfold dec_is_zero, dec_sig in Hz.
  destruct (dfrac d) as [|f0 fr] eqn:Ef.
  - rewrite app_nil_r in Hz. split; [|reflexivity].
    destruct (dint d) as [|i0 ir] eqn:Ei; [reflexivity|]. exfalso.
    rewrite strip_lz_head_nonzero in Hz by assumption.
    destruct (strip_tz (i0 :: ir)) eqn:E; [|discriminate].
    revert E. apply strip_tz_nonempty_of_head_nonzero; [discriminate|assumption].
  - exfalso. rewrite <- Ef in *.
    assert (Hl : last_nonzero (strip_lz (dint d ++ dfrac d)) = true).
    { apply last_nonzero_strip_lz. rewrite last_nonzero_app by (rewrite Ef; discriminate). assumption. }
    rewrite strip_tz_last_nonzero in Hz by assumption.
    destruct (strip_lz (dint d ++ dfrac d)) eqn:E; [|discriminate].
    revert E. apply strip_lz_nonempty_of_last_nonzero.
    + rewrite Ef. destruct (dint d); discriminate.
    + rewrite last_nonzero_app by (rewrite Ef; discriminate). assumption.
Qed.

Lemma digits_no_e s : forallb is_digit s = true -> has_e s = false.
Proof.
  unfold has_e. induction s as [|c s IH]; cbn [existsb forallb]; auto. intro H. apply andb_prop in H. destruct H as [Hc Hs].
  rewrite IH by assumption. rewrite orb_false_r.
  rewrite (eqb_false_of_neq c "e") by (intro E; subst; discriminate).
  rewrite (eqb_false_of_neq c "E") by (intro E; subst; discriminate). reflexivity.
Qed.
Lemma digits_no_dot s : forallb is_digit s = true -> has_dot s = false.
Proof.
  unfold has_dot. induction s as [|c s IH]; cbn [existsb forallb]; auto. intro H. apply andb_prop in H. destruct H as [Hc Hs].
  rewrite IH by assumption. rewrite orb_false_r. apply eqb_false_of_neq. intro E. subst. discriminate.
Qed.
Lemma sign_no_e d : has_e (sign_of d) = false.
Proof. unfold sign_of. destruct (dneg d); reflexivity. Qed.
Lemma sign_no_dot d : has_dot (sign_of d) = false.
Proof. unfold sign_of. destruct (dneg d); reflexivity. Qed.
Lemma has_e_app a b : has_e (a ++ b) = has_e a || has_e b.
Proof. apply existsb_app. Qed.
Lemma has_dot_app a b : has_dot (a ++ b) = has_dot a || has_dot b.
Proof. apply existsb_app. Qed.

(* the code's renderer IS the specified one: for every canonical decimal (every float, through its repr digits) the three
   steps repr / Decimal 'f' / append '.0' print  sign, integer digits, point, fraction digits *)
Theorem render_float_impl_is_spec : forall d, dec_canon d = true -> render_float_impl d = render_float_spec d.
Proof.
  intros d Hc. pose proof Hc as Hc'. unfold dec_canon in Hc'. repeat (apply andb_prop in Hc'; destruct Hc' as [Hc' ?]).
  rename Hc' into Hdi, H1 into Hdf.
  unfold render_float_impl, render_float_spec, py_repr.
  destruct (dec_is_zero d) eqn:Z.
  - destruct (zero_canon d Hc Z) as [Ei Ef]. rewrite Ei, Ef. unfold sign_of. destruct (dneg d); reflexivity.
  - destruct ((dec_exp d <? -4)%Z || (16 <=? dec_exp d)%Z) eqn:Sci.
    + (* scientific repr *)
      match goal with |- context [has_e ?t] => assert (He : has_e t = true) end.
      { rewrite !has_e_app. cbn [has_e existsb Ascii.eqb Bool.eqb orb andb]. rewrite !orb_true_r. reflexivity. }
      rewrite He. unfold decimal_f. destruct (dfrac d) as [|f0 fr] eqn:Ef.
      * rewrite app_nil_r. rewrite has_dot_app, sign_no_dot, digits_no_dot by (apply nz_digits_ok; assumption).
        cbn [orb]. rewrite <- app_assoc. reflexivity.
      * rewrite !has_dot_app. cbn [has_dot existsb]. rewrite Ascii.eqb_refl. cbn [orb]. rewrite !orb_true_r. reflexivity.
    + (* fixed repr *)
      match goal with |- context [has_e ?t] => assert (He : has_e t = false) end.
      { rewrite !has_e_app, sign_no_e. rewrite digits_no_e by (apply nz_digits_ok; assumption).
        change ("." :: nz (dfrac d)) with (["."] ++ nz (dfrac d)). rewrite has_e_app.
        rewrite (digits_no_e (nz (dfrac d))) by (apply nz_digits_ok; assumption). reflexivity. }
      rewrite He. rewrite !has_dot_app. cbn [has_dot existsb]. rewrite Ascii.eqb_refl. cbn [orb]. rewrite !orb_true_r. reflexivity.
Qed.

(* parsing the specified text gives the number back — integral values included (1.0 stays a Number) *)
Lemma parse_spec_decimal d : dec_canon d = true -> parse_literal (render_float_spec d) = Some (LNum d).
Proof.
  intro Hc. unfold render_float_spec. destruct (dfrac d) as [|f0 fr] eqn:Ef.
  - pose proof Hc as Hc'. unfold dec_canon in Hc'. repeat (apply andb_prop in Hc'; destruct Hc' as [Hc' ?]).
    rename Hc' into Hdi, H0 into Hhd.
    assert (Hnum : parse_number (dneg d) (nz (dint d) ++ "." :: nz []) = Some (LNum d)).
    { unfold parse_number. rewrite span_digits_app; [|apply nz_digits_ok; assumption|reflexivity].
      destruct (nz (dint d)) eqn:En; [destruct (dint d); discriminate|]. rewrite <- En.
      cbn [nz Ascii.eqb Bool.eqb andb nonempty forallb]. change (is_digit c_0) with true. cbn [andb].
      unfold mk_dec.
      assert (strip_lz (nz (dint d)) = dint d) as ->.
      { destruct (dint d) eqn:Ei; [reflexivity|]. simpl nz. rewrite <- Ei in *. apply strip_lz_head_nonzero. assumption. }
      change (strip_tz [c_0]) with (@nil ascii). destruct d; simpl in *; subst; reflexivity. }
    unfold sign_of. destruct (dneg d) eqn:Eneg.
    + simpl app. unfold parse_literal. cbn [B list_ascii_of_string bytes_eqb Ascii.eqb Bool.eqb andb].
      change (Ascii.eqb "-" c_dq) with false. cbn [Ascii.eqb Bool.eqb andb]. exact Hnum.
    + simpl app. destruct (nz (dint d)) as [|c s] eqn:En; [destruct (dint d); discriminate|].
      assert (Hcd : is_digit c = true).
      { pose proof (nz_digits_ok _ Hdi) as Hq. rewrite En in Hq. simpl in Hq. apply andb_prop in Hq. tauto. }
      rewrite <- app_comm_cons. rewrite parse_literal_digits_start by assumption. exact Hnum.
  - rewrite <- Ef. replace (nz (dfrac d)) with (dfrac d) by (rewrite Ef; reflexivity).
    apply parse_plain_decimal; [assumption|rewrite Ef; discriminate].
Qed.

(* literal_roundtrip, numbers, FULL statement for the code's renderer: every canonical decimal, i.e. every finite float
   through the digits of its repr (any magnitude, any number of digits, integral or not, -0.0 included) *)
Theorem literal_roundtrip_number : forall d, dec_canon d = true ->
  parse_literal (render_literal (LNum d)) = Some (LNum d).
Proof. intros d Hc. cbn [render_literal]. rewrite render_float_impl_is_spec by assumption. apply parse_spec_decimal; assumption. Qed.

Theorem literal_roundtrip_number_spec : forall d, dec_canon d = true ->
  parse_literal (render_literal_spec (LNum d)) = Some (LNum d).
Proof. intros d Hc. apply parse_spec_decimal; assumption. Qed.

(* all literals at once *)
Definition lit_ok (l : lit) : Prop :=
  match l with LStr s => has_dq s = false | LNum d => dec_canon d = true | _ => True end.
Theorem literal_roundtrip : forall l, lit_ok l -> parse_literal (render_literal l) = Some l.
Proof.
  intros [| b | z | s | d] H.
  - apply literal_roundtrip_null.
  - apply literal_roundtrip_bool.
  - apply literal_roundtrip_int.
  - apply literal_roundtrip_string. exact H.
  - apply literal_roundtrip_number. exact H.
Qed.

(* ================================================================================================================== *)
(** * reserved words / identifiers *)

Lemma has_sq_rev s : has_sq (rev s) = has_sq s.
Proof.
  unfold has_sq. induction s as [|c s IH]; simpl; auto.
  rewrite existsb_app. simpl. rewrite IH. rewrite orb_false_r. apply orb_comm.
Qed.

Lemma parse_squote reserved n : has_sq n = false -> parse_ident reserved (squote n) = Some n.
Proof.
  intro H. unfold parse_ident, squote. rewrite Ascii.eqb_refl. rewrite rev_app_distr. cbn [rev app].
  rewrite Ascii.eqb_refl. rewrite has_sq_rev, H. cbn [negb andb]. rewrite rev_involutive. reflexivity.
Qed.

Lemma plain_ident_no_sq_head c s : is_plain_ident (c :: s) = true -> Ascii.eqb c c_sq = false.
Proof.
  unfold is_plain_ident. intro H. apply andb_prop in H. destruct H as [H _]. simpl in H.
  apply andb_prop in H. destruct H as [H _]. destruct (Ascii.eqb_spec c c_sq); [subst; discriminate|reflexivity].
Qed.

(* spec renderer: every name without a single quote comes back *)
Theorem quote_reserved_roundtrip : forall reserved n, has_sq n = false ->
  parse_ident reserved (render_ident reserved n) = Some n.
Proof.
  intros reserved n H. unfold render_ident.
  destruct (mem_bytes n reserved) eqn:Em; cbn [orb].
  - apply parse_squote; assumption.
  - destruct (is_bool_kw n) eqn:Eb; cbn [orb].
    + apply parse_squote; assumption.
    + destruct (is_plain_ident n) eqn:Ep; cbn [negb].
      * unfold parse_ident. destruct n as [|c s]; [discriminate|].
        rewrite (plain_ident_no_sq_head _ _ Ep). rewrite Ep, Em, Eb. reflexivity.
      * apply parse_squote; assumption.
Qed.

Lemma already_quoted_has_sq n : already_quoted n = true -> has_sq n = true.
Proof.
  unfold already_quoted. destruct n as [|c [|c' r]]; try discriminate.
  destruct (rev (c :: c' :: r)); [discriminate|]. intro H. apply andb_prop in H. destruct H as [H _].
  apply Ascii.eqb_eq in H. subst. unfold has_sq. cbn [existsb]. rewrite Ascii.eqb_refl. reflexivity.
Qed.

(* the coded rule IS the specified one on every name a script can hold (names never contain a quote character) *)
Theorem render_ident_impl_is_spec : forall reserved n, has_sq n = false ->
  render_ident_impl reserved n = render_ident reserved n.
Proof.
  intros reserved n H. unfold render_ident_impl, render_ident.
  destruct (mem_bytes n reserved); cbn [orb]; [reflexivity|].
  destruct (already_quoted n) eqn:Eq; [apply already_quoted_has_sq in Eq; congruence|]. reflexivity.
Qed.

(* FULL statement for _format_reserved_word as coded now (/repo d900c32) *)
Theorem quote_reserved_roundtrip_impl : forall reserved n, has_sq n = false ->
  parse_ident reserved (render_ident_impl reserved n) = Some n.
Proof. intros. rewrite render_ident_impl_is_spec by assumption. apply quote_reserved_roundtrip; assumption. Qed.

(* BEFORE THE FIX: held for reserved words and plain identifiers only … *)
Theorem quote_reserved_roundtrip_partial_before_fix : forall reserved n, has_sq n = false ->
  mem_bytes n reserved = true \/ (is_plain_ident n = true /\ is_bool_kw n = false) ->
  parse_ident reserved (render_ident_before_fix reserved n) = Some n.
Proof.
  intros reserved n H Hd. unfold render_ident_before_fix.
  destruct (mem_bytes n reserved) eqn:Em.
  - apply parse_squote; assumption.
  - destruct Hd as [Hd|[Ep Eb]]; [discriminate|].
    unfold parse_ident. destruct n as [|c s]; [discriminate|].
    rewrite (plain_ident_no_sq_head _ _ Ep). rewrite Ep, Em, Eb. reflexivity.
Qed.

(* … and every other name (a quoted name with a blank, 'true') was printed as text that is not that identifier *)
Theorem quote_reserved_roundtrip_refuted_before_fix : forall reserved n,
  has_sq n = false -> mem_bytes n reserved = false -> is_plain_ident n = false \/ is_bool_kw n = true ->
  parse_ident reserved (render_ident_before_fix reserved n) = None.
Proof.
  intros reserved n Hq Hm Hp. unfold render_ident_before_fix. rewrite Hm. unfold parse_ident.
  destruct n as [|c s]; [reflexivity|].
  assert (Ascii.eqb c c_sq = false) as ->.
  { unfold has_sq in Hq. simpl in Hq. apply orb_false_iff in Hq. destruct Hq as [Hq _].
    rewrite Ascii.eqb_sym. exact Hq. }
  destruct Hp as [Hp|Hp]; rewrite Hp; [reflexivity|]. rewrite andb_false_r. reflexivity.
Qed.

(* a reserved word written bare is a keyword, not an identifier *)
Lemma bare_reserved_not_identifier : forall reserved n,
  n <> [] -> has_sq n = false -> mem_bytes n reserved = true -> parse_ident reserved n = None.
Proof.
  intros reserved n Hne Hq Hm. unfold parse_ident. destruct n as [|c s]; [congruence|].
  assert (Ascii.eqb c c_sq = false) as ->.
  { unfold has_sq in Hq. simpl in Hq. apply orb_false_iff in Hq. destruct Hq as [Hq _]. rewrite Ascii.eqb_sym. exact Hq. }
  rewrite Hm. rewrite andb_false_r. reflexivity.
Qed.

Lemma quote_reserved_roundtrip_witness_before_fix : forall reserved, mem_bytes (B "a b") reserved = false ->
  parse_ident reserved (render_ident_before_fix reserved (B "a b")) <> Some (B "a b")
  /\ parse_ident reserved (render_ident_impl reserved (B "a b")) = Some (B "a b").
Proof.
  intros reserved H. split.
  - rewrite quote_reserved_roundtrip_refuted_before_fix by (assumption || reflexivity || (left; reflexivity)). discriminate.
  - apply quote_reserved_roundtrip_impl. reflexivity.
Qed.

(* ================================================================================================================== *)
(** * generate_sdmx *)

Lemma transformations_from_assignments : forall s n,
  map (fun t => (t_result t, t_persistent t, t_expr t)) (transformations_from n s) = assignments s.
Proof. induction s as [|x s IH]; intro n; simpl; auto. destruct x; simpl; rewrite ?IH; reflexivity. Qed.

Lemma transformations_from_ids : forall s n,
  map t_id (transformations_from n s) = seq n (length (assignments s)).
Proof. induction s as [|x s IH]; intro n; simpl; auto. destruct x; simpl; rewrite ?IH; reflexivity. Qed.

(* items <-> assignments: same number, same order, same result names, persistence and expressions; ids T1..Tn.
   True of the specification and of the implementation alike. *)
Theorem scheme_items_bijective : forall s,
  map (fun t => (t_result t, t_persistent t, t_expr t)) (sc_items (scheme_of_script s)) = assignments s
  /\ map t_id (sc_items (scheme_of_script s)) = seq 1 (length (assignments s)).
Proof. intro s. split; [apply transformations_from_assignments|apply transformations_from_ids]. Qed.

Theorem scheme_items_bijective_impl : forall s,
  map (fun t => (t_result t, t_persistent t, t_expr t)) (sc_items (scheme_of_script_impl s)) = assignments s
  /\ map t_id (sc_items (scheme_of_script_impl s)) = seq 1 (length (assignments s)).
Proof. intro s. split; [apply transformations_from_assignments|apply transformations_from_ids]. Qed.

Lemma map_transformations : forall s n,
  map (fun t => SAssign (t_result t) (t_persistent t) (t_expr t)) (transformations_from n s) = filter is_assign s.
Proof. induction s as [|x s IH]; intro n; simpl; auto. destruct x; simpl; rewrite ?IH; reflexivity. Qed.
Lemma map_rulesets : forall s n,
  map (fun r => SRuleset (r_kind r) (r_name r) (r_text r)) (rulesets_from n s) = filter is_ruleset s.
Proof. induction s as [|x s IH]; intro n; simpl; auto. destruct x; simpl; rewrite ?IH; reflexivity. Qed.
Lemma map_udos : forall s n,
  map (fun u => SOperator (u_name u) (u_text u)) (udos_from n s) = filter is_operator s.
Proof. induction s as [|x s IH]; intro n; simpl; auto. destruct x; simpl; rewrite ?IH; reflexivity. Qed.
Lemma map_virals : forall s,
  map (fun v => SViral (v_name v) (v_text v)) (virals_of s) = filter is_viral s.
Proof. induction s as [|x s IH]; simpl; auto. destruct x; simpl; rewrite ?IH; reflexivity. Qed.

(* spec: the script generated from the scheme is the (sorted) script itself *)
Theorem scheme_preserves_script : forall s, sorted_script s -> script_of_scheme (scheme_of_script s) = s.
Proof.
  intros s Hs. unfold script_of_scheme, scheme_of_script. cbn [sc_items sc_rulesets sc_udos sc_virals].
  rewrite map_virals, map_rulesets, map_udos, map_transformations. symmetry. exact Hs.
Qed.

(* for every script (sorted or not) nothing is lost or invented *)
Lemma partition4 : forall s : script,
  Permutation (filter is_viral s ++ filter is_ruleset s ++ filter is_operator s ++ filter is_assign s) s.
Proof.
  induction s as [|x s IH]; simpl; auto. destruct x; simpl.
  - (* assign *) eapply perm_trans; [|apply perm_skip; exact IH].
    apply Permutation_sym. rewrite !app_assoc. apply Permutation_middle.
  - (* ruleset *) eapply perm_trans; [|apply perm_skip; exact IH].
    apply Permutation_sym. apply Permutation_middle.
  - (* operator *) eapply perm_trans; [|apply perm_skip; exact IH].
    apply Permutation_sym. rewrite !(app_assoc (filter is_viral s) (filter is_ruleset s)). apply Permutation_middle.
  - (* viral *) constructor. exact IH.
Qed.

Theorem scheme_preserves_statements : forall s, Permutation (script_of_scheme (scheme_of_script s)) s.
Proof.
  intro s. unfold script_of_scheme, scheme_of_script. cbn [sc_items sc_rulesets sc_udos sc_virals].
  rewrite map_virals, map_rulesets, map_udos, map_transformations. apply partition4.
Qed.

(* faithful: a `define viral propagation` statement is lost *)
Theorem scheme_preserves_script_impl_refuted : exists s,
  sorted_script s /\ script_of_scheme (scheme_of_script_impl s) <> s
  /\ ~ Permutation (script_of_scheme (scheme_of_script_impl s)) s.
Proof.
  exists [SViral (B "VP1") (B "define viral propagation VP1 (variable VAt_1) is aggregate max end viral propagation;");
          SAssign (B "DS_r") true (B "DS_1[aggr Me_3 := sum(Me_1) group by Id_1]")].
  split; [reflexivity|]. split; [vm_compute; discriminate|].
  intro H. apply Permutation_length in H. vm_compute in H. discriminate.
Qed.

Theorem scheme_preserves_script_impl_partial : forall s,
  sorted_script s -> filter is_viral s = [] -> script_of_scheme (scheme_of_script_impl s) = s.
Proof.
  intros s Hs Hv. unfold script_of_scheme, scheme_of_script_impl. cbn [sc_items sc_rulesets sc_udos sc_virals].
  rewrite map_rulesets, map_udos, map_transformations. simpl. unfold sorted_script in Hs. rewrite Hv in Hs.
  symmetry. exact Hs.
Qed.
