(* Algebraic laws of the VTL set operators (specification functions of Model/SetOps.v): idempotence, commutativity of
   symdiff up to order, the partition of an operand into intersect and setdiff, union as first operand plus setdiff.
   Proofs only; the statements claimed for C05 are restated in Props/C05.v. *)
From Coq Require Import ZArith String List Bool Permutation.
Import ListNotations.
From VTL Require Import Base.Val Model.Table Model.SetOps Proofs.TableP Proofs.SetOpsP.

Lemma filter_none_In {A} (f : A -> bool) l : (forall x, In x l -> f x = false) -> filter f l = [].
Proof.
  induction l as [|x l IH]; simpl; intros H; [reflexivity|].
  rewrite (H x) by (left; reflexivity). apply IH. intros y Hy. apply H. right. exact Hy.
Qed.

Lemma filter_all_In {A} (f : A -> bool) l : (forall x, In x l -> f x = true) -> filter f l = l.
Proof.
  induction l as [|x l IH]; simpl; intros H; [reflexivity|].
  rewrite (H x) by (left; reflexivity). f_equal. apply IH. intros y Hy. apply H. right. exact Hy.
Qed.

Lemma filter_partition_perm {A} (f : A -> bool) l :
  Permutation l (filter f l ++ filter (fun x => negb (f x)) l).
Proof.
  induction l as [|x l IH]; simpl; [constructor|].
  destruct (f x); simpl.
  - constructor. exact IH.
  - apply Permutation_cons_app. exact IH.
Qed.

Lemma setdiff_self a : setdiff a a = [].
Proof.
  unfold setdiff. apply filter_none_In. intros r Hr. rewrite (has_key_self r a Hr). reflexivity.
Qed.

Lemma symdiff_self a : symdiff a a = [].
Proof. unfold symdiff. rewrite setdiff_self. reflexivity. Qed.

Lemma intersect_self a : intersect [a; a] = a.
Proof.
  rewrite intersect_binary. apply filter_all_In. intros r Hr. apply has_key_self. exact Hr.
Qed.

Lemma union_is_first_plus_setdiff a b : union [a; b] = a ++ setdiff b a.
Proof. rewrite union_binary. reflexivity. Qed.

Lemma union_self a : union [a; a] = a.
Proof. rewrite union_is_first_plus_setdiff, setdiff_self. apply app_nil_r. Qed.

Lemma setdiff_empty_r a : setdiff a [] = a.
Proof. unfold setdiff. apply filter_all_In. intros r _. reflexivity. Qed.

Lemma setdiff_empty_l b : setdiff [] b = [].
Proof. reflexivity. Qed.

Lemma symdiff_comm a b : Permutation (symdiff a b) (symdiff b a).
Proof. unfold symdiff. apply Permutation_app_comm. Qed.

Lemma setdiff_disjoint a b k : has_key k (setdiff a b) = true -> has_key k b = false.
Proof.
  rewrite setdiff_keys. intros H. apply andb_true_iff in H. destruct H as [_ H].
  apply negb_true_iff in H. exact H.
Qed.

(* every datapoint of the first operand is in exactly one of intersect / setdiff *)
Lemma intersect_setdiff_partition a b : Permutation a (intersect [a; b] ++ setdiff a b).
Proof.
  rewrite intersect_binary. unfold setdiff.
  apply (filter_partition_perm (fun r => has_key (fst r) b) a).
Qed.

(* setdiff of a setdiff: removing b twice removes it once *)
Lemma setdiff_idem a b : setdiff (setdiff a b) b = setdiff a b.
Proof.
  unfold setdiff at 1. apply filter_all_In. intros r Hr. apply setdiff_spec in Hr.
  destruct Hr as [_ Hn]. rewrite Hn. reflexivity.
Qed.

(* the union of the two halves of a symdiff with the intersect gives back every key of the union *)
Lemma union_keys_decompose a b k :
  has_key k (union [a; b]) = has_key k (intersect [a; b]) || has_key k (symdiff a b).
Proof.
  rewrite union_keys, symdiff_keys, intersect_binary. simpl.
  assert (Hi : has_key k (filter (fun r => has_key (fst r) b) a) = has_key k a && has_key k b).
  { destruct (has_key k (filter (fun r => has_key (fst r) b) a)) eqn:E.
    - apply has_key_In in E. destruct E as [r [Hr Hk]]. apply filter_In in Hr. destruct Hr as [Hr Hb].
      assert (Ha : has_key k a = true) by (apply has_key_In; exists r; split; assumption).
      rewrite (has_key_congr k (fst r) b Hk), Ha, Hb. reflexivity.
    - destruct (has_key k a) eqn:Ha; [|reflexivity]. destruct (has_key k b) eqn:Hb; [|reflexivity].
      apply has_key_In in Ha. destruct Ha as [r [Hr Hk]].
      assert (X : has_key k (filter (fun r => has_key (fst r) b) a) = true).
      { apply has_key_In. exists r. split; [|exact Hk]. apply filter_In. split; [exact Hr|].
        rewrite <- (has_key_congr k (fst r) b Hk). exact Hb. }
      congruence. }
  rewrite Hi. destruct (has_key k a), (has_key k b); reflexivity.
Qed.

(* n-ary idempotence: any number of copies of one operand *)
Lemma union_repeat a n : union (a :: repeat a n) = a.
Proof.
  rewrite union_left_nested. induction n as [|n IH]; cbn [repeat fold_left]; [reflexivity|].
  rewrite union_self. exact IH.
Qed.

Lemma intersect_repeat a n : intersect (a :: repeat a n) = a.
Proof.
  rewrite intersect_left_nested. induction n as [|n IH]; cbn [repeat fold_left]; [reflexivity|].
  rewrite intersect_self. exact IH.
Qed.

(* an empty operand: neutral for union, absorbing for intersect *)
Lemma union_nil_r a : union [a; []] = a.
Proof. rewrite union_is_first_plus_setdiff. apply app_nil_r. Qed.

Lemma union_nil_l a : union [[]; a] = a.
Proof. rewrite union_is_first_plus_setdiff. cbn [app]. apply setdiff_empty_r. Qed.

Lemma intersect_nil_r a : intersect [a; []] = [].
Proof. rewrite intersect_binary. apply filter_none_In. intros r _. reflexivity. Qed.
