From Coq Require Import ZArith QArith String List Bool Permutation.
Import ListNotations.
From VTL Require Import Base.Val Model.Table.

(* ---------- val_eqb / key_eqb are equivalences *)
Lemma val_eqb_refl v : val_eqb v v = true.
Proof.
  destruct v; simpl; auto using Z.eqb_refl, String.eqb_refl, Bool.eqb_reflx.
  unfold q_eqb. apply Qeq_bool_iff. reflexivity.
Qed.

Lemma val_eqb_sym a b : val_eqb a b = val_eqb b a.
Proof.
  destruct a, b; simpl; auto using Z.eqb_sym, String.eqb_sym.
  - unfold q_eqb. destruct (Qeq_bool q q0) eqn:E1, (Qeq_bool q0 q) eqn:E2; auto.
    + apply Qeq_bool_iff in E1. symmetry in E1. apply Qeq_bool_iff in E1. congruence.
    + apply Qeq_bool_iff in E2. symmetry in E2. apply Qeq_bool_iff in E2. congruence.
  - destruct b, b0; reflexivity.
Qed.

Lemma val_eqb_trans a b c : val_eqb a b = true -> val_eqb b c = true -> val_eqb a c = true.
Proof.
  destruct a, b, c; simpl; try discriminate; auto.
  - rewrite !Z.eqb_eq. congruence.
  - unfold q_eqb. rewrite !Qeq_bool_iff. intros H1 H2. rewrite H1. exact H2.
  - rewrite !String.eqb_eq. congruence.
  - destruct b, b0, b1; simpl; auto.
Qed.

Lemma key_eqb_refl k : key_eqb k k = true.
Proof. induction k as [|v k IH]; simpl; [reflexivity|]. rewrite val_eqb_refl, IH. reflexivity. Qed.

Lemma key_eqb_sym a b : key_eqb a b = key_eqb b a.
Proof.
  revert b. induction a as [|x a IH]; destruct b as [|y b]; simpl; auto.
  rewrite val_eqb_sym, IH. reflexivity.
Qed.

Lemma key_eqb_trans a b c : key_eqb a b = true -> key_eqb b c = true -> key_eqb a c = true.
Proof.
  revert b c. induction a as [|x a IH]; destruct b as [|y b], c as [|z c]; simpl; try discriminate; auto.
  rewrite !andb_true_iff. intros [H1 H2] [H3 H4]. split; [eapply val_eqb_trans; eauto | eapply IH; eauto].
Qed.

Lemma key_eqb_congr a b c : key_eqb a b = true -> key_eqb a c = key_eqb b c.
Proof.
  intros H. destruct (key_eqb a c) eqn:E1, (key_eqb b c) eqn:E2; auto.
  - rewrite key_eqb_sym in H. rewrite (key_eqb_trans _ _ _ H E1) in E2. discriminate.
  - rewrite (key_eqb_trans _ _ _ H E2) in E1. discriminate.
Qed.

(* ---------- has_key *)
Lemma has_key_In k rows : has_key k rows = true <-> exists r, In r rows /\ key_eqb k (fst r) = true.
Proof. unfold has_key. apply existsb_exists. Qed.

Lemma has_key_false k rows : has_key k rows = false <-> forall r, In r rows -> key_eqb k (fst r) = false.
Proof.
  split.
  - intros H r Hr. destruct (key_eqb k (fst r)) eqn:E; auto.
    assert (has_key k rows = true) by (apply has_key_In; eauto). congruence.
  - intros H. destruct (has_key k rows) eqn:E; auto.
    apply has_key_In in E. destruct E as [r [Hr He]]. rewrite (H r Hr) in He. discriminate.
Qed.

Lemma has_key_congr k k' rows : key_eqb k k' = true -> has_key k rows = has_key k' rows.
Proof.
  intros H. unfold has_key. induction rows as [|r t IH]; simpl; auto.
  rewrite IH, (key_eqb_congr _ _ _ H). reflexivity.
Qed.

Lemma has_key_app k a b : has_key k (a ++ b) = has_key k a || has_key k b.
Proof. unfold has_key. apply existsb_app. Qed.

Lemma has_key_self r rows : In r rows -> has_key (fst r) rows = true.
Proof. intros H. apply has_key_In. exists r. split; [exact H | apply key_eqb_refl]. Qed.

Lemma has_key_filter k f rows :
  has_key k (filter f rows) = true -> has_key k rows = true.
Proof.
  rewrite !has_key_In. intros [r [Hr He]]. apply filter_In in Hr. exists r. tauto.
Qed.

Lemma has_key_perm k a b : Permutation a b -> has_key k a = has_key k b.
Proof.
  intros P. induction P; simpl; auto.
  - rewrite IHP. reflexivity.
  - unfold has_key; simpl. rewrite !orb_assoc. f_equal. apply orb_comm.
  - congruence.
Qed.

(* ---------- uniq_keys *)
Lemma uniq_keys_perm a b : Permutation a b -> uniq_keys a = uniq_keys b.
Proof.
  intros P. induction P as [|x l l' P IH|x y l|l1 l2 l3 P1 IH1 P2 IH2].
  - reflexivity.
  - cbn [uniq_keys]. rewrite IH, (has_key_perm _ _ _ P). reflexivity.
  - cbn [uniq_keys]. unfold has_key. cbn [existsb].
    rewrite (key_eqb_sym (fst y) (fst x)).
    destruct (key_eqb (fst x) (fst y)); cbn [orb negb andb]; auto.
    destruct (existsb (fun r => key_eqb (fst y) (fst r)) l), (existsb (fun r => key_eqb (fst x) (fst r)) l), (uniq_keys l); reflexivity.
  - congruence.
Qed.

Lemma uniq_keys_filter f rows : uniq_keys rows = true -> uniq_keys (filter f rows) = true.
Proof.
  induction rows as [|r t IH]; simpl; auto.
  rewrite andb_true_iff. intros [H1 H2]. destruct (f r); simpl; auto.
  rewrite IH by exact H2. rewrite andb_true_r.
  destruct (has_key (fst r) (filter f t)) eqn:E; auto.
  apply has_key_filter in E. rewrite E in H1. discriminate.
Qed.

Lemma uniq_keys_app a b :
  uniq_keys (a ++ b) = uniq_keys a && uniq_keys b && forallb (fun r => negb (has_key (fst r) b)) a.
Proof.
  induction a as [|r t IH]; simpl.
  - rewrite andb_true_r. reflexivity.
  - rewrite IH, has_key_app.
    destruct (has_key (fst r) t), (has_key (fst r) b), (uniq_keys t), (uniq_keys b); simpl; auto.
Qed.

(* two rows of a well-formed table with the same key are the same row *)
Lemma uniq_keys_same_row rows r1 r2 :
  uniq_keys rows = true -> In r1 rows -> In r2 rows -> key_eqb (fst r1) (fst r2) = true -> r1 = r2.
Proof.
  induction rows as [|r t IH]; simpl; [tauto|].
  rewrite andb_true_iff, negb_true_iff. intros [Hn Hu] [H1|H1] [H2|H2] He; subst; auto.
  - exfalso. assert (has_key (fst r1) t = true) by (apply has_key_In; eauto). congruence.
  - exfalso. rewrite key_eqb_sym in He. assert (has_key (fst r2) t = true) by (apply has_key_In; eauto). congruence.
Qed.

(* ---------- Permutation toolkit *)
Lemma Permutation_filter {A} (f : A -> bool) a b : Permutation a b -> Permutation (filter f a) (filter f b).
Proof.
  intros P. induction P; simpl; auto.
  - destruct (f x); auto.
  - destruct (f x), (f y); auto. apply perm_swap.
  - eapply perm_trans; eauto.
Qed.

Lemma filter_ext_perm {A} (f g : A -> bool) a b :
  (forall x, f x = g x) -> Permutation a b -> Permutation (filter f a) (filter g b).
Proof.
  intros H P. rewrite (filter_ext f g H). apply Permutation_filter. exact P.
Qed.
