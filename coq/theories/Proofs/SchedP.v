(* Lemmas about Model/Sched.v: the schedule computed by _ds_usage_analysis, replayed by execute_queries' loop against the abstract
   table store, is safe for every topologically sorted statement list with unique outputs (any length; induction over the list). *)
From Coq Require Import List Bool Arith PeanoNat Permutation Lia.
Import ListNotations.
From VTL Require Import Model.Dag Model.Sched Proofs.DagP Proofs.Ptaut.

(* ---------------------------------------------------------------- lists *)
Lemma NoDup_app_intro : forall (l1 l2 : list name),
  NoDup l1 -> NoDup l2 -> (forall x, In x l1 -> ~ In x l2) -> NoDup (l1 ++ l2).
Proof.
  induction l1 as [|a l1 IH]; intros l2 H1 H2 Hd; [exact H2|].
  apply NoDup_cons_iff in H1. destruct H1 as [Ha H1]. simpl. constructor.
  - rewrite in_app_iff. intros [Hin|Hin]; [exact (Ha Hin) | exact (Hd a (or_introl eq_refl) Hin)].
  - apply IH; [exact H1 | exact H2 | intros x Hx; apply Hd; right; exact Hx].
Qed.

Lemma NoDup_app_disjoint : forall (l1 l2 : list name) x, NoDup (l1 ++ l2) -> In x l1 -> ~ In x l2.
Proof.
  induction l1 as [|a l1 IH]; intros l2 x Hn H1 H2; [destruct H1|].
  simpl in Hn. apply NoDup_cons_iff in Hn. destruct Hn as [Ha Hn].
  destruct H1 as [<-|H1]; [apply Ha; apply in_app_iff; right; exact H2 | exact (IH l2 x Hn H1 H2)].
Qed.

Lemma NoDup_app_r : forall (l1 l2 : list name), NoDup (l1 ++ l2) -> NoDup l2.
Proof.
  induction l1 as [|a l1 IH]; intros l2 H; [exact H|].
  simpl in H. apply NoDup_cons_iff in H. exact (IH l2 (proj2 H)).
Qed.

Lemma NoDup_app_l : forall (l1 l2 : list name), NoDup (l1 ++ l2) -> NoDup l1.
Proof.
  induction l1 as [|a l1 IH]; intros l2 H; [constructor|].
  simpl in H. apply NoDup_cons_iff in H. destruct H as [Ha H]. constructor.
  - intro Hin. apply Ha. apply in_app_iff. left. exact Hin.
  - exact (IH l2 H).
Qed.

Lemma NoDup_sub_app : forall (l1 l2 m1 m2 : list name), NoDup (l1 ++ l2) ->
  NoDup m1 -> incl m1 l1 -> NoDup m2 -> incl m2 l2 -> NoDup (m1 ++ m2) /\ incl (m1 ++ m2) (l1 ++ l2).
Proof.
  intros l1 l2 m1 m2 Hn N1 I1 N2 I2. split.
  - apply NoDup_app_intro; [exact N1 | exact N2|].
    intros x H1 H2. exact (NoDup_app_disjoint l1 l2 x Hn (I1 x H1) (I2 x H2)).
  - intros x Hx. apply in_app_iff in Hx. apply in_app_iff. destruct Hx as [Hx|Hx]; [left; exact (I1 x Hx) | right; exact (I2 x Hx)].
Qed.

Lemma filter_sub : forall (f : name -> bool) l, NoDup l -> NoDup (filter f l) /\ incl (filter f l) l.
Proof.
  intros f l Hn. split; [apply NoDup_filter; exact Hn|]. intros x Hx. apply filter_In in Hx. exact (proj1 Hx).
Qed.

Lemma remove_In : forall x y (l : list name), In x (remove Nat.eq_dec y l) <-> In x l /\ x <> y.
Proof.
  intros x y l. split; [apply in_remove|]. intros [H1 H2]. apply in_in_remove; assumption.
Qed.

Lemma reads_app : forall l1 l2, reads (l1 ++ l2) = reads l1 ++ reads l2.
Proof. intros. unfold reads. apply flat_map_app. Qed.

Lemma in_reads : forall l x, In x (reads l) <-> exists s, In s l /\ In x (s_deps s).
Proof. intros. unfold reads. apply in_flat_map. Qed.

Lemma unique_out : forall l s1 s2, NoDup (outs l) -> In s1 l -> In s2 l -> s_out s1 = s_out s2 -> s1 = s2.
Proof.
  induction l as [|a l IH]; intros s1 s2 Hn H1 H2 E; [destruct H1|].
  change (outs (a :: l)) with (s_out a :: outs l) in Hn. apply NoDup_cons_iff in Hn. destruct Hn as [Ha Hn].
  destruct H1 as [<-|H1]; destruct H2 as [<-|H2].
  - reflexivity.
  - exfalso. apply Ha. rewrite E. apply in_outs. exact H2.
  - exfalso. apply Ha. rewrite <- E. apply in_outs. exact H1.
  - exact (IH s1 s2 Hn H1 H2 E).
Qed.

(* in a topologically sorted list nothing read by an earlier statement is assigned later *)
Lemma topo_reads_before : forall pre post x, topo_sorted (pre ++ post) -> In x (reads pre) -> ~ In x (outs post).
Proof.
  induction pre as [|a pre IH]; intros post x HT Hx; [destruct Hx|].
  rewrite <- app_comm_cons in HT. destruct HT as [Ha HT].
  change (reads (a :: pre)) with (s_deps a ++ reads pre) in Hx. apply in_app_iff in Hx.
  destruct Hx as [Hx|Hx].
  - intro Hin. apply (Ha x Hx). change (outs (a :: pre ++ post)) with (s_out a :: outs (pre ++ post)).
    right. rewrite outs_app. apply in_app_iff. right. exact Hin.
  - exact (IH post x HT Hx).
Qed.

(* ---------------------------------------------------------------- fresh *)
Lemma fresh_In : forall l seen x, In x (fresh seen l) <-> In x l /\ ~ In x seen.
Proof.
  induction l as [|a l IH]; intros seen x.
  - simpl. tauto.
  - cbn [fresh]. destruct (memb a seen) eqn:M.
    + apply memb_In in M. rewrite IH. simpl. split.
      * intros [H1 H2]. split; [right; exact H1 | exact H2].
      * intros [[<-|H1] H2]; [exfalso; exact (H2 M) | split; assumption].
    + apply memb_false in M. simpl. rewrite IH. simpl. split.
      * intros [<-|[H1 H2]]; [split; [left; reflexivity | exact M] | split; [right; exact H1 | tauto]].
      * intros [[<-|H1] H2]; [left; reflexivity|].
        destruct (Nat.eq_dec a x) as [E|E]; [left; exact E | right; split; [exact H1 | tauto]].
Qed.

Lemma fresh_NoDup : forall l seen, NoDup (fresh seen l).
Proof.
  induction l as [|a l IH]; intros seen; [constructor|].
  cbn [fresh]. destruct (memb a seen); [apply IH|].
  constructor; [|apply IH]. rewrite fresh_In. intros [_ H]. apply H. left. reflexivity.
Qed.

Lemma global_inputs_In : forall all x, In x (global_inputs all) <-> In x (reads all) /\ ~ In x (outs all).
Proof. intros. unfold global_inputs. apply fresh_In. Qed.

Lemma ins_at_In : forall all pre s x,
  In x (ins_at all pre s) <-> In x (s_deps s) /\ ~ In x (outs all) /\ ~ In x (reads pre).
Proof. intros. unfold ins_at. rewrite fresh_In, in_app_iff. tauto. Qed.

Lemma persistent_of_In : forall all x,
  In x (persistent_of all) <-> exists s, In s all /\ s_pers s = true /\ s_out s = x.
Proof.
  intros. unfold persistent_of. rewrite fresh_In. unfold outs. rewrite in_map_iff. split.
  - intros [[s [E Hs]] _]. apply filter_In in Hs. exists s. tauto.
  - intros [s [H1 [H2 H3]]]. split; [|intros []]. exists s. split; [exact H3|]. apply filter_In. tauto.
Qed.

Lemma last_here_spec : forall s post x, last_here s post x = true <-> In x (s_deps s) /\ ~ In x (reads post).
Proof.
  intros. unfold last_here. rewrite andb_true_iff, negb_true_iff, memb_In, memb_false. reflexivity.
Qed.

Lemma del_at_In : forall all pre s post x,
  In x (del_at all pre s post) <->
  (last_here s post x = true /\ (In x (outs pre) \/ In x (outs post) \/ In x (global_inputs all)))
  \/ (x = s_out s /\ (last_here s post x = true \/ ~ In x (reads all))).
Proof.
  intros all pre s post x. unfold del_at. rewrite !in_app_iff, !filter_In.
  assert (Hmid : In x (if last_here s post (s_out s) || negb (memb (s_out s) (reads all)) then [s_out s] else [])
                 <-> x = s_out s /\ (last_here s post x = true \/ ~ In x (reads all))).
  { destruct (last_here s post (s_out s) || negb (memb (s_out s) (reads all))) eqn:C.
    - apply orb_true_iff in C. rewrite negb_true_iff, memb_false in C. simpl. split.
      + intros [E|[]]. subst x. split; [reflexivity | exact C].
      + intros [E _]. left. symmetry. exact E.
    - apply orb_false_iff in C. destruct C as [C1 C2]. rewrite negb_false_iff, memb_In in C2. simpl. split.
      + intros [].
      + intros [E [H|H]]; subst x; [congruence | exact (H C2)]. }
  rewrite Hmid. tauto.
Qed.

(* ---------------------------------------------------------------- projections of histories *)
Lemma loads_app : forall a b, loads (a ++ b) = loads a ++ loads b.
Proof. intros. unfold loads. apply flat_map_app. Qed.
Lemma execs_app : forall a b, execs (a ++ b) = execs a ++ execs b.
Proof. intros. unfold execs. apply flat_map_app. Qed.
Lemma releases_app : forall a b, releases (a ++ b) = releases a ++ releases b.
Proof. intros. unfold releases. apply flat_map_app. Qed.
Lemma fetched_app : forall a b, fetched (a ++ b) = fetched a ++ fetched b.
Proof. intros. unfold fetched. apply flat_map_app. Qed.

Lemma loads_map_Load : forall L, loads (map Load L) = L.
Proof. induction L as [|a L IH]; [reflexivity|]. simpl. f_equal. exact IH. Qed.
Lemma execs_map_Load : forall L, execs (map Load L) = [].
Proof. induction L as [|a L IH]; [reflexivity|]. simpl. exact IH. Qed.
Lemma releases_map_Load : forall L, releases (map Load L) = [].
Proof. induction L as [|a L IH]; [reflexivity|]. simpl. exact IH. Qed.
Lemma fetched_map_Load : forall L, fetched (map Load L) = [].
Proof. induction L as [|a L IH]; [reflexivity|]. simpl. exact IH. Qed.

Lemma store_of_app : forall h1 h2 st, store_of (h1 ++ h2) st = store_of h2 (store_of h1 st).
Proof. intros. unfold store_of. apply fold_left_app. Qed.

Lemma store_loads : forall L st x, In x (store_of (map Load L) st) <-> In x L \/ In x st.
Proof.
  induction L as [|a L IH]; intros st x.
  - simpl. tauto.
  - cbn [map]. change (store_of (Load a :: map Load L) st) with (store_of (map Load L) (a :: st)).
    rewrite IH. simpl. tauto.
Qed.

(* ---------------------------------------------------------------- hist_all *)
Lemma hist_all_app : forall P a b st,
  hist_all P st (a ++ b) <-> hist_all (fun st e f => P st e (f ++ b)) st a /\ hist_all P (store_of a st) b.
Proof.
  intros P a b. induction a as [|e a IH]; intros st.
  - simpl. tauto.
  - cbn [app hist_all]. change (store_of (e :: a) st) with (store_of a (apply_event st e)).
    rewrite IH. tauto.
Qed.

Lemma hist_all_split : forall P h st,
  hist_all P st h <-> (forall h1 e h2, h = h1 ++ e :: h2 -> P (store_of h1 st) e h2).
Proof.
  intros P. induction h as [|e0 h IH]; intros st.
  - simpl. split; [intros _ h1 e h2 E; destruct h1; discriminate | auto].
  - cbn [hist_all]. rewrite IH. split.
    + intros [H0 H] h1 e h2 E. destruct h1 as [|e1 h1].
      * simpl in E. inversion E; subst. exact H0.
      * simpl in E. inversion E; subst. exact (H h1 e h2 eq_refl).
    + intros H. split.
      * exact (H [] e0 h eq_refl).
      * intros h1 e h2 E. subst h. exact (H (e0 :: h1) e h2 eq_refl).
Qed.

Lemma hist_all_loads : forall (Q : list name -> event -> list event -> Prop) L st,
  (forall x st f, ~ In x st -> Q st (Load x) f) ->
  NoDup L -> (forall x, In x L -> ~ In x st) -> hist_all Q st (map Load L).
Proof.
  intros Q. induction L as [|a L IH]; intros st HQ Hn Hd; [exact I|].
  apply NoDup_cons_iff in Hn. destruct Hn as [Ha Hn]. cbn [map hist_all]. split.
  - apply HQ. apply Hd. left. reflexivity.
  - apply IH; [exact HQ | exact Hn|]. intros x Hx [E|Hin].
    + subst x. exact (Ha Hx).
    + exact (Hd x (or_intror Hx) Hin).
Qed.

(* Propositional closing tactic for goals over the seven atoms of a position (see pos_facts), by the reflective checker of
   Proofs/Ptaut.v (plain tauto on these goals takes minutes).  The decidability facts D1..D7 must be in the context. *)
Ltac pos_solve x pre s post tabled F5 F6 F7 F8 :=
  revert F5 F6 F7 F8;
  ptaut_solve (In x (outs pre) :: (x = s_out s) :: In x (outs post) :: In x (reads pre) :: In x (s_deps s)
               :: In x (reads post) :: (tabled x = true) :: @nil Prop).

(* ================================================================ the schedule is safe *)
Section Safe.
  Variable all : list stmt.
  Variable tabled : name -> bool.
  Variable rop : bool.
  Hypothesis unique_outputs : NoDup (outs all).
  Hypothesis sorted : topo_sorted all.

  Local Notation cleanup := (cleanup all rop).
  Local Notation selected := (selected all rop).
  Local Notation block := (block all tabled rop).
  Local Notation replay_go := (replay_go all tabled rop).
  Local Notation replay := (replay all tabled rop).

  (* a name that needs a table when a statement reads it: results of other statements, and inputs that have a dataset structure *)
  Definition needs_table (d : name) : Prop := In d (outs all) \/ tabled d = true.

  Definition safe_event (st : list name) (e : event) (fut : list event) : Prop :=
    match e with
    | Load x => ~ In x st
    | Exec _ n => forall s, In s all -> s_out s = n -> forall d, In d (s_deps s) -> needs_table d -> In d st
    | Fetch x => In x st
    | Release x => forall n, In n (execs fut) -> forall s, In s all -> s_out s = n -> ~ In x (s_deps s)
    end.

  (* the store between statements: results and loaded inputs of the statements done that a statement still to run reads *)
  Definition store_inv (pre post : list stmt) (st : list name) : Prop :=
    forall x, In x st <->
      (In x (outs pre) \/ (In x (reads pre) /\ ~ In x (outs all) /\ tabled x = true)) /\ In x (reads post).

  (* ---- facts about one position all = pre ++ s :: post, per name x *)
  Section Position.
    Variables (pre : list stmt) (s : stmt) (post : list stmt).
    Hypothesis Hall : all = pre ++ s :: post.

    Lemma pos_outs : forall x, In x (outs all) <-> In x (outs pre) \/ x = s_out s \/ In x (outs post).
    Proof.
      intros x. rewrite Hall, outs_app, in_app_iff. change (outs (s :: post)) with (s_out s :: outs post). simpl.
      split; intros [H|[H|H]]; auto.
    Qed.

    Lemma pos_reads : forall x, In x (reads all) <-> In x (reads pre) \/ In x (s_deps s) \/ In x (reads post).
    Proof.
      intros x. rewrite Hall, reads_app, in_app_iff. change (reads (s :: post)) with (s_deps s ++ reads post).
      rewrite in_app_iff. reflexivity.
    Qed.

    Lemma pos_deps_not_later : forall x, In x (s_deps s) -> x <> s_out s /\ ~ In x (outs post).
    Proof.
      intros x Hx. pose proof sorted as HT. rewrite Hall in HT. apply topo_sorted_suffix in HT. destruct HT as [Hs _].
      specialize (Hs x Hx). change (outs (s :: post)) with (s_out s :: outs post) in Hs. simpl in Hs.
      split; intro H; apply Hs; [left; symmetry; exact H | right; exact H].
    Qed.

    Lemma pos_reads_pre_not_later : forall x, In x (reads pre) -> x <> s_out s /\ ~ In x (outs post).
    Proof.
      intros x Hx. pose proof sorted as HT. rewrite Hall in HT.
      pose proof (topo_reads_before pre (s :: post) x HT Hx) as Hn.
      change (outs (s :: post)) with (s_out s :: outs post) in Hn. simpl in Hn.
      split; intro H; apply Hn; [left; symmetry; exact H | right; exact H].
    Qed.

    Lemma pos_out_unique : ~ In (s_out s) (outs pre) /\ ~ In (s_out s) (outs post).
    Proof.
      pose proof unique_outputs as Hn. rewrite Hall, outs_app in Hn.
      change (outs (s :: post)) with (s_out s :: outs post) in Hn. split.
      - intro H. apply (NoDup_app_disjoint _ _ _ Hn H). left. reflexivity.
      - apply NoDup_app_r in Hn. apply NoDup_cons_iff in Hn. exact (proj1 Hn).
    Qed.

    Lemma pos_outs_pre_post_disjoint : forall x, In x (outs pre) -> ~ In x (outs post).
    Proof.
      intros x H1 H2. pose proof unique_outputs as Hn. rewrite Hall, outs_app in Hn.
      apply (NoDup_app_disjoint _ _ _ Hn H1). change (outs (s :: post)) with (s_out s :: outs post). right. exact H2.
    Qed.

    Lemma pos_in_post : forall s0, In s0 all -> In (s_out s0) (outs post) -> In s0 post.
    Proof.
      intros s0 H0 Ho. unfold outs in Ho. apply in_map_iff in Ho. destruct Ho as [s1 [E H1]].
      assert (H1all : In s1 all) by (rewrite Hall; apply in_app_iff; right; right; exact H1).
      rewrite (unique_out all s0 s1 unique_outputs H0 H1all (eq_sym E)). exact H1.
    Qed.

    Lemma pos_split_next : all = (pre ++ [s]) ++ post.
    Proof. rewrite Hall, <- app_assoc. reflexivity. Qed.

    Lemma pos_outs_next : forall x, In x (outs (pre ++ [s])) <-> In x (outs pre) \/ x = s_out s.
    Proof. intros x. rewrite outs_app, in_app_iff. simpl. split; intros [H|H]; auto; destruct H as [H|[]]; auto. Qed.

    Lemma pos_reads_next : forall x, In x (reads (pre ++ [s])) <-> In x (reads pre) \/ In x (s_deps s).
    Proof.
      intros x. rewrite reads_app, in_app_iff. change (reads [s]) with (s_deps s ++ []). rewrite app_nil_r. reflexivity.
    Qed.

    (* everything known about a name x at this position, as propositional facts (then the goals are propositional) *)
    Lemma pos_facts : forall x,
      (In x (outs all) <-> In x (outs pre) \/ x = s_out s \/ In x (outs post)) /\
      (In x (reads all) <-> In x (reads pre) \/ In x (s_deps s) \/ In x (reads post)) /\
      (In x (global_inputs all) <-> In x (reads all) /\ ~ In x (outs all)) /\
      (last_here s post x = true <-> In x (s_deps s) /\ ~ In x (reads post)) /\
      (In x (s_deps s) -> x <> s_out s /\ ~ In x (outs post)) /\
      (In x (reads pre) -> x <> s_out s /\ ~ In x (outs post)) /\
      (x = s_out s -> ~ In x (outs pre) /\ ~ In x (outs post)) /\
      (In x (outs pre) -> ~ In x (outs post)) /\
      (In x (outs (pre ++ [s])) <-> In x (outs pre) \/ x = s_out s) /\
      (In x (reads (pre ++ [s])) <-> In x (reads pre) \/ In x (s_deps s)) /\
      (In x (reads post) \/ ~ In x (reads post)) /\ (In x (s_deps s) \/ ~ In x (s_deps s)) /\
      (In x (reads pre) \/ ~ In x (reads pre)) /\ (In x (outs pre) \/ ~ In x (outs pre)) /\
      (In x (outs post) \/ ~ In x (outs post)) /\ (x = s_out s \/ x <> s_out s) /\
      (tabled x = true \/ tabled x <> true).
    Proof.
      intros x.
      split; [exact (pos_outs x)|]. split; [exact (pos_reads x)|]. split; [exact (global_inputs_In all x)|].
      split; [exact (last_here_spec s post x)|]. split; [exact (pos_deps_not_later x)|].
      split; [exact (pos_reads_pre_not_later x)|].
      split; [intro H; subst x; exact pos_out_unique|]. split; [exact (pos_outs_pre_post_disjoint x)|].
      split; [exact (pos_outs_next x)|]. split; [exact (pos_reads_next x)|].
      split; [destruct (in_dec Nat.eq_dec x (reads post)); tauto|].
      split; [destruct (in_dec Nat.eq_dec x (s_deps s)); tauto|].
      split; [destruct (in_dec Nat.eq_dec x (reads pre)); tauto|].
      split; [destruct (in_dec Nat.eq_dec x (outs pre)); tauto|].
      split; [destruct (in_dec Nat.eq_dec x (outs post)); tauto|].
      split; [destruct (Nat.eq_dec x (s_out s)); tauto|].
      destruct (tabled x); [left; reflexivity | right; discriminate].
    Qed.
  End Position.

  (* ---- effect of one statement's block on the store *)
  Lemma store_of_cons : forall e h st, store_of (e :: h) st = store_of h (apply_event st e).
  Proof. reflexivity. Qed.

  Lemma store_cleanup : forall D st x, In x (store_of (flat_map cleanup D) st) <-> In x st /\ ~ In x D.
  Proof.
    induction D as [|a D IH]; intros st x.
    - simpl. tauto.
    - cbn [flat_map]. rewrite store_of_app.
      assert (E : store_of (cleanup a) st = remove Nat.eq_dec a st).
      { unfold Sched.cleanup. destruct (selected a); reflexivity. }
      rewrite IH, E, remove_In. simpl. split.
      + intros [[H1 H2] H3]. split; [exact H1|]. intros [H|H]; [apply H2; symmetry; exact H | exact (H3 H)].
      + intros [H1 H2]. split; [split; [exact H1|]|].
        * intro E'. apply H2. left. symmetry. exact E'.
        * intro H. apply H2. right. exact H.
  Qed.

  Lemma block_store_In : forall pre s post k st x,
    In x (store_of (block pre s post k) st) <->
    (In x (filter tabled (ins_at all pre s)) \/ x = s_out s \/ In x st) /\ ~ In x (del_at all pre s post).
  Proof.
    intros. unfold Sched.block. rewrite store_of_app, store_of_cons. cbn [apply_event].
    rewrite store_cleanup. cbn [In]. rewrite store_loads.
    assert (Heq : s_out s = x <-> x = s_out s) by (split; intro; symmetry; assumption).
    rewrite Heq. tauto.
  Qed.

  Lemma block_inv : forall pre s post k st, all = pre ++ s :: post ->
    store_inv pre (s :: post) st -> store_inv (pre ++ [s]) post (store_of (block pre s post k) st).
  Proof.
    intros pre s post k st Hall Hinv x. rewrite block_store_In, filter_In, ins_at_In, del_at_In.
    pose proof (Hinv x) as Hst. change (reads (s :: post)) with (s_deps s ++ reads post) in Hst. rewrite in_app_iff in Hst.
    destruct (pos_facts pre s post Hall x) as (F1 & F2 & F3 & F4 & F5 & F6 & F7 & F8 & F9 & F10 & D1 & D2 & D3 & D4 & D5 & D6 & D7).
    rewrite F9, F10, F3, F4, Hst, F2, F1. clear Hst Hinv F1 F2 F3 F4 F9 F10.
    pos_solve x pre s post tabled F5 F6 F7 F8.
  Qed.

  Lemma del_at_NoDup : forall pre s post, all = pre ++ s :: post -> NoDup (del_at all pre s post).
  Proof.
    intros pre s post Hall.
    assert (B1 : NoDup (outs pre ++ [s_out s] ++ outs post ++ global_inputs all)).
    { assert (H : NoDup (outs all ++ global_inputs all)).
      { apply NoDup_app_intro; [exact unique_outputs | apply fresh_NoDup|].
        intros x H1 H2. apply global_inputs_In in H2. tauto. }
      replace (outs all) with (outs pre ++ [s_out s] ++ outs post) in H by (rewrite Hall, outs_app; reflexivity).
      rewrite <- !app_assoc in H. exact H. }
    pose proof (NoDup_app_r _ _ B1) as B2. pose proof (NoDup_app_r _ _ B2) as B3.
    unfold del_at. set (f := last_here s post).
    set (M := if f (s_out s) || negb (memb (s_out s) (reads all)) then [s_out s] else []).
    assert (HM : NoDup M /\ incl M [s_out s]).
    { unfold M. destruct (f (s_out s) || negb (memb (s_out s) (reads all))).
      - split; [exact (NoDup_app_l _ _ B2) | apply incl_refl].
      - split; [constructor | intros x []]. }
    destruct (filter_sub f (outs post) (NoDup_app_l _ _ B3)) as [Nq Iq].
    destruct (filter_sub f (global_inputs all) (NoDup_app_r _ _ B3)) as [Ng Ig].
    destruct (filter_sub f (outs pre) (NoDup_app_l _ _ B1)) as [Np Ip].
    destruct (NoDup_sub_app _ _ _ _ B3 Nq Iq Ng Ig) as [N3 I3].
    destruct (NoDup_sub_app _ _ _ _ B2 (proj1 HM) (proj2 HM) N3 I3) as [N2 I2].
    exact (proj1 (NoDup_sub_app _ _ _ _ B1 Np Ip N2 I2)).
  Qed.

  (* ---- projections *)
  Lemma cleanup_projections : forall D,
    loads (flat_map cleanup D) = [] /\ execs (flat_map cleanup D) = [] /\
    releases (flat_map cleanup D) = D /\ fetched (flat_map cleanup D) = filter selected D.
  Proof.
    induction D as [|a D [I1 [I2 [I3 I4]]]]; [repeat split; reflexivity|].
    cbn [flat_map]. rewrite loads_app, execs_app, releases_app, fetched_app, I1, I2, I3, I4.
    cbn [filter]. unfold Sched.cleanup. destruct (selected a); repeat split; reflexivity.
  Qed.

  Lemma block_projections : forall pre s post k,
    loads (block pre s post k) = filter tabled (ins_at all pre s) /\ execs (block pre s post k) = [s_out s] /\
    releases (block pre s post k) = del_at all pre s post /\
    fetched (block pre s post k) = filter selected (del_at all pre s post).
  Proof.
    intros. unfold Sched.block. destruct (cleanup_projections (del_at all pre s post)) as [C1 [C2 [C3 C4]]].
    rewrite loads_app, execs_app, releases_app, fetched_app.
    rewrite loads_map_Load, execs_map_Load, releases_map_Load, fetched_map_Load.
    change (loads (Exec k (s_out s) :: ?h)) with (loads h).
    repeat split.
    - change (loads (Exec k (s_out s) :: flat_map cleanup (del_at all pre s post))) with (loads (flat_map cleanup (del_at all pre s post))).
      rewrite C1. apply app_nil_r.
    - change (execs (Exec k (s_out s) :: flat_map cleanup (del_at all pre s post))) with (s_out s :: execs (flat_map cleanup (del_at all pre s post))).
      rewrite C2. reflexivity.
    - change (releases (Exec k (s_out s) :: flat_map cleanup (del_at all pre s post))) with (releases (flat_map cleanup (del_at all pre s post))).
      rewrite C3. reflexivity.
    - change (fetched (Exec k (s_out s) :: flat_map cleanup (del_at all pre s post))) with (fetched (flat_map cleanup (del_at all pre s post))).
      rewrite C4. reflexivity.
  Qed.

  Lemma execs_replay_go : forall post pre k, execs (replay_go pre post k) = outs post.
  Proof.
    induction post as [|s r IH]; intros pre k; [reflexivity|].
    cbn [Sched.replay_go]. rewrite execs_app, (proj1 (proj2 (block_projections pre s r k))), IH. reflexivity.
  Qed.

  Lemma releases_replay_go_In : forall post pre k, all = pre ++ post -> forall x,
    In x (releases (replay_go pre post k)) <->
    (In x (outs all) \/ In x (global_inputs all)) /\ (In x (reads post) \/ (In x (outs post) /\ ~ In x (reads all))).
  Proof.
    induction post as [|s r IH]; intros pre k Hall x.
    - simpl. tauto.
    - cbn [Sched.replay_go]. rewrite releases_app, in_app_iff.
      rewrite (proj1 (proj2 (proj2 (block_projections pre s r k)))), del_at_In.
      rewrite (IH (pre ++ [s]) (S k) (pos_split_next pre s r Hall) x).
      change (reads (s :: r)) with (s_deps s ++ reads r). change (outs (s :: r)) with (s_out s :: outs r).
      rewrite in_app_iff. cbn [In].
      assert (Heq : s_out s = x <-> x = s_out s) by (split; intro; symmetry; assumption). rewrite Heq.
      destruct (pos_facts pre s r Hall x) as (F1 & F2 & F3 & F4 & F5 & F6 & F7 & F8 & F9 & F10 & D1 & D2 & D3 & D4 & D5 & D6 & D7).
      rewrite F3, F4, F2, F1. clear IH Heq F1 F2 F3 F4 F9 F10.
      pos_solve x pre s r tabled F5 F6 F7 F8.
  Qed.

  Lemma releases_replay_go_NoDup : forall post pre k, all = pre ++ post -> NoDup (releases (replay_go pre post k)).
  Proof.
    induction post as [|s r IH]; intros pre k Hall; [constructor|].
    cbn [Sched.replay_go]. rewrite releases_app, (proj1 (proj2 (proj2 (block_projections pre s r k)))).
    apply NoDup_app_intro; [exact (del_at_NoDup pre s r Hall) | exact (IH (pre ++ [s]) (S k) (pos_split_next pre s r Hall))|].
    intros x H1 H2. apply del_at_In in H1.
    apply (releases_replay_go_In r (pre ++ [s]) (S k) (pos_split_next pre s r Hall)) in H2.
    destruct (pos_facts pre s r Hall x) as (F1 & F2 & F3 & F4 & F5 & F6 & F7 & F8 & F9 & F10 & D1 & D2 & D3 & D4 & D5 & D6 & D7).
    rewrite F3, F4, F2, F1 in H1. rewrite F3, F2, F1 in H2. clear IH F1 F2 F3 F4 F9 F10. revert H1 H2.
    pos_solve x pre s r tabled F5 F6 F7 F8.
  Qed.

  Lemma loads_replay_go_In : forall post pre k, all = pre ++ post -> forall x,
    In x (loads (replay_go pre post k)) <->
    In x (reads post) /\ ~ In x (reads pre) /\ ~ In x (outs all) /\ tabled x = true.
  Proof.
    induction post as [|s r IH]; intros pre k Hall x.
    - simpl. tauto.
    - cbn [Sched.replay_go]. rewrite loads_app, in_app_iff, (proj1 (block_projections pre s r k)), filter_In, ins_at_In.
      rewrite (IH (pre ++ [s]) (S k) (pos_split_next pre s r Hall) x).
      change (reads (s :: r)) with (s_deps s ++ reads r). rewrite in_app_iff.
      destruct (pos_facts pre s r Hall x) as (F1 & F2 & F3 & F4 & F5 & F6 & F7 & F8 & F9 & F10 & D1 & D2 & D3 & D4 & D5 & D6 & D7).
      rewrite F10, F1. clear IH F1 F2 F3 F4 F9 F10.
      pos_solve x pre s r tabled F5 F6 F7 F8.
  Qed.

  Lemma loads_replay_go_NoDup : forall post pre k, all = pre ++ post -> NoDup (loads (replay_go pre post k)).
  Proof.
    induction post as [|s r IH]; intros pre k Hall; [constructor|].
    cbn [Sched.replay_go]. rewrite loads_app, (proj1 (block_projections pre s r k)).
    apply NoDup_app_intro; [apply NoDup_filter; apply fresh_NoDup | exact (IH (pre ++ [s]) (S k) (pos_split_next pre s r Hall))|].
    intros x H1 H2. apply filter_In in H1. destruct H1 as [H1 _]. apply ins_at_In in H1.
    apply (loads_replay_go_In r (pre ++ [s]) (S k) (pos_split_next pre s r Hall)) in H2.
    rewrite (pos_reads_next pre s x) in H2. tauto.
  Qed.

  Lemma fetched_replay_go : forall post pre k,
    fetched (replay_go pre post k) = filter selected (releases (replay_go pre post k)).
  Proof.
    induction post as [|s r IH]; intros pre k; [reflexivity|].
    cbn [Sched.replay_go]. destruct (block_projections pre s r k) as [_ [_ [B3 B4]]].
    rewrite fetched_app, releases_app, filter_app, B3, B4, IH. reflexivity.
  Qed.

  (* ---- every event is safe *)
  Lemma cleanup_safe : forall rest D st,
    NoDup D ->
    (forall x, In x D -> selected x = true -> In x st) ->
    (forall x, In x D -> forall n, In n (execs rest) -> forall s0, In s0 all -> s_out s0 = n -> ~ In x (s_deps s0)) ->
    hist_all (fun st e f => safe_event st e (f ++ rest)) st (flat_map cleanup D).
  Proof.
    intros rest. induction D as [|a D IH]; intros st Hn Hsel Hrel; [exact I|].
    apply NoDup_cons_iff in Hn. destruct Hn as [Ha Hn].
    assert (Hfut : forall n, In n (execs (flat_map cleanup D ++ rest)) ->
                   forall s0, In s0 all -> s_out s0 = n -> ~ In a (s_deps s0)).
    { intros n Hin. rewrite execs_app, (proj1 (proj2 (cleanup_projections D))) in Hin.
      exact (Hrel a (or_introl eq_refl) n Hin). }
    assert (Htail : hist_all (fun st e f => safe_event st e (f ++ rest)) (remove Nat.eq_dec a st) (flat_map cleanup D)).
    { apply IH; [exact Hn | | intros x Hx; apply Hrel; right; exact Hx].
      intros x Hx Hs. apply remove_In. split; [apply Hsel; [right; exact Hx | exact Hs] | intro E; subst x; exact (Ha Hx)]. }
    cbn [flat_map]. unfold Sched.cleanup at 1. destruct (selected a) eqn:Sa.
    - cbn [app hist_all apply_event]. split; [exact (Hsel a (or_introl eq_refl) Sa)|]. split; [exact Hfut | exact Htail].
    - cbn [app hist_all apply_event]. split; [exact Hfut | exact Htail].
  Qed.

  Lemma block_safe : forall pre s post k st rest, all = pre ++ s :: post -> store_inv pre (s :: post) st ->
    execs rest = outs post ->
    hist_all (fun st e f => safe_event st e (f ++ rest)) st (block pre s post k).
  Proof.
    intros pre s post k st rest Hall Hinv Hrest. unfold Sched.block.
    apply (proj2 (hist_all_app _ _ _ _)). split.
    - apply hist_all_loads.
      + intros x st0 f H. exact H.
      + apply NoDup_filter. apply fresh_NoDup.
      + intros x Hx Hst. apply filter_In in Hx. destruct Hx as [Hx _]. apply ins_at_In in Hx. apply Hinv in Hst.
        destruct (pos_facts pre s post Hall x) as (F1 & _). rewrite F1 in *. tauto.
    - cbn [hist_all]. split.
      + cbn [safe_event]. intros s0 H0 E x Hd Hneed.
        assert (Es : s0 = s).
        { apply (unique_out all); [exact unique_outputs | exact H0 | | exact E].
          rewrite Hall. apply in_app_iff. right. left. reflexivity. }
        subst s0. apply store_loads. rewrite filter_In, ins_at_In, (Hinv x).
        change (reads (s :: post)) with (s_deps s ++ reads post). rewrite in_app_iff.
        unfold needs_table in Hneed.
        destruct (pos_facts pre s post Hall x) as (F1 & F2 & F3 & F4 & F5 & F6 & F7 & F8 & F9 & F10 & D1 & D2 & D3 & D4 & D5 & D6 & D7).
        rewrite F1 in *. clear Hinv F1 F2 F3 F4 F9 F10 E H0. revert Hd Hneed.
        pos_solve x pre s post tabled F5 F6 F7 F8.
      + apply cleanup_safe.
        * exact (del_at_NoDup pre s post Hall).
        * intros x Hx Hs. cbn [apply_event In]. rewrite store_loads.
          assert (Hgoal : x = s_out s \/ In x st).
          { unfold Sched.selected in Hs. apply andb_true_iff in Hs. destruct Hs as [Hs _].
            apply negb_true_iff in Hs. apply memb_false in Hs. apply del_at_In in Hx. rewrite (Hinv x).
            change (reads (s :: post)) with (s_deps s ++ reads post). rewrite in_app_iff.
            destruct (pos_facts pre s post Hall x) as (F1 & F2 & F3 & F4 & F5 & F6 & F7 & F8 & F9 & F10 & D1 & D2 & D3 & D4 & D5 & D6 & D7).
            rewrite F3, F4, F2, F1 in Hx. rewrite F3, F2, F1 in Hs. rewrite F1.
            clear Hinv F1 F2 F3 F4 F9 F10. revert Hx Hs.
            pos_solve x pre s post tabled F5 F6 F7 F8. }
          destruct Hgoal as [E|H]; [left; symmetry; exact E | right; right; exact H].
        * intros x Hx n Hn s0 H0 E Hd. rewrite Hrest in Hn. subst n.
          pose proof (pos_in_post pre s post Hall s0 H0 Hn) as Hp.
          assert (Hr : In x (reads post)) by (apply in_reads; exists s0; split; assumption).
          apply del_at_In in Hx.
          destruct (pos_facts pre s post Hall x) as (F1 & F2 & F3 & F4 & _).
          rewrite F4, F2 in Hx. tauto.
  Qed.

  Lemma replay_go_safe : forall post pre st k, all = pre ++ post -> store_inv pre post st ->
    hist_all safe_event st (replay_go pre post k) /\ store_inv all [] (store_of (replay_go pre post k) st).
  Proof.
    induction post as [|s r IH]; intros pre st k Hall Hinv.
    - split; [exact I|]. rewrite app_nil_r in Hall. subst pre. exact Hinv.
    - cbn [Sched.replay_go].
      destruct (IH (pre ++ [s]) (store_of (block pre s r k) st) (S k) (pos_split_next pre s r Hall)
                   (block_inv pre s r k st Hall Hinv)) as [IH1 IH2].
      split.
      + apply (proj2 (hist_all_app _ _ _ _)). split; [|exact IH1].
        apply block_safe; [exact Hall | exact Hinv | apply execs_replay_go].
      + rewrite store_of_app. exact IH2.
  Qed.

  Lemma store_inv_init : store_inv [] all [].
  Proof. intros x. simpl. tauto. Qed.

  (* ---- the loop over "final results not yet processed" finds nothing left *)
  Lemma final_go_nil : forall l done,
    (forall s0, In s0 l -> negb rop || s_pers s0 = true -> In (s_out s0) done) -> final_go rop l done = [].
  Proof.
    induction l as [|a l IH]; intros done H; [reflexivity|].
    cbn [final_go]. destruct (memb (s_out a) done) eqn:M.
    - apply IH. intros s0 H0. apply H. right. exact H0.
    - destruct (negb rop || s_pers a) eqn:C.
      + exfalso. apply memb_false in M. apply M. apply H; [left; reflexivity | exact C].
      + apply IH. intros s0 H0. apply H. right. exact H0.
  Qed.

  Lemma replay_eq : replay = replay_go [] all 1.
  Proof.
    unfold Sched.replay. rewrite final_go_nil; [apply app_nil_r|].
    intros s0 H0 C. rewrite fetched_replay_go. apply filter_In. split.
    - apply (releases_replay_go_In all [] 1 eq_refl). split; [left; apply in_outs; exact H0|].
      destruct (in_dec Nat.eq_dec (s_out s0) (reads all)) as [Hr|Hr]; [left; exact Hr|].
      right. split; [apply in_outs; exact H0 | exact Hr].
    - unfold Sched.selected. apply andb_true_iff. split.
      + apply negb_true_iff. apply memb_false. intro G. apply global_inputs_In in G. apply (proj2 G). apply in_outs. exact H0.
      + apply orb_true_iff in C. apply orb_true_iff. destruct C as [C|C]; [left; exact C | right].
        apply memb_In. apply persistent_of_In. exists s0. split; [exact H0 | split; [exact C | reflexivity]].
  Qed.

  (* ================================================================ the theorems *)
  Theorem replay_safe : hist_all safe_event [] replay.
  Proof. rewrite replay_eq. exact (proj1 (replay_go_safe all [] [] 1 eq_refl store_inv_init)). Qed.

  Theorem reads_available : forall h1 k n h2, replay = h1 ++ Exec k n :: h2 ->
    forall s, In s all -> s_out s = n -> forall d, In d (s_deps s) -> needs_table d -> In d (store_of h1 []).
  Proof. intros h1 k n h2 E. exact (proj1 (hist_all_split safe_event replay []) replay_safe h1 (Exec k n) h2 E). Qed.

  Theorem no_early_release : forall h1 x h2, replay = h1 ++ Release x :: h2 ->
    forall n, In n (execs h2) -> forall s, In s all -> s_out s = n -> ~ In x (s_deps s).
  Proof. intros h1 x h2 E. exact (proj1 (hist_all_split safe_event replay []) replay_safe h1 (Release x) h2 E). Qed.

  Theorem fetch_in_store : forall h1 x h2, replay = h1 ++ Fetch x :: h2 -> In x (store_of h1 []).
  Proof. intros h1 x h2 E. exact (proj1 (hist_all_split safe_event replay []) replay_safe h1 (Fetch x) h2 E). Qed.

  Theorem load_not_present : forall h1 x h2, replay = h1 ++ Load x :: h2 -> ~ In x (store_of h1 []).
  Proof. intros h1 x h2 E. exact (proj1 (hist_all_split safe_event replay []) replay_safe h1 (Load x) h2 E). Qed.

  Theorem load_at_most_once :
    NoDup (loads replay) /\ forall x, In x (loads replay) <-> In x (global_inputs all) /\ tabled x = true.
  Proof.
    rewrite replay_eq. split; [apply loads_replay_go_NoDup; reflexivity|].
    intros x. rewrite (loads_replay_go_In all [] 1 eq_refl x), global_inputs_In. simpl. tauto.
  Qed.

  Theorem release_exactly_once :
    NoDup (releases replay) /\ forall x, In x (releases replay) <-> In x (outs all) \/ In x (global_inputs all).
  Proof.
    rewrite replay_eq. split; [apply releases_replay_go_NoDup; reflexivity|].
    intros x. rewrite (releases_replay_go_In all [] 1 eq_refl x).
    pose proof (global_inputs_In all x) as G.
    destruct (in_dec Nat.eq_dec x (reads all)); tauto.
  Qed.

  Theorem result_selection :
    NoDup (returned all tabled rop) /\
    forall x, In x (returned all tabled rop) <-> exists s, In s all /\ s_out s = x /\ (rop = false \/ s_pers s = true).
  Proof.
    unfold returned. rewrite replay_eq, fetched_replay_go. split.
    - apply NoDup_filter. apply releases_replay_go_NoDup. reflexivity.
    - intros x. rewrite filter_In, (releases_replay_go_In all [] 1 eq_refl x). split.
      + intros [[Hog _] Hsel]. unfold Sched.selected in Hsel. apply andb_true_iff in Hsel. destruct Hsel as [Hg Hp].
        apply negb_true_iff in Hg. apply memb_false in Hg. destruct Hog as [Ho|Hgl]; [|exact (False_ind _ (Hg Hgl))].
        apply orb_true_iff in Hp. destruct Hp as [Hp|Hp].
        * unfold outs in Ho. apply in_map_iff in Ho. destruct Ho as [s0 [E H0]]. exists s0.
          split; [exact H0 | split; [exact E | left]]. destruct rop; [discriminate | reflexivity].
        * apply memb_In in Hp. apply persistent_of_In in Hp. destruct Hp as [s0 [H0 [Hp E]]]. exists s0.
          split; [exact H0 | split; [exact E | right; exact Hp]].
      + intros [s0 [H0 [E C]]]. subst x. split; [split|].
        * left. apply in_outs. exact H0.
        * destruct (in_dec Nat.eq_dec (s_out s0) (reads all)) as [Hr|Hr]; [left; exact Hr|].
          right. split; [apply in_outs; exact H0 | exact Hr].
        * unfold Sched.selected. apply andb_true_iff. split.
          -- apply negb_true_iff. apply memb_false. intro G. apply global_inputs_In in G. apply (proj2 G). apply in_outs. exact H0.
          -- apply orb_true_iff. destruct C as [C|C]; [left; rewrite C; reflexivity | right].
             apply memb_In. apply persistent_of_In. exists s0. split; [exact H0 | split; [exact C | reflexivity]].
  Qed.

  Theorem store_empty_at_end : store_of replay [] = [].
  Proof.
    rewrite replay_eq. pose proof (proj2 (replay_go_safe all [] [] 1 eq_refl store_inv_init)) as H.
    destruct (store_of (replay_go [] all 1) []) as [|x st]; [reflexivity|].
    exfalso. destruct (proj1 (H x) (or_introl eq_refl)) as [_ []].
  Qed.
End Safe.

(* ---------------------------------------------------------------- the boolean checker used on concrete (real) histories *)
Lemma deps_of_In : forall all n d, In d (deps_of all n) <-> exists s, In s all /\ s_out s = n /\ In d (s_deps s).
Proof.
  intros all n d. unfold deps_of. rewrite in_reads. split.
  - intros [s [Hs Hd]]. apply filter_In in Hs. destruct Hs as [Hs E]. apply Nat.eqb_eq in E. exists s. tauto.
  - intros [s [Hs [E Hd]]]. exists s. split; [|exact Hd]. apply filter_In. split; [exact Hs | apply Nat.eqb_eq; exact E].
Qed.

Theorem safe_historyb_sound : forall all tabled h st,
  safe_historyb all tabled st h = true -> hist_all (safe_event all tabled) st h.
Proof.
  intros all tabled. induction h as [|e h IH]; intros st H; [exact I|].
  cbn [safe_historyb] in H. apply andb_true_iff in H. destruct H as [He Hh].
  cbn [hist_all]. split; [|exact (IH _ Hh)].
  destruct e as [x|k n|x|x]; cbn [safe_event].
  - apply negb_true_iff in He. apply memb_false. exact He.
  - intros s Hs E d Hd Hneed. rewrite forallb_forall in He.
    assert (Hin : In d (deps_of all n)) by (apply deps_of_In; exists s; tauto).
    specialize (He d Hin). apply orb_true_iff in He. destruct He as [He|He]; [|apply memb_In; exact He].
    exfalso. apply negb_true_iff in He. apply orb_false_iff in He. destruct He as [H1 H2].
    destruct Hneed as [Hn|Hn]; [apply memb_false in H1; exact (H1 Hn) | congruence].
  - intros n Hn s Hs E Hd. rewrite forallb_forall in He. specialize (He n Hn).
    apply negb_true_iff in He. apply memb_false in He. apply He. apply deps_of_In. exists s. tauto.
  - apply memb_In. exact He.
Qed.

(* ---------------------------------------------------------------- a concrete instance (the hypotheses are satisfiable) *)
(* DS_b := DS_a + 1;  DS_c <- DS_b * DS_x;  DS_d := DS_b[calc ...]   with a=0, x=1, b=2, c=3, d=4 *)
Definition example_script : list stmt := [Stmt 2 [0] false; Stmt 3 [2; 1] true; Stmt 4 [2] false].

Lemma example_script_ok : NoDup (outs example_script) /\ topo_sorted example_script.
Proof.
  split.
  - apply redefinition_detected_nodup. vm_compute. reflexivity.
  - apply topo_sortedb_spec. vm_compute. reflexivity.
Qed.

Lemma example_script_replay :
  replay example_script (fun _ => true) false =
  [Load 0; Exec 1 2; Release 0; Load 1; Exec 2 3; Fetch 3; Release 3; Release 1; Exec 3 4; Fetch 2; Release 2; Fetch 4; Release 4].
Proof. vm_compute. reflexivity. Qed.
