From Coq Require Import ZArith QArith String List Bool Permutation.
Import ListNotations.
From VTL Require Import Base.Val Model.Table Model.Scalar Model.Expr Model.Struct Proofs.TableP Proofs.MonadP Proofs.ExprP Proofs.PermP.
Open Scope string_scope.
Open Scope list_scope.

Lemma slook_senv_of n e : slook n (senv_of e) = option_map sig_of (dlook n e).
Proof. induction e as [|[k d] t IH]; simpl; auto. destruct (String.eqb n k); simpl; auto. Qed.

Lemma d_binop_names op a b r : d_binop op a b = Ok r ->
  negb (subset_s (d_ms a) (d_ms b) && subset_s (d_ms b) (d_ms a)) = false /\
  ((subset_s (d_ids b) (d_ids a) = true /\ d_ids r = d_ids a /\ d_ms r = d_ms a) \/
   (subset_s (d_ids b) (d_ids a) = false /\ subset_s (d_ids a) (d_ids b) = true /\ d_ids r = d_ids b /\ d_ms r = d_ms a)).
Proof.
  unfold d_binop. destruct (negb _); [discriminate|]. intros H0. split; [reflexivity|]. revert H0.
  destruct (subset_s (d_ids b) (d_ids a)).
  - intros H. apply bind_ok in H. destruct H as [l [_ H]]. injection H as <-. left. auto.
  - destruct (subset_s (d_ids a) (d_ids b)); [|discriminate].
    intros H. apply bind_ok in H. destruct H as [l [_ H]]. injection H as <-. right. auto.
Qed.

(* the statically predicted structure is exactly the structure of the computed result *)
Theorem names_sound x : forall e d, deval e x = Ok d -> names_of (senv_of e) x = Ok (sig_of d).
Proof.
  induction x as [n|op a IHa b IHb|op a IHa b IHb|a IH body|a IH c|a IH defs|a IH l|a IH l|a IH l|a IH l]; simpl; intros e d H.
  - rewrite slook_senv_of. destruct (dlook n e); [|discriminate]. injection H as <-. reflexivity.
  - apply bind_ok in H. destruct H as [da [Hda H]]. apply bind_ok in H. destruct H as [db [Hdb H]].
    rewrite (IHa _ _ Hda), (IHb _ _ Hdb). unfold sig_of. simpl.
    destruct (d_binop_names _ _ _ _ H) as [Hm [[Hs [Hi Hms]]|[Hs [Hs2 [Hi Hms]]]]]; rewrite Hm.
    + rewrite Hs, Hi, Hms. reflexivity.
    + rewrite Hs, Hs2, Hi, Hms. reflexivity.
  - apply bind_ok in H. destruct H as [da [Hda H]]. apply bind_ok in H. destruct H as [db [Hdb H]].
    rewrite (IHa _ _ Hda), (IHb _ _ Hdb). unfold sig_of. simpl.
    destruct (d_setop_spec _ _ _ _ H) as [Hc [Hi [Hm _]]]. unfold set_compat in Hc. rewrite Hc, Hi, Hm. reflexivity.
  - apply bind_ok in H. destruct H as [d0 [Hd0 H]]. rewrite (IH _ _ Hd0).
    destruct (d_map_spec _ _ _ H) as [H1 [H2 _]]. unfold sig_of. rewrite H1, H2. reflexivity.
  - apply bind_ok in H. destruct H as [d0 [Hd0 H]]. rewrite (IH _ _ Hd0).
    destruct (d_filter_spec _ _ _ H) as [H1 [H2 _]]. unfold sig_of. rewrite H1, H2. reflexivity.
  - apply bind_ok in H. destruct H as [d0 [Hd0 H]]. rewrite (IH _ _ Hd0). simpl.
    destruct (d_calc_spec _ _ _ H) as [H1 [H2 _]]. unfold d_calc in H.
    unfold sig_of. simpl. destruct (existsb _ defs); [discriminate|]. rewrite H1, H2. reflexivity.
  - apply bind_ok in H. destruct H as [d0 [Hd0 H]]. injection H as <-. rewrite (IH _ _ Hd0). reflexivity.
  - apply bind_ok in H. destruct H as [d0 [Hd0 H]]. injection H as <-. rewrite (IH _ _ Hd0). reflexivity.
  - apply bind_ok in H. destruct H as [d0 [Hd0 H]]. injection H as <-. rewrite (IH _ _ Hd0). reflexivity.
  - apply bind_ok in H. destruct H as [d0 [Hd0 H]]. injection H as <-. rewrite (IH _ _ Hd0). reflexivity.
Qed.

(* ---- identifiers of results come from identifiers of operands: never null when the inputs' are not *)
Definition keys_ok (rows : list (list val * list val)) : Prop := forall r, In r rows -> forallb (fun v => negb (is_null v)) (fst r) = true.

Lemma no_null_key_iff rows : no_null_key rows = true <-> keys_ok rows.
Proof. unfold no_null_key, keys_ok. apply forallb_forall. Qed.

Lemma keys_ok_same_keys a b : map fst a = map fst b -> keys_ok a -> keys_ok b.
Proof.
  intros Hk Ha r Hr. assert (In (fst r) (map fst b)) as H by (apply in_map; exact Hr).
  rewrite <- Hk in H. apply in_map_iff in H. destruct H as [r0 [He Hr0]]. rewrite <- He. apply Ha. exact Hr0.
Qed.

Lemma d_binop_keys op a b r x : d_binop op a b = Ok r -> In x (d_rows r) ->
  exists y, (In y (d_rows a) \/ In y (d_rows b)) /\ fst x = fst y.
Proof.
  unfold d_binop. destruct (negb _); [discriminate|].
  destruct (subset_s (d_ids b) (d_ids a)).
  - intros H Hx. apply bind_ok in H. destruct H as [l [Hl H]]. injection H as <-. simpl in Hx.
    apply flat_some_In in Hx. destruct (mapM_ok_inv _ _ _ Hl _ Hx) as [ra [Hra Hf]].
    destruct (proj_key _ _ _); [|discriminate]. destruct (find_key _ _); [|discriminate].
    apply bind_ok in Hf. destruct Hf as [ms [_ Hf]]. injection Hf as <-. exists ra. auto.
  - destruct (subset_s (d_ids a) (d_ids b)); [|discriminate].
    intros H Hx. apply bind_ok in H. destruct H as [l [Hl H]]. injection H as <-. simpl in Hx.
    apply flat_some_In in Hx. destruct (mapM_ok_inv _ _ _ Hl _ Hx) as [rb [Hrb Hf]].
    destruct (proj_key _ _ _); [|discriminate]. destruct (find_key _ _); [|discriminate].
    apply bind_ok in Hf. destruct Hf as [ms [_ Hf]]. injection Hf as <-. exists rb. auto.
Qed.

Lemma d_setop_keys op a b r x : d_setop op a b = Ok r -> In x (d_rows r) ->
  In x (d_rows a) \/ exists y, In y (d_rows b) /\ forall v, In v (fst x) -> In v (fst y).
Proof.
  intros H Hx. destruct (d_setop_spec _ _ _ _ H) as [_ [_ [_ [rb [Hrb Hr]]]]]. rewrite Hr in Hx.
  apply set_rows_In in Hx. destruct Hx as [Hx|Hx]; [left; exact Hx | right].
  destruct (mapM_ok_inv _ _ _ Hrb _ Hx) as [y [Hy Hal]]. exists y. split; [exact Hy|].
  destruct (align_row_spec _ _ _ _ _ _ Hal) as [_ [P _]]. eapply proj_key_values; eauto.
Qed.

Theorem keys_never_null_nosub x : no_sub x = true -> forall e d,
  (forall n d0, dlook n e = Some d0 -> keys_ok (d_rows d0)) ->
  deval e x = Ok d -> keys_ok (d_rows d).
Proof.
  induction x as [n|op a IHa b IHb|op a IHa b IHb|a IH body|a IH c|a IH defs|a IH l|a IH l|a IH l|a IH l]; simpl; intros Hs e d He H;
    try discriminate.
  - destruct (dlook n e) eqn:E; [|discriminate]. injection H as <-. eapply He; eauto.
  - apply andb_true_iff in Hs. destruct Hs as [Hsa Hsb].
    apply bind_ok in H. destruct H as [da [Hda H]]. apply bind_ok in H. destruct H as [db [Hdb H]].
    intros r Hr. destruct (d_binop_keys _ _ _ _ _ H Hr) as [y [[Hy|Hy] ->]].
    + eapply IHa; eauto.
    + eapply IHb; eauto.
  - apply andb_true_iff in Hs. destruct Hs as [Hsa Hsb].
    apply bind_ok in H. destruct H as [da [Hda H]]. apply bind_ok in H. destruct H as [db [Hdb H]].
    intros r Hr. destruct (d_setop_keys _ _ _ _ _ H Hr) as [Hy|[y [Hy Hv]]].
    + eapply IHa; eauto.
    + apply forallb_forall. intros v Hin. specialize (IHb Hsb e db He Hdb y Hy).
      rewrite forallb_forall in IHb. apply IHb. apply Hv. exact Hin.
  - apply bind_ok in H. destruct H as [d0 [Hd0 H]]. destruct (d_map_spec _ _ _ H) as [_ [_ F]].
    eapply keys_ok_same_keys; [|eapply IH; eauto].
    clear -F. induction F as [|r r' l l' [Hr _] _ IHF]; simpl; congruence.
  - apply bind_ok in H. destruct H as [d0 [Hd0 H]]. destruct (d_filter_spec _ _ _ H) as [_ [_ S]].
    intros r Hr. apply S in Hr. destruct Hr as [Hr _]. eapply IH; eauto.
  - apply bind_ok in H. destruct H as [d0 [Hd0 H]]. destruct (d_calc_spec _ _ _ H) as [_ [_ [_ Hk]]].
    eapply keys_ok_same_keys; [symmetry; exact Hk | eapply IH; eauto].
  - apply bind_ok in H. destruct H as [d0 [Hd0 H]]. injection H as <-.
    destruct (d_project_frame d0 (fun n => mem_s n l)) as [_ [Hk _]].
    eapply keys_ok_same_keys; [symmetry; exact Hk | eapply IH; eauto].
  - apply bind_ok in H. destruct H as [d0 [Hd0 H]]. injection H as <-.
    destruct (d_project_frame d0 (fun n => negb (mem_s n l))) as [_ [Hk _]].
    eapply keys_ok_same_keys; [symmetry; exact Hk | eapply IH; eauto].
  - apply bind_ok in H. destruct H as [d0 [Hd0 H]]. injection H as <-. simpl. eapply IH; eauto.
Qed.
