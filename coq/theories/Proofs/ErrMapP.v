(* Lemmas for Model/ErrMap.v (C32). *)
From Coq Require Import String Ascii List Bool Arith.
Import ListNotations.
From VTL Require Import Model.ErrMap.
Open Scope string_scope.

(* a handler `except duckdb.Error` never touches an exception that is already a VTL error *)
Lemma apply_mapper_vtl m e : is_vtl e = true -> apply_mapper m e = e.
Proof. destruct e; simpl; intros H; try discriminate; reflexivity. Qed.

Lemma apply_mapper_keeps_vtl m e : is_vtl e = true -> is_vtl (apply_mapper m e) = true.
Proof. intros H. rewrite (apply_mapper_vtl m e H). exact H. Qed.

(* ... nor a non-DuckDB Python exception *)
Lemma apply_mapper_rawpy m n : apply_mapper m (RawPy n) = RawPy n.
Proof. reflexivity. Qed.

(* the load mapper and the spec query mapper are total on DuckDB errors *)
Lemma map_load_total msg : exists k c, map_load msg = Mapped k c.
Proof.
  unfold map_load.
  assert (H : exists r, first_rule (lower msg) load_rules = Some r).
  { unfold load_rules. simpl.
    repeat match goal with |- context [if ?b then _ else _] => destruct b; [eexists; reflexivity|] end.
    eexists; reflexivity. }
  destruct H as [r ->]. eauto.
Qed.

Lemma apply_MapLoad_vtl msg : is_vtl (apply_mapper MapLoad (RawDB msg)) = true.
Proof. simpl. destruct (map_load_total msg) as [k [c ->]]. reflexivity. Qed.

Lemma map_query_total msg : exists k c, map_query msg = Mapped k c.
Proof.
  unfold map_query.
  assert (H : exists r, first_rule (lower msg) query_rules = Some r).
  { unfold query_rules. simpl.
    repeat match goal with |- context [if ?b then _ else _] => destruct b; [eexists; reflexivity|] end.
    eexists; reflexivity. }
  destruct H as [r ->]. eauto.
Qed.

Lemma apply_MapQuery_vtl msg : is_vtl (apply_mapper MapQuery (RawDB msg)) = true.
Proof. simpl. destruct (map_query_total msg) as [k [c ->]]. reflexivity. Qed.

Lemma apply_MapNormalize_vtl msg : is_vtl (apply_mapper MapNormalize (RawDB msg)) = true.
Proof. reflexivity. Qed.

(* every handler the current code has is total on DuckDB errors: in a handled stage ANY DuckDB message becomes a VTL error *)
Lemma handled_stage_total s msg : stage_mapper_impl s <> NoMap -> is_vtl (apply_mapper (stage_mapper_impl s) (RawDB msg)) = true.
Proof.
  intros H. destruct s; cbn [stage_mapper_impl] in *; try (exfalso; apply H; reflexivity);
    solve [apply apply_MapQuery_vtl | apply apply_MapLoad_vtl | apply apply_MapNormalize_vtl].
Qed.


(* ------------------------------------------------------------------ escape_closed: the general theorem *)
Section Closed.
  Variable R : stage -> exn -> Prop.

  (* Generalised over the handler context: if every primitive step is closed under the handlers around it, whatever the
     program raises is a VTL error once seen through the outer context.  Induction on the execution. *)
  Lemma escape_closed_ctx :
    forall p o, exec R p o ->
    forall ctx, (forall e, is_vtl e = true -> is_vtl (ctx e) = true) ->
    closed R ctx p ->
    forall e, o = Raise e -> is_vtl (ctx e) = true.
  Proof.
    induction 1; intros ctx Hctx Hcl x Hx; simpl in Hcl.
    - discriminate.
    - discriminate.
    - inversion Hx; subst. apply Hcl. assumption.
    - destruct Hcl as [_ Hq]. eapply IHexec2; eauto.
    - destruct Hcl as [Hp _]. eapply IHexec; eauto.
    - discriminate.
    - inversion Hx; subst.
      apply (IHexec (fun e => ctx (apply_mapper m e))); auto.
      intros e0 He0. apply Hctx. apply apply_mapper_keeps_vtl. exact He0.
    - destruct Hcl as [_ Hf]. eapply IHexec2; eauto.
    - destruct Hcl as [Hp _]. eapply IHexec1; eauto.
    - destruct Hcl as [_ Hf]. eapply IHexec2; eauto.
  Qed.

  Theorem escape_closed :
    forall p, closed R (fun e => e) p -> forall e, exec R p (Raise e) -> is_vtl e = true.
  Proof.
    intros p Hcl e Hex.
    exact (escape_closed_ctx p (Raise e) Hex (fun e => e) (fun _ H => H) Hcl e eq_refl).
  Qed.

  (* closedness is monotone in the context: a context that maps more into VTL keeps it closed (used for nesting) *)
  Lemma closed_times ctx n p : closed R ctx p -> closed R ctx (times n p).
  Proof. induction n; simpl; auto. Qed.

  (* ---- the run() pipeline with per-stage mappers M, for any number of statements, loads and fetches *)
  Variable M : stage -> mapper.
  Hypothesis Hstage : forall s e, R s e -> is_vtl (apply_mapper (M s) e) = true.

  Lemma closed_stg s : closed R (fun e => e) (stg M s).
  Proof. unfold stg. simpl. intros e He. apply Hstage. exact He. Qed.

  Lemma closed_load_one : closed R (fun e => e) (load_one M).
  Proof. unfold load_one. simpl. repeat split; intros e He; apply Hstage; exact He. Qed.

  Lemma closed_fetch_one : closed R (fun e => e) (fetch_one M).
  Proof. unfold fetch_one. simpl. repeat split; intros e He; apply Hstage; exact He. Qed.

  Lemma closed_stmt s : closed R (fun e => e) (stmt_prog M s).
  Proof.
    unfold stmt_prog. cbn [closed]. repeat split.
    - apply closed_times. apply closed_load_one.
    - apply closed_stg.
    - apply closed_times. apply closed_fetch_one.
    - apply closed_times. apply closed_stg.
  Qed.

  Lemma closed_stmts l : closed R (fun e => e) (stmts_prog M l).
  Proof. induction l; cbn [stmts_prog closed]; auto using closed_stmt. Qed.

  Lemma closed_run l final : closed R (fun e => e) (run_prog M l final).
  Proof.
    unfold run_prog. cbn [closed]. repeat split.
    - apply closed_stg.
    - apply closed_stg.
    - apply closed_stmts.
    - apply closed_times. apply closed_fetch_one.
    - apply closed_stg.
  Qed.

  Theorem run_closed : forall l final e, exec R (run_prog M l final) (Raise e) -> is_vtl e = true.
  Proof. intros l final e. apply escape_closed. apply closed_run. Qed.
End Closed.

(* ------------------------------------------------------------------ raisable sets given by a finite table *)
Lemma table_stage_ok M tab :
  forallb (entry_ok M) tab = true ->
  forall s e, R_of tab s e -> is_vtl (apply_mapper (M s) e) = true.
Proof.
  intros H s e [msg [Hin ->]].
  rewrite forallb_forall in H. exact (H (s, msg) Hin).
Qed.

(* conversely an entry that is not mapped escapes from a one-statement run, whatever else the run contains:
   a concrete execution is built for a failure in the first fetch after the first statement / in the load before it *)
Lemma exec_times_first R p n e : exec R p (Raise e) -> exec R (times (S n) p) (Raise e).
Proof. intros H. simpl. apply ExSeqRaise. exact H. Qed.

Lemma exec_times_done R p n : exec R p Done -> exec R (times n p) Done.
Proof. intros H. induction n; simpl; [constructor | eapply ExSeqOk; eauto]. Qed.

Lemma exec_stg_done R M s : exec R (stg M s) Done.
Proof. unfold stg. apply ExTryOk. apply ExPrimOk. Qed.

Lemma exec_stg_raise (R : stage -> exn -> Prop) M s e : R s e -> exec R (stg M s) (Raise (apply_mapper (M s) e)).
Proof. intros H. unfold stg. apply ExTryRaise. apply ExPrimRaise. exact H. Qed.

Definition one_stmt := [mkStmt 1 1 0].

(* where a stage sits in a one-statement run: the witness executions *)
Lemma escape_at_stage (R : stage -> exn -> Prop) M s e :
  R s e -> exec R (run_prog M one_stmt 0) (Raise (apply_mapper (M s) e)).
Proof.
  intros HR. unfold run_prog, one_stmt.
  pose proof (exec_stg_raise R M s e HR) as Hs.
  assert (Hd : forall s', exec R (stg M s') Done) by (intros; apply exec_stg_done).
  destruct s.
  - (* STranspile *) apply ExSeqRaise. exact Hs.
  - (* SInitMacros *) eapply ExSeqOk; [apply Hd|]. apply ExSeqRaise. eapply ExFinRaise; [|constructor]. apply ExSeqRaise. exact Hs.
  - (* SLoadCreate *) eapply ExSeqOk; [apply Hd|]. apply ExSeqRaise. eapply ExFinRaise; [|constructor].
    eapply ExSeqOk; [apply Hd|]. apply ExSeqRaise. cbn [stmts_prog]. apply ExSeqRaise. unfold stmt_prog. cbn [n_loads].
    apply ExSeqRaise. apply exec_times_first. unfold load_one. apply ExSeqRaise. exact Hs.
  - (* SLoadInsert *) eapply ExSeqOk; [apply Hd|]. apply ExSeqRaise. eapply ExFinRaise; [|constructor].
    eapply ExSeqOk; [apply Hd|]. apply ExSeqRaise. cbn [stmts_prog]. apply ExSeqRaise. unfold stmt_prog. cbn [n_loads].
    apply ExSeqRaise. apply exec_times_first. unfold load_one. eapply ExSeqOk; [apply Hd|]. apply ExSeqRaise. exact Hs.
  - (* SLoadNormalize *) eapply ExSeqOk; [apply Hd|]. apply ExSeqRaise. eapply ExFinRaise; [|constructor].
    eapply ExSeqOk; [apply Hd|]. apply ExSeqRaise. cbn [stmts_prog]. apply ExSeqRaise. unfold stmt_prog. cbn [n_loads].
    apply ExSeqRaise. apply exec_times_first. unfold load_one.
    eapply ExSeqOk; [apply Hd|]. eapply ExSeqOk; [apply Hd|]. apply ExSeqRaise. exact Hs.
  - (* SLoadValidate *) eapply ExSeqOk; [apply Hd|]. apply ExSeqRaise. eapply ExFinRaise; [|constructor].
    eapply ExSeqOk; [apply Hd|]. apply ExSeqRaise. cbn [stmts_prog]. apply ExSeqRaise. unfold stmt_prog. cbn [n_loads].
    apply ExSeqRaise. apply exec_times_first. unfold load_one.
    eapply ExSeqOk; [apply Hd|]. eapply ExSeqOk; [apply Hd|]. eapply ExSeqOk; [apply Hd|]. exact Hs.
  - (* SExec *) eapply ExSeqOk; [apply Hd|]. apply ExSeqRaise. eapply ExFinRaise; [|constructor].
    eapply ExSeqOk; [apply Hd|]. apply ExSeqRaise. cbn [stmts_prog]. apply ExSeqRaise. unfold stmt_prog. cbn [n_loads].
    eapply ExSeqOk.
    { apply exec_times_done. unfold load_one. repeat (eapply ExSeqOk; [apply Hd|]). apply Hd. }
    apply ExSeqRaise. exact Hs.
  - (* SFetchRepr *) eapply ExSeqOk; [apply Hd|]. apply ExSeqRaise. eapply ExFinRaise; [|constructor].
    eapply ExSeqOk; [apply Hd|]. apply ExSeqRaise. cbn [stmts_prog]. apply ExSeqRaise. unfold stmt_prog. cbn [n_loads n_fetch].
    eapply ExSeqOk.
    { apply exec_times_done. unfold load_one. repeat (eapply ExSeqOk; [apply Hd|]). apply Hd. }
    eapply ExSeqOk; [apply Hd|]. apply ExSeqRaise. apply exec_times_first. unfold fetch_one. apply ExSeqRaise. exact Hs.
  - (* SFetchSelect *) eapply ExSeqOk; [apply Hd|]. apply ExSeqRaise. eapply ExFinRaise; [|constructor].
    eapply ExSeqOk; [apply Hd|]. apply ExSeqRaise. cbn [stmts_prog]. apply ExSeqRaise. unfold stmt_prog. cbn [n_loads n_fetch].
    eapply ExSeqOk.
    { apply exec_times_done. unfold load_one. repeat (eapply ExSeqOk; [apply Hd|]). apply Hd. }
    eapply ExSeqOk; [apply Hd|]. apply ExSeqRaise. apply exec_times_first. unfold fetch_one.
    eapply ExSeqOk; [apply Hd|]. apply ExSeqRaise. exact Hs.
  - (* SSave *) eapply ExSeqOk; [apply Hd|]. apply ExSeqRaise. eapply ExFinRaise; [|constructor].
    eapply ExSeqOk; [apply Hd|]. apply ExSeqRaise. cbn [stmts_prog]. apply ExSeqRaise. unfold stmt_prog. cbn [n_loads n_fetch].
    eapply ExSeqOk.
    { apply exec_times_done. unfold load_one. repeat (eapply ExSeqOk; [apply Hd|]). apply Hd. }
    eapply ExSeqOk; [apply Hd|]. apply ExSeqRaise. apply exec_times_first. unfold fetch_one.
    eapply ExSeqOk; [apply Hd|]. eapply ExSeqOk; [apply Hd|]. apply ExSeqRaise. exact Hs.
  - (* SDrop *) eapply ExSeqOk; [apply Hd|]. apply ExSeqRaise. eapply ExFinRaise; [|constructor].
    eapply ExSeqOk; [apply Hd|]. apply ExSeqRaise. cbn [stmts_prog]. apply ExSeqRaise. unfold stmt_prog. cbn [n_loads n_fetch].
    eapply ExSeqOk.
    { apply exec_times_done. unfold load_one. repeat (eapply ExSeqOk; [apply Hd|]). apply Hd. }
    eapply ExSeqOk; [apply Hd|]. apply ExSeqRaise. apply exec_times_first. unfold fetch_one.
    eapply ExSeqOk; [apply Hd|]. eapply ExSeqOk; [apply Hd|]. eapply ExSeqOk; [apply Hd|]. exact Hs.
  - (* SPostFormat *) eapply ExSeqOk; [apply Hd|]. eapply ExSeqOk.
    { eapply ExFinOk; [|constructor]. eapply ExSeqOk; [apply Hd|]. eapply ExSeqOk; [|constructor].
      cbn [stmts_prog]. eapply ExSeqOk; [|constructor]. unfold stmt_prog. cbn [n_loads n_fetch n_drop].
      eapply ExSeqOk.
      { apply exec_times_done. unfold load_one. repeat (eapply ExSeqOk; [apply Hd|]). apply Hd. }
      eapply ExSeqOk; [apply Hd|]. eapply ExSeqOk; [|constructor].
      apply exec_times_done. unfold fetch_one. repeat (eapply ExSeqOk; [apply Hd|]). apply Hd. }
    exact Hs.
Qed.

(* an unmapped table entry therefore escapes as a non-VTL error from a real-shaped run *)
Theorem unmapped_entry_escapes M tab s msg :
  In (s, msg) tab -> entry_ok M (s, msg) = false ->
  exists e, exec (R_of tab) (run_prog M one_stmt 0) (Raise e) /\ is_vtl e = false.
Proof.
  intros Hin Hbad. exists (apply_mapper (M s) (RawDB msg)). split.
  - apply escape_at_stage. exists msg. split; [exact Hin | reflexivity].
  - exact Hbad.
Qed.

(* finite tables: decision helpers *)
Lemma existsb_witness {A} (f : A -> bool) l : existsb f l = true -> exists x, In x l /\ f x = true.
Proof. apply existsb_exists. Qed.

(* ------------------------------------------------------------------ catalogue membership of a mapped error (table-generic) *)
Section Cat.
  Context {A : Type}.
  Variable cat : list (string * A).

  Fixpoint cat_lookup (k : string) (l : list (string * A)) : option A :=
    match l with
    | [] => None
    | (k', v) :: t => if String.eqb k k' then Some v else cat_lookup k t
    end.

  Definition in_cat (e : exn) : bool :=
    match e with VTL _ c => match cat_lookup c cat with Some _ => true | None => false end | _ => false end.

  Lemma in_cat_sound e : in_cat e = true -> exists k c, e = VTL k c /\ cat_lookup c cat <> None.
  Proof.
    destruct e as [k c| |]; simpl; try discriminate.
    intros H. exists k, c. split; [reflexivity|]. destruct (cat_lookup c cat); [discriminate | discriminate].
  Qed.

  Definition lit_ok (M : stage -> mapper) (x : string * stage * string) : bool :=
    in_cat (apply_mapper (M (snd (fst x))) (RawDB (snd x))).

  Lemma lits_all_ok (M : stage -> mapper) (lits : list (string * stage * string)) :
    forallb (lit_ok M) lits = true ->
    forall site s msg, In (site, s, msg) lits ->
    exists k c, apply_mapper (M s) (RawDB msg) = VTL k c /\ cat_lookup c cat <> None.
  Proof.
    intros H site s msg Hin. rewrite forallb_forall in H. specialize (H _ Hin).
    unfold lit_ok in H. cbn [fst snd] in H. apply in_cat_sound. exact H.
  Qed.

  (* `excl`: a decidable exclusion on the message (the literals known to have no rule) *)
  Lemma lits_handled_ok (M : stage -> mapper) (excl : string -> bool) (lits : list (string * stage * string)) :
    forallb (fun x => mapper_eqb (M (snd (fst x))) NoMap || excl (snd x) || lit_ok M x) lits = true ->
    forall site s msg, In (site, s, msg) lits -> M s <> NoMap -> excl msg = false ->
    exists k c, apply_mapper (M s) (RawDB msg) = VTL k c /\ cat_lookup c cat <> None.
  Proof.
    intros H site s msg Hin Hm He. rewrite forallb_forall in H. specialize (H _ Hin). cbn [fst snd] in H.
    rewrite He in H. rewrite orb_false_r in H.
    apply orb_true_iff in H. destruct H as [H|H].
    - exfalso. apply Hm. destruct (M s); simpl in H; try discriminate; reflexivity.
    - unfold lit_ok in H. cbn [fst snd] in H. apply in_cat_sound. exact H.
  Qed.

  Lemma lits_norule (M : stage -> mapper) (lits : list (string * stage * string)) :
    existsb (fun x => negb (mapper_eqb (M (snd (fst x))) NoMap) && negb (is_vtl (apply_mapper (M (snd (fst x))) (RawDB (snd x))))) lits = true ->
    exists site s msg, In (site, s, msg) lits /\ M s <> NoMap /\ is_vtl (apply_mapper (M s) (RawDB msg)) = false.
  Proof.
    intros H. apply existsb_exists in H. destruct H as [[[site s] msg] [Hin Hb]]. cbn [fst snd] in Hb.
    apply andb_true_iff in Hb. destruct Hb as [Hm Hv]. apply negb_true_iff in Hm, Hv.
    exists site, s, msg. split; [exact Hin|]. split; [|exact Hv].
    intros E. rewrite E in Hm. discriminate.
  Qed.

  Lemma lits_escape (M : stage -> mapper) (lits : list (string * stage * string)) :
    existsb (fun x => mapper_eqb (M (snd (fst x))) NoMap && negb (is_vtl (apply_mapper (M (snd (fst x))) (RawDB (snd x))))) lits = true ->
    exists site s msg, In (site, s, msg) lits /\ M s = NoMap /\ apply_mapper (M s) (RawDB msg) = RawDB msg.
  Proof.
    intros H. apply existsb_exists in H. destruct H as [[[site s] msg] [Hin Hb]]. cbn [fst snd] in Hb.
    apply andb_true_iff in Hb. destruct Hb as [Hm _].
    exists site, s, msg. split; [exact Hin|].
    destruct (M s) eqn:E; simpl in Hm; try discriminate. split; reflexivity.
  Qed.
End Cat.
