(* Lemmas about Model/Viral.v (C28). *)
From Coq Require Import ZArith QArith Qreduction String List Bool Permutation Sorted Lia OrderedTypeEx.
Import ListNotations.
From VTL Require Import Base.Val Model.Table Model.Scalar Model.Expr Model.SetOps Model.Viral
     Proofs.TableP Proofs.MonadP Proofs.ExprP Proofs.SetOpsP.
Open Scope string_scope.
Open Scope list_scope.
Arguments Qred : simpl never.

(* ================================================================ the order on values *)
Definition canon (v : val) : Prop := vcanon v = v.

Lemma vcanon_canon v : canon (vcanon v).
Proof.
  unfold canon. destruct v; simpl; auto. f_equal. apply Qred_complete. apply Qred_correct.
Qed.

Lemma is_null_eq v : is_null v = true -> v = VNull.
Proof. destruct v; simpl; congruence. Qed.

Lemma sleb_iff a b : String.leb a b = true <-> String_as_OT.lt a b \/ a = b.
Proof.
  unfold String.leb. destruct (String.compare a b) eqn:E.
  - apply String_as_OT.cmp_eq in E. tauto.
  - apply String_as_OT.cmp_lt in E. tauto.
  - split; [discriminate|]. intros [H|H].
    + apply String_as_OT.cmp_lt in H. unfold String_as_OT.cmp in H. congruence.
    + apply String_as_OT.cmp_eq in H. unfold String_as_OT.cmp in H. congruence.
Qed.

Lemma sleb_trans a b c : String.leb a b = true -> String.leb b c = true -> String.leb a c = true.
Proof.
  rewrite !sleb_iff. intros [H1|H1] [H2|H2]; subst; auto.
  left. eapply String_as_OT.lt_trans; eauto.
Qed.

Lemma val_leb_total a b : val_leb a b = true \/ val_leb b a = true.
Proof.
  destruct a, b; simpl; auto.
  - destruct (Z.leb_spec z z0); auto. right. apply Z.leb_le. lia.
  - destruct (Qle_bool q q0) eqn:E; auto. right. apply Qle_bool_iff.
    destruct (Qlt_le_dec q0 q) as [H|H]; [apply Qlt_le_weak; exact H|]. apply Qle_bool_iff in H. congruence.
  - apply String.leb_total.
  - destruct b, b0; simpl; auto.
Qed.

Lemma val_leb_trans a b c : val_leb a b = true -> val_leb b c = true -> val_leb a c = true.
Proof.
  destruct a, b, c; simpl; try discriminate; auto.
  - rewrite !Z.leb_le. lia.
  - rewrite !Qle_bool_iff. apply Qle_trans.
  - apply sleb_trans.
  - destruct b, b0, b1; simpl; auto.
Qed.

Lemma val_leb_antisym a b : canon a -> canon b -> val_leb a b = true -> val_leb b a = true -> a = b.
Proof.
  unfold canon. destruct a, b; simpl; try discriminate; auto.
  - rewrite !Z.leb_le. intros _ _ H1 H2. f_equal. lia.
  - rewrite !Qle_bool_iff. intros Ha Hb H1 H2. injection Ha as Ha. injection Hb as Hb.
    rewrite <- Ha, <- Hb. f_equal. apply Qred_complete. apply Qle_antisym; auto.
  - intros _ _ H1 H2. f_equal. apply String.leb_antisym; auto.
  - intros _ _. destruct b, b0; simpl; auto; discriminate.
Qed.

(* ================================================================ selection by a total order: commutative, associative *)
Section Sel.
  Variable le : val -> val -> bool.
  Hypothesis le_total : forall a b, le a b = true \/ le b a = true.
  Hypothesis le_trans : forall a b c, le a b = true -> le b c = true -> le a c = true.
  Hypothesis le_antisym : forall a b, canon a -> canon b -> le a b = true -> le b a = true -> a = b.

  Definition sel (a b : val) : val := if le a b then a else b.

  Lemma sel_canon a b : canon a -> canon b -> canon (sel a b).
  Proof. unfold sel. destruct (le a b); auto. Qed.

  Lemma sel_comm a b : canon a -> canon b -> sel a b = sel b a.
  Proof.
    intros Ha Hb. unfold sel. destruct (le a b) eqn:E1, (le b a) eqn:E2; auto.
    destruct (le_total a b); congruence.
  Qed.

  Lemma sel_assoc a b c : canon a -> canon b -> canon c -> sel a (sel b c) = sel (sel a b) c.
  Proof.
    intros Ha Hb Hc. unfold sel.
    destruct (le b c) eqn:Ebc, (le a b) eqn:Eab; try rewrite Ebc; try rewrite Eab; auto.
    - rewrite (le_trans _ _ _ Eab Ebc). reflexivity.
    - destruct (le a c) eqn:Eac; auto.
      (* a <= c, not b <= c, not a <= b: b <= a <= c, contradiction *)
      destruct (le_total a b) as [H|H]; [congruence|]. rewrite (le_trans _ _ _ H Eac) in Ebc. discriminate.
  Qed.

  Lemma sel_lcomm a b c : canon a -> canon b -> canon c -> sel a (sel b c) = sel b (sel a c).
  Proof.
    intros Ha Hb Hc. rewrite sel_assoc, (sel_comm a b), <- sel_assoc; auto.
  Qed.
End Sel.

(* the order for max: nulls greatest again, the rest reversed *)
Definition leb_max (a b : val) : bool :=
  if is_null b then true else if is_null a then false else val_leb b a.

Lemma leb_max_total a b : leb_max a b = true \/ leb_max b a = true.
Proof.
  unfold leb_max. destruct (is_null a) eqn:Ea, (is_null b) eqn:Eb; auto.
  destruct (val_leb_total a b); auto.
Qed.
Lemma leb_max_trans a b c : leb_max a b = true -> leb_max b c = true -> leb_max a c = true.
Proof.
  unfold leb_max. destruct (is_null a) eqn:Ea, (is_null b) eqn:Eb, (is_null c) eqn:Ec; auto; try discriminate.
  intros H1 H2. eapply val_leb_trans; eauto.
Qed.
Lemma leb_max_antisym a b : canon a -> canon b -> leb_max a b = true -> leb_max b a = true -> a = b.
Proof.
  unfold leb_max. intros Ha Hb. destruct (is_null a) eqn:Ea, (is_null b) eqn:Eb; try discriminate.
  - intros _ _. apply is_null_eq in Ea. apply is_null_eq in Eb. congruence.
  - intros H1 H2. apply val_leb_antisym; auto.
Qed.

Lemma val_leb_null_r a : val_leb a VNull = true.
Proof. destruct a; reflexivity. Qed.
Lemma val_leb_null_l b : is_null b = false -> val_leb VNull b = false.
Proof. destruct b; simpl; auto; discriminate. Qed.

Lemma vmin2_sel a b : vmin2 a b = sel val_leb a b.
Proof.
  unfold vmin2, sel. destruct (is_null a) eqn:Ea.
  - apply is_null_eq in Ea. subst. destruct (is_null b) eqn:Eb.
    + apply is_null_eq in Eb. subst. reflexivity.
    + rewrite (val_leb_null_l _ Eb). reflexivity.
  - destruct (is_null b) eqn:Eb; auto. apply is_null_eq in Eb. subst. rewrite val_leb_null_r. reflexivity.
Qed.

Lemma vmax2_sel a b : vmax2 a b = sel leb_max a b.
Proof.
  unfold vmax2, sel, leb_max. destruct (is_null a) eqn:Ea.
  - apply is_null_eq in Ea. subst. destruct (is_null b) eqn:Eb; auto.
    apply is_null_eq in Eb. subst. reflexivity.
  - destruct (is_null b) eqn:Eb; auto.
    destruct (val_leb a b) eqn:E1, (val_leb b a) eqn:E2; auto.
Abort.

(* max written directly: the same case analysis as sel, with antisymmetry when both comparisons hold *)
Lemma vmax2_sel a b : canon a -> canon b -> vmax2 a b = sel leb_max a b.
Proof.
  intros Ca Cb. unfold vmax2, sel, leb_max. destruct (is_null a) eqn:Ea.
  - apply is_null_eq in Ea. subst. destruct (is_null b) eqn:Eb; auto.
    apply is_null_eq in Eb. subst. reflexivity.
  - destruct (is_null b) eqn:Eb; auto.
    destruct (val_leb a b) eqn:E1, (val_leb b a) eqn:E2; auto.
    + symmetry. apply val_leb_antisym; auto.
    + destruct (val_leb_total a b); congruence.
Qed.

(* ================================================================ folds over permutations *)
Lemma fold_right_perm_P {A} (P : A -> Prop) (f : A -> A -> A) (u : A) :
  (forall a b, P a -> P b -> P (f a b)) -> P u ->
  (forall a b c, P a -> P b -> P c -> f a (f b c) = f b (f a c)) ->
  forall l l', Permutation l l' -> Forall P l -> fold_right f u l = fold_right f u l'.
Proof.
  intros Hcl Hu Hlc l l' Hp. induction Hp; intros HF; simpl; auto.
  - inversion HF; subst. rewrite IHHp; auto.
  - inversion HF as [|? ? Hy HF']; subst. inversion HF' as [|? ? Hx HF'']; subst.
    apply Hlc; auto.
    clear - Hcl Hu HF''. induction HF''; simpl; auto.
  - rewrite IHHp1; auto. apply IHHp2. eapply Permutation_Forall; eauto.
Qed.

Lemma fold_right_closed {A} (P : A -> Prop) (f : A -> A -> A) (u : A) l :
  (forall a b, P a -> P b -> P (f a b)) -> P u -> Forall P l -> P (fold_right f u l).
Proof. intros Hcl Hu HF. induction HF; simpl; auto. Qed.

Lemma nonnull_perm l l' : Permutation l l' -> Permutation (nonnull l) (nonnull l').
Proof. apply Permutation_filter. Qed.

Lemma canon_nonnull_map l : Forall canon (nonnull (map vcanon l)).
Proof.
  unfold nonnull. apply Forall_forall. intros x Hx. apply filter_In in Hx. destruct Hx as [Hx _].
  apply in_map_iff in Hx. destruct Hx as [y [<- _]]. apply vcanon_canon.
Qed.

Lemma fold_sel_eq (f g : val -> val -> val) l :
  (forall a b, canon a -> canon b -> f a b = g a b) -> (forall a b, canon a -> canon b -> canon (g a b)) ->
  Forall canon l -> fold_right f VNull l = fold_right g VNull l.
Proof.
  intros Hfg Hc HF. induction HF; simpl; auto. rewrite IHHF. apply Hfg; auto.
  apply fold_right_closed with (P := canon); auto. reflexivity.
Qed.

Lemma min_group_perm l l' : Permutation l l' -> Forall canon l ->
  fold_right vmin2 VNull l = fold_right vmin2 VNull l'.
Proof.
  intros Hp HF.
  rewrite (fold_sel_eq vmin2 (sel val_leb) l), (fold_sel_eq vmin2 (sel val_leb) l'); auto using vmin2_sel, sel_canon.
  - apply fold_right_perm_P with (P := canon); auto using sel_canon.
    + reflexivity.
    + intros. apply sel_lcomm; auto; [exact val_leb_total|exact val_leb_trans|exact val_leb_antisym].
  - eapply Permutation_Forall; eauto.
Qed.

Lemma max_group_perm l l' : Permutation l l' -> Forall canon l ->
  fold_right vmax2 VNull l = fold_right vmax2 VNull l'.
Proof.
  intros Hp HF.
  rewrite (fold_sel_eq vmax2 (sel leb_max) l), (fold_sel_eq vmax2 (sel leb_max) l'); auto using vmax2_sel, sel_canon.
  - apply fold_right_perm_P with (P := canon); auto using sel_canon.
    + reflexivity.
    + intros. apply sel_lcomm; auto; [exact leb_max_total|exact leb_max_trans|exact leb_max_antisym].
  - eapply Permutation_Forall; eauto.
Qed.

(* integer / rational views of permuted lists *)
Lemma ints_perm l l' : Permutation l l' ->
  match ints l, ints l' with
  | Some a, Some b => Permutation a b
  | None, None => True
  | _, _ => False
  end.
Proof.
  intros Hp. induction Hp.
  - simpl. constructor.
  - simpl. destruct x; auto; try (destruct (ints l), (ints l'); simpl; tauto).
    destruct (ints l), (ints l'); simpl; auto.
  - simpl. destruct x, y; simpl; auto; try (destruct (ints l); simpl; auto).
    apply perm_swap.
  - destruct (ints l), (ints l'), (ints l''); try tauto. eapply perm_trans; eauto.
Qed.

Lemma nums_perm l l' : Permutation l l' ->
  match nums l, nums l' with
  | Some a, Some b => Permutation a b
  | None, None => True
  | _, _ => False
  end.
Proof.
  intros Hp. induction Hp.
  - simpl. constructor.
  - simpl. destruct (to_q x); [|destruct (nums l), (nums l'); tauto].
    destruct (nums l), (nums l'); simpl; auto.
  - simpl. destruct (to_q x), (to_q y), (nums l); simpl; auto. apply perm_swap.
  - destruct (nums l), (nums l'), (nums l''); try tauto. eapply perm_trans; eauto.
Qed.

Lemma zsum_perm a b : Permutation a b -> zsum a = zsum b.
Proof.
  intros Hp. unfold zsum. apply fold_right_perm_P with (P := fun _ => True); auto.
  - intros. lia.
  - apply Forall_forall. auto.
Qed.

Lemma qadd_lcomm a b c : qadd a (qadd b c) = qadd b (qadd a c).
Proof.
  unfold qadd. apply Qred_complete. rewrite !Qred_correct. ring.
Qed.

Lemma qsum_perm a b : Permutation a b -> qsum a = qsum b.
Proof.
  intros Hp. unfold qsum. apply fold_right_perm_P with (P := fun _ => True); auto.
  - intros. apply qadd_lcomm.
  - apply Forall_forall. auto.
Qed.

(* ================================================================ aggregate rules: a function of the multiset *)
Lemma aggregate_group_perm f l l' : Permutation l l' -> agg_group f l = agg_group f l'.
Proof.
  intros Hp.
  assert (Hn : Permutation (nonnull (map vcanon l)) (nonnull (map vcanon l'))).
  { apply nonnull_perm. apply Permutation_map. exact Hp. }
  assert (HF := canon_nonnull_map l).
  unfold agg_group. remember (nonnull (map vcanon l)) as a. remember (nonnull (map vcanon l')) as b.
  clear Heqa Heqb Hp.
  destruct f.
  - apply min_group_perm; auto.
  - apply max_group_perm; auto.
  - destruct a as [|x a'].
    + apply Permutation_nil in Hn. subst. reflexivity.
    + destruct b as [|y b']; [symmetry in Hn; apply Permutation_nil in Hn; discriminate|].
      pose proof (ints_perm _ _ Hn) as Hi. pose proof (nums_perm _ _ Hn) as Hq.
      destruct (ints (x :: a')), (ints (y :: b')); try tauto.
      * f_equal. apply zsum_perm. exact Hi.
      * destruct (nums (x :: a')), (nums (y :: b')); try tauto. f_equal. apply qsum_perm. exact Hq.
  - destruct a as [|x a'].
    + apply Permutation_nil in Hn. subst. reflexivity.
    + destruct b as [|y b']; [symmetry in Hn; apply Permutation_nil in Hn; discriminate|].
      pose proof (nums_perm _ _ Hn) as Hq.
      destruct (nums (x :: a')), (nums (y :: b')); try tauto.
      rewrite (qsum_perm _ _ Hq), (Permutation_length Hq). reflexivity.
Qed.

(* ================================================================ enumerated rules *)
Lemma in_pair_comm v a b : in_pair v a b = in_pair v b a.
Proof. unfold in_pair. destruct (is_null v); apply orb_comm. Qed.

Lemma find_ext' {A} (f g : A -> bool) l : (forall x, f x = g x) -> find f l = find g l.
Proof. intros H. induction l; simpl; auto. rewrite H, IHl. reflexivity. Qed.

Lemma enumerated_pair_comm cls d a b : enum_pair cls d a b = enum_pair cls d b a.
Proof.
  unfold enum_pair.
  rewrite (find_ext' (c2_match a b) (c2_match b a)), (find_ext' (c1_match a b) (c1_match b a)); auto.
  - intros [x y r|x r]; simpl; auto. apply in_pair_comm.
  - intros [x y r|x r]; simpl; auto. rewrite (in_pair_comm x), (in_pair_comm y). reflexivity.
Qed.

(* aggregate rules on a pair are symmetric as well (min / max: on canonical values) *)
Lemma agg_pair_comm f a b : canon a -> canon b -> agg_pair f a b = agg_pair f b a.
Proof.
  intros Ha Hb. destruct f; simpl.
  - rewrite !vmin2_sel. apply sel_comm; auto; [exact val_leb_total|exact val_leb_antisym].
  - rewrite !vmax2_sel; auto. apply sel_comm; auto; [exact leb_max_total|exact leb_max_antisym].
  - rewrite (orb_comm (is_null a)). destruct (is_null b || is_null a); auto.
    unfold vadd. destruct a, b; simpl; auto; try (f_equal; lia); f_equal; apply Qred_complete; ring.
  - rewrite (orb_comm (is_null a)). destruct (is_null b || is_null a); auto.
    destruct (to_q a), (to_q b); auto. f_equal. apply Qred_complete. field.
Qed.

(* a single value is the pair of the value with itself whenever no binary clause can match a diagonal pair *)
Definition no_diag (c : vclause) : Prop :=
  match c with VC2 x y _ => forall a, in_pair x a a && in_pair y a a = false | VC1 _ _ => True end.

Lemma enum_single_is_pair_diag cls d a : Forall no_diag cls -> enum_single cls d a = enum_pair cls d a a.
Proof.
  intros HF. unfold enum_single, enum_pair.
  assert (H2 : find (c2_match a a) cls = None).
  { induction HF as [|c t Hc HF IH]; simpl; auto. destruct c as [x y r|x r]; simpl; [rewrite (Hc a)|]; exact IH. }
  rewrite H2. rewrite (find_ext' (c1_single a) (c1_match a a)); auto.
  intros [x y r|x r]; simpl; auto. unfold in_pair. destruct (is_null x).
  - rewrite orb_diag. reflexivity.
  - rewrite orb_diag. apply val_eqb_sym.
Qed.

(* ---------------- the fold as it was BEFORE the fix (physical order) depends on the order: witness *)
Definition witness_rule : vrule :=
  REnum [VC2 (VStr "A") (VStr "B") (VStr "C"); VC1 (VStr "C") (VStr "D")] (VStr "E").

Lemma fold_before_fix_order_dependent :
  exists r l l', Permutation l l' /\ vp_group_before_fix r l <> vp_group_before_fix r l'.
Proof.
  exists witness_rule, [VStr "A"; VStr "B"; VStr "C"], [VStr "C"; VStr "B"; VStr "A"]. split.
  - apply Permutation_rev with (l := [VStr "A"; VStr "B"; VStr "C"]).
  - vm_compute. discriminate.
Qed.

(* ---------------- … but not for rules whose pair table is closed and associative on the values at hand *)
Lemma val_same_refl a : val_same a a = true.
Proof.
  destruct a; simpl; auto using Z.eqb_refl, String.eqb_refl.
  - rewrite Z.eqb_refl, Pos.eqb_refl. reflexivity.
  - destruct b; reflexivity.
Qed.

Lemma val_same_eq a b : val_same a b = true <-> a = b.
Proof.
  split; [|intros ->; apply val_same_refl].
  destruct a, b; simpl; try discriminate; auto.
  - rewrite Z.eqb_eq. congruence.
  - rewrite andb_true_iff, Z.eqb_eq, Pos.eqb_eq. destruct q, q0; simpl. intros [-> ->]. reflexivity.
  - rewrite String.eqb_eq. congruence.
  - destruct b, b0; simpl; congruence.
Qed.

Section Safe.
  Variable dom : list val.
  Variable f : val -> val -> val.
  Hypothesis f_comm : forall a b, f a b = f b a.
  Hypothesis Hclosed : closed_on dom f = true.
  Hypothesis Hassoc : assoc_on dom f = true.

  Let D (v : val) : Prop := In v dom.

  Lemma closed_D a b : D a -> D b -> D (f a b).
  Proof.
    intros Ha Hb. unfold closed_on in Hclosed.
    rewrite forallb_forall in Hclosed. specialize (Hclosed a Ha).
    rewrite forallb_forall in Hclosed. specialize (Hclosed b Hb).
    apply existsb_exists in Hclosed. destruct Hclosed as [x [Hx He]]. apply val_same_eq in He. unfold D. congruence.
  Qed.

  Lemma assoc_D a b c : D a -> D b -> D c -> f (f a b) c = f a (f b c).
  Proof.
    intros Ha Hb Hc. unfold assoc_on in Hassoc.
    rewrite forallb_forall in Hassoc. specialize (Hassoc a Ha).
    rewrite forallb_forall in Hassoc. specialize (Hassoc b Hb).
    rewrite forallb_forall in Hassoc. specialize (Hassoc c Hc).
    apply val_same_eq. exact Hassoc.
  Qed.

  Lemma rcomm_D x a b : D x -> D a -> D b -> f (f x a) b = f (f x b) a.
  Proof. intros. rewrite !assoc_D, (f_comm a b); auto. Qed.

  Lemma fold_left_perm_D l l' : Permutation l l' -> Forall D l -> forall x, D x -> fold_left f l x = fold_left f l' x.
  Proof.
    intros Hp. induction Hp; intros HF x0 Hx0; simpl; auto.
    - inversion HF; subst. apply IHHp; auto using closed_D.
    - inversion HF as [|? ? Hy HF']; subst. inversion HF' as [|? ? Hx HF'']; subst.
      rewrite rcomm_D; auto.
    - rewrite IHHp1; auto. apply IHHp2; auto. eapply Permutation_Forall; eauto.
  Qed.

  Lemma fold1_perm_D l l' : Permutation l l' -> Forall D l -> fold1 f l = fold1 f l'.
  Proof.
    intros Hp. induction Hp; intros HF; simpl; auto.
    - inversion HF; subst. apply fold_left_perm_D; auto.
    - rewrite (f_comm y x). reflexivity.
    - rewrite IHHp1; auto. apply IHHp2. eapply Permutation_Forall; eauto.
  Qed.
End Safe.

Lemma fold_before_fix_partial dom cls d l l' :
  enum_order_safe dom cls d = true -> Forall (fun v => In v dom) l -> Permutation l l' ->
  vp_group_before_fix (REnum cls d) l = vp_group_before_fix (REnum cls d) l'.
Proof.
  unfold enum_order_safe. rewrite andb_true_iff. intros [Hc Ha] HF Hp. simpl.
  eapply fold1_perm_D; eauto. apply enumerated_pair_comm.
Qed.

(* ================================================================ canonical order: the specification is a function of
   the multiset for every rule *)
Lemma vinsert_perm x l : Permutation (x :: l) (vinsert x l).
Proof.
  induction l as [|h t IH]; simpl; auto. destruct (val_leb x h); auto.
  eapply perm_trans; [apply perm_swap|]. apply perm_skip. exact IH.
Qed.

Lemma vsort_perm l : Permutation l (vsort l).
Proof.
  induction l as [|h t IH]; simpl; auto. eapply perm_trans; [|apply vinsert_perm]. apply perm_skip. exact IH.
Qed.

Definition SS := StronglySorted (fun a b => val_leb a b = true).

Lemma vinsert_SS x l : SS l -> SS (vinsert x l).
Proof.
  intros H. induction H as [|h t Ht IH Hh]; simpl.
  - constructor; constructor.
  - destruct (val_leb x h) eqn:E.
    + constructor; [constructor; auto|]. constructor; auto.
      eapply Forall_impl; [|exact Hh]. intros y Hy. eapply val_leb_trans; eauto.
    + constructor; auto.
      assert (Hhx : val_leb h x = true) by (destruct (val_leb_total x h); congruence).
      eapply Permutation_Forall; [apply vinsert_perm|]. constructor; auto.
  Qed.

Lemma vsort_SS l : SS (vsort l).
Proof. induction l; simpl; [constructor|apply vinsert_SS; auto]. Qed.

Lemma SS_perm_eq l1 : forall l2, SS l1 -> SS l2 -> Permutation l1 l2 -> Forall canon l1 -> l1 = l2.
Proof.
  induction l1 as [|a t1 IH]; intros l2 H1 H2 Hp HF.
  - apply Permutation_nil in Hp. auto.
  - destruct l2 as [|b t2]; [symmetry in Hp; apply Permutation_nil in Hp; discriminate|].
    inversion H1 as [|? ? S1 F1]; subst. inversion H2 as [|? ? S2 F2]; subst. inversion HF as [|? ? Ca HF']; subst.
    assert (Cb : canon b).
    { assert (Hall : Forall canon (b :: t2)) by (eapply Permutation_Forall; eauto). inversion Hall; auto. }
    assert (Hab : a = b).
    { assert (Ia : In a (b :: t2)) by (eapply Permutation_in; [exact Hp|left; reflexivity]).
      assert (Ib : In b (a :: t1)) by (eapply Permutation_in; [symmetry; exact Hp|left; reflexivity]).
      destruct Ia as [->|Ia]; auto. destruct Ib as [->|Ib]; auto.
      rewrite Forall_forall in F1, F2. apply val_leb_antisym; auto. }
    subst b. f_equal. apply IH; auto. eapply Permutation_cons_inv; eauto.
Qed.

Lemma vsort_perm_eq l l' : Permutation l l' -> Forall canon l -> vsort l = vsort l'.
Proof.
  intros Hp HF. apply SS_perm_eq; auto using vsort_SS.
  - eapply perm_trans; [symmetry; apply vsort_perm|]. eapply perm_trans; [exact Hp|apply vsort_perm].
  - eapply Permutation_Forall; [apply vsort_perm|exact HF].
Qed.

Lemma vp_group_perm r l l' : Permutation l l' -> vp_group r l = vp_group r l'.
Proof.
  intros Hp. destruct r as [cls d|f]; simpl.
  - f_equal. apply vsort_perm_eq.
    + apply Permutation_map. exact Hp.
    + apply Forall_forall. intros x Hx. apply in_map_iff in Hx. destruct Hx as [y [<- _]]. apply vcanon_canon.
  - apply aggregate_group_perm. exact Hp.
Qed.

(* the engine's fold (sorted) IS the specification, hence a function of the multiset of values, for every rule *)
Lemma vp_group_impl_is_spec r l : vp_group_impl r l = vp_group r l.
Proof. destruct r; reflexivity. Qed.

Lemma vp_group_impl_perm r l l' : Permutation l l' -> vp_group_impl r l = vp_group_impl r l'.
Proof. intros Hp. rewrite !vp_group_impl_is_spec. apply vp_group_perm. exact Hp. Qed.

(* the value an aggregation / analytic invocation gives to a group or partition (rule or no rule) does not depend on
   the order of its datapoints *)
Lemma grp_perm rule l l' : Permutation l l' -> grp false rule l = grp false rule l'.
Proof.
  intros Hp. destruct rule as [r|]; simpl; [apply vp_group_impl_perm; exact Hp|].
  unfold vp_no_rule_group. pose proof (Permutation_length Hp) as HL.
  destruct l as [|a [|b t]].
  - apply Permutation_nil in Hp. subst. reflexivity.
  - apply Permutation_length_1_inv in Hp. subst. reflexivity.
  - destruct l' as [|a' [|b' t']]; simpl in HL; try discriminate. reflexivity.
Qed.

(* the empty group: null for every rule, before and after the fix *)
Lemma grp_nil old rule : grp old rule [] = VNull.
Proof. destruct old, rule as [[cls d|f]|]; try reflexivity; destruct f; reflexivity. Qed.

(* empty operand: the aggr clause without any grouping identifier yields exactly one datapoint, whose viral value is
   null; the standalone aggregation (and the clause with a grouping identifier) yields none *)
Lemma v_group_empty old rules d by_ clause :
  d_rows d = [] ->
  d_rows (v_group old rules d by_ clause) =
  match filter (fun n => mem_s n by_) (d_ids d), clause with
  | [], true => [([], if has_v d then [VNull] else [])]
  | _, _ => []
  end.
Proof.
  intros H. unfold v_group, group_keys. cbn [d_rows]. rewrite H.
  destruct (filter (fun n => mem_s n by_) (d_ids d)), clause; cbn [map filter vvals nubk]; try reflexivity.
  rewrite grp_nil. reflexivity.
Qed.

(* the two forms agree on every non-empty operand *)
Lemma group_keys_nonempty d by_ clause : d_rows d <> [] ->
  group_keys d by_ clause = nubk (map (gproj d by_) (d_rows d)).
Proof.
  intros H. unfold group_keys. destruct (filter (fun n => mem_s n by_) (d_ids d)) eqn:E, clause; auto.
  assert (Hk : forall r, gproj d by_ r = []).
  { intros r. unfold gproj, select_by.
    assert (G : forall ids k, filter (fun n => mem_s n by_) ids = [] ->
                map snd (filter (fun p : string * val => mem_s (fst p) by_) (combine ids k)) = []).
    { induction ids as [|i t IH]; intros k Hf; [reflexivity|]. destruct k as [|v k']; [reflexivity|]. simpl in *.
      destruct (mem_s i by_); [discriminate|]. apply IH. exact Hf. }
    apply G. exact E. }
  destruct (d_rows d) as [|r t]; [congruence|]. clear H. cbn [map nubk]. rewrite Hk. f_equal.
  induction t as [|r' t' IH]; [reflexivity|]. cbn [map nubk]. rewrite Hk.
  change (filter (fun x : list val => negb (key_eqb [] x)) ([] :: filter (fun y => negb (key_eqb [] y)) (nubk (map (gproj d by_) t'))))
    with (filter (fun x : list val => negb (key_eqb [] x)) (filter (fun y => negb (key_eqb [] y)) (nubk (map (gproj d by_) t')))).
  rewrite <- IH. reflexivity.
Qed.

(* where the order-safety check passes (and the values are canonical) even the fold before the fix was the specification *)
Lemma canon_map_id l : Forall canon l -> map vcanon l = l.
Proof. intros H. induction H; simpl; auto. rewrite H, IHForall. reflexivity. Qed.

Lemma before_fix_is_spec_when_safe dom cls d l :
  enum_order_safe dom cls d = true -> Forall (fun v => In v dom) l -> Forall canon l ->
  vp_group_before_fix (REnum cls d) l = vp_group (REnum cls d) l.
Proof.
  intros Hs HD HC. rewrite (fold_before_fix_partial dom cls d l (vsort l) Hs HD (vsort_perm l)).
  simpl. rewrite canon_map_id; auto.
Qed.

(* ================================================================ clauses, plain assignment, set operators keep the value *)
Lemma filter_keeps d c d' : d_filter d c = Ok d' ->
  d_ids d' = d_ids d /\ d_ms d' = d_ms d /\ forall r, In r (d_rows d') -> In r (d_rows d).
Proof.
  intros H. destruct (d_filter_spec _ _ _ H) as [H1 [H2 H3]]. repeat split; auto. intros r Hr. apply H3 in Hr. tauto.
Qed.

Lemma sub_keeps d fixed r' : In r' (d_rows (d_sub d fixed)) -> exists r, In r (d_rows d) /\ snd r' = snd r.
Proof. intros H. apply d_sub_spec in H. destruct H as [r [Hr [_ ->]]]. exists r. auto. Qed.

Lemma setop_keeps o a b r : In r (d_rows (v_setop o a b)) -> In r (d_rows a) \/ In r (d_rows b).
Proof.
  destruct o; unfold v_setop; cbn [d_rows].
  - intros H. apply union_spec in H. destruct H as [pre [dd [post [E [Hr _]]]]].
    destruct pre as [|p1 pre]; simpl in E.
    + injection E as <- _. auto.
    + injection E as _ E. destruct pre as [|p2 pre]; simpl in E.
      * injection E as <- _. auto.
      * injection E as _ E. destruct pre; discriminate.
  - intros H. apply intersect_spec in H. tauto.
  - intros H. apply setdiff_spec in H. tauto.
  - intros H. apply symdiff_spec in H. tauto.
Qed.

Lemma clauses_and_set_ops_preserve impl rules e :
  (forall n d, veval impl rules e (XVar n) = Ok d -> dlook n e = Some d) /\
  (forall a, veval impl rules e (XSame a) = veval impl rules e a) /\
  (forall a c d, veval impl rules e (XFilter a c) = Ok d ->
     exists da, veval impl rules e a = Ok da /\ d_ms d = d_ms da /\ forall r, In r (d_rows d) -> In r (d_rows da)) /\
  (forall a fixed d, veval impl rules e (XSub a fixed) = Ok d ->
     exists da, veval impl rules e a = Ok da /\ d_ms d = d_ms da /\
                forall r, In r (d_rows d) -> exists r0, In r0 (d_rows da) /\ vget r = vget r0) /\
  (forall o a b d, veval impl rules e (XSet o a b) = Ok d ->
     exists da db, veval impl rules e a = Ok da /\ veval impl rules e b = Ok db /\ d_ms d = d_ms da /\
                   forall r, In r (d_rows d) -> In r (d_rows da) \/ In r (d_rows db)).
Proof.
  repeat split.
  - intros n d. simpl. destruct (dlook n e); congruence.
  - intros a c d. simpl. destruct (veval impl rules e a) as [da|]; simpl; [|discriminate].
    intros H. exists da. destruct (filter_keeps _ _ _ H) as [_ [H2 H3]]. auto.
  - intros a fixed d. simpl. destruct (veval impl rules e a) as [da|]; simpl; [|discriminate].
    intros H. injection H as <-. exists da. repeat split; auto.
    intros r Hr. apply sub_keeps in Hr. destruct Hr as [r0 [H0 E]]. exists r0. split; auto. unfold vget. rewrite E. reflexivity.
  - intros o a b d. simpl. destruct (veval impl rules e a) as [da|]; simpl; [|discriminate].
    destruct (veval impl rules e b) as [db|]; simpl; [|discriminate].
    intros H. injection H as <-. exists da, db. repeat split; auto. intros r. apply setop_keeps.
Qed.

(* ================================================================ the static pass *)
Lemma slook_senv_of n e : slook n (senv_of e) = option_map (fun d => (d_ids d, d_ms d)) (dlook n e).
Proof.
  induction e as [|[k v] t IH]; simpl; auto. destruct (String.eqb n k); auto.
Qed.

Lemma mapM_concat_struct {A B} (f : A -> res (list B)) l r : mapM f l = Ok r -> True.
Proof. auto. Qed.

Lemma v_combine_struct k rules a b d :
  v_combine k rules a b = Ok d -> s_combine k (d_ids a, d_ms a) (d_ids b, d_ms b) = Ok (d_ids d, d_ms d).
Proof.
  unfold v_combine, s_combine, has_v. simpl.
  destruct (subset_s (d_ids b) (d_ids a)).
  - destruct (mapM _ (d_rows a)); simpl; [|discriminate]. intros H. injection H as <-. simpl.
    destruct (d_ms a); reflexivity.
  - destruct (subset_s (d_ids a) (d_ids b)); [|discriminate]. destruct k; [|discriminate].
    destruct (mapM _ (d_rows b)); simpl; [|discriminate]. intros H. injection H as <-. simpl.
    destruct (d_ms a); reflexivity.
Qed.

Lemma v_unary_struct rules d : d_ids (v_unary rules d) = d_ids d /\ d_ms (v_unary rules d) = d_ms d.
Proof. unfold v_unary. destruct (rule_of rules d); auto. Qed.

Lemma veval_struct impl rules e x : forall d,
  veval impl rules e x = Ok d -> vstatic (senv_of e) x = Ok (d_ids d, d_ms d).
Proof.
  induction x; intros d; simpl.
  - rewrite slook_senv_of. destruct (dlook n e); simpl; [|discriminate]. intros H. injection H as ->. reflexivity.
  - destruct (veval impl rules e x1) as [da|]; simpl; [|discriminate].
    destruct (veval impl rules e x2) as [db|]; simpl; [|discriminate].
    rewrite (IHx1 da eq_refl), (IHx2 db eq_refl). simpl. apply v_combine_struct.
  - destruct (veval impl rules e x1) as [da|]; simpl; [|discriminate].
    destruct (veval impl rules e x2) as [db|]; simpl; [|discriminate].
    rewrite (IHx1 da eq_refl), (IHx2 db eq_refl). simpl. apply v_combine_struct.
  - destruct (veval impl rules e x) as [da|]; simpl; [|discriminate].
    intros H. injection H as <-. rewrite (IHx da eq_refl). destruct (v_unary_struct rules da) as [-> ->]. reflexivity.
  - destruct (veval impl rules e x) as [da|]; simpl; [|discriminate].
    intros H. injection H as <-. rewrite (IHx da eq_refl). simpl. destruct (v_unary_struct rules da) as [_ ->]. reflexivity.
  - destruct (veval impl rules e x) as [da|]; simpl; [|discriminate].
    intros H. injection H as <-. rewrite (IHx da eq_refl). reflexivity.
  - destruct (veval impl rules e x) as [da|]; simpl; [|discriminate].
    intros H. injection H as <-. rewrite (IHx da eq_refl). reflexivity.
  - destruct (veval impl rules e x) as [da|]; simpl; [|discriminate].
    intros H. destruct (filter_keeps _ _ _ H) as [-> [-> _]]. apply IHx. reflexivity.
  - apply IHx.
  - destruct (veval impl rules e x) as [da|]; simpl; [|discriminate].
    intros H. injection H as <-. rewrite (IHx da eq_refl). reflexivity.
  - destruct (veval impl rules e x) as [da|]; simpl; [|discriminate].
    intros H. injection H as <-. rewrite (IHx da eq_refl). reflexivity.
  - destruct (veval impl rules e x) as [da|]; simpl; [|discriminate].
    intros H. injection H as <-. rewrite (IHx da eq_refl). reflexivity.
  - destruct (veval impl rules e x1) as [da|]; simpl; [|discriminate].
    destruct (veval impl rules e x2) as [db|]; simpl; [|discriminate].
    intros H. injection H as <-. rewrite (IHx1 da eq_refl), (IHx2 db eq_refl). reflexivity.
Qed.

(* a statement whose result carries a viral attribute without a rule is rejected, statically *)
Lemma missing_rule_rejected_step rules e n x rest s a tl :
  vstatic e x = Ok s -> snd s = a :: tl -> rlook a rules = None ->
  vcheck rules e ((n, x) :: rest) = Err ERR_NO_RULE.
Proof.
  intros Hs Hv Hr. simpl. rewrite Hs. simpl. unfold rule_present. rewrite Hv, Hr. reflexivity.
Qed.

(* … and every dataset produced by a statement of an accepted script has a rule for its viral attribute *)
Lemma accepted_script_has_rules impl rules ss : forall e e',
  vcheck rules (senv_of e) ss = Ok tt -> vstmts impl rules e ss = Ok e' ->
  exists added, e' = added ++ e /\ List.length added = List.length ss /\
                Forall (fun p => rule_present rules (d_ids (snd p), d_ms (snd p)) = true) added.
Proof.
  induction ss as [|[n x] t IH]; intros e e'; simpl.
  - intros _ H. injection H as <-. exists []. repeat split; auto.
  - destruct (veval impl rules e x) as [d|] eqn:Ev; simpl; [|discriminate].
    rewrite (veval_struct _ _ _ _ _ Ev). simpl.
    destruct (rule_present rules (d_ids d, d_ms d)) eqn:Erp; [|discriminate].
    intros Hc Hs. destruct (IH ((n, d) :: e) e') as [added [E [L F]]]; auto.
    exists (added ++ [(n, d)]). repeat split.
    + rewrite <- app_assoc. exact E.
    + rewrite app_length. simpl. lia.
    + apply Forall_app. split; auto.
Qed.

Lemma vrun_rejects impl numeric defs rules e ss result :
  vdefs numeric defs [] = Ok rules -> vcheck rules (senv_of e) ss = Err ERR_NO_RULE ->
  vrun impl numeric defs e ss result = Err ERR_NO_RULE.
Proof. intros H1 H2. unfold vrun. rewrite H1. simpl. rewrite H2. reflexivity. Qed.
