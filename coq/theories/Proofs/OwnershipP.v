(* Lemmas about Model/Ownership.v (used by Props/C22.v). *)
From Coq Require Import List Bool Arith Lia.
Import ListNotations.
From VTL Require Import Model.Ownership.

(* untainted variables denote local objects; fresh objects are local *)
Definition oinv (nc : nat) (T : var -> bool) (s : ost) : Prop :=
  (forall v, T v = false -> nc <= env s v) /\ nc <= next s.

Lemma oinit_inv : forall nc, oinv nc (taint0 nc) (oinit nc).
Proof.
  intros nc. split; [|simpl; lia]. intros v H. unfold taint0 in H. unfold oinit. cbn [env]. rewrite H. lia.
Qed.

Lemma step_inv : forall nc o T s, oinv nc T s ->
  (forall x t, o = Mutate x t -> T x = false) ->
  oinv nc (taint_op o T) (exec_op o s) /\ (forall ob, ob < nc -> heap (exec_op o s) ob = heap s ob).
Proof.
  intros nc o T s [I1 I2] Hm. unfold oinv. destruct o; simpl.
  - split; [split; [|exact I2] | reflexivity]. intros v H. simpl. unfold updf in *. destruct (Nat.eqb v d); [apply I1; exact H | apply I1; exact H].
  - split; [split; [|lia] |].
    + intros v H. simpl. unfold updf in *. destruct (Nat.eqb v d); [exact I2 | apply I1; exact H].
    + intros ob Hob. simpl. unfold updf. destruct (Nat.eqb ob (next s)) eqn:E; [|reflexivity]. apply Nat.eqb_eq in E. lia.
  - split; [split; [|lia] |].
    + intros v H. simpl. unfold updf in *. destruct (Nat.eqb v d); [exact I2 | apply I1; exact H].
    + intros ob Hob. simpl. unfold updf. destruct (Nat.eqb ob (next s)) eqn:E; [|reflexivity]. apply Nat.eqb_eq in E. lia.
  - split; [split; assumption |]. intros ob Hob. simpl. unfold updf.
    destruct (Nat.eqb ob (env s x)) eqn:E; [|reflexivity]. apply Nat.eqb_eq in E.
    pose proof (I1 x (Hm x t eq_refl)). lia.
  - split; [split; assumption | reflexivity].
  - split; [split; assumption | reflexivity].
Qed.

Lemma run_all_safe : forall nc p T s, oinv nc T s -> safe T p = true ->
  forall ob, ob < nc -> heap (run_all p s) ob = heap s ob.
Proof.
  intros nc p. induction p as [|o p IH]; intros T s I S ob Hob; [reflexivity|].
  unfold run_all in *. simpl fold_left.
  assert (forall x t, o = Mutate x t -> T x = false) as Hm.
  { intros x t ->. simpl in S. apply andb_true_iff in S. destruct S as [S1 _]. apply negb_true_iff in S1. exact S1. }
  destruct (step_inv nc o T s I Hm) as [I' H'].
  assert (safe (taint_op o T) p = true) as S'.
  { destruct o; simpl in S; try exact S. apply andb_true_iff in S. destruct S as [_ S2]. exact S2. }
  rewrite (IH _ _ I' S' ob Hob). apply H'. exact Hob.
Qed.

Lemma safe_firstn : forall p k T, safe T p = true -> safe T (firstn k p) = true.
Proof.
  induction p as [|o p IH]; intros k T S; destruct k; try reflexivity.
  simpl firstn. destruct o; simpl in *; try (apply IH; exact S).
  apply andb_true_iff in S. destruct S as [S1 S2]. rewrite S1. simpl. apply IH. exact S2.
Qed.

(* FRAME: if no Mutate target may alias a caller-owned object, then for ALL fault positions k (success is k >= length)
   every caller object is unchanged *)
Theorem frame : forall nc p, safe (taint0 nc) p = true ->
  forall k ob, ob < nc -> heap (run_prefix k p (oinit nc)) ob = [].
Proof.
  intros nc p S k ob Hob. unfold run_prefix.
  rewrite (run_all_safe nc (firstn k p) (taint0 nc) (oinit nc) (oinit_inv nc) (safe_firstn p k _ S) ob Hob). reflexivity.
Qed.

Corollary frame_view : forall nc p, safe (taint0 nc) p = true ->
  forall k, caller_view nc (run_prefix k p (oinit nc)) = repeat [] nc.
Proof.
  intros nc p S k. unfold caller_view.
  assert (forall l, (forall ob, In ob l -> ob < nc) -> map (heap (run_prefix k p (oinit nc))) l = repeat [] (length l)) as H.
  { induction l as [|a l IH]; intros Hl; [reflexivity|]. simpl. rewrite (frame nc p S k a) by (apply Hl; left; reflexivity).
    rewrite IH; [reflexivity|]. intros ob Ho. apply Hl. right. exact Ho. }
  rewrite H; [rewrite seq_length; reflexivity|]. intros ob Ho. apply in_seq in Ho. lia.
Qed.

(* ---- compositional safety --------------------------------------------------------------------------------------- *)
Lemma safe_app : forall p q T, safe T (p ++ q) = safe T p && safe (taint_all p T) q.
Proof.
  induction p as [|o p IH]; intros q T; [reflexivity|].
  destruct o; simpl; try apply IH. rewrite IH. unfold taint_all. simpl. rewrite andb_assoc. reflexivity.
Qed.

Lemma blocks_safe : forall f, (forall T i c, safe T (f i c) = true) ->
  forall cs i T, safe T (blocks f i cs) = true.
Proof.
  intros f H cs. induction cs as [|c cs IH]; intros i T; [reflexivity|].
  simpl. rewrite safe_app, H. simpl. apply IH.
Qed.

Lemma validate_block_impl_safe : forall T i c, safe T (validate_block_impl i c) = true.
Proof. intros T i [[] [] []]; reflexivity. Qed.

Lemma run_block_safe : forall T i c, safe T (run_block i c) = true.
Proof. reflexivity. Qed.

Theorem validate_impl_safe : forall cs T, safe T (validate_impl cs) = true.
Proof.
  intros cs T. unfold validate_impl. rewrite !safe_app.
  rewrite (blocks_safe validate_block_impl validate_block_impl_safe). reflexivity.
Qed.

Theorem run_o_safe : forall cs T, safe T (run_impl_o false cs) = true.
Proof.
  intros cs T. unfold run_impl_o. rewrite !safe_app.
  rewrite (blocks_safe run_block run_block_safe). reflexivity.
Qed.

Theorem run_sdmx_o_safe : forall cs T, safe T (run_sdmx_o cs) = true.
Proof. intros cs T. unfold run_sdmx_o. rewrite safe_app, run_o_safe. reflexivity. Qed.

Lemma semantic_o_safe : forall T, safe T semantic_o = true.
Proof. reflexivity. Qed.
Lemma prettify_o_safe : forall T, safe T prettify_o = true.
Proof. reflexivity. Qed.
Lemma generate_sdmx_o_safe : forall T, safe T generate_sdmx_o = true.
Proof. reflexivity. Qed.

(* what the faithful validate_dataset skeleton does to the caller's frame, for each of the 8 input classes *)
Definition tags_of (c : dfclass) : list tag :=
  (if emptystr c then [TValues] else []) ++ (if missing c then [TAddCol] else []) ++ (if bom c then [TCols] else []) ++ [TColsId].

Theorem validate_before_fix_view : forall c,
  caller_view (ncaller 1) (run_all (validate_before_fix [c]) (oinit (ncaller 1))) = [[]; []; []; []; []; tags_of c].
Proof. intros [[] [] []]; vm_compute; reflexivity. Qed.

(* ---- statements used verbatim by Props/C22.v ------------------------------------------------------------------ *)
Theorem api_unchanged : forall p nc, (forall T, safe T p = true) ->
  forall k, caller_view nc (run_prefix k p (oinit nc)) = repeat [] nc.
Proof. intros p nc H k. apply frame_view. apply H. Qed.

(* refutations on the faithful skeleton of validate_dataset (closed witnesses) *)
Definition plain : dfclass := mkDf false false false.

Theorem validate_before_fix_refuted :
  (* a frame with a BOM-prefixed label, a missing nullable column and "" in a numeric column: labels, columns, values *)
  caller_view (ncaller 1) (run_all (validate_before_fix [mkDf true true true]) (oinit (ncaller 1)))
    = [[]; []; []; []; []; [TValues; TAddCol; TCols; TColsId]] /\
  safe (taint0 (ncaller 1)) (validate_before_fix [plain]) = false.
Proof. vm_compute. split; reflexivity. Qed.

(* ... and the modification stays when the call FAILS later: first frame BOM-prefixed, second frame raises at its
   duplicate-identifier check (position 5 + 12 + 11) *)
Theorem validate_before_fix_mutates_on_failure_refuted :
  caller_view (ncaller 2) (run_prefix (5 + block_len + 11) (validate_before_fix [mkDf true false false; plain]) (oinit (ncaller 2)))
    = [[]; []; []; []; []; [TCols; TColsId]; [TColsId]].
Proof. vm_compute. reflexivity. Qed.

(* run() with URL datapoints writes into / deletes from the caller's datapoints dict *)
Theorem run_url_refuted :
  caller_view (ncaller 0) (run_all (run_impl_o true []) (oinit (ncaller 0))) = [[]; [TDictKeys]; []; []; []] /\
  safe (taint0 (ncaller 0)) (run_impl_o true []) = false.
Proof. vm_compute. split; reflexivity. Qed.

Theorem run_skeleton_frame : forall cs k,
  caller_view (ncaller (length cs)) (run_prefix k (run_impl_o false cs) (oinit (ncaller (length cs)))) = repeat [] (ncaller (length cs)).
Proof. intros cs k. apply api_unchanged. intros T. apply run_o_safe. Qed.

Theorem run_sdmx_skeleton_frame : forall cs k,
  caller_view (ncaller (length cs)) (run_prefix k (run_sdmx_o cs) (oinit (ncaller (length cs)))) = repeat [] (ncaller (length cs)).
Proof. intros cs k. apply api_unchanged. intros T. apply run_sdmx_o_safe. Qed.

Theorem semantic_skeleton_frame : forall nc k, caller_view nc (run_prefix k semantic_o (oinit nc)) = repeat [] nc.
Proof. intros nc k. apply api_unchanged. exact semantic_o_safe. Qed.

Theorem prettify_skeleton_frame : forall nc k, caller_view nc (run_prefix k prettify_o (oinit nc)) = repeat [] nc.
Proof. intros nc k. apply api_unchanged. exact prettify_o_safe. Qed.

Theorem generate_sdmx_skeleton_frame : forall nc k, caller_view nc (run_prefix k generate_sdmx_o (oinit nc)) = repeat [] nc.
Proof. intros nc k. apply api_unchanged. exact generate_sdmx_o_safe. Qed.

Theorem validate_impl_frame : forall cs k,
  caller_view (ncaller (length cs)) (run_prefix k (validate_impl cs) (oinit (ncaller (length cs)))) = repeat [] (ncaller (length cs)).
Proof. intros cs k. apply api_unchanged. intros T. apply validate_impl_safe. Qed.

Lemma validate_vd_o_safe : forall T, safe T validate_vd_o = true.
Proof. reflexivity. Qed.
Lemma validate_er_o_safe : forall T, safe T validate_er_o = true.
Proof. reflexivity. Qed.
Lemma create_ast_o_safe : forall T, safe T create_ast_o = true.
Proof. reflexivity. Qed.

Theorem validate_vd_skeleton_frame : forall nc k, caller_view nc (run_prefix k validate_vd_o (oinit nc)) = repeat [] nc.
Proof. intros nc k. apply api_unchanged. exact validate_vd_o_safe. Qed.
Theorem validate_er_skeleton_frame : forall nc k, caller_view nc (run_prefix k validate_er_o (oinit nc)) = repeat [] nc.
Proof. intros nc k. apply api_unchanged. exact validate_er_o_safe. Qed.
Theorem create_ast_skeleton_frame : forall nc k, caller_view nc (run_prefix k create_ast_o (oinit nc)) = repeat [] nc.
Proof. intros nc k. apply api_unchanged. exact create_ast_o_safe. Qed.
