(* Lemmas about Model/Cast.v: integer text round trip (all Z), error kinds, totality, round trips. *)
From Coq Require Import ZArith QArith Qreduction String Ascii List Bool Lia DecimalString DecimalZ DecimalPos.
Import ListNotations.
From VTL Require Import Base.Val Base.Calendar Model.Types Model.Period Model.Cast Proofs.PromoteP.
Open Scope Z_scope.

(* ------------------------------------------------------------------------------------------------ characters of a printed integer *)
Fixpoint allc (P : ascii -> bool) (s : string) : bool :=
  match s with EmptyString => true | String c t => P c && allc P t end.

Definition plainc (c : ascii) : bool := negb (sp c) && negb (Ascii.eqb c "+").

Lemma uint_chars d : allc plainc (NilEmpty.string_of_uint d) = true.
Proof. induction d; simpl; auto. Qed.

Lemma nz_uint_chars d : allc plainc (NilZero.string_of_uint d) = true.
Proof. destruct d; try apply (uint_chars (_ _)); reflexivity. Qed.

Lemma int_chars i : allc plainc (NilZero.string_of_int i) = true.
Proof. destruct i; simpl; [apply nz_uint_chars | rewrite nz_uint_chars; reflexivity]. Qed.

Lemma nz_uint_nonempty d : NilZero.string_of_uint d <> EmptyString.
Proof. destruct d; simpl; discriminate. Qed.

Lemma int_nonempty i : NilZero.string_of_int i <> EmptyString.
Proof. destruct i; simpl; [apply nz_uint_nonempty | discriminate]. Qed.

Lemma ltrim_plain s : allc plainc s = true -> ltrim s = s.
Proof.
  destruct s as [|c t]; simpl; auto. intros H. apply andb_prop in H as [H _].
  unfold plainc in H. apply andb_prop in H as [H _]. destruct (sp c); [discriminate | reflexivity].
Qed.

Lemma rtrim_plain s : allc plainc s = true -> rtrim s = s.
Proof.
  induction s as [|c t IH]; simpl; auto. intros H. apply andb_prop in H as [Hc Ht].
  rewrite (IH Ht). unfold plainc in Hc. apply andb_prop in Hc as [Hc _].
  destruct t; [destruct (sp c); [discriminate | reflexivity] | reflexivity].
Qed.

Lemma trim_plain s : allc plainc s = true -> trim s = s.
Proof. intros H. unfold trim. rewrite (ltrim_plain s H). apply rtrim_plain, H. Qed.

Lemma to_int_not_nil z : Z.to_int z <> Decimal.Pos Decimal.Nil /\ Z.to_int z <> Decimal.Neg Decimal.Nil.
Proof.
  destruct z; simpl; split; try discriminate; intros H; injection H as H;
    exact (DecimalPos.Unsigned.to_uint_nonnil _ H).
Qed.

(* printing then parsing an integer is the identity, for every integer *)
Lemma parse_int_z_str z : parse_int (z_str z) = Some z.
Proof.
  unfold parse_int, z_str.
  pose proof (int_chars (Z.to_int z)) as Hc. pose proof (int_nonempty (Z.to_int z)) as Hn.
  rewrite (trim_plain _ Hc).
  destruct (NilZero.string_of_int (Z.to_int z)) as [|c r] eqn:E; [congruence|].
  simpl in Hc. apply andb_prop in Hc as [Hc _]. unfold plainc in Hc. apply andb_prop in Hc as [_ Hc].
  destruct (Ascii.eqb c "+"); [discriminate|].
  rewrite <- E. destruct (to_int_not_nil z) as [H1 H2].
  rewrite (NilZero.isi _ H1 H2). simpl. f_equal. apply DecimalZ.of_to.
Qed.

(* ------------------------------------------------------------------------------------------------ round trips *)

Lemma cast_int_str z : cast_val TInteger TString (VInt z) = Ok (VStr (z_str z)).
Proof. reflexivity. Qed.
Lemma cast_str_int s : cast_val TString TInteger (VStr s) = of_opt (option_map VInt (parse_int s)).
Proof. reflexivity. Qed.

Lemma roundtrip_int_str_int z : cast2 TInteger TString TInteger (VInt z) = Ok (VInt z).
Proof. unfold cast2. rewrite cast_int_str. unfold bind. rewrite cast_str_int, parse_int_z_str. reflexivity. Qed.

Lemma roundtrip_bool_int_bool b : cast2 TBoolean TInteger TBoolean (VBool b) = Ok (VBool b).
Proof. destruct b; reflexivity. Qed.

Lemma roundtrip_bool_num_bool b : cast2 TBoolean TNumber TBoolean (VBool b) = Ok (VBool b).
Proof. destruct b; reflexivity. Qed.

Lemma roundtrip_bool_str_bool b : cast2 TBoolean TString TBoolean (VBool b) = Ok (VBool b).
Proof. destruct b; reflexivity. Qed.

Lemma roundtrip_int_num_int z : cast2 TInteger TNumber TInteger (VInt z) = Ok (VInt z).
Proof.
  unfold cast2. change (cast_val TInteger TNumber (VInt z)) with (Ok (VNum (inject_Z z))). unfold bind.
  change (cast_val TNumber TInteger (VNum (inject_Z z))) with (Ok (VInt (Z.quot z 1))). rewrite Z.quot_1_r. reflexivity.
Qed.

Lemma roundtrip_null a b c : modelled a b = true -> modelled b c = true -> cast2 a b c VNull = Ok VNull.
Proof. intros H1 H2. unfold cast2, cast_val. rewrite H1. simpl. rewrite H2. reflexivity. Qed.

(* Integer -> Boolean -> Integer is NOT a round trip (information is lost), String -> Integer -> String neither *)
Lemma int_bool_int_not_roundtrip : exists z, cast2 TInteger TBoolean TInteger (VInt z) <> Ok (VInt z).
Proof. exists 2. vm_compute. discriminate. Qed.
Lemma str_int_str_not_roundtrip : exists s, cast2 TString TInteger TString (VStr s) <> Ok (VStr s).
Proof. exists "+5"%string. vm_compute. discriminate. Qed.

(* Number -> Integer truncates toward zero: floor for q >= 0, -floor(-q) for q <= 0 *)
Lemma num_to_int_trunc n d :
  cast_val TNumber TInteger (VNum (n # d)) = Ok (VInt (if 0 <=? n then n / Zpos d else - ((- n) / Zpos d))).
Proof.
  change (cast_val TNumber TInteger (VNum (n # d))) with (Ok (VInt (Z.quot n (Zpos d)))). do 2 f_equal.
  destruct (0 <=? n) eqn:E.
  - apply Z.quot_div_nonneg; lia.
  - rewrite <- (Z.opp_involutive n) at 1. rewrite Z.quot_opp_l by lia. f_equal. apply Z.quot_div_nonneg; lia.
Qed.

(* ------------------------------------------------------------------------------------------------ error kinds *)
Lemma cast_op_forbidden allows s d v : allows s d = false -> cast_op allows s d v = Err ERR_SEM.
Proof. intros H. unfold cast_op. rewrite H. reflexivity. Qed.

Lemma cast_op_allowed allows s d v : allows s d = true -> cast_op allows s d v = cast_val s d v.
Proof. intros H. unfold cast_op. rewrite H. reflexivity. Qed.

(* on a well-typed value of a modelled pair the only VTL failure is the runtime error *)
Lemma cast_val_error_kind s d v c :
  modelled s d = true -> has_type s v = true -> cast_val s d v = Err c ->
  c = ERR_RT \/ (s = TNumber /\ d = TString /\ c = ERR_UNMODELLED).
Proof.
  intros Hm Ht H. unfold cast_val in H. rewrite Hm in H. simpl in H.
  destruct v; try discriminate; rewrite Ht in H; simpl in H;
    destruct s, d; try discriminate; unfold of_opt, option_map in H;
    repeat match type of H with
           | context [match ?x with _ => _ end] => destruct x eqn:?; simpl in H; try discriminate
           | context [if ?x then _ else _] => destruct x eqn:?; simpl in H; try discriminate
           end;
    injection H as <-; auto.
Qed.

Lemma cast_op_semantic_iff allows s d v :
  modelled s d = true -> has_type s v = true ->
  (cast_op allows s d v = Err ERR_SEM <-> allows s d = false).
Proof.
  intros Hm Ht. split; [|apply cast_op_forbidden].
  unfold cast_op. destruct (allows s d); [|reflexivity]. intros H. exfalso.
  destruct (cast_val_error_kind s d v ERR_SEM Hm Ht H) as [E | (_ & _ & E)]; discriminate E.
Qed.

Lemma cast_total s d v : total_pair s d = true -> has_type s v = true -> exists w, cast_val s d v = Ok w.
Proof.
  intros Hp Ht. unfold total_pair in Hp.
  apply andb_prop in Hp as [Hp H3]. apply andb_prop in Hp as [Hp H2]. apply andb_prop in Hp as [Hm H1].
  unfold cast_val. rewrite Hm. simpl.
  destruct v; [eexists; reflexivity | | | |]; rewrite Ht; simpl;
    destruct s, d; try discriminate; eexists; reflexivity.
Qed.

Lemma total_or_parsing s d :
  modelled s d = true ->
  total_pair s d = true \/ (s = TString /\ In d [TInteger; TNumber; TDate; TDuration]) \/ (s = TNumber /\ d = TString) \/
  (s = TTime /\ d = TPeriod).
Proof.
  intros Hm. destruct s, d; try discriminate Hm;
    try (left; reflexivity); try (right; left; split; [reflexivity | simpl; tauto]);
    try (right; right; left; split; reflexivity); right; right; right; split; reflexivity.
Qed.

(* ------------------------------------------------------------------------------------------------ Time -> Time_Period *)
(* soundness, unbounded: the period returned spans exactly the interval *)
Lemma interval_period_sound a b p : interval_period a b = Some p -> start_date p = a /\ end_date p = b.
Proof.
  unfold interval_period. intros H. apply find_some in H as [_ H]. unfold fits in H.
  apply andb_prop in H as [H1 H2]. split; apply Z.eqb_eq; assumption.
Qed.

(* completeness on a stated range of years: every valid period is recovered from its own first and last day *)
Definition periods_of_year (y : Z) : list period :=
  flat_map (fun i => map (fun n => mkP y i n) (zrange 1 (periods_in_year i y))) all_ind.
Definition recovered (p : period) : bool :=
  match interval_period (start_date p) (end_date p) with Some q => period_eqb p q | None => false end.
Lemma interval_period_complete_1900_2100 :
  forallb (fun y => forallb recovered (periods_of_year y)) (zrange 1900 201) = true.
Proof. vm_compute. reflexivity. Qed.

Lemma num_to_str_total q s : q_str q = Some s -> cast_val TNumber TString (VNum q) = Ok (VStr s).
Proof. intros H. unfold cast_val. simpl. rewrite H. reflexivity. Qed.

Definition oostr_eqb (a b : option (option string)) : bool :=
  match a, b with
  | Some x, Some y => ostr_eqb x y
  | None, None => true
  | _, _ => false
  end.
Lemma ostr_eqb_eq a b : ostr_eqb a b = true -> a = b.
Proof. destruct a, b; simpl; try discriminate; try reflexivity. intros H. apply String.eqb_eq in H. congruence. Qed.
Lemma oostr_eqb_eq a b : oostr_eqb a b = true -> a = b.
Proof. destruct a, b; simpl; try discriminate; try reflexivity. intros H. apply ostr_eqb_eq in H. congruence. Qed.
