(* Lemmas about Model/Aggr.v: the aggregate of a list of values does not depend on the order of the values and ignores
   nulls; grouping yields pairwise distinct keys covering exactly the projected keys of the input; the aggregation
   skeleton returns one datapoint per group that passes the having condition, carrying the aggregates of that group. *)
From Coq Require Import ZArith QArith Qreduction Lqa Lia String Ascii List Bool Permutation Sorted.
Import ListNotations.
From VTL Require Import Base.Val Model.Table Model.Scalar Model.Expr Model.Aggr Proofs.TableP Proofs.MonadP.

(* ================================================================ 1. rationals, sums, sorting *)
Local Open Scope Q_scope.
Definition qcanon (q : Q) : Prop := exists p, q = Qred p.

Lemma qcanon_eq a b : qcanon a -> qcanon b -> a == b -> a = b.
Proof.
  intros [p ->] [p' ->] H. apply Qred_complete. rewrite !Qred_correct in H. exact H.
Qed.

Lemma qn_eq a b : a == b -> qn a = qn b.
Proof. intros H. unfold qn. f_equal. apply Qred_complete. exact H. Qed.

Lemma qadd_correct a b : qadd a b == a + b.
Proof. unfold qadd. apply Qred_correct. Qed.

Lemma qsum_perm l l' : Permutation l l' -> qsum l == qsum l'.
Proof.
  intros P. induction P as [|x l l' P IH|x y l|l1 l2 l3 P1 IH1 P2 IH2]; simpl.
  - reflexivity.
  - rewrite !qadd_correct, IH. reflexivity.
  - rewrite !qadd_correct. ring.
  - rewrite IH1. exact IH2.
Qed.

Lemma zsum_perm l l' : Permutation l l' -> zsum l = zsum l'.
Proof.
  intros P. induction P; simpl; try lia.
Qed.

Lemma qlen_perm l l' : Permutation l l' -> qlen l = qlen l'.
Proof. intros P. unfold qlen. rewrite (Permutation_length P). reflexivity. Qed.

Lemma qmean_perm l l' : Permutation l l' -> qmean l = qmean l'.
Proof.
  intros P. unfold qmean. apply Qred_complete. rewrite (qsum_perm _ _ P), (qlen_perm _ _ P). reflexivity.
Qed.

Lemma qdev2_perm l l' : Permutation l l' -> qdev2 l == qdev2 l'.
Proof.
  intros P. unfold qdev2. rewrite (qmean_perm _ _ P). apply qsum_perm. apply Permutation_map. exact P.
Qed.

(* ---- insertion sort *)
Lemma qinsert_perm x l : Permutation (qinsert x l) (x :: l).
Proof.
  induction l as [|h t IH]; simpl; [reflexivity|].
  destruct (Qle_bool x h); [reflexivity|].
  eapply perm_trans; [apply perm_skip; exact IH | apply perm_swap].
Qed.

Lemma qsort_perm l : Permutation (qsort l) l.
Proof.
  induction l as [|h t IH]; simpl; [constructor|].
  eapply perm_trans; [apply qinsert_perm | apply perm_skip; exact IH].
Qed.

Lemma qinsert_sorted x l : StronglySorted Qle l -> StronglySorted Qle (qinsert x l).
Proof.
  induction l as [|h t IH]; intros S; simpl.
  - constructor; constructor.
  - apply StronglySorted_inv in S. destruct S as [St Hh].
    destruct (Qle_bool x h) eqn:E.
    + apply Qle_bool_iff in E. constructor; [constructor; assumption|].
      constructor; [exact E|]. rewrite Forall_forall in *. intros y Hy. eapply Qle_trans; [exact E | apply Hh; exact Hy].
    + assert (Hlt : h <= x).
      { destruct (Qlt_le_dec h x) as [L|L]; [apply Qlt_le_weak; exact L|]. apply Qle_bool_iff in L. congruence. }
      constructor; [apply IH; exact St|].
      rewrite Forall_forall in *. intros y Hy.
      apply (Permutation_in _ (qinsert_perm x t)) in Hy. destruct Hy as [<-|Hy]; [exact Hlt | apply Hh; exact Hy].
Qed.

Lemma qsort_sorted l : StronglySorted Qle (qsort l).
Proof. induction l; simpl; [constructor | apply qinsert_sorted; assumption]. Qed.

(* a sorted list of canonical rationals is determined by its elements *)
Lemma sorted_perm_eq a : forall b,
  StronglySorted Qle a -> StronglySorted Qle b -> Permutation a b -> Forall qcanon a -> a = b.
Proof.
  induction a as [|x a IH]; intros b Sa Sb P Ca.
  - apply Permutation_nil in P. subst. reflexivity.
  - destruct b as [|y b]; [apply Permutation_sym, Permutation_nil in P; discriminate|].
    apply StronglySorted_inv in Sa. destruct Sa as [Sa Hx].
    apply StronglySorted_inv in Sb. destruct Sb as [Sb Hy].
    assert (Cb : Forall qcanon (y :: b)).
    { rewrite Forall_forall in *. intros z Hz. apply Ca. eapply Permutation_in; [apply Permutation_sym; exact P | exact Hz]. }
    assert (Lyx : y <= x).
    { assert (In x (y :: b)) as [->|Hin] by (eapply Permutation_in; [exact P | left; reflexivity]).
      - apply Qle_refl. - rewrite Forall_forall in Hy. apply Hy; exact Hin. }
    assert (Lxy : x <= y).
    { assert (In y (x :: a)) as [->|Hin] by (eapply Permutation_in; [apply Permutation_sym; exact P | left; reflexivity]).
      - apply Qle_refl. - rewrite Forall_forall in Hx. apply Hx; exact Hin. }
    assert (x = y).
    { apply qcanon_eq; [inversion Ca; assumption | inversion Cb; assumption | apply Qle_antisym; assumption]. }
    subst y. f_equal. apply IH; auto.
    + eapply Permutation_cons_inv; exact P.
    + inversion Ca; assumption.
Qed.

Lemma qsort_unique l l' : Permutation l l' -> Forall qcanon l -> qsort l = qsort l'.
Proof.
  intros P C. apply sorted_perm_eq; try apply qsort_sorted.
  - eapply perm_trans; [apply qsort_perm|]. eapply perm_trans; [exact P | apply Permutation_sym, qsort_perm].
  - rewrite Forall_forall in *. intros x Hx. apply C. eapply Permutation_in; [apply qsort_perm | exact Hx].
Qed.

Lemma qmedian_perm l l' : Permutation l l' -> Forall qcanon l -> qmedian l = qmedian l'.
Proof. intros P C. unfold qmedian. rewrite (qsort_unique _ _ P C). reflexivity. Qed.

(* ================================================================ 2. numeric views of value lists *)
Lemma as_nums_canon l : forall qs, as_nums l = Some qs -> Forall qcanon qs.
Proof.
  induction l as [|v t IH]; simpl; intros qs H.
  - injection H as <-. constructor.
  - destruct (to_q v) as [q|]; [|discriminate]. destruct (as_nums t) as [qs0|]; [|discriminate].
    injection H as <-. constructor; [exists q; reflexivity | apply IH; reflexivity].
Qed.

Lemma as_nums_perm l l' : Permutation l l' ->
  forall qs, as_nums l = Some qs -> exists qs', as_nums l' = Some qs' /\ Permutation qs qs'.
Proof.
  intros P. induction P as [|x l l' P IH|x y l|l1 l2 l3 P1 IH1 P2 IH2]; intros qs H.
  - exists qs. split; [exact H | injection H as <-; constructor].
  - simpl in *. destruct (to_q x) as [q|]; [|discriminate]. destruct (as_nums l) as [qs0|]; [|discriminate].
    injection H as <-. destruct (IH _ eq_refl) as [qs' [H1 H2]]. rewrite H1. exists (Qred q :: qs'). split; [reflexivity | constructor; exact H2].
  - simpl in *. destruct (to_q y) as [qy|]; [|discriminate]. destruct (to_q x) as [qx|]; [|discriminate].
    destruct (as_nums l) as [qs0|]; [|discriminate]. injection H as <-.
    exists (Qred qx :: Qred qy :: qs0). split; [reflexivity | apply perm_swap].
  - destruct (IH1 _ H) as [q2 [H2 P2']]. destruct (IH2 _ H2) as [q3 [H3 P3']]. exists q3. split; [exact H3 | eapply perm_trans; eauto].
Qed.

Lemma as_nums_perm_none l l' : Permutation l l' -> as_nums l = None -> as_nums l' = None.
Proof.
  intros P H. destruct (as_nums l') as [qs'|] eqn:E; [|reflexivity].
  destruct (as_nums_perm _ _ (Permutation_sym P) _ E) as [qs [H1 _]]. congruence.
Qed.

Lemma as_ints_perm l l' : Permutation l l' ->
  forall zs, as_ints l = Some zs -> exists zs', as_ints l' = Some zs' /\ Permutation zs zs'.
Proof.
  intros P. induction P as [|x l l' P IH|x y l|l1 l2 l3 P1 IH1 P2 IH2]; intros zs H.
  - exists zs. split; [exact H | injection H as <-; constructor].
  - simpl in *. destruct x; try discriminate. destruct (as_ints l) as [zs0|]; [|discriminate].
    injection H as <-. destruct (IH _ eq_refl) as [zs' [H1 H2]]. rewrite H1. exists (z :: zs'). split; [reflexivity | constructor; exact H2].
  - simpl in *. destruct y; try discriminate. destruct x; try discriminate.
    destruct (as_ints l) as [zs0|]; [|discriminate]. injection H as <-.
    exists (z0 :: z :: zs0). split; [reflexivity | apply perm_swap].
  - destruct (IH1 _ H) as [q2 [H2 P2']]. destruct (IH2 _ H2) as [q3 [H3 P3']]. exists q3. split; [exact H3 | eapply perm_trans; eauto].
Qed.

Lemma as_ints_perm_none l l' : Permutation l l' -> as_ints l = None -> as_ints l' = None.
Proof.
  intros P H. destruct (as_ints l') as [zs'|] eqn:E; [|reflexivity].
  destruct (as_ints_perm _ _ (Permutation_sym P) _ E) as [zs [H1 _]]. congruence.
Qed.

Definition oq_equiv (a b : option Q) : Prop :=
  match a, b with Some x, Some y => x == y | None, None => True | _, _ => False end.

Lemma num_agg_perm f l l' :
  (forall qs qs', Permutation qs qs' -> Forall qcanon qs -> oq_equiv (f qs) (f qs')) ->
  Permutation l l' -> num_agg f l = num_agg f l'.
Proof.
  intros Hf P. unfold num_agg. destruct (as_nums l) as [qs|] eqn:E.
  - destruct (as_nums_perm _ _ P _ E) as [qs' [E' Pq]]. rewrite E'.
    specialize (Hf _ _ Pq (as_nums_canon _ _ E)).
    destruct qs as [|q qs].
    + apply Permutation_nil in Pq. subst. reflexivity.
    + destruct qs' as [|q' qs']; [apply Permutation_sym, Permutation_nil in Pq; discriminate|].
      destruct (f (q :: qs)), (f (q' :: qs')); simpl in Hf; try contradiction; [|reflexivity].
      f_equal. apply qn_eq. exact Hf.
  - rewrite (as_nums_perm_none _ _ P E). reflexivity.
Qed.

Lemma var_samp_q_perm qs qs' : Permutation qs qs' -> oq_equiv (var_samp_q qs) (var_samp_q qs').
Proof.
  intros P. pose proof (Permutation_length P) as L. pose proof (qdev2_perm _ _ P) as D. pose proof (qlen_perm _ _ P) as Q.
  unfold var_samp_q.
  destruct qs as [|a [|b t]], qs' as [|a' [|b' t']]; simpl in L; try discriminate; simpl; auto;
    rewrite D, Q; reflexivity.
Qed.

(* ================================================================ 3. min / max *)
Section Extremum.
  Variable lt : val -> val -> bool.
  Variable P : val -> Prop.
  Hypothesis lt_irrefl : forall a, P a -> lt a a = false.
  Hypothesis lt_trans : forall a b c, P a -> P b -> P c -> lt a b = true -> lt b c = true -> lt a c = true.
  Hypothesis lt_tricho : forall a b, P a -> P b -> lt a b = false -> lt b a = false -> a = b.

  Let step (acc x : val) : val := if lt x acc then x else acc.

  Lemma fold_extremum_spec t : forall h, Forall P (h :: t) ->
    In (fold_left step t h) (h :: t) /\ P (fold_left step t h) /\ forall x, In x (h :: t) -> lt x (fold_left step t h) = false.
  Proof.
    induction t as [|x t IH]; intros h F; simpl.
    - inversion F; subst. split; [left; reflexivity|]. split; [assumption|]. intros y [<-|[]]. apply lt_irrefl; assumption.
    - inversion F as [|? ? Ph F']; subst. inversion F' as [|? ? Px Ft]; subst.
      assert (Ps : P (step h x)) by (unfold step; destruct (lt x h); assumption).
      destruct (IH (step h x)) as [Hin [Pm Hlow]]; [constructor; assumption|].
      set (m := fold_left step t (step h x)) in *.
      split; [|split; [exact Pm|]].
      + destruct Hin as [Hin|Hin]; [|right; right; exact Hin].
        unfold step in Hin. destruct (lt x h); [right; left; exact Hin | left; exact Hin].
      + intros y [<-|[<-|Hy]]; [| |apply Hlow; right; exact Hy].
        * (* y = h *)
          unfold step in Hlow. destruct (lt x h) eqn:E.
          -- destruct (lt h m) eqn:E2; [|reflexivity]. exfalso.
             pose proof (lt_trans x h m Px Ph Pm E E2) as Hc.
             rewrite (Hlow x (or_introl eq_refl)) in Hc. discriminate.
          -- apply Hlow. left; reflexivity.
        * (* y = x *)
          unfold step in Hlow. destruct (lt x h) eqn:E.
          -- apply Hlow. left; reflexivity.
          -- assert (Hhm : lt h m = false) by (apply Hlow; left; reflexivity).
             destruct (lt x m) eqn:E2; [|reflexivity]. exfalso.
             destruct (lt m h) eqn:E3.
             ++ rewrite (lt_trans x m h Px Pm Ph E2 E3) in E. discriminate.
             ++ assert (Hm : h = m) by (apply lt_tricho; assumption). rewrite Hm in E. congruence.
  Qed.

  Lemma extremum_perm l l' : Forall P l -> Permutation l l' -> extremum lt l = extremum lt l'.
  Proof.
    intros F Pm.
    assert (F' : Forall P l') by (rewrite Forall_forall in *; intros x Hx; apply F; eapply Permutation_in; [apply Permutation_sym; exact Pm | exact Hx]).
    destruct l as [|h t], l' as [|h' t'].
    - reflexivity.
    - apply Permutation_nil in Pm. discriminate.
    - apply Permutation_sym, Permutation_nil in Pm. discriminate.
    - unfold extremum. fold step.
      destruct (fold_extremum_spec t h F) as [I1 [P1 L1]]. destruct (fold_extremum_spec t' h' F') as [I2 [P2 L2]].
      apply lt_tricho; auto.
      + apply L2. eapply Permutation_in; [exact Pm | exact I1].
      + apply L1. eapply Permutation_in; [apply Permutation_sym; exact Pm | exact I2].
  Qed.
End Extremum.

(* ---- the order on values of one kind *)
Lemma nat_of_ascii_inj a b : nat_of_ascii a = nat_of_ascii b -> a = b.
Proof. intros H. rewrite <- (ascii_nat_embedding a), <- (ascii_nat_embedding b), H. reflexivity. Qed.

Lemma str_ltb_irrefl a : str_ltb a a = false.
Proof. induction a as [|c a IH]; simpl; [reflexivity|]. rewrite Nat.ltb_irrefl. exact IH. Qed.

Lemma str_ltb_trans a : forall b c, str_ltb a b = true -> str_ltb b c = true -> str_ltb a c = true.
Proof.
  induction a as [|x a IH]; intros [|y b] [|z c]; simpl; try discriminate; auto.
  destruct (Nat.ltb_spec (nat_of_ascii x) (nat_of_ascii y)), (Nat.ltb_spec (nat_of_ascii y) (nat_of_ascii x)),
           (Nat.ltb_spec (nat_of_ascii y) (nat_of_ascii z)), (Nat.ltb_spec (nat_of_ascii z) (nat_of_ascii y)),
           (Nat.ltb_spec (nat_of_ascii x) (nat_of_ascii z)), (Nat.ltb_spec (nat_of_ascii z) (nat_of_ascii x));
    try discriminate; try lia; auto.
  apply IH.
Qed.

Lemma str_ltb_tricho a : forall b, str_ltb a b = false -> str_ltb b a = false -> a = b.
Proof.
  induction a as [|x a IH]; intros [|y b]; simpl; try discriminate; auto.
  destruct (Nat.ltb_spec (nat_of_ascii x) (nat_of_ascii y)), (Nat.ltb_spec (nat_of_ascii y) (nat_of_ascii x));
    try discriminate; try lia.
  intros H1 H2. f_equal; [apply nat_of_ascii_inj; lia | apply IH; assumption].
Qed.

Definition canonical (v : val) : Prop := match v with VNum q => qcanon q | VNull => False | _ => True end.
Definition kind_of (w v : val) : Prop := same_kind w v = true /\ canonical v.

Lemma canon_val_canonical v : is_null v = false -> canonical (canon_val v).
Proof. destruct v; simpl; auto; [discriminate | intros _; eexists; reflexivity]. Qed.

Lemma same_kind_canon w v : same_kind w (canon_val v) = same_kind w v.
Proof. destruct w, v; reflexivity. Qed.

Lemma qlt_bool a b : negb (Qle_bool b a) = true <-> a < b.
Proof.
  rewrite negb_true_iff. split.
  - intros H. apply Qnot_le_lt. intros L. apply Qle_bool_iff in L. congruence.
  - intros H. destruct (Qle_bool b a) eqn:E; [|reflexivity]. apply Qle_bool_iff in E. exfalso. eapply Qlt_not_le; eauto.
Qed.

Lemma val_lt_irrefl w a : kind_of w a -> val_lt a a = false.
Proof.
  intros [_ C]. destruct a; simpl in *; try contradiction; unfold val_lt; simpl.
  - destruct (negb (Qle_bool (inject_Z z) (inject_Z z))) eqn:E; [|reflexivity]. apply qlt_bool in E. exfalso. eapply Qlt_irrefl; eauto.
  - destruct (negb (Qle_bool q q)) eqn:E; [|reflexivity]. apply qlt_bool in E. exfalso. eapply Qlt_irrefl; eauto.
  - rewrite str_ltb_irrefl. reflexivity.
  - destruct b; reflexivity.
Qed.

Lemma val_lt_num a b x y : to_q a = Some x -> to_q b = Some y -> val_lt a b = negb (Qle_bool y x).
Proof.
  intros Ha Hb. unfold val_lt, cmp_lt. destruct a, b; simpl in *; try discriminate;
    injection Ha as <-; injection Hb as <-; destruct (negb _); reflexivity.
Qed.

Lemma val_lt_trans w a b c : kind_of w a -> kind_of w b -> kind_of w c -> val_lt a b = true -> val_lt b c = true -> val_lt a c = true.
Proof.
  intros [Ka _] [Kb _] [Kc _].
  destruct w as [|w0|w0|w0|w0], a as [|x|x|x|x]; simpl in Ka; try discriminate;
    destruct b as [|y|y|y|y]; simpl in Kb; try discriminate;
    destruct c as [|z|z|z|z]; simpl in Kc; try discriminate.
  - rewrite (val_lt_num (VInt x) (VInt y) _ _ eq_refl eq_refl), (val_lt_num (VInt y) (VInt z) _ _ eq_refl eq_refl),
            (val_lt_num (VInt x) (VInt z) _ _ eq_refl eq_refl), !qlt_bool. apply Qlt_trans.
  - rewrite (val_lt_num (VNum x) (VNum y) _ _ eq_refl eq_refl), (val_lt_num (VNum y) (VNum z) _ _ eq_refl eq_refl),
            (val_lt_num (VNum x) (VNum z) _ _ eq_refl eq_refl), !qlt_bool. apply Qlt_trans.
  - unfold val_lt; simpl. destruct (str_ltb x y) eqn:E1; [|discriminate]. destruct (str_ltb y z) eqn:E2; [|discriminate].
    rewrite (str_ltb_trans _ _ _ E1 E2). reflexivity.
  - unfold val_lt; simpl. destruct x, y, z; simpl; auto.
Qed.

Lemma val_lt_tricho w a b : kind_of w a -> kind_of w b -> val_lt a b = false -> val_lt b a = false -> a = b.
Proof.
  intros [Ka Ca] [Kb Cb].
  destruct w as [|w0|w0|w0|w0], a as [|x|x|x|x]; simpl in Ka; try discriminate;
    destruct b as [|y|y|y|y]; simpl in Kb; try discriminate.
  - rewrite (val_lt_num (VInt x) (VInt y) _ _ eq_refl eq_refl), (val_lt_num (VInt y) (VInt x) _ _ eq_refl eq_refl).
    rewrite !negb_false_iff, !Qle_bool_iff, <- !Zle_Qle. intros. f_equal. lia.
  - rewrite (val_lt_num (VNum x) (VNum y) _ _ eq_refl eq_refl), (val_lt_num (VNum y) (VNum x) _ _ eq_refl eq_refl).
    rewrite !negb_false_iff, !Qle_bool_iff. intros H1 H2. f_equal. apply qcanon_eq; auto. apply Qle_antisym; assumption.
  - unfold val_lt; simpl. destruct (str_ltb x y) eqn:E1; [discriminate|]. destruct (str_ltb y x) eqn:E2; [discriminate|].
    intros _ _. f_equal. apply str_ltb_tricho; assumption.
  - unfold val_lt; simpl. destruct x, y; simpl; auto; discriminate.
Qed.

Lemma extremum_lt_perm w l l' : Forall (kind_of w) l -> Permutation l l' -> extremum val_lt l = extremum val_lt l'.
Proof.
  apply extremum_perm.
  - apply val_lt_irrefl.
  - apply val_lt_trans.
  - apply val_lt_tricho.
Qed.

Lemma extremum_gt_perm w l l' : Forall (kind_of w) l -> Permutation l l' -> extremum val_gt l = extremum val_gt l'.
Proof.
  apply extremum_perm; unfold val_gt.
  - apply val_lt_irrefl.
  - intros a b c Pa Pb Pc H1 H2. eapply (val_lt_trans w c b a); eauto.
  - intros a b Pa Pb H1 H2. eapply (val_lt_tricho w); eauto.
Qed.

(* ---- homogeneity *)
Lemma same_kind_sym a b : same_kind a b = same_kind b a.
Proof. destruct a, b; reflexivity. Qed.
Lemma same_kind_trans a b c : same_kind a b = true -> same_kind b c = true -> same_kind a c = true.
Proof. destruct a, b, c; simpl; auto; discriminate. Qed.
Lemma same_kind_refl a : is_null a = false -> same_kind a a = true.
Proof. destruct a; simpl; auto. Qed.

Lemma homog_iff l : (forall v, In v l -> is_null v = false) ->
  homog l = true <-> forall a b, In a l -> In b l -> same_kind a b = true.
Proof.
  intros N. destruct l as [|h t]; simpl.
  - split; [intros _ a b [] | reflexivity].
  - rewrite forallb_forall. split.
    + intros H a b Ha Hb.
      assert (Ka : same_kind h a = true) by (destruct Ha as [<-|Ha]; [apply same_kind_refl, N; left; reflexivity | apply H; exact Ha]).
      assert (Kb : same_kind h b = true) by (destruct Hb as [<-|Hb]; [apply same_kind_refl, N; left; reflexivity | apply H; exact Hb]).
      rewrite same_kind_sym in Ka. eapply same_kind_trans; eauto.
    + intros H x Hx. apply H; [left; reflexivity | right; exact Hx].
Qed.

Lemma homog_perm l l' : (forall v, In v l -> is_null v = false) -> Permutation l l' -> homog l = homog l'.
Proof.
  intros N P.
  assert (N' : forall v, In v l' -> is_null v = false) by (intros v Hv; apply N; eapply Permutation_in; [apply Permutation_sym; exact P | exact Hv]).
  destruct (homog l) eqn:E1, (homog l') eqn:E2; auto.
  - rewrite (homog_iff l N) in E1. assert (homog l' = true); [|congruence].
    apply (homog_iff l' N'). intros a b Ha Hb. apply E1; eapply Permutation_in; try (apply Permutation_sym; exact P); assumption.
  - rewrite (homog_iff l' N') in E2. assert (homog l = true); [|congruence].
    apply (homog_iff l N). intros a b Ha Hb. apply E2; eapply Permutation_in; try exact P; assumption.
Qed.

Lemma non_null_spec l v : In v (non_null l) -> is_null v = false.
Proof. unfold non_null. rewrite filter_In, negb_true_iff. tauto. Qed.

Lemma homog_kind l : homog l = true -> (forall v, In v l -> is_null v = false) ->
  exists w, Forall (kind_of w) (map canon_val l).
Proof.
  intros H N. destruct l as [|h t]; [exists VNull; constructor|].
  exists h. rewrite Forall_forall. intros v Hv. apply in_map_iff in Hv. destruct Hv as [u [<- Hu]].
  split; [|apply canon_val_canonical, N; exact Hu].
  rewrite same_kind_canon. destruct Hu as [<-|Hu]; [apply same_kind_refl, N; left; reflexivity|].
  simpl in H. rewrite forallb_forall in H. apply H; exact Hu.
Qed.

(* ================================================================ 4. agg_vals *)
Lemma non_null_perm l l' : Permutation l l' -> Permutation (non_null l) (non_null l').
Proof. apply Permutation_filter. Qed.

Lemma non_null_idem l : non_null (non_null l) = non_null l.
Proof.
  unfold non_null. induction l as [|v t IH]; simpl; [reflexivity|].
  destruct (negb (is_null v)) eqn:E; simpl; [rewrite E, IH; reflexivity | exact IH].
Qed.

(* null measure values are ignored *)
Lemma agg_vals_nulls_ignored op l : agg_vals op l = agg_vals op (non_null l).
Proof. unfold agg_vals. rewrite non_null_idem. reflexivity. Qed.

Lemma non_null_all_null l : forallb is_null l = true -> non_null l = [].
Proof.
  unfold non_null. induction l as [|v t IH]; simpl; [reflexivity|].
  rewrite andb_true_iff. intros [H1 H2]. rewrite H1. simpl. apply IH; exact H2.
Qed.

(* an empty group, or a group whose values are all null, aggregates to null (count included: NULLIF(COUNT, 0)) *)
Lemma agg_vals_all_null op l : forallb is_null l = true -> agg_vals op l = Ok VNull.
Proof. intros H. unfold agg_vals. rewrite (non_null_all_null _ H). destruct op; reflexivity. Qed.

(* the aggregate does not depend on the order of the values *)
Lemma agg_vals_perm op l l' : Permutation l l' -> agg_vals op l = agg_vals op l'.
Proof.
  intros P0. unfold agg_vals. pose proof (non_null_perm _ _ P0) as P.
  set (nn := non_null l) in *. set (nn' := non_null l') in *.
  assert (N : forall v, In v nn -> is_null v = false) by apply non_null_spec.
  destruct op.
  - (* sum *)
    destruct (as_ints nn) as [zs|] eqn:E.
    + destruct (as_ints_perm _ _ P _ E) as [zs' [E' Pz]]. rewrite E'.
      destruct zs as [|z zs].
      * apply Permutation_nil in Pz. subst. reflexivity.
      * destruct zs' as [|z' zs']; [apply Permutation_sym, Permutation_nil in Pz; discriminate|].
        rewrite (zsum_perm _ _ Pz). reflexivity.
    + rewrite (as_ints_perm_none _ _ P E). apply num_agg_perm; [|exact P].
      intros qs qs' Pq _. simpl. apply qsum_perm; exact Pq.
  - apply num_agg_perm; [|exact P]. intros qs qs' Pq _. simpl. rewrite (qmean_perm _ _ Pq). reflexivity.
  - pose proof (Permutation_length P) as L. destruct nn, nn'; simpl in L; try discriminate; [reflexivity|].
    cbn [length]. rewrite L. reflexivity.
  - rewrite <- (homog_perm _ _ N P). destruct (homog nn) eqn:H; [|reflexivity].
    destruct (homog_kind _ H N) as [w F]. f_equal. apply (extremum_lt_perm w); [exact F | apply Permutation_map; exact P].
  - rewrite <- (homog_perm _ _ N P). destruct (homog nn) eqn:H; [|reflexivity].
    destruct (homog_kind _ H N) as [w F]. f_equal. apply (extremum_gt_perm w); [exact F | apply Permutation_map; exact P].
  - apply num_agg_perm; [|exact P]. intros qs qs' Pq C. simpl. rewrite (qmedian_perm _ _ Pq C). reflexivity.
  - apply num_agg_perm; [|exact P]. intros qs qs' Pq _. simpl. rewrite (qdev2_perm _ _ Pq), (qlen_perm _ _ Pq). reflexivity.
  - apply num_agg_perm; [|exact P]. intros qs qs' Pq _. apply var_samp_q_perm; exact Pq.
  - apply num_agg_perm; [|exact P]. intros qs qs' Pq _. simpl. rewrite (qdev2_perm _ _ Pq), (qlen_perm _ _ Pq). reflexivity.
  - apply num_agg_perm; [|exact P]. intros qs qs' Pq _. apply var_samp_q_perm; exact Pq.
Qed.

Local Close Scope Q_scope.

(* ================================================================ 5. distinct keys in order of first occurrence *)
Definition has (k : list val) (l : list (list val)) : bool := existsb (key_eqb k) l.

Fixpoint kuniq (l : list (list val)) : bool :=
  match l with [] => true | k :: t => negb (has k t) && kuniq t end.

Lemma has_In k l : has k l = true <-> exists k', In k' l /\ key_eqb k k' = true.
Proof. unfold has. apply existsb_exists. Qed.

Lemma has_false k l : has k l = false <-> forall k', In k' l -> key_eqb k k' = false.
Proof.
  split.
  - intros H k' Hk. destruct (key_eqb k k') eqn:E; auto. assert (has k l = true) by (apply has_In; eauto). congruence.
  - intros H. destruct (has k l) eqn:E; auto. apply has_In in E. destruct E as [k' [H1 H2]]. rewrite (H _ H1) in H2. discriminate.
Qed.

Lemma has_filter_neq k a l :
  key_eqb k a = false -> has k (filter (fun x => negb (key_eqb a x)) l) = has k l.
Proof.
  intros Hka. induction l as [|x t IH]; simpl; [reflexivity|].
  destruct (key_eqb a x) eqn:E; simpl.
  - rewrite IH. destruct (key_eqb k x) eqn:E2; [|reflexivity].
    exfalso. rewrite key_eqb_sym in E. rewrite (key_eqb_trans _ _ _ E2 E) in Hka. discriminate.
  - rewrite IH. reflexivity.
Qed.

Lemma nub_has k l : has k (nub l) = has k l.
Proof.
  induction l as [|a t IH]; simpl; [reflexivity|].
  destruct (key_eqb k a) eqn:E; simpl; [reflexivity|].
  rewrite has_filter_neq by exact E. exact IH.
Qed.

Lemma nub_In k l : In k (nub l) -> In k l.
Proof.
  induction l as [|a t IH]; simpl; [tauto|]. intros [H|H]; [left; exact H|].
  apply filter_In in H. right. apply IH. tauto.
Qed.

Lemma kuniq_filter f l : kuniq l = true -> kuniq (filter f l) = true.
Proof.
  induction l as [|k t IH]; simpl; [reflexivity|]. rewrite andb_true_iff, negb_true_iff. intros [H1 H2].
  destruct (f k); simpl; [|apply IH; exact H2].
  rewrite IH by exact H2. rewrite andb_true_r, negb_true_iff.
  apply has_false. intros k' Hk'. apply filter_In in Hk'. rewrite has_false in H1. apply H1. tauto.
Qed.

Lemma nub_kuniq l : kuniq (nub l) = true.
Proof.
  induction l as [|k t IH]; simpl; [reflexivity|].
  rewrite kuniq_filter by exact IH. rewrite andb_true_r, negb_true_iff.
  apply has_false. intros k' Hk'. apply filter_In in Hk'. destruct Hk' as [_ H]. apply negb_true_iff in H. exact H.
Qed.

Lemma nub_NoDup l : NoDup (nub l).
Proof.
  induction l as [|k t IH]; simpl; constructor.
  - intros H. apply filter_In in H. destruct H as [_ H]. rewrite key_eqb_refl in H. discriminate.
  - apply NoDup_filter. exact IH.
Qed.

Lemma has_key_map k (rows : list (list val * list val)) : has_key k rows = has k (map fst rows).
Proof. unfold has_key, has. induction rows as [|r t IH]; simpl; [reflexivity|]. rewrite IH. reflexivity. Qed.

Lemma uniq_keys_kuniq (rows : list (list val * list val)) : uniq_keys rows = kuniq (map fst rows).
Proof. induction rows as [|r t IH]; simpl; [reflexivity|]. rewrite has_key_map, IH. reflexivity. Qed.

(* ================================================================ 6. the aggregation skeleton *)
Definition group_out (d : dset) (proj : list val * list val -> list val) (hav : option hexpr)
           (meas : list (list val * list val) -> res (list val)) (k : list val) : res (option (list val * list val)) :=
  let grp := group_rows proj k (d_rows d) in
  bind (having_ok d hav grp) (fun keep =>
    if keep then bind (meas grp) (fun ms => Ok (Some (k, ms))) else Ok None).

Lemma aggregate_unfold d g whole hav oms meas d' :
  aggregate d g whole hav oms meas = Ok d' ->
  exists l, mapM (group_out d (proj_of d g) hav meas)
                 (group_keys (proj_of d g) (d_rows d) (group_ids (d_ids d) g) whole) = Ok l /\
            d' = mkD (group_ids (d_ids d) g) oms (cat_somes l).
Proof.
  unfold aggregate. intros H. apply bind_ok in H. destruct H as [[] [_ H]].
  destruct g, hav; try discriminate;
    (apply bind_ok in H; destruct H as [res [H1 H2]]; exists res; split; [exact H1 | injection H2 as <-; reflexivity]).
Qed.

Lemma aggregate_pre d g whole hav oms meas d' :
  aggregate d g whole hav oms meas = Ok d' -> check_grouping d g = Ok tt /\ (g = GNone -> hav = None).
Proof.
  unfold aggregate. intros H. apply bind_ok in H. destruct H as [[] [Hc H]]. split; [exact Hc|].
  intros ->. destruct hav; [discriminate | reflexivity].
Qed.

Lemma aggregate_fold d g whole hav oms meas :
  check_grouping d g = Ok tt -> (g = GNone -> hav = None) ->
  aggregate d g whole hav oms meas =
  bind (mapM (group_out d (proj_of d g) hav meas) (group_keys (proj_of d g) (d_rows d) (group_ids (d_ids d) g) whole))
       (fun l => Ok (mkD (group_ids (d_ids d) g) oms (cat_somes l))).
Proof.
  intros Hc Hn. unfold aggregate. rewrite Hc. simpl. destruct g, hav; try reflexivity. discriminate (Hn eq_refl).
Qed.

Lemma group_out_some d proj hav meas k r :
  group_out d proj hav meas k = Ok (Some r) <->
  having_ok d hav (group_rows proj k (d_rows d)) = Ok true /\ exists ms, meas (group_rows proj k (d_rows d)) = Ok ms /\ r = (k, ms).
Proof.
  unfold group_out. cbv zeta. split.
  - intros H. apply bind_ok in H. destruct H as [b [Hb H]]. destruct b; [|discriminate].
    apply bind_ok in H. destruct H as [ms [Hm H]]. injection H as <-. split; [exact Hb | eauto].
  - intros [Hb [ms [Hm ->]]]. rewrite Hb. simpl. rewrite Hm. reflexivity.
Qed.

Lemma in_cat_somes {A} (x : A) l : In x (cat_somes l) <-> In (Some x) l.
Proof.
  unfold cat_somes. rewrite in_flat_map. split.
  - intros [o [Ho Hx]]. destruct o; simpl in Hx; [|contradiction]. destruct Hx as [<-|[]]. exact Ho.
  - intros H. exists (Some x). split; [exact H | left; reflexivity].
Qed.

Lemma group_rows_congr proj k k' rows : key_eqb k k' = true -> group_rows proj k rows = group_rows proj k' rows.
Proof. intros H. unfold group_rows. apply filter_ext. intros r. apply key_eqb_congr. exact H. Qed.

(* the keys of the result are a subsequence of the group keys *)
Lemma cat_somes_keys (f : list val -> res (option (list val * list val))) keys : forall l,
  (forall k o, f k = Ok (Some o) -> fst o = k) ->
  mapM f keys = Ok l -> kuniq keys = true -> kuniq (map fst (cat_somes l)) = true /\
  forall k, has k (map fst (cat_somes l)) = true -> has k keys = true.
Proof.
  induction keys as [|k0 keys IH]; intros l Hf H U.
  - simpl in H. injection H as <-. split; [reflexivity | intros k H; exact H].
  - simpl in H. apply bind_ok in H. destruct H as [o [Ho H]]. apply bind_ok in H. destruct H as [l0 [Hl H]]. injection H as <-.
    simpl in U. apply andb_true_iff in U. destruct U as [U1 U2]. apply negb_true_iff in U1.
    destruct (IH _ Hf Hl U2) as [K1 K2].
    destruct o as [o|]; simpl.
    + pose proof (Hf _ _ Ho) as E. split.
      * rewrite K1, andb_true_r, negb_true_iff. rewrite E.
        destruct (has k0 (map fst (cat_somes l0))) eqn:X; [|reflexivity]. rewrite (K2 _ X) in U1. discriminate.
      * intros k. rewrite E. unfold has in *. simpl. destruct (key_eqb k k0); simpl; [reflexivity|]. apply K2.
    + split; [exact K1|]. intros k Hk. unfold has in *. simpl. rewrite (K2 _ Hk). apply orb_true_r.
Qed.

Lemma group_keys_kuniq proj rows gids whole : kuniq (group_keys proj rows gids whole) = true.
Proof. unfold group_keys. destruct rows, gids; try apply nub_kuniq. destruct whole; reflexivity. Qed.

(* ---- the functional specification of the skeleton *)
Lemma aggregate_spec d g whole hav oms meas d' :
  aggregate d g whole hav oms meas = Ok d' ->
  d_ids d' = group_ids (d_ids d) g /\ d_ms d' = oms /\
  uniq_keys (d_rows d') = true /\
  forall k ms, In (k, ms) (d_rows d') <->
    In k (group_keys (proj_of d g) (d_rows d) (group_ids (d_ids d) g) whole) /\
    having_ok d hav (group_rows (proj_of d g) k (d_rows d)) = Ok true /\
    meas (group_rows (proj_of d g) k (d_rows d)) = Ok ms.
Proof.
  intros H. destruct (aggregate_unfold _ _ _ _ _ _ _ H) as [l [Hl ->]]. simpl.
  split; [reflexivity|]. split; [reflexivity|]. split.
  - rewrite uniq_keys_kuniq.
    eapply (cat_somes_keys _ _ l); [|exact Hl | apply group_keys_kuniq].
    intros k o Ho. apply group_out_some in Ho. destruct Ho as [_ [ms [_ ->]]]. reflexivity.
  - intros k ms. rewrite in_cat_somes. split.
    + intros Hin. destruct (mapM_ok_inv _ _ _ Hl _ Hin) as [k' [Hk' Hf]].
      apply group_out_some in Hf. destruct Hf as [Hb [ms' [Hm E]]]. injection E as <- <-. auto.
    + intros [Hk [Hb Hm]]. destruct (mapM_ok_all _ _ _ Hl _ Hk) as [o [Ho Hin]].
      assert (group_out d (proj_of d g) hav meas k = Ok (Some (k, ms))) by (apply group_out_some; eauto).
      congruence.
Qed.

Lemma in_group_keys proj rows gids whole k :
  (whole = false \/ rows <> [] \/ gids <> []) ->
  has k (group_keys proj rows gids whole) = true <-> exists r, In r rows /\ key_eqb k (proj r) = true.
Proof.
  intros Hw.
  assert (E : group_keys proj rows gids whole = nub (map proj rows)).
  { unfold group_keys. destruct rows, gids; try reflexivity. destruct whole; [|reflexivity].
    destruct Hw as [Hw|[Hw|Hw]]; [discriminate | contradiction Hw; reflexivity | contradiction Hw; reflexivity]. }
  rewrite E, nub_has, has_In. split.
  - intros [k' [Hin He]]. apply in_map_iff in Hin. destruct Hin as [r [<- Hr]]. eauto.
  - intros [r [Hr He]]. exists (proj r). split; [apply in_map; exact Hr | exact He].
Qed.

(* one datapoint per distinct group, and only for the groups whose having condition is TRUE *)
Lemma aggregate_one_per_group d g whole hav oms meas d' :
  aggregate d g whole hav oms meas = Ok d' ->
  (whole = false \/ d_rows d <> [] \/ group_ids (d_ids d) g <> []) ->
  uniq_keys (d_rows d') = true /\
  forall k, has_key k (d_rows d') = true <->
    (exists r, In r (d_rows d) /\ key_eqb k (proj_of d g r) = true) /\
    having_ok d hav (group_rows (proj_of d g) k (d_rows d)) = Ok true.
Proof.
  intros H Hw. pose proof (aggregate_spec _ _ _ _ _ _ _ H) as [_ [_ [U S]]]. split; [exact U|].
  destruct (aggregate_unfold _ _ _ _ _ _ _ H) as [l [Hl _]].
  intros k. split.
  - intros Hk. apply has_key_In in Hk. destruct Hk as [[k' ms] [Hin He]]. simpl in He.
    apply S in Hin. destruct Hin as [Hk' [Hb Hm]]. split.
    + apply (in_group_keys _ _ _ _ k Hw). apply has_In. eauto.
    + rewrite (group_rows_congr _ _ _ _ He). exact Hb.
  - intros [Hr Hb]. apply (in_group_keys _ _ _ _ k Hw) in Hr. apply has_In in Hr. destruct Hr as [k' [Hk' He]].
    rewrite (group_rows_congr _ _ _ _ He) in Hb.
    destruct (mapM_ok_all _ _ _ Hl _ Hk') as [o [Ho _]].
    unfold group_out in Ho. cbv zeta in Ho. rewrite Hb in Ho. simpl in Ho.
    destruct (meas (group_rows (proj_of d g) k' (d_rows d))) as [ms|c] eqn:Em; [|discriminate].
    apply has_key_In. exists (k', ms). split; [|exact He]. apply S. auto.
Qed.

(* a group whose having condition is not TRUE (false, null) has no datapoint in the result *)
Lemma aggregate_having_drops d g whole hav oms meas d' k v h :
  aggregate d g whole hav oms meas = Ok d' -> hav = Some h ->
  heval d (group_rows (proj_of d g) k (d_rows d)) h = Ok v -> v <> VBool true ->
  has_key k (d_rows d') = false.
Proof.
  intros H -> Hv Hn. pose proof (aggregate_spec _ _ _ _ _ _ _ H) as [_ [_ [_ S]]].
  apply has_key_false. intros [k' ms] Hin. simpl. destruct (key_eqb k k') eqn:E; [|reflexivity]. exfalso.
  apply S in Hin. destruct Hin as [_ [Hb _]]. rewrite <- (group_rows_congr _ _ _ _ E) in Hb.
  unfold having_ok in Hb. rewrite Hv in Hb. simpl in Hb. injection Hb as Hb.
  destruct v as [| | | |[|]]; simpl in Hb; try discriminate. apply Hn. reflexivity.
Qed.

(* ================================================================ 7. order independence *)
Definition keys_leibniz (proj : list val * list val -> list val) (rows : list (list val * list val)) : Prop :=
  forall r1 r2, In r1 rows -> In r2 rows -> key_eqb (proj r1) (proj r2) = true -> proj r1 = proj r2.

(* identifier values other than non-reduced rationals make key_eqb coincide with equality *)
Definition vcanon (v : val) : Prop := match v with VNum q => qcanon q | _ => True end.

Lemma val_eqb_eq_canon a b : vcanon a -> vcanon b -> val_eqb a b = true -> a = b.
Proof.
  destruct a, b; simpl; try discriminate; auto.
  - intros _ _ H. apply Z.eqb_eq in H. congruence.
  - intros Ca Cb H. f_equal. apply qcanon_eq; auto. apply Qeq_bool_iff. exact H.
  - intros _ _ H. apply String.eqb_eq in H. congruence.
  - intros _ _ H. apply Bool.eqb_prop in H. congruence.
Qed.

Lemma key_eqb_eq_canon a : forall b, Forall vcanon a -> Forall vcanon b -> key_eqb a b = true -> a = b.
Proof.
  induction a as [|x a IH]; intros [|y b] Ca Cb; simpl; try discriminate; auto.
  rewrite andb_true_iff. intros [H1 H2]. inversion Ca; inversion Cb; subst.
  f_equal; [apply val_eqb_eq_canon; assumption | apply IH; assumption].
Qed.

Lemma select_by_incl names f vals v : In v (select_by names f vals) -> In v vals.
Proof.
  unfold select_by. rewrite in_map_iff. intros [[n x] [<- H]]. apply filter_In in H. destruct H as [H _].
  eapply in_combine_r; exact H.
Qed.

Lemma keys_leibniz_canon d g rows :
  (forall r, In r rows -> Forall vcanon (fst r)) -> keys_leibniz (proj_of d g) rows.
Proof.
  intros C r1 r2 H1 H2 E. apply key_eqb_eq_canon; [| |exact E]; unfold proj_of;
    rewrite Forall_forall; intros v Hv; apply select_by_incl in Hv.
  - specialize (C _ H1). rewrite Forall_forall in C. auto.
  - specialize (C _ H2). rewrite Forall_forall in C. auto.
Qed.

Lemma nub_perm_leibniz l l' :
  (forall a b, In a l -> In b l -> key_eqb a b = true -> a = b) -> Permutation l l' -> Permutation (nub l) (nub l').
Proof.
  intros L P.
  assert (I : forall l0, (forall a b, In a l0 -> In b l0 -> key_eqb a b = true -> a = b) -> forall k, In k l0 -> In k (nub l0)).
  { intros l0 L0 k Hk. assert (Hh : has k (nub l0) = true) by (rewrite nub_has; apply has_In; exists k; split; [exact Hk | apply key_eqb_refl]).
    apply has_In in Hh. destruct Hh as [k' [Hk' He]]. rewrite (L0 k k' Hk (nub_In _ _ Hk') He). exact Hk'. }
  apply NoDup_Permutation; try apply nub_NoDup.
  intros k. split; intros Hk.
  - apply I.
    + intros a b Ha Hb. apply L; eapply Permutation_in; try (apply Permutation_sym; exact P); assumption.
    + eapply Permutation_in; [exact P | apply nub_In; exact Hk].
  - apply I; [exact L|]. eapply Permutation_in; [apply Permutation_sym; exact P | apply nub_In; exact Hk].
Qed.

Lemma filter_length_perm {A} (f : A -> bool) l l' : Permutation l l' -> length (filter f l) = length (filter f l').
Proof. intros P. apply Permutation_length. apply Permutation_filter. exact P. Qed.

Lemma comp_vals_perm d rows2 c g1 g2 l1 :
  Permutation g1 g2 -> comp_vals d c g1 = Ok l1 ->
  exists l2, comp_vals (mkD (d_ids d) (d_ms d) rows2) c g2 = Ok l2 /\ Permutation l1 l2.
Proof. intros P H. unfold comp_vals in *. eapply mapM_perm; eauto. Qed.

Lemma heval_perm d rows2 g1 g2 h : Permutation g1 g2 -> forall v,
  heval d g1 h = Ok v -> heval (mkD (d_ids d) (d_ms d) rows2) g2 h = Ok v.
Proof.
  intros P. induction h as [op c| |v0|op a IHa b IHb|op a IHa]; intros v H; simpl in *.
  - destruct (is_stddev op); [discriminate|]. apply bind_ok in H. destruct H as [l1 [H1 H2]].
    destruct (comp_vals_perm d rows2 c _ _ _ P H1) as [l2 [H3 P2]]. rewrite H3. simpl.
    rewrite <- (agg_vals_perm _ _ _ P2). exact H2.
  - rewrite <- H. f_equal. unfold count_any. simpl. destruct (d_ms d).
    + rewrite (Permutation_length P). reflexivity.
    + rewrite (filter_length_perm _ _ _ P). reflexivity.
  - exact H.
  - apply bind_ok in H. destruct H as [x [Hx H]]. apply bind_ok in H. destruct H as [y [Hy H]].
    rewrite (IHa _ Hx). simpl. rewrite (IHb _ Hy). simpl. exact H.
  - apply bind_ok in H. destruct H as [x [Hx H]]. rewrite (IHa _ Hx). simpl. exact H.
Qed.

Lemma having_ok_perm d rows2 hav g1 g2 b : Permutation g1 g2 ->
  having_ok d hav g1 = Ok b -> having_ok (mkD (d_ids d) (d_ms d) rows2) hav g2 = Ok b.
Proof.
  intros P. destruct hav as [h|]; simpl; [|auto]. intros H. apply bind_ok in H. destruct H as [v [Hv H]].
  rewrite (heval_perm d rows2 _ _ h P _ Hv). exact H.
Qed.

Lemma group_keys_perm proj rows rows2 gids whole :
  keys_leibniz proj rows -> Permutation rows rows2 ->
  Permutation (group_keys proj rows gids whole) (group_keys proj rows2 gids whole).
Proof.
  intros L P. unfold group_keys.
  assert (N : Permutation (nub (map proj rows)) (nub (map proj rows2))).
  { apply nub_perm_leibniz; [|apply Permutation_map; exact P].
    intros a b Ha Hb. apply in_map_iff in Ha. apply in_map_iff in Hb.
    destruct Ha as [r1 [<- H1]], Hb as [r2 [<- H2]]. apply L; assumption. }
  destruct rows as [|r t].
  - apply Permutation_nil in P. subst. reflexivity.
  - destruct rows2 as [|r2 t2]; [apply Permutation_sym, Permutation_nil in P; discriminate|].
    destruct gids; exact N.
Qed.

Lemma aggregate_perm d rows2 g whole hav oms meas meas2 r :
  Permutation (d_rows d) rows2 ->
  keys_leibniz (proj_of d g) (d_rows d) ->
  (forall g1 g2 ms, Permutation g1 g2 -> meas g1 = Ok ms -> meas2 g2 = Ok ms) ->
  aggregate d g whole hav oms meas = Ok r ->
  exists r2, aggregate (mkD (d_ids d) (d_ms d) rows2) g whole hav oms meas2 = Ok r2 /\
             d_ids r2 = d_ids r /\ d_ms r2 = d_ms r /\ Permutation (d_rows r) (d_rows r2).
Proof.
  intros P L Hm H.
  destruct (aggregate_unfold _ _ _ _ _ _ _ H) as [l [Hl ->]].
  set (d2 := mkD (d_ids d) (d_ms d) rows2).
  assert (Hpt : forall k y, group_out d (proj_of d g) hav meas k = Ok y -> group_out d2 (proj_of d g) hav meas2 k = Ok y).
  { intros k y. unfold group_out, d2. cbv zeta. simpl d_rows. intros Hy. apply bind_ok in Hy. destruct Hy as [b [Hb Hy]].
    assert (Pg : Permutation (group_rows (proj_of d g) k (d_rows d)) (group_rows (proj_of d g) k rows2))
      by (apply Permutation_filter; exact P).
    rewrite (having_ok_perm d rows2 hav _ _ b Pg Hb). simpl. destruct b; [|exact Hy].
    apply bind_ok in Hy. destruct Hy as [ms [Hms Hy]]. rewrite (Hm _ _ _ Pg Hms). exact Hy. }
  assert (Hl2 : mapM (group_out d2 (proj_of d g) hav meas2)
                     (group_keys (proj_of d g) (d_rows d) (group_ids (d_ids d) g) whole) = Ok l).
  { apply mapM_ok_iff. apply mapM_ok_iff in Hl. clear -Hl Hpt. induction Hl; constructor; auto. }
  destruct (mapM_perm _ _ _ _ (group_keys_perm _ _ _ (group_ids (d_ids d) g) whole L P) Hl2) as [l2 [Hl3 Pl]].
  exists (mkD (group_ids (d_ids d) g) oms (cat_somes l2)).
  split; [|split; [reflexivity|split; [reflexivity|]]].
  - destruct (aggregate_pre _ _ _ _ _ _ _ H) as [Hc Hn].
    rewrite (aggregate_fold d2 g whole hav oms meas2 Hc Hn).
    change (proj_of d2 g) with (proj_of d g). change (d_ids d2) with (d_ids d). change (d_rows d2) with rows2.
    rewrite Hl3. reflexivity.
  - simpl. unfold cat_somes. apply Permutation_flat_map. exact Pl.
Qed.

(* ================================================================ 8. the two aggregation forms *)
Local Open Scope nat_scope.
Lemma mapM_nth {A B} (f : A -> res B) l ys dx dy :
  mapM f l = Ok ys -> forall j, j < length l -> f (nth j l dx) = Ok (nth j ys dy).
Proof.
  rewrite mapM_ok_iff. intros H. induction H as [|x y l ys Hxy _ IH]; intros j Hj; simpl in *; [lia|].
  destruct j; [exact Hxy | apply IH; lia].
Qed.

Lemma columns_nth n grp j : j < n -> nth j (columns n grp) (column 0 grp) = column j grp.
Proof.
  intros Hj. unfold columns. rewrite (map_nth (fun j => column j grp) (seq 0 n) 0 j). rewrite seq_nth by exact Hj. reflexivity.
Qed.

Lemma columns_length n grp : length (columns n grp) = n.
Proof. unfold columns. rewrite map_length, seq_length. reflexivity. Qed.

Definition is_minmax (op : aggop) : bool := match op with AMin | AMax => true | _ => false end.
Definition d_aggr_meas (op : aggop) (d : dset) (grp : list (list val * list val)) : res (list val) :=
  mapM (agg_vals op) (columns (length (d_ms d)) grp).
Definition d_count_meas (d : dset) (g : grouping) (grp : list (list val * list val)) : res (list val) :=
  Ok [if is_nil (group_ids (d_ids d) g) then VInt (Z.of_nat (count_all grp)) else nullif0 (count_all grp)].
Definition d_clause_meas (d : dset) (items : list (string * aitem)) (grp : list (list val * list val)) : res (list val) :=
  mapM (fun it => item_val d grp (snd it)) items.

Lemma aggop_count_dec op : {op = ACount} + {op <> ACount}.
Proof. destruct op; (left; reflexivity) || (right; discriminate). Qed.

Lemma d_aggr_noncount op d g hav : op <> ACount ->
  d_aggr op d g hav = if is_nil (d_ms d) && negb (is_minmax op) then Err "1-1-1-8"%string
                      else if is_nil (d_ms d) && is_nil (group_ids (d_ids d) g)
                           then bind (check_grouping d g) (fun _ => Err "1-1-1-8"%string)
                      else aggregate d g (is_nil (d_ids d)) hav (d_ms d) (d_aggr_meas op d).
Proof. intros H. destruct op; try reflexivity. contradiction H; reflexivity. Qed.

Lemma bind_err_never_ok {A B} (r : res A) (c : string) (b : B) : bind r (fun _ => Err c) = Ok b -> False.
Proof. destruct r; simpl; discriminate. Qed.

Lemma d_aggr_count d g hav :
  d_aggr ACount d g hav = aggregate d g (is_nil (d_ids d)) hav ["int_var"%string] (d_count_meas d g).
Proof. reflexivity. Qed.

(* the standalone form is an instance of the skeleton *)
Lemma d_aggr_skeleton op d g hav d' :
  d_aggr op d g hav = Ok d' ->
  exists oms meas, aggregate d g (is_nil (d_ids d)) hav oms meas = Ok d' /\
    ((op = ACount /\ oms = ["int_var"%string] /\ meas = d_count_meas d g) \/
     (op <> ACount /\ oms = d_ms d /\ meas = d_aggr_meas op d)).
Proof.
  intros H. destruct (aggop_count_dec op) as [->|Hn].
  - rewrite d_aggr_count in H. eauto 8.
  - rewrite (d_aggr_noncount _ _ _ _ Hn) in H. destruct (is_nil (d_ms d) && negb (is_minmax op)); [discriminate|].
    destruct (is_nil (d_ms d) && is_nil (group_ids (d_ids d) g)); [exfalso; eapply bind_err_never_ok; exact H|]. eauto 8.
Qed.

Lemma is_nil_false {A} (l : list A) : l <> [] -> is_nil l = false.
Proof. destruct l; [intros H; contradiction H; reflexivity | reflexivity]. Qed.

(* ---- one datapoint per group *)
Lemma d_aggr_one_per_group op d g hav d' :
  d_aggr op d g hav = Ok d' -> (d_ids d <> [] \/ d_rows d <> []) ->
  d_ids d' = group_ids (d_ids d) g /\ uniq_keys (d_rows d') = true /\
  forall k, has_key k (d_rows d') = true <->
    (exists r, In r (d_rows d) /\ key_eqb k (proj_of d g r) = true) /\
    having_ok d hav (group_rows (proj_of d g) k (d_rows d)) = Ok true.
Proof.
  intros H Hne. destruct (d_aggr_skeleton _ _ _ _ _ H) as [oms [meas [Ha _]]].
  split; [apply (aggregate_spec _ _ _ _ _ _ _ Ha)|].
  apply (aggregate_one_per_group _ _ _ _ _ _ _ Ha).
  destruct Hne as [Hne|Hne]; [left; apply is_nil_false; exact Hne | right; left; exact Hne].
Qed.

Lemma d_aggr_clause_one_per_group d items g hav d' :
  d_aggr_clause d items g hav = Ok d' -> (d_rows d <> [] \/ group_ids (d_ids d) g <> []) ->
  d_ids d' = group_ids (d_ids d) g /\ d_ms d' = map fst items /\ uniq_keys (d_rows d') = true /\
  forall k, has_key k (d_rows d') = true <->
    (exists r, In r (d_rows d) /\ key_eqb k (proj_of d g r) = true) /\
    having_ok d hav (group_rows (proj_of d g) k (d_rows d)) = Ok true.
Proof.
  unfold d_aggr_clause. intros H Hne.
  split; [apply (aggregate_spec _ _ _ _ _ _ _ H)|]. split; [apply (aggregate_spec _ _ _ _ _ _ _ H)|].
  apply (aggregate_one_per_group _ _ _ _ _ _ _ H). right. exact Hne.
Qed.

(* ---- the value of each measure of each result datapoint *)
Lemma d_aggr_value op d g hav d' k ms :
  d_aggr op d g hav = Ok d' -> op <> ACount -> In (k, ms) (d_rows d') ->
  d_ms d' = d_ms d /\ length ms = length (d_ms d) /\
  forall j, j < length (d_ms d) ->
    agg_vals op (column j (group_rows (proj_of d g) k (d_rows d))) = Ok (nth j ms VNull).
Proof.
  intros H Hn Hin. destruct (d_aggr_skeleton _ _ _ _ _ H) as [oms [meas [Ha [[E _]|[_ [-> ->]]]]]]; [contradiction|].
  pose proof (aggregate_spec _ _ _ _ _ _ _ Ha) as [_ [Hms [_ S]]]. apply S in Hin. destruct Hin as [_ [_ Hm]].
  unfold d_aggr_meas in Hm. split; [exact Hms|]. split.
  - rewrite (mapM_length _ _ _ Hm). apply columns_length.
  - intros j Hj. rewrite <- (columns_nth (length (d_ms d)) _ j Hj).
    apply (mapM_nth _ _ _ _ _ Hm). rewrite columns_length. exact Hj.
Qed.

Lemma d_aggr_count_value d g hav d' k ms :
  d_aggr ACount d g hav = Ok d' -> In (k, ms) (d_rows d') ->
  d_ms d' = ["int_var"%string] /\
  ms = [if is_nil (group_ids (d_ids d) g) then VInt (Z.of_nat (count_all (group_rows (proj_of d g) k (d_rows d))))
        else nullif0 (count_all (group_rows (proj_of d g) k (d_rows d)))].
Proof.
  rewrite d_aggr_count. intros Ha Hin.
  pose proof (aggregate_spec _ _ _ _ _ _ _ Ha) as [_ [Hms [_ S]]]. apply S in Hin. destruct Hin as [_ [_ Hm]].
  unfold d_count_meas in Hm. injection Hm as <-. auto.
Qed.

Lemma d_aggr_clause_value d items g hav d' k ms :
  d_aggr_clause d items g hav = Ok d' -> In (k, ms) (d_rows d') ->
  Forall2 (fun it v => item_val d (group_rows (proj_of d g) k (d_rows d)) (snd it) = Ok v) items ms.
Proof.
  unfold d_aggr_clause. intros Ha Hin.
  pose proof (aggregate_spec _ _ _ _ _ _ _ Ha) as [_ [_ [_ S]]]. apply S in Hin. destruct Hin as [_ [_ Hm]].
  apply mapM_ok_iff in Hm. exact Hm.
Qed.

(* ---- groups that fail the having condition are absent *)
Lemma d_aggr_having_drops op d g h d' k v :
  d_aggr op d g (Some h) = Ok d' ->
  heval d (group_rows (proj_of d g) k (d_rows d)) h = Ok v -> v <> VBool true -> has_key k (d_rows d') = false.
Proof.
  intros H Hv Hn. destruct (d_aggr_skeleton _ _ _ _ _ H) as [oms [meas [Ha _]]].
  eapply aggregate_having_drops; eauto.
Qed.

Lemma d_aggr_clause_having_drops d items g h d' k v :
  d_aggr_clause d items g (Some h) = Ok d' ->
  heval d (group_rows (proj_of d g) k (d_rows d)) h = Ok v -> v <> VBool true -> has_key k (d_rows d') = false.
Proof. unfold d_aggr_clause. intros H Hv Hn. eapply aggregate_having_drops; eauto. Qed.

(* ---- order independence *)
Lemma column_perm j g1 g2 : Permutation g1 g2 -> Permutation (column j g1) (column j g2).
Proof. apply Permutation_map. Qed.

Lemma d_aggr_meas_perm op d g1 g2 : Permutation g1 g2 -> d_aggr_meas op d g1 = d_aggr_meas op d g2.
Proof.
  intros P. unfold d_aggr_meas, columns. induction (seq 0 (length (d_ms d))) as [|j l IH]; simpl; [reflexivity|].
  rewrite (agg_vals_perm op _ _ (column_perm j _ _ P)), IH. reflexivity.
Qed.

Lemma count_all_perm g1 g2 : Permutation g1 g2 -> count_all g1 = count_all g2.
Proof. intros P. unfold count_all. apply filter_length_perm. exact P. Qed.

Lemma item_val_perm d rows2 g1 g2 it v : Permutation g1 g2 ->
  item_val d g1 it = Ok v -> item_val (mkD (d_ids d) (d_ms d) rows2) g2 it = Ok v.
Proof.
  intros P. destruct it as [op c|]; simpl.
  - intros H. apply bind_ok in H. destruct H as [l1 [H1 H2]].
    destruct (comp_vals_perm d rows2 c _ _ _ P H1) as [l2 [H3 P2]]. rewrite H3. simpl.
    rewrite <- (agg_vals_perm _ _ _ P2). exact H2.
  - intros H. rewrite <- H. f_equal. unfold count_any. simpl. destruct (d_ms d).
    + rewrite (Permutation_length P). reflexivity.
    + rewrite (filter_length_perm _ _ _ P). reflexivity.
Qed.

Lemma d_aggr_perm op d g hav r rows2 :
  d_aggr op d g hav = Ok r -> Permutation (d_rows d) rows2 -> keys_leibniz (proj_of d g) (d_rows d) ->
  exists r2, d_aggr op (mkD (d_ids d) (d_ms d) rows2) g hav = Ok r2 /\
             d_ids r2 = d_ids r /\ d_ms r2 = d_ms r /\ Permutation (d_rows r) (d_rows r2).
Proof.
  intros H P L. destruct (aggop_count_dec op) as [->|Hn].
  - rewrite d_aggr_count in H. rewrite d_aggr_count. cbn [d_ids].
    eapply (aggregate_perm d rows2 g _ hav _ (d_count_meas d g) (d_count_meas (mkD (d_ids d) (d_ms d) rows2) g)); eauto.
    intros g1 g2 ms Pg. unfold d_count_meas. simpl. rewrite (count_all_perm _ _ Pg). auto.
  - rewrite (d_aggr_noncount _ _ _ _ Hn) in H. rewrite (d_aggr_noncount _ _ _ _ Hn). cbn [d_ms d_ids].
    destruct (is_nil (d_ms d) && negb (is_minmax op)); [discriminate H|].
    destruct (is_nil (d_ms d) && is_nil (group_ids (d_ids d) g)); [exfalso; eapply bind_err_never_ok; exact H|].
    eapply (aggregate_perm d rows2 g _ hav _ (d_aggr_meas op d) (d_aggr_meas op (mkD (d_ids d) (d_ms d) rows2))); eauto.
    intros g1 g2 ms Pg Hm. change (d_aggr_meas op d g2 = Ok ms). rewrite <- (d_aggr_meas_perm op d _ _ Pg). exact Hm.
Qed.

Lemma d_aggr_clause_perm d items g hav r rows2 :
  d_aggr_clause d items g hav = Ok r -> Permutation (d_rows d) rows2 -> keys_leibniz (proj_of d g) (d_rows d) ->
  exists r2, d_aggr_clause (mkD (d_ids d) (d_ms d) rows2) items g hav = Ok r2 /\
             d_ids r2 = d_ids r /\ d_ms r2 = d_ms r /\ Permutation (d_rows r) (d_rows r2).
Proof.
  unfold d_aggr_clause. intros H P L.
  eapply (aggregate_perm d rows2 g true hav _ _ (fun grp => mapM (fun it => item_val (mkD (d_ids d) (d_ms d) rows2) grp (snd it)) items)); eauto.
  intros g1 g2 ms Pg Hm. apply mapM_ok_iff. apply mapM_ok_iff in Hm.
  clear -Hm Pg. induction Hm; constructor; auto. eapply item_val_perm; eauto.
Qed.

(* ---- empty operands, empty and all-null groups *)
Lemma in_nil_all {A} (l : list A) : (forall x, ~ In x l) -> l = [].
Proof. destruct l as [|x t]; [reflexivity|]. intros H. exfalso. apply (H x). left; reflexivity. Qed.

(* standalone form over an operand that has identifiers and no datapoint: no datapoint (not one datapoint of nulls) *)
Lemma d_aggr_empty op d g hav d' :
  d_aggr op d g hav = Ok d' -> d_rows d = [] -> d_ids d <> [] -> d_rows d' = [].
Proof.
  intros H Hr Hi. destruct (d_aggr_skeleton _ _ _ _ _ H) as [oms [meas [Ha _]]].
  pose proof (aggregate_spec _ _ _ _ _ _ _ Ha) as [_ [_ [_ S]]].
  apply in_nil_all. intros [k ms] Hin. apply S in Hin. destruct Hin as [Hk _].
  rewrite Hr, (is_nil_false _ Hi) in Hk. unfold group_keys in Hk. destruct (group_ids (d_ids d) g); exact Hk.
Qed.

Lemma item_val_empty d it : item_val d [] it = Ok VNull.
Proof. destruct it as [op c|]; simpl; [destruct op; reflexivity | unfold count_any; destruct (d_ms d); reflexivity]. Qed.

(* clause form with no grouping identifier left over an operand without datapoints: exactly ONE datapoint, every measure null *)
Lemma d_aggr_clause_empty d items g :
  d_rows d = [] -> check_grouping d g = Ok tt -> group_ids (d_ids d) g = [] ->
  d_aggr_clause d items g None = Ok (mkD [] (map fst items) [([], map (fun _ => VNull) items)]).
Proof.
  intros Hr Hc Hg. unfold d_aggr_clause.
  rewrite aggregate_fold; [|exact Hc|reflexivity].
  rewrite Hr, Hg. simpl. unfold group_out. simpl.
  assert (E : mapM (fun it : string * aitem => item_val d [] (snd it)) items = Ok (map (fun _ => VNull) items)).
  { induction items as [|it t IH]; simpl; [reflexivity|]. rewrite item_val_empty. simpl. rewrite IH. reflexivity. }
  rewrite Hr. unfold group_rows. simpl. rewrite E. reflexivity.
Qed.

(* dataset-level count: a group without any complete datapoint counts NULL under grouping, 0 without grouping identifiers *)
Lemma d_aggr_count_no_complete_row d g hav d' k ms :
  d_aggr ACount d g hav = Ok d' -> In (k, ms) (d_rows d') ->
  count_all (group_rows (proj_of d g) k (d_rows d)) = 0 ->
  ms = [if is_nil (group_ids (d_ids d) g) then VInt 0%Z else VNull].
Proof.
  intros H Hin Hc. destruct (d_aggr_count_value _ _ _ _ _ _ H Hin) as [_ ->]. rewrite Hc. reflexivity.
Qed.

(* the sample variance (and, squared, the sample standard deviation) of a single value is null *)
Lemma var_samp_single v q : to_q v = Some q -> agg_vals AVarSamp [v] = Ok VNull /\ agg_vals AStddevSamp [v] = Ok VNull.
Proof.
  intros H. unfold agg_vals, non_null. simpl. assert (is_null v = false) by (destruct v; simpl in *; congruence).
  rewrite H0. simpl. unfold num_agg. simpl. rewrite H. auto.
Qed.

(* ---- group_by: the groups partition the datapoints by projected key, in order of first occurrence *)
Lemma group_by_spec proj rows k grp :
  In (k, grp) (group_by proj rows) <-> In k (nub (map proj rows)) /\ grp = group_rows proj k rows.
Proof.
  unfold group_by. rewrite in_map_iff. split.
  - intros [k' [E Hk]]. injection E as <- <-. auto.
  - intros [Hk ->]. exists k. auto.
Qed.

Lemma group_by_covers proj rows r :
  In r rows -> exists k grp, In (k, grp) (group_by proj rows) /\ key_eqb k (proj r) = true /\ In r grp.
Proof.
  intros Hr. assert (H : has (proj r) (nub (map proj rows)) = true).
  { rewrite nub_has. apply has_In. exists (proj r). split; [apply in_map; exact Hr | apply key_eqb_refl]. }
  apply has_In in H. destruct H as [k [Hk He]]. rewrite key_eqb_sym in He.
  exists k, (group_rows proj k rows). split; [apply group_by_spec; auto|]. split; [exact He|].
  unfold group_rows. apply filter_In. auto.
Qed.

Lemma group_by_keys_distinct proj rows : kuniq (map fst (group_by proj rows)) = true.
Proof. unfold group_by. rewrite map_map. simpl. rewrite map_id. apply nub_kuniq. Qed.

(* min / max over an operand without measures and with no grouping identifier left is rejected (never a dataset) *)
Lemma d_aggr_minmax_no_component op d g hav :
  (op = AMin \/ op = AMax) -> d_ms d = [] -> group_ids (d_ids d) g = [] ->
  (check_grouping d g = Ok tt -> d_aggr op d g hav = Err "1-1-1-8"%string) /\ (forall d', d_aggr op d g hav <> Ok d').
Proof.
  intros Hop Hm Hg.
  assert (E : d_aggr op d g hav = bind (check_grouping d g) (fun _ => Err "1-1-1-8"%string)).
  { destruct Hop as [-> | ->]; unfold d_aggr; rewrite Hm, Hg; reflexivity. }
  split.
  - intros Hc. rewrite E, Hc. reflexivity.
  - intros d' H. rewrite E in H. eapply bind_err_never_ok; exact H.
Qed.
